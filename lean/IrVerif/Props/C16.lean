/-
C16 — property theorems (symbolic dimension expressions).

Round 1/2: `C16_partial`, `C16_eval_free`, `C16_int_ops`, `C16_int_eval`, `C16_parser_sound_complete`,
`C16_print_parse`, `C16_print_parse_text`, `C16_fast_path`, `C16_tokenize_spec`, `C16_tokenize_render`
(model: Model/SymExpr.lean).
Round 3 (deepening): the glue between Python operators and expressions (Model/SymDim.lean):
`C16_overload_sem`, `C16_overload_dispatch`, `C16_shape_evaluate`, `C16_simplify_guard`, `C16_eq_hash`;
parser / tokenizer totality with the linear fuel bound: `C16_parser_total`; the tokenizer over an
arbitrary character classification (Model/SymLexU.lean): `C16_tokenize_classes`; SymPy's surface
forms (Model/SymExprSympy.lean): `C16_print_parse_sympy_partial`.
Wave 4: the evaluation half of the SymPy-surface theorem, `sqrt` spellings and Rational exponents
included: `C16_print_parse_sympy` (supersedes `C16_print_parse_sympy_partial`); bool operands of the
overloads (`isinstance(True, int)`): `C16_overload_dispatch_bool`; symbolic negative exponents in a
denominator (`M/K**N`): `C16_print_parse_sympy_symexp`, `C16_print_parse_sympy_refines`.
Still outside every theorem (tested on every run): SymPy's construction / automatic simplification /
`subs` / `simplify` (that the object SymPy holds means what the operator tree means), CPython's
Unicode tables and operator dispatch.
-/
import IrVerif.Model.SymExpr
import IrVerif.Lemmas.SymExprArith
import IrVerif.Lemmas.SymExprSound
import IrVerif.Lemmas.SymExprPrint
import IrVerif.Lemmas.SymExprText
import IrVerif.Lemmas.SymExprInt
import IrVerif.Lemmas.SymExprLex
import IrVerif.Lemmas.SymDim
import IrVerif.Lemmas.SymLexU
import IrVerif.Lemmas.SymExprSympy
import IrVerif.Lemmas.SymExprSympyEval
import IrVerif.Lemmas.SymExprSympyRefine
namespace IrVerif.SymExpr

/-- **C16_partial**: binding some symbols first and the rest later gives the value of binding
    all of them at once (`b1` wins on overlap), for every expression and all bindings; and the
    residual's free symbols are exactly the free symbols of `e` that `b1` does not bind. -/
theorem C16_partial (b1 b2 : Env) (e : Expr) :
    eval (Env.union b1 b2) e = eval b2 (subst b1 e) ∧
    ∀ s, s ∈ free (subst b1 e) ↔ (s ∈ free e ∧ b1 s = none) := by
  induction e with
  | num n => simp [eval, subst, free]
  | sym s =>
    constructor
    · cases h : b1 s <;> simp [eval, subst, Env.union, h]
    · intro s'
      cases h : b1 s <;> simp [subst, free, h]
      · rintro rfl; exact h
      · rintro rfl; simp [h]
  | inf n => simp [eval, subst, free]
  | un o a ih => simp [eval, subst, free, ih.1, ih.2]
  | bin o a b iha ihb =>
    constructor
    · simp [eval, subst, iha.1, ihb.1]
    · intro s
      simp only [subst, free, List.mem_append, iha.2, ihb.2]
      tauto


/-- **C16_eval_free**: evaluation looks at the bindings of the free symbols only (extra or
    different bindings of other names never matter) — `evaluate` substitutes by symbol name. -/
theorem C16_eval_free (env1 env2 : Env) (e : Expr) (h : ∀ s ∈ free e, env1 s = env2 s) :
    eval env1 e = eval env2 e := by
  induction e with
  | num n => rfl
  | sym s => simp [eval, h s (by simp [free])]
  | inf b => rfl
  | un o a ih => simp [eval, ih (by simpa [free] using h)]
  | bin o a b iha ihb =>
    simp [eval, iha (fun s hs => h s (by simp [free, hs])), ihb (fun s hs => h s (by simp [free, hs]))]

/-- **C16_int_ops**: the evaluator's `//`, `%`, floor, ceiling, trunc, max, min have Python's integer
    semantics.  For integers `a`, `b` (`b ≠ 0`): `a // b` and `a % b` are floor division and its
    remainder (`Int.fdiv` / `Int.fmod`), characterised by `a = b * q + r` with the remainder taking
    the sign of the divisor; a zero divisor has no value.  For every rational `x`: `floor x ≤ x <
    floor x + 1`, `ceiling x - 1 < x ≤ ceiling x`, `trunc` is `floor` for `x ≥ 0` and `ceiling` for
    `x ≤ 0` and equals the `sign(x) * floor(Abs(x))` the code builds; all three are the identity on
    integers; `max` / `min` are the integer maximum / minimum. -/
theorem C16_int_ops (a b : Int) (x : Rat) :
    (b ≠ 0 →
      evalBin .fdiv a b = some ((Int.fdiv a b : Int) : Rat) ∧
      evalBin .mod a b = some ((Int.fmod a b : Int) : Rat) ∧
      a = b * Int.fdiv a b + Int.fmod a b ∧
      (0 < b → 0 ≤ Int.fmod a b ∧ Int.fmod a b < b) ∧
      (b < 0 → b < Int.fmod a b ∧ Int.fmod a b ≤ 0)) ∧
    (evalBin .fdiv x 0 = none ∧ evalBin .mod x 0 = none ∧ evalBin .div x 0 = none) ∧
    (∃ n : Int, evalUn .floor x = some (n : Rat) ∧ (n : Rat) ≤ x ∧ x < (n : Rat) + 1) ∧
    (∃ n : Int, evalUn .ceil x = some (n : Rat) ∧ (n : Rat) - 1 < x ∧ x ≤ (n : Rat)) ∧
    (∃ n : Int, evalUn .trunc x = some (n : Rat) ∧
      (0 ≤ x → evalUn .floor x = some (n : Rat)) ∧ (x ≤ 0 → evalUn .ceil x = some (n : Rat))) ∧
    evalUn .trunc x = some (ratSign x * (((ratAbs x).floor : Int) : Rat)) ∧
    (evalUn .floor a = some (a : Rat) ∧ evalUn .ceil a = some (a : Rat) ∧
      evalUn .trunc a = some (a : Rat)) ∧
    (evalBin .max a b = some ((max a b : Int) : Rat) ∧
      evalBin .min a b = some ((min a b : Int) : Rat)) := by
  refine ⟨?_, ?_, ?_, ?_, ?_, ?_, ?_, ?_⟩
  · intro hb
    have hbq : (b : Rat) ≠ 0 := by exact_mod_cast hb
    have hfl := floor_div_int a b hb
    have hdecomp : a = b * Int.fdiv a b + Int.fmod a b := (Int.mul_fdiv_add_fmod a b).symm
    refine ⟨?_, ?_, hdecomp, ?_, ?_⟩
    · simp [evalBin, hbq, hfl]
    · simp only [evalBin, hbq, if_false, hfl]
      congr 1
      have : (a : Rat) = (b : Rat) * ((Int.fdiv a b : Int) : Rat) + ((Int.fmod a b : Int) : Rat) := by
        exact_mod_cast hdecomp
      linarith
    · intro hpos; exact ⟨Int.fmod_nonneg_of_pos a hpos, Int.fmod_lt_of_pos a hpos⟩
    · intro hneg; exact fmod_bounds_neg a hneg
  · simp [evalBin]
  · exact ⟨x.floor, rfl, floor_le' x, lt_floor_add_one' x⟩
  · refine ⟨-((-x).floor), rfl, ?_, ?_⟩
    · have := lt_floor_add_one' (-x); push_cast; linarith
    · have := floor_le' (-x); push_cast; linarith
  · refine ⟨ratTrunc x, rfl, ?_, ?_⟩
    · intro h; simp [evalUn, ratTrunc_of_nonneg h]
    · intro h; simp [evalUn, ratTrunc_of_nonpos h]
  · simp [evalUn, sign_mul_floor_abs]
  · refine ⟨?_, ?_, ?_⟩
    · simp [evalUn]
    · have h : (-(a : Rat)).floor = -a := by
        have : (-(a : Rat)) = ((-a : Int) : Rat) := by push_cast; ring
        rw [this, floor_intCast']
      simp [evalUn, h]
    · have h : ratTrunc (a : Rat) = a := by simp [ratTrunc]
      simp [evalUn, h]
  · constructor
    · simp only [evalBin]
      by_cases h : (a : Rat) ≤ (b : Rat)
      · have h' : a ≤ b := by exact_mod_cast h
        simp [h, max_eq_right h']
      · have h' : b ≤ a := by have : (b : Rat) < a := not_le.mp h; exact le_of_lt (by exact_mod_cast this)
        simp [h, max_eq_left h']
    · simp only [evalBin]
      by_cases h : (a : Rat) ≤ (b : Rat)
      · have h' : a ≤ b := by exact_mod_cast h
        simp [h, min_eq_left h']
      · have h' : b ≤ a := by have : (b : Rat) < a := not_le.mp h; exact le_of_lt (by exact_mod_cast this)
        simp [h, min_eq_right h']


/-- **C16_int_eval**: integer semantics at the level of whole expressions.  For every expression of
    the integer fragment (dimensions and integers combined with `+ - * // %`, negation, floor, ceil,
    trunc, abs, sign, max, min — any depth, any mix) and every integer binding, the exact rational
    evaluator returns precisely what Python integer arithmetic returns (`//` = floor division
    `Int.fdiv`, `%` = `Int.fmod`, floor / ceil / trunc the identity), and has no value exactly when
    Python raises `ZeroDivisionError` or a symbol is unbound. -/
theorem C16_int_eval (env : Env) (e : Expr) (h : intFrag e = true) :
    eval env e = (evalInt env e).map (fun (z : Int) => (z : Rat)) :=
  eval_eq_evalInt env e h

/-- the fragment is not empty and contains the sign-sensitive cases: `(-7) // 2 = -4`, `-7 % 2 = 1`,
    `7 % -2 = -1` -/
example : evalInt Env.empty (.bin .fdiv (.num (-7)) (.num 2)) = some (-4) := by decide
example : evalInt Env.empty (.bin .mod (.num (-7)) (.num 2)) = some 1 := by decide
example : evalInt Env.empty (.bin .mod (.num 7) (.num (-2))) = some (-1) := by decide
example : intFrag (.bin .mod (.un .trunc (.bin .fdiv (.sym "N") (.num (-2)))) (.sym "M")) = true := by decide

/-- **C16_parser_sound_complete**: the parser decides exactly the documented grammar and gives
    every sentence its standard meaning.  For every derivation tree `d` of

        expr -> term (('+'|'-') term)*        term -> unary (('*'|'/'|'//'|'%') unary)*
        unary -> '-' unary | power            power -> primary ('**' unary)?
        primary -> NUMBER | IDENT | '(' expr ')' | f '(' args ')'     (function table with arities)

    `parseTokens (flatten d) = some (sem d)`, where `sem` is the standard reading (iterations
    associate to the left, `**` to the right and binds tighter than unary minus); and a token
    list with no derivation is rejected.  No bound on size or depth: the fuel `parseTokens`
    starts with is proved sufficient. -/
theorem C16_parser_sound_complete :
    (∀ d : D .expr, parseTokens d.flatten = some (d.sem : Expr)) ∧
    (∀ ts : List Tok, (¬ ∃ d : D .expr, d.flatten = ts) → parseTokens ts = none) ∧
    (∀ (ts : List Tok) (e : Expr), parseTokens ts = some e ↔
      ∃ d : D .expr, d.flatten = ts ∧ (d.sem : Expr) = e) := by
  refine ⟨parseTokens_complete, ?_, ?_⟩
  · intro ts hno
    cases h : parseTokens ts with
    | none => rfl
    | some e =>
      obtain ⟨d, hd, _⟩ := parseTokens_sound h
      exact absurd ⟨d, hd⟩ hno
  · intro ts e
    constructor
    · exact parseTokens_sound
    · rintro ⟨d, rfl, rfl⟩
      exact parseTokens_complete d

/-- precedence and associativity are the standard ones: concrete readings of the grammar -/
example : parseTokens [.op .minus, .ident "x", .op .dstar, .num 2]
    = some (.un .neg (.bin .pow (.sym "x") (.num 2))) := by decide
example : parseTokens [.num 2, .op .dstar, .num 3, .op .dstar, .num 2]
    = some (.bin .pow (.num 2) (.bin .pow (.num 3) (.num 2))) := by decide
example : parseTokens [.ident "a", .op .minus, .ident "b", .op .minus, .ident "c"]
    = some (.bin .sub (.bin .sub (.sym "a") (.sym "b")) (.sym "c")) := by decide
example : parseTokens [.ident "a", .op .dslash, .ident "b", .op .percent, .ident "c"]
    = some (.bin .mod (.bin .fdiv (.sym "a") (.sym "b")) (.sym "c")) := by decide
/-- non-vacuity of the rejection half: a token list without derivation exists -/
example : parseTokens [.ident "a", .ident "b"] = none := by decide
example : ¬ ∃ d : D .expr, d.flatten = [.ident "a", .ident "b"] := by
  rintro ⟨d, hd⟩
  have h := parseTokens_complete d
  rw [hd] at h
  have hn : parseTokens [.ident "a", .ident "b"] = none := by decide
  rw [hn] at h
  cases h

theorem eval_norm (env : Env) (e : Expr) : eval env (norm e) = eval env e := by
  induction e with
  | num n =>
    by_cases hn : n < 0
    · have h1 : ((n.natAbs : Nat) : Int) = -n := Int.ofNat_natAbs_of_nonpos (Int.le_of_lt hn)
      have h : (-((((n.natAbs : Nat) : Int)) : Rat)) = (n : Rat) := by
        rw [h1]; push_cast; ring
      simp only [norm, hn, if_true, eval, evalUn]
      exact congrArg some h
    · simp [norm, hn]
  | sym s => rfl
  | inf b => rfl
  | un o a ih =>
    cases o with
    | trunc =>
      simp only [norm, eval, ih]
      cases eval env a with
      | none => rfl
      | some x => simp [evalUn, evalBin, sign_mul_floor_abs]
    | _ => simp only [norm, eval, ih]
  | bin o a b iha ihb => simp only [norm, eval, iha, ihb]

/-- **C16_print_parse**: printing with minimal parentheses and parsing back preserves every
    evaluation.  `parseTokens (pp e)` succeeds for every expression, returns `norm e` (negative
    literals read back as negations, `trunc` as `sign * floor(Abs)`), and `norm e` evaluates like
    `e` under every binding (complete or partial: unbound symbols give "no value" on both sides). -/
theorem C16_print_parse (e : Expr) :
    parseTokens (pp e) = some (norm e) ∧ ∀ env : Env, eval env (norm e) = eval env e :=
  ⟨parseTokens_pp e, fun env => eval_norm env e⟩

/-- parentheses are really minimal where it matters: `-(x**2)` prints without, `(-x)**2` with -/
example : pp (.un .neg (.bin .pow (.sym "x") (.num 2))) = [.op .minus, .ident "x", .op .dstar, .num 2] := by
  decide
example : pp (.bin .pow (.un .neg (.sym "x")) (.num 2))
    = [.lparen, .op .minus, .ident "x", .rparen, .op .dstar, .num 2] := by decide


/-- **C16_print_parse_text**: the same at the level of text, through the tokenizer and
    `parse_symbolic_expression` itself: for every expression whose symbol names are identifier
    texts (a letter or `_`, then letters, digits, `_`, `.`), the printed text (tokens separated by
    single spaces) parses back to `norm e`, which evaluates like `e` under every binding. -/
theorem C16_print_parse_text (e : Expr) (h : ∀ s ∈ free e, IdentStr s) :
    parseChars (render (pp e)) = some (norm e) ∧ ∀ env : Env, eval env (norm e) = eval env e :=
  ⟨parseChars_render_pp e h, fun env => eval_norm env e⟩

/-- the hypothesis is satisfiable by the names the code base uses (dots included) -/
example : IdentStr "a.b_1" := ⟨'a', ['.', 'b', '_', '1'], by decide, by decide, by decide⟩
example : parseChars (render (pp (.un .neg (.bin .pow (.sym "N") (.num 2)))))
    = some (.un .neg (.bin .pow (.sym "N") (.num 2))) :=
  (C16_print_parse_text _ (by
    intro s hs
    simp [free] at hs
    subst hs
    exact ⟨'N', [], by decide, by decide, by decide⟩)).1

/-- **C16_fast_path**: the `isidentifier` shortcut of `parse_symbolic_expression` never changes the
    result: on every text it returns what tokenizing and parsing would return. -/
theorem C16_fast_path (cs : List Char) : parseChars cs = (tokenize cs).bind parseTokens :=
  parseChars_eq cs

/-- **C16_tokenize_spec**: the tokenizer is exactly the longest-match lexer `Lex` (an inductive
    specification that does not mention the implementation: blanks are dropped, a number / an
    identifier is a MAXIMAL run of its character class, `//` and `**` win over `/` and `*`, every other
    token is one character, nothing else is a token) — for every ASCII text, with any whitespace and
    any adjacency; a text the specification gives no token list raises. -/
theorem C16_tokenize_spec (cs : List Char) :
    (∀ ts, tokenize cs = some ts ↔ Lex cs ts) ∧ (tokenize cs = none ↔ ¬ ∃ ts, Lex cs ts) := by
  refine ⟨tokenize_iff_lex cs, ?_⟩
  constructor
  · rintro h ⟨ts, hl⟩
    rw [(tokenize_iff_lex cs ts).mpr hl] at h
    cases h
  · intro h
    cases ht : tokenize cs with
    | none => rfl
    | some ts => exact absurd ⟨ts, (tokenize_iff_lex cs ts).mp ht⟩ h

/-- maximal munch, concretely: `N//M` is one `//`; `N***M` is `**` then `*`; `N/ /M` is two `/`;
    digits glue (`12 3` vs `123`); a dot continues an identifier but cannot start one -/
example : tokenize ['N', '/', '/', 'M'] = some [.ident "N", .op .dslash, .ident "M"] := by decide
example : tokenize ['N', '*', '*', '*', 'M'] = some [.ident "N", .op .dstar, .op .star, .ident "M"] := by
  decide
example : tokenize ['N', '/', ' ', '/', 'M'] = some [.ident "N", .op .slash, .op .slash, .ident "M"] := by
  decide
example : tokenize ['1', '2', ' ', '3'] = some [.num 12, .num 3] := by decide
example : tokenize ['a', '.', '1'] = some [.ident "a.1"] := by decide
example : tokenize ['.', '5'] = none := by decide
example : ¬ ∃ ts, Lex ['.', '5'] ts := (C16_tokenize_spec ['.', '5']).2.mp (by decide)

/-- **C16_tokenize_render**: the tokenizer reads back every token list written with single spaces
    (numbers in decimal, identifier tokens carrying identifier texts). -/
theorem C16_tokenize_render (ts : List Tok) (h : ∀ t ∈ ts, WfTok t) : tokenize (render ts) = some ts :=
  tokenize_render ts h


/-! ## Deepening (round 3): the operator overloads, `evaluate`, `Shape`, parser totality -/

/-- **C16_overload_sem**: every operator overload of `SymbolicDim` denotes the integer operation it
    is named after.  For a dimension with expression `a`, any accepted right operand `y` (an `int`
    literal or a dimension, standing for the expression `b`), any `int` left operand `n` and every
    operator `o` other than `**` (which has no overload):
    * the forward method `a.__o__(y)` (= the Python expression `a o y`) returns a dimension whose
      tree evaluates, under every binding, like `a o b` with the model's `+ - * / // %` — in
      particular `floor(a / b)` built for `//` is floor division, `Rational(1, n) * a` built for
      `a / n` is true division — and on integer values `x`, `z` gives exactly Python's own result
      `x o z` (`Int.fdiv` / `Int.fmod` with the divisor's sign, `ZeroDivisionError` = no value);
    * the reflected method `a.__ro__(n)` (= `n o a`) likewise denotes `n o a` — `n + a` and `n * a`,
      which the code computes as `a + n` and `a * n`, included;
    * `-a`, `math.floor(a)`, `math.ceil(a)`, `math.trunc(a)` evaluate to `-q`, `floor q`,
      `ceiling q = -floor(-q)` and `trunc q` (toward zero) of the exact value `q` of `a`; the
      `sign(a) * floor(Abs(a))` tree built for trunc is that truncation. -/
theorem C16_overload_sem (o : BOp) (ho : o ≠ .pow) (u : UOp) (a : Expr) (n : Int) (y : Operand)
    (b : Expr) (hy : y.asExpr = some b) :
    (∃ t, dunder o (.expr a) y = .ok (.expr t) ∧ binop o (.dim (.expr a)) y = .ok (.expr t) ∧
      ∀ env, eval env t = eval env (.bin o.den a b) ∧
        ∀ x z : Int, eval env a = some (x : Rat) → eval env b = some (z : Rat) →
          eval env t = pyIntOp o x z) ∧
    (∃ t, rdunder o (.expr a) (.int n) = .ok (.expr t) ∧
      binop o (.int n) (.dim (.expr a)) = .ok (.expr t) ∧
      ∀ env, eval env t = eval env (.bin o.den (.num n) a) ∧
        ∀ x : Int, eval env a = some (x : Rat) → eval env t = pyIntOp o n x) ∧
    (∃ t, unop u (.expr a) = .ok (.expr t) ∧ pyUnop u (.expr a) = .ok (.expr t) ∧
      ∀ env, eval env t = eval env (.un u.den a) ∧
        ∀ q : Rat, eval env a = some q → eval env t = some (match u with
          | .neg => -q
          | .floor => ((q.floor : Int) : Rat)
          | .ceil => ((-((-q).floor) : Int) : Rat)
          | .trunc => ((ratTrunc q : Int) : Rat))) := by
  refine ⟨?_, ?_, ?_⟩
  · obtain ⟨t, ht, hsem⟩ := dunder_expr_ok o ho a y b hy
    refine ⟨t, ht, by simp [binop, ht, Out.toPy], fun env => ⟨hsem env, ?_⟩⟩
    intro x z hx hz
    rw [hsem env]
    simp only [eval, hx, hz]
    exact evalBin_den_int o x z ho
  · obtain ⟨t, ht, hsem⟩ := rdunder_expr_ok o ho a n
    refine ⟨t, ht, by simp [binop, ht, Out.toPy], fun env => ⟨hsem env, ?_⟩⟩
    intro x hx
    rw [hsem env]
    simp only [eval, hx]
    exact evalBin_den_int o n x ho
  · refine ⟨unTree u a, rfl, rfl, fun env => ⟨eval_unTree env u a, ?_⟩⟩
    intro q hq
    rw [eval_unTree env u a]
    simp only [eval, hq]
    cases u <;> rfl

/-- the hypotheses are satisfiable and the trees are the ones the code builds -/
example : dunder .floordiv (.expr (.sym "N")) (.int 2) =
    .ok (.expr (.un .floor (.bin .div (.sym "N") (.num 2)))) := rfl
example : dunder .truediv (.expr (.sym "N")) (.int 2) =
    .ok (.expr (.bin .mul (.bin .div (.num 1) (.num 2)) (.sym "N"))) := rfl
example : binop .add (.int 3) (.dim (.expr (.sym "N"))) = .ok (.expr (.bin .add (.sym "N") (.num 3))) := rfl
example : binop .mod (.int 7) (.dim (.expr (.sym "N"))) = .ok (.expr (.bin .mod (.num 7) (.sym "N"))) := rfl
example : pyIntOp .floordiv (-7) 2 = some (-4 : Int) := by decide
example : (Operand.dim (.expr (.sym "M"))).asExpr = some (.sym "M") := rfl

/-- **C16_overload_dispatch**: which operand mixes the operators accept and which raise.  Every
    operator except `**` accepts every mix of `int` and dimension operands on either side (at least
    one dimension, texts that parse) and returns a dimension, which is the unknown dimension exactly
    when an operand is; `**` (no `__pow__` / `__rpow__`) is a TypeError for all operands; a foreign
    operand (float, str, None ...) next to a known dimension is a TypeError on either side; a text
    the parser rejects raises ValueError out of every overload that needs its expression. -/
theorem C16_overload_dispatch (o : BOp) (x y : Operand) (a : Expr) (u : UOp) :
    (o ≠ .pow → x.accepted = true → y.accepted = true → (x.isDim = true ∨ y.isDim = true) →
      ∃ d, binop o x y = .ok d ∧ d ≠ .bad ∧
        (d = .unknown ↔ (x.isUnknown = true ∨ y.isUnknown = true))) ∧
    binop .pow x y = .typeError ∧
    (binop o (.dim (.expr a)) .other = .typeError ∧ binop o .other (.dim (.expr a)) = .typeError) ∧
    (o ≠ .pow → binop o (.dim .bad) y = .valueError ∧
      binop o (.dim (.expr a)) (.dim .bad) = .valueError) ∧
    (pyUnop u .unknown = .ok .unknown ∧ pyUnop u .bad = .valueError) := by
  refine ⟨fun ho hx hy hd => binop_accepts o ho x y hx hy hd, binop_pow x y, binop_other o a, ?_, ?_⟩
  · intro ho
    constructor
    · cases o <;> first | exact absurd rfl ho | rfl
    · cases o <;> first | exact absurd rfl ho | rfl
  · exact ⟨rfl, rfl⟩

/-- the quirk the transcription keeps: an unknown dimension on the LEFT absorbs even a foreign
    operand, and so do the reflected `- / // %`; the reflected `+` and `*` test the type first -/
example : binop .add (.dim .unknown) .other = .ok .unknown := rfl
example : binop .sub .other (.dim .unknown) = .ok .unknown := rfl
example : binop .add .other (.dim .unknown) = .typeError := rfl

/-- **C16_shape_evaluate**: `Shape.evaluate` is dimension-wise `evaluate`.  The loop returns a shape
    exactly when every dimension evaluates (it raises exactly when some dimension holds a text the
    parser rejects), and then position by position: an `int` stays, the unknown dimension stays, and
    a dimension with expression `e` becomes the `int` `z` exactly when all its symbols are bound
    and its exact value is the integer `z`; otherwise it becomes a residual dimension that
    evaluates later like `e` under the joined bindings and whose free symbols are exactly the
    unbound symbols of `e`.  Consequently the result has the same rank, its `free_symbols()` are
    exactly the unbound ones of the original shape, and a static shape is returned unchanged;
    `is_dynamic` is the negation of `is_static` (= every dimension is an `int`). -/
theorem C16_shape_evaluate (b : Env) (sh : Shape) :
    (∀ sh', Shape.evaluate b sh = some sh' ↔
      List.Forall₂ (fun d d' => SDim.evaluate b d = some d') sh sh') ∧
    (Shape.evaluate b sh = none ↔ SDim.dim .bad ∈ sh) ∧
    (∀ n, SDim.evaluate b (.int n) = some (.int n)) ∧
    SDim.evaluate b (.dim .unknown) = some (.dim .unknown) ∧
    (∀ e, EvalSpec b e ((Dim.expr e).evaluate b)) ∧
    (∀ sh', Shape.evaluate b sh = some sh' → sh'.length = sh.length ∧
      ∃ l l', Shape.freeSymbols sh = some l ∧ Shape.freeSymbols sh' = some l' ∧
        ∀ s, s ∈ l' ↔ (s ∈ l ∧ b s = none)) ∧
    (Shape.isStatic sh = true → Shape.evaluate b sh = some sh) ∧
    Shape.isDynamic sh = sh.any (fun d => !d.isInt) := by
  refine ⟨shape_evaluate_iff b sh, shape_evaluate_none b sh, fun _ => rfl, rfl,
    evaluate_spec b, ?_, ?_, ?_⟩
  · intro sh' h
    have hf := (shape_evaluate_iff b sh sh').mp h
    obtain ⟨h1, h2, h3⟩ := forall2_evaluate_free b hf
    obtain ⟨l, hl, hlm⟩ := shape_freeSymbols_spec sh h1
    obtain ⟨l', hl', hlm'⟩ := shape_freeSymbols_spec sh' h2
    refine ⟨hf.length_eq.symm, l, l', hl, hl', fun s => ?_⟩
    rw [hlm' s, hlm s, h3 s]
  · intro hs
    exact (shape_evaluate_iff b sh sh).mpr (shape_evaluate_static b sh hs)
  · simp only [Shape.isDynamic, Shape.isStatic]
    induction sh with
    | nil => rfl
    | cons d rest ih => simp only [List.all_cons, List.any_cons, Bool.not_and, ih]

/-- both outcomes of a dimension occur: complete with an integer value, and residual -/
example : (Dim.expr (.bin .add (.sym "N") (.num 1))).evaluate (Env.ofList [("N", 10)]) = .int 11 := by
  decide +kernel
example : (Dim.expr (.bin .add (.sym "N") (.sym "M"))).evaluate (Env.ofList [("N", 3)]) =
    .dim (.expr (.bin .add (.num 3) (.sym "M"))) := by decide +kernel
example : Shape.evaluate (Env.ofList [("N", 3)]) [.int 7, .dim .unknown, .dim (.expr (.sym "N"))] =
    some [.int 7, .dim .unknown, .int 3] := by decide +kernel
example : Shape.evaluate Env.empty [.dim .bad] = none := by decide

/-- **C16_simplify_guard**: `SymbolicDim.simplify()` keeps every evaluation whenever SymPy's
    `simplify` does (`simp`, external — tested on every run), whatever the printability test of its
    result says: the fallback to the original expression is value-preserving by construction. -/
theorem C16_simplify_guard (simp : Expr → Expr) (printable : Expr → Bool)
    (hsimp : ∀ e env, eval env (simp e) = eval env e) (d d' : Dim)
    (h : Dim.simplify simp printable d = some d') :
    (d = .unknown ∧ d' = .unknown) ∨
      ∃ e e', d = .expr e ∧ d' = .expr e' ∧ ∀ env, eval env e' = eval env e := by
  cases d with
  | unknown => left; simp [Dim.simplify] at h; exact ⟨rfl, h.symm⟩
  | bad => simp [Dim.simplify] at h
  | expr e =>
    right
    simp only [Dim.simplify] at h
    by_cases hp : printable (simp e) = true
    · simp only [hp, if_true, Option.some.injEq] at h
      exact ⟨e, simp e, rfl, h.symm, fun env => hsimp e env⟩
    · simp only [hp, Bool.false_eq_true, if_false, Option.some.injEq] at h
      exact ⟨e, e, rfl, h.symm, fun _ => rfl⟩

/-- the hypothesis is satisfiable (the identity) and the guard can take either branch -/
example : Dim.simplify id (fun _ => false) (.expr (.sym "N")) = some (.expr (.sym "N")) := rfl

/-- **C16_eq_hash**: equality of dimensions is equality of their texts, hence an equivalence
    relation consistent with `__hash__` (equal dimensions hash the same key), with comparing to a
    `str` (`SymbolicDim(s) == s`, same hash key as `s`) and to `None`. -/
theorem C16_eq_hash (v w x : Option String) (s : String) :
    dimEq v (.dim v) = true ∧
    (dimEq v (.dim w) = dimEq w (.dim v)) ∧
    (dimEq v (.dim w) = true → dimEq w (.dim x) = true → dimEq v (.dim x) = true) ∧
    (dimEq v (.dim w) = true → dimHashKey v = dimHashKey w) ∧
    (dimEq v (.str s) = true ↔ dimHashKey v = some s) ∧
    (dimEq v .none = true ↔ dimHashKey v = none) ∧
    dimEq v .other = false := by
  refine ⟨by simp [dimEq], ?_, ?_, ?_, ?_, ?_, rfl⟩
  · simp only [dimEq]; exact Bool.eq_iff_iff.mpr ⟨fun h => by simpa using (by simpa using h : v = w).symm,
      fun h => by simpa using (by simpa using h : w = v).symm⟩
  · simp only [dimEq, beq_iff_eq]; intro h1 h2; exact h1.trans h2
  · simp only [dimEq, beq_iff_eq, dimHashKey]; exact id
  · simp only [dimEq, beq_iff_eq, dimHashKey]
  · simp only [dimEq, dimHashKey, Option.isNone_iff_eq_none]

/-- **C16_parser_total**: the parser never gets stuck.  The fuel `parseTokens` starts with is
    linear in the input (`5 * length + 8`: five grammar levels per token) and is enough for EVERY
    token list, not only for sentences: no larger (or smaller) amount of fuel makes the recursive
    descent accept anything `parseTokens` rejects, or return a different tree — so `none` always
    means a parse error of the text, never exhaustion; and from that bound on the answer no longer
    depends on the fuel.  Likewise the tokenizer with any fuel above the text length. -/
theorem C16_parser_total (ts : List Tok) (cs : List Char) :
    (∀ g e, parseExpr g ts = some (e, []) → parseTokens ts = some e) ∧
    (∀ g, fuelFor ts ≤ g →
      (match parseExpr g ts with | some (e, []) => some e | _ => none) = parseTokens ts) ∧
    (∀ g toks, tokenizeAux g cs = some toks → tokenize cs = some toks) ∧
    (∀ g, cs.length < g → tokenizeAux g cs = tokenize cs) := by
  have h1 : ∀ g e, parseExpr g ts = some (e, []) → parseTokens ts = some e := by
    intro g e h
    obtain ⟨d, hd, hs⟩ := (sound_all g).expr ts e [] h
    have hd' : d.flatten = ts := by simpa using hd.symm
    rw [← hd', ← hs]
    exact parseTokens_complete d
  have h3 : ∀ g toks, tokenizeAux g cs = some toks → tokenize cs = some toks := by
    intro g toks h
    exact (tokenize_iff_lex cs toks).mpr (lex_of_tokenizeAux g cs toks h)
  refine ⟨h1, ?_, h3, ?_⟩
  · intro g hg
    cases hp : parseTokens ts with
    | some e =>
      obtain ⟨d, hd, hs⟩ := parseTokens_sound hp
      have hb := (bound_all d).1
      have hc := complete_all d g [] (by rw [← hd] at hg; simp only [fuelFor] at hg; omega) okExpr_nil
      simp only [List.append_nil] at hc
      rw [hd] at hc
      simp [hc, hs]
    | none =>
      cases hg2 : parseExpr g ts with
      | none => rfl
      | some p =>
        obtain ⟨e, r⟩ := p
        cases r with
        | nil => rw [h1 g e hg2] at hp; cases hp
        | cons t r' => rfl
  · intro g hg
    cases ht : tokenize cs with
    | some toks => exact tokenizeAux_of_lex ((tokenize_iff_lex cs toks).mp ht) g hg
    | none =>
      cases hg2 : tokenizeAux g cs with
      | none => rfl
      | some toks => rw [h3 g toks hg2] at ht; cases ht

/-- a rejected text stays rejected with a thousand times the fuel; an accepted one keeps its tree -/
example : parseExpr 5000 [.ident "a", .ident "b"] = some (.sym "a", [.ident "b"]) := by decide
example : parseTokens [.lparen, .ident "a"] = none := by decide

/-- **C16_tokenize_classes**: the tokenizer transcribed over an arbitrary classification of
    characters (CPython's `str.isspace / isdigit / isalpha / isalnum / isidentifier`, `int()` of a
    digit run and `str.isidentifier` of the whole text as parameters — the form that is compared with the real tokenizer on
    non-ASCII text) is, for the ASCII classification, exactly the ASCII tokenizer and
    `parse_symbolic_expression` model that every other C16 theorem is about. -/
theorem C16_tokenize_classes (cs : List Char) :
    tokenizeK asciiClass cs = tokenize cs ∧
    parseCharsK asciiClass (isIdentifier cs) cs = parseChars cs := by
  refine ⟨tokenizeK_ascii cs, ?_⟩
  by_cases h : isIdentifier cs = true
  · simp [parseCharsK, parseChars, h]
  · simp only [parseCharsK, parseChars, h, tokenizeK_ascii]
    cases tokenize cs <;> rfl

/-- a classification under which the parametric tokenizer differs from the ASCII reading: a digit
    `int()` refuses makes the number token raise; a numeric character continues an identifier -/
example : tokenizeK (fun c => if c = '²' then .digit none else asciiClass c) ['N', '+', '²'] = none := by
  decide +kernel
example : tokenizeK (fun c => if c = '½' then .numeric else asciiClass c) ['N', '½'] =
    some [.ident "N½"] := by decide +kernel
example : tokenizeK (fun c => if c = '½' then .numeric else asciiClass c) ['½'] = none := by decide +kernel

/-- **C16_print_parse_sympy_partial**: the exact surface text SymPy's `str()` emits for this
    fragment parses.  `ppSympy` transcribes SymPy's StrPrinter token by token (`_print_Add` with
    sign extraction `N - 1`, `-N**2 + M`; `_print_Mul` with sign, rational coefficient split
    `3*N/4`, `N/2 + 1/2`, denominators `N/(2*M)`, `M/N**2`, parentheses at precedence <= 50
    `2*(Mod(N, 3))`; `_print_Pow` `1/N`, `2**(-N)`, `(N + 1)**2`; `floor ceiling Abs sign Mod Max Min`
    calls) from the SymPy object `s` (external; `SWf` = the canonical-form facts used, decidable,
    evaluated on every generated case).  Proved: the model parser accepts that text and returns
    exactly the tree `surf s`.  PARTIAL by name only since wave 4: the half that was missing,
    `∀ env, eval env (surf s) = eval env (sden s)`, is proved in `Lemmas/SymExprSympyEval.lean` and
    the full statement is `C16_print_parse_sympy` below (this theorem is kept unchanged; `SWf` now
    also admits the `sqrt` spellings and Rational exponents).  Token-exactness of `ppSympy` against
    the real `str()` is compared on every run (driver `sym.sympy_pp`). -/
theorem C16_print_parse_sympy_partial (s : SExpr) (h : SWf s) :
    parseTokens (ppSympy s) = some (surf s) :=
  parse_ppSympy_surf s h

/-- the hypothesis holds on SymPy's canonical forms, e.g. `-N**2`, `N/2 + 1/2`, `2*(Mod(N, 3))` -/
example : SWf (.mul [.int (-1), .pow (.sym "N") (.int 2)]) := by decide
example : ppSympy (.mul [.int (-1), .pow (.sym "N") (.int 2)]) =
    [.op .minus, .ident "N", .op .dstar, .num 2] := by decide
example : SWf (.add [.mul [.rat 1 2, .sym "N"], .rat 1 2]) := by decide
example : ppSympy (.add [.mul [.rat 1 2, .sym "N"], .rat 1 2]) =
    [.ident "N", .op .slash, .num 2, .op .plus, .num 1, .op .slash, .num 2] := by decide
example : ppSympy (.mul [.int 2, .fn .mod [.sym "N", .int 3]]) =
    [.num 2, .op .star, .lparen, .ident "Mod", .lparen, .ident "N", .comma, .num 3, .rparen, .rparen] := by
  decide

/-! ## Wave 4 -/

/-- **C16_print_parse_sympy** (completes `C16_print_parse_sympy_partial`): the exact surface text
    SymPy's `str()` emits for this fragment parses back to an expression with the same evaluations.
    For every well-formed SymPy tree `s` (`SWf`: the canonical-form facts, decidable, evaluated on
    every generated case) the model parser accepts the text `ppSympy s` (the token-by-token
    transcription of StrPrinter, compared with the real `str()` on every run) and the tree it
    returns evaluates, under EVERY binding - complete, partial (unbound symbols: no value on both
    sides), zero and negative values included - exactly like the meaning `sden s` of the SymPy
    object: reading `-3*N/4` as `((-3)*N)/4`, `a - b` for `a + (-b)`, `x/(c*d)` for
    `x * c**-1 * d**-1`, `1/N` for `N**-1`, `M/N**2` for `M * N**-2` (no value on both sides at
    `N = 0`) preserves the exact value.  Wave 4 also brings the `sqrt` spellings and Rational
    exponents inside `SWf`: `sqrt(N)`, `1/sqrt(N)`, `M/sqrt(N)`, `N**(1/3)`, `M/N**(2/3)`
    (`Pow(b, 1/2)` means the model's `sqrt`, exact when the value is a rational square). -/
theorem C16_print_parse_sympy (s : SExpr) (h : SWf s) :
    ∃ t, parseTokens (ppSympy s) = some t ∧ ∀ env : Env, eval env t = eval env (sden s) :=
  ⟨surf s, parse_ppSympy_surf s h, fun env => eval_surf s h env⟩

/-- the hypothesis holds on the new shapes; the meaning of `1/sqrt(N)` at `N = 4` is `1/2`, and
    `M/N**2` has no value at `N = 0` on either side -/
example : SWf (.mul [.sym "M", .pow (.sym "N") (.rat (-1) 2)]) := by decide
example : ppSympy (.mul [.sym "M", .pow (.sym "N") (.rat (-1) 2)]) =
    [.ident "M", .op .slash, .ident "sqrt", .lparen, .ident "N", .rparen] := by decide
example : sden (.pow (.sym "N") (.rat (-1) 2)) = .bin .div (.num 1) (.un .sqrt (.sym "N")) := by decide
example : eval (Env.ofList [("N", 0), ("M", 3)]) (surf (.mul [.sym "M", .pow (.sym "N") (.int (-2))]))
    = none := by decide +kernel
example : eval (Env.ofList [("N", 0), ("M", 3)]) (sden (.mul [.sym "M", .pow (.sym "N") (.int (-2))]))
    = none := by decide +kernel

/-- **C16_print_parse_sympy_symexp**: symbolic negative exponents in a denominator.  SymPy prints
    `M * K**(-N)` as `M/K**N` (`apow` in `_print_Mul`: every power whose exponent has a negative
    coefficient goes below the fraction bar with the exponent negated: `M/K**(2*N)`, `M/K**(N/2)`);
    `SWfX` is `SWf` without the restriction to literal exponents there.  The parser accepts these
    texts as well and returns `surf s`, and the tree evaluates like the SymPy object's meaning under
    every binding that makes no such denominator's BASE zero (`denNZ env s`, decidable, evaluated per
    case and binding): `0**(positive)` is `0` but `1/0**(negative)` has no value, so at a zero base
    the strict evaluator distinguishes the two readings (last example below) - for the symbols the
    parser creates (positive integers) a base that is a symbol, product or power of symbols is never
    zero.  With literal exponents (`SWf`) the side condition holds under every binding, which gives
    `C16_print_parse_sympy` back. -/
theorem C16_print_parse_sympy_symexp (s : SExpr) (h : SWfX s) :
    ∃ t, parseTokens (ppSympy s) = some t ∧
      (∀ env : Env, denNZ env s = true → eval env t = eval env (sden s)) ∧
      (SWf s → ∀ env : Env, denNZ env s = true) ∧
      (SWf s → SWfX s) :=
  ⟨surf s, parse_ppSympy_surfX s h, fun env hnz => eval_surfX s h env hnz,
    fun hs env => swf_denNZ env s hs, swf_imp_swfX s⟩

/-- `M * K**(-N)`: outside `SWf`, inside `SWfX`, printed `M/K**N`; the side condition holds for
    `K = 3` and fails for `K = 0`, where (with `N = -2`) the meaning is `M * 0**2 = 0` and the text
    `M/0**(-2)` has no value -/
example : swf (.mul [.sym "M", .pow (.sym "K") (.mul [.int (-1), .sym "N"])]) = false := by decide
example : SWfX (.mul [.sym "M", .pow (.sym "K") (.mul [.int (-1), .sym "N"])]) := by decide
example : ppSympy (.mul [.sym "M", .pow (.sym "K") (.mul [.int (-1), .sym "N"])]) =
    [.ident "M", .op .slash, .ident "K", .op .dstar, .ident "N"] := by decide
example : denNZ (Env.ofList [("M", 5), ("K", 3), ("N", 2)])
    (.mul [.sym "M", .pow (.sym "K") (.mul [.int (-1), .sym "N"])]) = true := by decide +kernel
example : denNZ (Env.ofList [("M", 5), ("K", 0), ("N", -2)])
    (.mul [.sym "M", .pow (.sym "K") (.mul [.int (-1), .sym "N"])]) = false := by decide +kernel
example : eval (Env.ofList [("M", 5), ("K", 0), ("N", -2)])
    (sden (.mul [.sym "M", .pow (.sym "K") (.mul [.int (-1), .sym "N"])])) = some 0 := by
  decide +kernel
example : eval (Env.ofList [("M", 5), ("K", 0), ("N", -2)])
    (surf (.mul [.sym "M", .pow (.sym "K") (.mul [.int (-1), .sym "N"])])) = none := by
  decide +kernel

/-- **C16_print_parse_sympy_refines**: the text is never MIS-read.  For every tree `s` in `SWfX`
    (symbolic negative exponents in denominators included) and EVERY binding - no side condition -
    whenever the tree the parser returns on SymPy's text has a value, it is the value of the SymPy
    object's meaning.  Together with `C16_print_parse_sympy_symexp`: the two readings agree unless a
    denominator with a symbolic exponent has a zero base, and there the text can only lose its
    value (`M/0**(-2)`: ZeroDivision, against `M*0**2 = 0`), never take another one. -/
theorem C16_print_parse_sympy_refines (s : SExpr) (h : SWfX s) :
    ∃ t, parseTokens (ppSympy s) = some t ∧
      ∀ (env : Env) (v : Rat), eval env t = some v → eval env (sden s) = some v :=
  ⟨surf s, parse_ppSympy_surfX s h, fun env v hv => surf_refines s h env v hv⟩

/-- **C16_overload_dispatch_bool**: Python's bool-as-int in the overload dispatch.  `True` / `False`
    are `int`s for `isinstance(other, int)`, so a bool operand goes down the `int` branches of every
    overload, on either side (`True + N` reaches `__radd__`, which delegates to `__add__`): the
    unknown dimension absorbs it, an unparseable text raises ValueError, exactly as with an `int`;
    next to a known dimension SymPy's own operator refuses the bool - TypeError for every operator on
    either side - except `dim / bool`, which the code computes as `Rational(1, other) * expr`: the
    tree of `dim / 1` resp. `dim / 0`, evaluating like the dimension itself resp. never.  Hence:
    wherever a bool operand is accepted at all, the result is the result for the `int` it is
    (together with `C16_overload_dispatch`, whose `Operand` now ranges over bools too, this decides
    every mix of int / bool / dimension / foreign operands). -/
theorem C16_overload_dispatch_bool (o : BOp) (b : Bool) (a : Expr) (x : Operand) (d : Dim) :
    (o ≠ .pow →
      binop o (.dim .unknown) (.bool b) = .ok .unknown ∧
      binop o (.bool b) (.dim .unknown) = .ok .unknown ∧
      binop o (.dim .bad) (.bool b) = .valueError ∧
      binop o (.bool b) (.dim .bad) = .valueError) ∧
    (o ≠ .truediv → binop o (.dim (.expr a)) (.bool b) = .typeError) ∧
    binop o (.bool b) (.dim (.expr a)) = .typeError ∧
    (binop .truediv (.dim (.expr a)) (.bool b) =
        binop .truediv (.dim (.expr a)) (.int (boolInt b)) ∧
      binop .truediv (.dim (.expr a)) (.bool b) =
        .ok (.expr (fwdTreeInt .truediv a (boolInt b))) ∧
      ∀ env, eval env (fwdTreeInt .truediv a (boolInt true)) = eval env a ∧
        eval env (fwdTreeInt .truediv a (boolInt false)) = none) ∧
    (binop o x (.bool b) = .ok d → binop o x (.int (boolInt b)) = .ok d) ∧
    (binop o (.bool b) x = .ok d → binop o (.int (boolInt b)) x = .ok d) ∧
    (Operand.bool b).accepted = false := by
  refine ⟨fun ho => binop_bool_absorb o ho b, (binop_bool_refused o b a).1, (binop_bool_refused o b a).2,
    ⟨binop_bool_truediv b a, rfl, fun env => eval_truediv_bool env a⟩,
    (binop_bool_as_int o b x d).1, (binop_bool_as_int o b x d).2, rfl⟩

/-- both behaviours occur: `N / True` is a dimension, `N + True` and `True - N` raise TypeError,
    `SymbolicDim(None) + True` is the unknown dimension -/
example : binop .truediv (.dim (.expr (.sym "N"))) (.bool true) =
    .ok (.expr (.bin .mul (.bin .div (.num 1) (.num 1)) (.sym "N"))) := rfl
example : binop .add (.dim (.expr (.sym "N"))) (.bool true) = .typeError := rfl
example : binop .sub (.bool true) (.dim (.expr (.sym "N"))) = .typeError := rfl
example : binop .add (.bool true) (.dim .unknown) = .ok .unknown := rfl

end IrVerif.SymExpr

/-
C16 — property theorems (symbolic dimension expressions).
-/
import IrVerif.Model.SymExpr
import IrVerif.Lemmas.SymExprArith
import IrVerif.Lemmas.SymExprSound
import IrVerif.Lemmas.SymExprPrint
import IrVerif.Lemmas.SymExprText
import IrVerif.Lemmas.SymExprInt
import IrVerif.Lemmas.SymExprLex
namespace IrVerif.SymExpr

/-- **C16_partial**: binding some symbols first and the rest later gives the value of binding
    all of them at once (`b1` wins on overlap), for every expression and all bindings; and the
    residual's free symbols are exactly the free symbols of `e` that `b1` does not bind. -/
theorem C16_partial (b1 b2 : Env) (e : Expr) :
    eval (Env.union b1 b2) e = eval b2 (subst b1 e) ∧
    ∀ s, s ∈ free (subst b1 e) ↔ (s ∈ free e ∧ b1 s = none) := by
  induction e with
  | num n => simp [eval, subst, free]
  | sym s =>
    constructor
    · cases h : b1 s <;> simp [eval, subst, Env.union, h]
    · intro s'
      cases h : b1 s <;> simp [subst, free, h]
      · rintro rfl; exact h
      · rintro rfl; simp [h]
  | inf n => simp [eval, subst, free]
  | un o a ih => simp [eval, subst, free, ih.1, ih.2]
  | bin o a b iha ihb =>
    constructor
    · simp [eval, subst, iha.1, ihb.1]
    · intro s
      simp only [subst, free, List.mem_append, iha.2, ihb.2]
      tauto


/-- **C16_eval_free**: evaluation looks at the bindings of the free symbols only (extra or
    different bindings of other names never matter) — `evaluate` substitutes by symbol name. -/
theorem C16_eval_free (env1 env2 : Env) (e : Expr) (h : ∀ s ∈ free e, env1 s = env2 s) :
    eval env1 e = eval env2 e := by
  induction e with
  | num n => rfl
  | sym s => simp [eval, h s (by simp [free])]
  | inf b => rfl
  | un o a ih => simp [eval, ih (by simpa [free] using h)]
  | bin o a b iha ihb =>
    simp [eval, iha (fun s hs => h s (by simp [free, hs])), ihb (fun s hs => h s (by simp [free, hs]))]

/-- **C16_int_ops**: the evaluator's `//`, `%`, floor, ceiling, trunc, max, min have Python's integer
    semantics.  For integers `a`, `b` (`b ≠ 0`): `a // b` and `a % b` are floor division and its
    remainder (`Int.fdiv` / `Int.fmod`), characterised by `a = b * q + r` with the remainder taking
    the sign of the divisor; a zero divisor has no value.  For every rational `x`: `floor x ≤ x <
    floor x + 1`, `ceiling x - 1 < x ≤ ceiling x`, `trunc` is `floor` for `x ≥ 0` and `ceiling` for
    `x ≤ 0` and equals the `sign(x) * floor(Abs(x))` the code builds; all three are the identity on
    integers; `max` / `min` are the integer maximum / minimum. -/
theorem C16_int_ops (a b : Int) (x : Rat) :
    (b ≠ 0 →
      evalBin .fdiv a b = some ((Int.fdiv a b : Int) : Rat) ∧
      evalBin .mod a b = some ((Int.fmod a b : Int) : Rat) ∧
      a = b * Int.fdiv a b + Int.fmod a b ∧
      (0 < b → 0 ≤ Int.fmod a b ∧ Int.fmod a b < b) ∧
      (b < 0 → b < Int.fmod a b ∧ Int.fmod a b ≤ 0)) ∧
    (evalBin .fdiv x 0 = none ∧ evalBin .mod x 0 = none ∧ evalBin .div x 0 = none) ∧
    (∃ n : Int, evalUn .floor x = some (n : Rat) ∧ (n : Rat) ≤ x ∧ x < (n : Rat) + 1) ∧
    (∃ n : Int, evalUn .ceil x = some (n : Rat) ∧ (n : Rat) - 1 < x ∧ x ≤ (n : Rat)) ∧
    (∃ n : Int, evalUn .trunc x = some (n : Rat) ∧
      (0 ≤ x → evalUn .floor x = some (n : Rat)) ∧ (x ≤ 0 → evalUn .ceil x = some (n : Rat))) ∧
    evalUn .trunc x = some (ratSign x * (((ratAbs x).floor : Int) : Rat)) ∧
    (evalUn .floor a = some (a : Rat) ∧ evalUn .ceil a = some (a : Rat) ∧
      evalUn .trunc a = some (a : Rat)) ∧
    (evalBin .max a b = some ((max a b : Int) : Rat) ∧
      evalBin .min a b = some ((min a b : Int) : Rat)) := by
  refine ⟨?_, ?_, ?_, ?_, ?_, ?_, ?_, ?_⟩
  · intro hb
    have hbq : (b : Rat) ≠ 0 := by exact_mod_cast hb
    have hfl := floor_div_int a b hb
    have hdecomp : a = b * Int.fdiv a b + Int.fmod a b := (Int.mul_fdiv_add_fmod a b).symm
    refine ⟨?_, ?_, hdecomp, ?_, ?_⟩
    · simp [evalBin, hbq, hfl]
    · simp only [evalBin, hbq, if_false, hfl]
      congr 1
      have : (a : Rat) = (b : Rat) * ((Int.fdiv a b : Int) : Rat) + ((Int.fmod a b : Int) : Rat) := by
        exact_mod_cast hdecomp
      linarith
    · intro hpos; exact ⟨Int.fmod_nonneg_of_pos a hpos, Int.fmod_lt_of_pos a hpos⟩
    · intro hneg; exact fmod_bounds_neg a hneg
  · simp [evalBin]
  · exact ⟨x.floor, rfl, floor_le' x, lt_floor_add_one' x⟩
  · refine ⟨-((-x).floor), rfl, ?_, ?_⟩
    · have := lt_floor_add_one' (-x); push_cast; linarith
    · have := floor_le' (-x); push_cast; linarith
  · refine ⟨ratTrunc x, rfl, ?_, ?_⟩
    · intro h; simp [evalUn, ratTrunc_of_nonneg h]
    · intro h; simp [evalUn, ratTrunc_of_nonpos h]
  · simp [evalUn, sign_mul_floor_abs]
  · refine ⟨?_, ?_, ?_⟩
    · simp [evalUn]
    · have h : (-(a : Rat)).floor = -a := by
        have : (-(a : Rat)) = ((-a : Int) : Rat) := by push_cast; ring
        rw [this, floor_intCast']
      simp [evalUn, h]
    · have h : ratTrunc (a : Rat) = a := by simp [ratTrunc]
      simp [evalUn, h]
  · constructor
    · simp only [evalBin]
      by_cases h : (a : Rat) ≤ (b : Rat)
      · have h' : a ≤ b := by exact_mod_cast h
        simp [h, max_eq_right h']
      · have h' : b ≤ a := by have : (b : Rat) < a := not_le.mp h; exact le_of_lt (by exact_mod_cast this)
        simp [h, max_eq_left h']
    · simp only [evalBin]
      by_cases h : (a : Rat) ≤ (b : Rat)
      · have h' : a ≤ b := by exact_mod_cast h
        simp [h, min_eq_left h']
      · have h' : b ≤ a := by have : (b : Rat) < a := not_le.mp h; exact le_of_lt (by exact_mod_cast this)
        simp [h, min_eq_right h']


/-- **C16_int_eval**: integer semantics at the level of whole expressions.  For every expression of
    the integer fragment (dimensions and integers combined with `+ - * // %`, negation, floor, ceil,
    trunc, abs, sign, max, min — any depth, any mix) and every integer binding, the exact rational
    evaluator returns precisely what Python integer arithmetic returns (`//` = floor division
    `Int.fdiv`, `%` = `Int.fmod`, floor / ceil / trunc the identity), and has no value exactly when
    Python raises `ZeroDivisionError` or a symbol is unbound. -/
theorem C16_int_eval (env : Env) (e : Expr) (h : intFrag e = true) :
    eval env e = (evalInt env e).map (fun (z : Int) => (z : Rat)) :=
  eval_eq_evalInt env e h

/-- the fragment is not empty and contains the sign-sensitive cases: `(-7) // 2 = -4`, `-7 % 2 = 1`,
    `7 % -2 = -1` -/
example : evalInt Env.empty (.bin .fdiv (.num (-7)) (.num 2)) = some (-4) := by decide
example : evalInt Env.empty (.bin .mod (.num (-7)) (.num 2)) = some 1 := by decide
example : evalInt Env.empty (.bin .mod (.num 7) (.num (-2))) = some (-1) := by decide
example : intFrag (.bin .mod (.un .trunc (.bin .fdiv (.sym "N") (.num (-2)))) (.sym "M")) = true := by decide

/-- **C16_parser_sound_complete**: the parser decides exactly the documented grammar and gives
    every sentence its standard meaning.  For every derivation tree `d` of

        expr -> term (('+'|'-') term)*        term -> unary (('*'|'/'|'//'|'%') unary)*
        unary -> '-' unary | power            power -> primary ('**' unary)?
        primary -> NUMBER | IDENT | '(' expr ')' | f '(' args ')'     (function table with arities)

    `parseTokens (flatten d) = some (sem d)`, where `sem` is the standard reading (iterations
    associate to the left, `**` to the right and binds tighter than unary minus); and a token
    list with no derivation is rejected.  No bound on size or depth: the fuel `parseTokens`
    starts with is proved sufficient. -/
theorem C16_parser_sound_complete :
    (∀ d : D .expr, parseTokens d.flatten = some (d.sem : Expr)) ∧
    (∀ ts : List Tok, (¬ ∃ d : D .expr, d.flatten = ts) → parseTokens ts = none) ∧
    (∀ (ts : List Tok) (e : Expr), parseTokens ts = some e ↔
      ∃ d : D .expr, d.flatten = ts ∧ (d.sem : Expr) = e) := by
  refine ⟨parseTokens_complete, ?_, ?_⟩
  · intro ts hno
    cases h : parseTokens ts with
    | none => rfl
    | some e =>
      obtain ⟨d, hd, _⟩ := parseTokens_sound h
      exact absurd ⟨d, hd⟩ hno
  · intro ts e
    constructor
    · exact parseTokens_sound
    · rintro ⟨d, rfl, rfl⟩
      exact parseTokens_complete d

/-- precedence and associativity are the standard ones: concrete readings of the grammar -/
example : parseTokens [.op .minus, .ident "x", .op .dstar, .num 2]
    = some (.un .neg (.bin .pow (.sym "x") (.num 2))) := by decide
example : parseTokens [.num 2, .op .dstar, .num 3, .op .dstar, .num 2]
    = some (.bin .pow (.num 2) (.bin .pow (.num 3) (.num 2))) := by decide
example : parseTokens [.ident "a", .op .minus, .ident "b", .op .minus, .ident "c"]
    = some (.bin .sub (.bin .sub (.sym "a") (.sym "b")) (.sym "c")) := by decide
example : parseTokens [.ident "a", .op .dslash, .ident "b", .op .percent, .ident "c"]
    = some (.bin .mod (.bin .fdiv (.sym "a") (.sym "b")) (.sym "c")) := by decide
/-- non-vacuity of the rejection half: a token list without derivation exists -/
example : parseTokens [.ident "a", .ident "b"] = none := by decide
example : ¬ ∃ d : D .expr, d.flatten = [.ident "a", .ident "b"] := by
  rintro ⟨d, hd⟩
  have h := parseTokens_complete d
  rw [hd] at h
  have hn : parseTokens [.ident "a", .ident "b"] = none := by decide
  rw [hn] at h
  cases h

theorem eval_norm (env : Env) (e : Expr) : eval env (norm e) = eval env e := by
  induction e with
  | num n =>
    by_cases hn : n < 0
    · have h1 : ((n.natAbs : Nat) : Int) = -n := Int.ofNat_natAbs_of_nonpos (Int.le_of_lt hn)
      have h : (-((((n.natAbs : Nat) : Int)) : Rat)) = (n : Rat) := by
        rw [h1]; push_cast; ring
      simp only [norm, hn, if_true, eval, evalUn]
      exact congrArg some h
    · simp [norm, hn]
  | sym s => rfl
  | inf b => rfl
  | un o a ih =>
    cases o with
    | trunc =>
      simp only [norm, eval, ih]
      cases eval env a with
      | none => rfl
      | some x => simp [evalUn, evalBin, sign_mul_floor_abs]
    | _ => simp only [norm, eval, ih]
  | bin o a b iha ihb => simp only [norm, eval, iha, ihb]

/-- **C16_print_parse**: printing with minimal parentheses and parsing back preserves every
    evaluation.  `parseTokens (pp e)` succeeds for every expression, returns `norm e` (negative
    literals read back as negations, `trunc` as `sign * floor(Abs)`), and `norm e` evaluates like
    `e` under every binding (complete or partial: unbound symbols give "no value" on both sides). -/
theorem C16_print_parse (e : Expr) :
    parseTokens (pp e) = some (norm e) ∧ ∀ env : Env, eval env (norm e) = eval env e :=
  ⟨parseTokens_pp e, fun env => eval_norm env e⟩

/-- parentheses are really minimal where it matters: `-(x**2)` prints without, `(-x)**2` with -/
example : pp (.un .neg (.bin .pow (.sym "x") (.num 2))) = [.op .minus, .ident "x", .op .dstar, .num 2] := by
  decide
example : pp (.bin .pow (.un .neg (.sym "x")) (.num 2))
    = [.lparen, .op .minus, .ident "x", .rparen, .op .dstar, .num 2] := by decide


/-- **C16_print_parse_text**: the same at the level of text, through the tokenizer and
    `parse_symbolic_expression` itself: for every expression whose symbol names are identifier
    texts (a letter or `_`, then letters, digits, `_`, `.`), the printed text (tokens separated by
    single spaces) parses back to `norm e`, which evaluates like `e` under every binding. -/
theorem C16_print_parse_text (e : Expr) (h : ∀ s ∈ free e, IdentStr s) :
    parseChars (render (pp e)) = some (norm e) ∧ ∀ env : Env, eval env (norm e) = eval env e :=
  ⟨parseChars_render_pp e h, fun env => eval_norm env e⟩

/-- the hypothesis is satisfiable by the names the code base uses (dots included) -/
example : IdentStr "a.b_1" := ⟨'a', ['.', 'b', '_', '1'], by decide, by decide, by decide⟩
example : parseChars (render (pp (.un .neg (.bin .pow (.sym "N") (.num 2)))))
    = some (.un .neg (.bin .pow (.sym "N") (.num 2))) :=
  (C16_print_parse_text _ (by
    intro s hs
    simp [free] at hs
    subst hs
    exact ⟨'N', [], by decide, by decide, by decide⟩)).1

/-- **C16_fast_path**: the `isidentifier` shortcut of `parse_symbolic_expression` never changes the
    result: on every text it returns what tokenizing and parsing would return. -/
theorem C16_fast_path (cs : List Char) : parseChars cs = (tokenize cs).bind parseTokens :=
  parseChars_eq cs

/-- **C16_tokenize_spec**: the tokenizer is exactly the longest-match lexer `Lex` (an inductive
    specification that does not mention the implementation: blanks are dropped, a number / an
    identifier is a MAXIMAL run of its character class, `//` and `**` win over `/` and `*`, every other
    token is one character, nothing else is a token) — for every ASCII text, with any whitespace and
    any adjacency; a text the specification gives no token list raises. -/
theorem C16_tokenize_spec (cs : List Char) :
    (∀ ts, tokenize cs = some ts ↔ Lex cs ts) ∧ (tokenize cs = none ↔ ¬ ∃ ts, Lex cs ts) := by
  refine ⟨tokenize_iff_lex cs, ?_⟩
  constructor
  · rintro h ⟨ts, hl⟩
    rw [(tokenize_iff_lex cs ts).mpr hl] at h
    cases h
  · intro h
    cases ht : tokenize cs with
    | none => rfl
    | some ts => exact absurd ⟨ts, (tokenize_iff_lex cs ts).mp ht⟩ h

/-- maximal munch, concretely: `N//M` is one `//`; `N***M` is `**` then `*`; `N/ /M` is two `/`;
    digits glue (`12 3` vs `123`); a dot continues an identifier but cannot start one -/
example : tokenize ['N', '/', '/', 'M'] = some [.ident "N", .op .dslash, .ident "M"] := by decide
example : tokenize ['N', '*', '*', '*', 'M'] = some [.ident "N", .op .dstar, .op .star, .ident "M"] := by
  decide
example : tokenize ['N', '/', ' ', '/', 'M'] = some [.ident "N", .op .slash, .op .slash, .ident "M"] := by
  decide
example : tokenize ['1', '2', ' ', '3'] = some [.num 12, .num 3] := by decide
example : tokenize ['a', '.', '1'] = some [.ident "a.1"] := by decide
example : tokenize ['.', '5'] = none := by decide
example : ¬ ∃ ts, Lex ['.', '5'] ts := (C16_tokenize_spec ['.', '5']).2.mp (by decide)

/-- **C16_tokenize_render**: the tokenizer reads back every token list written with single spaces
    (numbers in decimal, identifier tokens carrying identifier texts). -/
theorem C16_tokenize_render (ts : List Tok) (h : ∀ t ∈ ts, WfTok t) : tokenize (render ts) = some ts :=
  tokenize_render ts h

end IrVerif.SymExpr

import IrVerif.Lemmas.SerdeFields
/-!
C02 — ONNX proto -> IR -> proto is lossless (DESIGN.md section 5, C02).

The theorems are about the model `IrVerif/Model/Serde.lean` (a transcription of
`src/onnx_ir/serde.py`, tied to it by `harness/c02.py` on every run).  `des*` = deserialize,
`ser*` = serialize, `norm*` = the documented normalisations (a canonical form), `wf*` = the
decidable `WFproto`.

Stage A: every leaf message round-trips, for all inputs.
Stage B: nodes and graphs with arbitrarily nested subgraphs (values captured from enclosing
scopes), functions and models: `WFproto p -> serialize (deserialize p) = norm p`, and `norm` is
idempotent, hence `WFproto p -> norm (serialize (deserialize p)) = norm p` (`C02_model_norm`).
Stage C: the same read field by field, without `norm`: `C02_keeps_model`, `C02_keeps_nodes`,
`C02_keeps_values` (vocabulary `ModelKeeps`, `FnKeeps`, `NodeKeeps`, `GraphKeeps`, `TensorKeeps`,
`VIKeeps` in `IrVerif/Lemmas/SerdeFields.lean`), and the stand-alone entry points
(`C02_node_alone`, `C02_function_alone`).

Facts that hold by construction of the model (bytes payloads are opaque tokens, floats are bit
patterns, a proto-backed tensor keeps its TensorProto; float32 <-> double conversion and UTF-8
decoding live in the trusted renderer of `harness/c02.py`) are stated below for the reader but are
NOT claimed as property theorems: `dim_by_construction`, `attr_scalar_by_construction`,
`tensor_proto_backed_by_construction`.
-/
namespace IrVerif.Serde
open IrVerif.Proto

/-- deserialize then serialize an attribute -/
def rtAttr (scopes : Scopes) (a : AttrP) : Except Err AttrP := desAttr scopes a >>= serAttr scopes none

/-! ## stage A -/

/-- (by construction, not claimed) a dimension round-trips exactly -/
theorem dim_by_construction (d : DimP) : serDim (desDim d) = d := serDim_desDim d

/-- a shape of any rank round-trips exactly -/
theorem C02_shape (s : ShapeP) : serShape (desShape s) = s := serShape_desShape s

/-- string-string maps (metadata_props, quantization parameter names): the round trip
`sortEntries (dictOfEntries es)` (a dict, written back sorted by key) is idempotent and, for distinct
keys, a permutation of the entries (no entry lost, duplicated or altered) -/
theorem C02_maps (es : List Entry) :
    sortEntries (dictOfEntries (sortEntries (dictOfEntries es))) = sortEntries (dictOfEntries es)
    ∧ (wfEntries es = true → (sortEntries (dictOfEntries es)).Perm es) :=
  ⟨normEntries_idem es, perm_normEntries⟩

/-- a TypeProto of arbitrary nesting round-trips exactly: element types, denotations at every
level, and the shape, which lands on the leaf tensor type again -/
theorem C02_type (t : TypeP) (h : wfType t = true) :
    ∃ ty sh, desTypeAndShape t = .ok (ty, sh) ∧ serTypeAndShape ty sh = t :=
  typeAndShape_roundtrip t h

example : wfType (.optional (.sequence (.tensor (some 1) (some [⟨.param "N", "DATA_BATCH"⟩, ⟨.unset, ""⟩]) "t") "s") "o") = true := by
  decide

/-- a ValueInfoProto round-trips up to the order of its metadata entries -/
theorem C02_value_info (vi : ValueInfoP) (h : wfVI vi = true) :
    ∃ v, applyInfo (IRValue.blank vi.name) vi = .ok v ∧ serValue v = normValueInfo vi := by
  simp only [wfVI, Bool.and_eq_true] at h
  obtain ⟨ty, sh, h3, _, hok⟩ := applyInfo_ok (IRValue.blank vi.name) vi h.1
  exact ⟨_, hok, serValue_of_info vi ty sh [] none h3⟩

/-- (by construction, not claimed) proto-backed tensors: the whole TensorProto is kept; only the
metadata entries are reordered -/
theorem tensor_proto_backed_by_construction (p : TensorP) (hloc : p.dataLocation ≠ 1) (hs : p.dataType ≠ 8) :
    ∃ t, desTensor p = .ok t ∧ serTensor t = normTensor p :=
  tensor_roundtrip_proto_backed p hloc hs

/-- string tensors -/
theorem C02_tensor_string (p : TensorP) (h : wfTensor p = true) (_hloc : p.dataLocation ≠ 1)
    (_hs : p.dataType = 8) : ∃ t, desTensor p = .ok t ∧ serTensor t = normTensor p := by
  obtain ⟨t, h1, h2, _⟩ := tensor_roundtrip p h
  exact ⟨t, h1, h2⟩

/-- external tensors: location, offset, length and checksum entries are all kept -/
theorem C02_tensor_external (p : TensorP) (h : wfTensor p = true) (_hloc : p.dataLocation = 1) :
    ∃ t, desTensor p = .ok t ∧ serTensor t = normTensor p := by
  obtain ⟨t, h1, h2, _⟩ := tensor_roundtrip p h
  exact ⟨t, h1, h2⟩

example : wfTensor
    { emptyTensorP with
      dataLocation := 1, dataType := 1,
      externalData := [⟨"checksum", "ab"⟩, ⟨"location", "w.bin"⟩, ⟨"length", "16"⟩, ⟨"offset", "4096"⟩] }
    = true := by
  decide

/-- device configurations: model-level configurations round-trip exactly; node-level
configurations (configuration id, sharding specs with tensor references, device groups, sharded
dimensions, pipeline stage) round-trip exactly whenever ids and tensor names are non-empty -/
theorem C02_devcfg :
    (∀ c : DevCfgP, serModelCfg (desModelCfg c) = c) ∧
    (∀ (scopes : Scopes) (cs : List NodeDevCfgP), cs.all wfNodeDevCfg = true →
      serNodeDevCfgs scopes (cs.map (desNodeDevCfg scopes)) = .ok cs) :=
  ⟨fun c => by cases c; rfl, nodeDevCfgs_roundtrip⟩

/-- (by construction, not claimed) INT / FLOAT / STRING attributes round-trip exactly -/
theorem attr_scalar_by_construction (scopes : Scopes) (n d : String) :
    (∀ i, rtAttr scopes (.int n d i) = .ok (.int n d i)) ∧
    (∀ b, rtAttr scopes (.float n d b) = .ok (.float n d b)) ∧
    (∀ s, rtAttr scopes (.string n d s) = .ok (.string n d s)) := by
  refine ⟨?_, ?_, ?_⟩ <;> intro x <;> simp [rtAttr, desAttr, serAttr, bind, Except.bind]

/-- INTS / FLOATS / STRINGS attributes round-trip exactly -/
theorem C02_attr_list (scopes : Scopes) (n d : String) :
    (∀ xs, rtAttr scopes (.ints n d xs) = .ok (.ints n d xs)) ∧
    (∀ xs, rtAttr scopes (.floats n d xs) = .ok (.floats n d xs)) ∧
    (∀ xs, xs.all bstrIsUtf8 = true → rtAttr scopes (.strings n d xs) = .ok (.strings n d xs)) := by
  refine ⟨?_, ?_, ?_⟩
  · intro xs; simp [rtAttr, desAttr, serAttr, bind, Except.bind]
  · intro xs; simp [rtAttr, desAttr, serAttr, bind, Except.bind]
  · intro xs h
    obtain ⟨ys, h1, h2⟩ := desBStrs_utf8 xs h
    simp [rtAttr, desAttr, serAttr, bind, Except.bind, h1, h2]

/-- TENSOR / TENSORS attributes: every tensor round-trips (see `C02_tensor_*`) -/
theorem C02_attr_tensor (scopes : Scopes) (n d : String) :
    (∀ t, wfTensor t = true → rtAttr scopes (.tensor n d t) = .ok (.tensor n d (normTensor t))) ∧
    (∀ ts, ts.all wfTensor = true →
      rtAttr scopes (.tensors n d ts) = .ok (.tensors n d (ts.map normTensor))) := by
  refine ⟨?_, ?_⟩
  · intro t h
    obtain ⟨x, g1, g2, _⟩ := tensor_roundtrip t h
    simp [rtAttr, desAttr, serAttr, bind, Except.bind, g1, g2]
  · intro ts h
    obtain ⟨xs, h1, h2⟩ := desTensors_roundtrip ts h
    simp [rtAttr, desAttr, serAttr, bind, Except.bind, h1, h2]

/-- TYPE_PROTO / TYPE_PROTOS attributes round-trip exactly -/
theorem C02_attr_type (scopes : Scopes) (n d : String) :
    (∀ tp, wfType tp = true → rtAttr scopes (.typeProto n d tp) = .ok (.typeProto n d tp)) ∧
    (∀ tps, tps.all wfType = true → rtAttr scopes (.typeProtos n d tps) = .ok (.typeProtos n d tps)) := by
  refine ⟨?_, ?_⟩
  · intro tp h
    obtain ⟨ty, sh, g1, g2⟩ := C02_type tp h
    simp [rtAttr, desAttr, serAttr, bind, Except.bind, g1, g2]
  · intro tps h
    obtain ⟨xs, h1, h2⟩ := desTypeAndShapes_roundtrip tps h
    simp [rtAttr, desAttr, serAttr, bind, Except.bind, h1, h2]

/-- reference attributes (name, referenced name, declared type, doc string) round-trip exactly -/
theorem C02_attr_ref (scopes : Scopes) (n d r : String) (t : Int) (h : 0 ≤ t ∧ t ≤ 14) :
    rtAttr scopes (.ref n d r t) = .ok (.ref n d r t) := by
  simp [rtAttr, desAttr, serAttr, bind, Except.bind, h]

/-! ## stage B -/

/-- every attribute, including GRAPH / GRAPHS attributes whose subgraphs (nested to any depth)
capture values of the enclosing scopes `scopes`: the round trip is the canonical form -/
theorem C02_attr (scopes : Scopes) (a : AttrP) (h : wfAttr scopes a = true) :
    rtAttr scopes a = .ok (normAttr a) := by
  obtain ⟨x, h1, h2, _⟩ := attr_rt scopes none a h (Or.inl rfl)
  simp [rtAttr, h1, h2, bind, Except.bind]

/-- a node inside the scope whose table is `tbl` (enclosing scopes `outer`): inputs resolve to the
declared values and serialize back to the same names, outputs likewise (trailing unnamed outputs
trimmed), every attribute and subgraph, metadata, multi-device configuration round-trip; the table
is not changed (no placeholder is created). -/
theorem C02_node (outer : Scopes) (vis : List ValueInfoP) (q : List AnnotP) (ver : Option Int)
    (tbl : List IRValue) (n : NodeP) (h : wfNode (tableNames tbl :: outer) n = true)
    (hver : verAllows ver = true ∨ nodeHasDevCfg n = false) :
    ∃ x, desNode outer vis q tbl n = .ok (x, tbl) ∧
      serNode (tableNames tbl :: outer) ver x = .ok (normNode n) := by
  obtain ⟨x, h1, h2, _⟩ := node_rt outer vis q ver tbl n h hver
  exact ⟨x, h1, h2⟩

/-- a graph in any scope chain `outer` (so: any subgraph, at any nesting depth, capturing outer
values): `serialize (deserialize g) = norm g` -/
theorem C02_graph (outer : Scopes) (ver : Option Int) (g : GraphP) (h : wfGraph outer g = true)
    (hver : verAllows ver = true ∨ graphHasDevCfg g = false) :
    ∃ x, desGraph outer g = .ok x ∧ serGraph outer ver x = .ok (normGraph g) :=
  graph_rt outer ver g h hver

/-- non-vacuity: a graph with an input, an initializer that is also an input, an initializer with
value_info, a quantization annotation, metadata, and an `If`-like node whose `then_branch` subgraph
captures the outer value `x`, uses an outer initializer, carries a reference attribute and a
multi-device configuration, returns an outer value and passes its own input `p` through with an
output entry that differs from the input entry (see `examplePassThrough`). -/
def exampleGraph : GraphP :=
  .mk "main" "doc"
    [ .mk ["x", "w", ""] ["y", ""] "n0" "If" "ai.onnx" "" "" 
        [ .graph "then_branch" ""
            (.mk "then" "" 
              [ .mk ["x", "b"] ["t"] "n1" "Add" "" "ov" "d"
                  [.ref "alpha" "" "alpha_outer" 1, .ints "axes" "" [0, -1]]
                  [⟨"k", "v"⟩]
                  [⟨"cfg0", [⟨"x", [0, 1], [⟨0, [0, 1]⟩], [⟨0, [⟨.value 2, 2⟩]⟩]⟩], some 1⟩] ]
              [] [⟨"p", .tensor (some 9) (some []) "", "", [⟨"m", "1"⟩]⟩]
              [⟨"t", .tensor (some 1) none "", "", []⟩, ⟨"x", .unset "", "", []⟩,
               ⟨"p", .tensor (some 9) (some [⟨.value 1, ""⟩]) "", "out doc", [⟨"o", "3"⟩, ⟨"m", "2"⟩]⟩] [] [] []),
          .int "flag" "" 1 ]
        [⟨"b", "2"⟩, ⟨"a", "1"⟩] [] ]
    [ { emptyTensorP with name := "w", dataType := 1, dims := [2], floatData := [0, 1065353216] },
      { emptyTensorP with name := "b", dataType := 7, dims := [], rawData := some "0100000000000000" } ]
    [ ⟨"x", .tensor (some 1) (some [⟨.param "N", ""⟩, ⟨.value 2, "C"⟩]) "", "", []⟩,
      ⟨"w", .tensor (some 1) (some [⟨.value 2, ""⟩]) "", "", []⟩ ]
    [ ⟨"y", .sequence (.tensor (some 1) (some []) "") "SEQ", "out", [⟨"m", "1"⟩]⟩ ]
    [ ⟨"b", .tensor (some 7) (some []) "", "", []⟩, ⟨"unreferenced", .tensor (some 1) none "", "", []⟩ ]
    [ ⟨"x", [⟨"SCALE_TENSOR", "s"⟩]⟩ ]
    [⟨"z", "1"⟩, ⟨"a", "2"⟩]

example : wfGraph [] exampleGraph = true := by decide

/-- the documented normalisation "one Value carries one type": a value that is both a graph input
and a graph output has ONE type / shape / doc string / metadata dict in the IR, so the two proto
entries are merged: the output entry's type, shape and doc win, the metadata dicts are united
(output entry wins per key) — and BOTH entries read that afterwards (`mergeVI`). -/
def examplePassThrough : GraphP :=
  .mk "g" "" [] []
    [ ⟨"x", .tensor (some 1) (some [⟨.param "N", ""⟩]) "", "in doc", [⟨"k", "i"⟩, ⟨"a", "1"⟩]⟩ ]
    [ ⟨"x", .tensor (some 1) (some [⟨.param "M", ""⟩]) "", "out doc", [⟨"k", "o"⟩, ⟨"b", "2"⟩]⟩ ]
    [] [] []

example : wfGraph [] examplePassThrough = true := by decide

example : (normGraph examplePassThrough).inputs
    = [ ⟨"x", .tensor (some 1) (some [⟨.param "M", ""⟩]) "", "out doc",
          [⟨"a", "1"⟩, ⟨"b", "2"⟩, ⟨"k", "o"⟩]⟩ ]
    ∧ (normGraph examplePassThrough).outputs = (normGraph examplePassThrough).inputs := by decide

/-- a model-local function (with overload, attribute declarations and defaults, reference
attributes in its nodes, value_info for inputs and intermediate values from IR version 10 on):
`serialize (deserialize f) = norm f` -/
theorem C02_function (ver : Int) (f : FunctionP) (h : wfFunction ver f = true)
    (hver : 11 ≤ ver ∨ nodesHaveDevCfg f.nodes = false) :
    ∃ x, desFunction f = .ok x ∧
      serFunction (some ver) (decide (ver ≥ 10)) x = .ok (normFunction (decide (ver ≥ 10)) f) := by
  obtain ⟨x, h1, h2, _⟩ := function_rt ver f h hver
  exact ⟨x, h1, h2⟩

/-- a whole model, any IR version: `WFproto m -> serialize (deserialize m) = norm m`.
(`wfModel` contains the IR-version gates: multi-device fields only from IR 11, function
value_info only from IR 10.) -/
theorem C02_model (m : ModelP) (h : wfModel m = true) :
    ∃ x, desModel m = .ok x ∧ serModel x = .ok (normModel m) :=
  model_rt m h

/-- the same in the form of the property statement: `norm (serialize (deserialize m)) = norm m`
(`norm` is idempotent on well-formed models, `normModel_idem`) -/
theorem C02_model_norm (m : ModelP) (h : wfModel m = true) :
    ∃ x y, desModel m = .ok x ∧ serModel x = .ok y ∧ normModel y = normModel m := by
  obtain ⟨x, h1, h2⟩ := model_rt m h
  exact ⟨x, normModel m, h1, h2, normModel_idem m h⟩

/-- `norm` is a canonical form: applying it twice changes nothing (graphs in any scope chain) -/
theorem C02_norm_idempotent (outer : Scopes) (g : GraphP) (h : wfGraph outer g = true) :
    normGraph (normGraph g) = normGraph g :=
  normGraph_idem outer g h

/-- quantization annotations are a map keyed by tensor name (serde.py does not keep their order):
after the round trip every annotation of the input is present exactly once (a permutation of the
input's annotations, parameter maps sorted), and tensor names stay pairwise distinct — none lost,
none duplicated.  For graphs in any scope chain. -/
theorem C02_annotations (outer : Scopes) (ver : Option Int) (g : GraphP) (h : wfGraph outer g = true)
    (hver : verAllows ver = true ∨ graphHasDevCfg g = false) :
    ∃ x y, desGraph outer g = .ok x ∧ serGraph outer ver x = .ok y ∧
      y.quant.Perm (g.quant.map normAnnot) ∧ (y.quant.map (·.tensorName)).Nodup := by
  obtain ⟨x, h1, h2⟩ := graph_rt outer ver g h hver
  have hp := normGraph_quant outer g h
  refine ⟨x, normGraph g, h1, h2, hp, ?_⟩
  have hnd : (g.quant.map (·.tensorName)).Nodup := by
    cases g with
    | mk name doc nodes inits inputs outputs vis quant md =>
      exact (graphWF_of_wf outer name doc nodes inits inputs outputs vis quant md h).1.nodupQuant
  have : ((g.quant.map normAnnot).map (·.tensorName)) = g.quant.map (·.tensorName) := by
    simp [List.map_map, Function.comp_def, normAnnot]
  exact (List.Perm.nodup_iff (hp.map _)).2 (this ▸ hnd)

/-- no name is lost or invented: the value names (graph inputs, initializers, node inputs and
outputs, graph outputs, at every nesting depth, and of every function), the node names and the
function identifiers of `serialize (deserialize m)` are those of `m`, in the same order (hence as
multisets). -/
theorem C02_no_loss_names (m : ModelP) (h : wfModel m = true) :
    ∃ x y, desModel m = .ok x ∧ serModel x = .ok y ∧
      modelValueNames y = modelValueNames m ∧ modelNodeNames y = modelNodeNames m ∧
      modelFunctionIds y = modelFunctionIds m := by
  obtain ⟨x, h1, h2⟩ := model_rt m h
  obtain ⟨n1, n2, n3⟩ := normModel_names m
  exact ⟨x, normModel m, h1, h2, n1, n2, n3⟩

/-! ## stage C: field by field, and the stand-alone entry points -/

/-- the model-level fields (IR version, producer, domain, model version, doc string, opset imports,
device configurations) are equal, the metadata entries are the same entries; every function is
kept (`FnKeeps`: identifier, doc string, inputs, outputs, attribute declarations and defaults,
opset imports, metadata, value_info); below IR version 10 the experimental `domain::name/value`
entries of function values are kept -/
theorem C02_keeps_model (m : ModelP) (h : wfModel m = true) :
    ∃ x q, desModel m = .ok x ∧ serModel x = .ok q ∧ ModelKeeps q m := by
  obtain ⟨x, q, h1, h2, h3, _, _⟩ := model_keeps m h
  exact ⟨x, q, h1, h2, h3⟩

/-- every node of the model — main graph, function bodies, subgraphs at any depth — is kept, in
order (`NodeKeeps`: name, operator identifier up to `normDomain`, overload, doc string, inputs,
outputs up to `trimTrailingEmpty`, the attribute list with every scalar / list / type / reference
value, multi-device configurations; metadata entries; every tensor attribute by `TensorKeeps`) -/
theorem C02_keeps_nodes (m : ModelP) (h : wfModel m = true) :
    ∃ x q, desModel m = .ok x ∧ serModel x = .ok q ∧
      Pointwise NodeKeeps (modelNodes q) (modelNodes m) := by
  obtain ⟨x, q, h1, h2, _, h3, _⟩ := model_keeps m h
  exact ⟨x, q, h1, h2, h3⟩

/-- every graph of the model — the main graph and every subgraph at any depth — is kept, in order
(`GraphKeeps`: name, doc string, metadata entries; every initializer by `TensorKeeps`: payload and
storage fields equal; every input / output entry: type with element type, shape and denotations, doc
string, metadata — for a pass-through value both entries read `mergeVI input output`; the
value_info of every intermediate value that carries information; the value_info of every
initializer, completed from its tensor by `fillFromTensor`; every quantization annotation) -/
theorem C02_keeps_values (m : ModelP) (h : wfModel m = true) :
    ∃ x q, desModel m = .ok x ∧ serModel x = .ok q ∧
      Pointwise GraphKeeps (modelGraphs q) (modelGraphs m) := by
  obtain ⟨x, q, h1, h2, _, _, h3⟩ := model_keeps m h
  exact ⟨x, q, h1, h2, h3⟩

/-- `from_proto(NodeProto)` / `to_proto`: a stand-alone node (free inputs become placeholder values,
its subgraphs may capture them) round-trips to its canonical form -/
theorem C02_node_alone (n : NodeP) (h : wfNodeAlone n = true) :
    ∃ x tbl, desNodeAlone n = .ok (x, tbl) ∧ serNode [tableNames tbl] none x = .ok (normNode n) := by
  obtain ⟨x, tbl, h1, _, h2⟩ := node_alone_rt n h
  exact ⟨x, tbl, h1, h2⟩

/-- `from_proto(FunctionProto)` / `to_proto`: a stand-alone function is serialized without a
`model_ir_version` and with its value_info -/
theorem C02_function_alone (f : FunctionP) (h : wfFunctionAlone f = true) :
    ∃ x, desFunction f = .ok x ∧ serFunction none true x = .ok (normFunction true f) := by
  obtain ⟨x, h1, h2, _⟩ := function_rt_gen none 10 f h (Or.inl rfl)
  exact ⟨x, h1, by simpa using h2⟩

example : wfNodeAlone (.mk ["a", "", "b", "a"] ["y", ""] "n" "If" "" "" ""
    [.graph "then_branch" "" (.mk "g" "" [.mk ["a", "y"] ["t"] "" "Add" "" "" "" [] [] []] [] []
      [⟨"t", .unset "", "", []⟩] [] [] [])] [] []) = true := by decide

/-- non-vacuity of `wfModel`: IR version 11, the graph above (nested subgraph capturing an outer
value), two functions `custom::f` that differ only in their overload, the second with a reference
attribute, value_info and a node calling the first overload. -/
def exampleModel : ModelP :=
  { irVersion := 11, producerName := "p", producerVersion := "", domain := "", modelVersion := 3,
    doc := "m", opsetImport := [⟨"", 18⟩, ⟨"custom", 1⟩], metadata := [⟨"k", "v"⟩],
    graph := exampleGraph,
    functions :=
      [ { name := "f", domain := "custom", overload := "", doc := "", inputs := ["a"], outputs := ["r"],
          attrNames := ["alpha"], attrProtos := [.int "beta" "" 2],
          nodes := [.mk ["a"] ["r"] "" "Relu" "" "" "" [] [] []],
          opsetImport := [⟨"", 18⟩], valueInfo := [], metadata := [] },
        { name := "f", domain := "custom", overload := "ov1", doc := "d", inputs := ["a", "b"],
          outputs := ["r"], attrNames := ["alpha"], attrProtos := [],
          nodes := [ .mk ["a", "b"] ["t", ""] "n" "f" "custom" "" "" [.ref "alpha" "" "alpha" 1] [] [],
                     .mk ["t"] ["r"] "" "Identity" "" "" "" [] [] [] ],
          opsetImport := [⟨"", 18⟩, ⟨"custom", 1⟩],
          valueInfo := [⟨"a", .tensor (some 1) (some [⟨.param "N", ""⟩]) "", "", []⟩,
                        ⟨"t", .tensor (some 1) none "", "doc", [⟨"m", "1"⟩]⟩],
          metadata := [⟨"z", "1"⟩] } ],
    configuration := [⟨"cfg0", 2, ["CPU", "GPU"]⟩] }

example : wfModel exampleModel = true := by decide

/-- non-vacuity of the IR < 10 branch: function value info in the experimental
`domain::name/value` encoding (value name containing "/"), and a graph whose output is an
initializer -/
def exampleModelIR9 : ModelP :=
  { irVersion := 9, producerName := "", producerVersion := "", domain := "", modelVersion := 0,
    doc := "", opsetImport := [⟨"", 17⟩, ⟨"pkg", 1⟩], metadata := [],
    graph := .mk "g" ""
      [.mk ["x"] ["y"] "call" "fn" "pkg" "" "" [] [] []]
      [{ emptyTensorP with name := "c", dataType := 1, dims := [1], floatData := [0] }]
      [⟨"x", .tensor (some 1) (some [⟨.value 1, ""⟩]) "", "", []⟩]
      [⟨"y", .tensor (some 1) none "", "", []⟩, ⟨"c", .tensor (some 1) (some [⟨.param "N", ""⟩]) "", "k", []⟩]
      [⟨"pkg::fn//blk/out", .tensor (some 1) (some []) "", "", [⟨"b", "2"⟩, ⟨"a", "1"⟩]⟩,
       ⟨"pkg::fn/a", .tensor (some 1) none "", "", []⟩,
       ⟨"pkg::nothing/x", .tensor (some 1) none "", "", []⟩]
      [] [],
    functions :=
      [ { name := "fn", domain := "pkg", overload := "", doc := "", inputs := ["a"], outputs := ["/blk/out"],
          attrNames := [], attrProtos := [],
          nodes := [.mk ["a"] ["/blk/out"] "" "Relu" "" "" "" [] [] []],
          opsetImport := [⟨"", 17⟩], valueInfo := [], metadata := [] } ],
    configuration := [] }

example : wfModel exampleModelIR9 = true := by decide

end IrVerif.Serde

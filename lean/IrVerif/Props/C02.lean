import IrVerif.Lemmas.SerdeLeaf
/-!
C02 — ONNX proto -> IR -> proto is lossless (DESIGN.md section 5, C02).

The theorems are about the model `IrVerif/Model/Serde.lean` (a transcription of
`src/onnx_ir/serde.py`, tied to it by `harness/c02.py` on every run).  `des*` = deserialize,
`ser*` = serialize, `norm*` = the documented normalisations, `wf*` = the decidable `WFproto`.

Stage A (this part): every leaf message round-trips, for all inputs.
-/
namespace IrVerif.Serde
open IrVerif.Proto

/-- deserialize then serialize an attribute -/
def rtAttr (scopes : Scopes) (a : AttrP) : Except Err AttrP := desAttr scopes a >>= serAttr scopes

/-- a dimension (value / parameter / unknown, with denotation) round-trips exactly -/
theorem C02_dim (d : DimP) : serDim (desDim d) = d := serDim_desDim d

/-- a shape of any rank round-trips exactly -/
theorem C02_shape (s : ShapeP) : serShape (desShape s) = s := serShape_desShape s

/-- string-string maps (metadata_props, quantization parameter names): the round trip is the
sorted map; sorting is idempotent and, for distinct keys, a permutation (no entry lost, duplicated
or altered) -/
theorem C02_maps (es : List Entry) :
    sortEntries (dictOfEntries es) = normEntries es
    ∧ normEntries (normEntries es) = normEntries es
    ∧ (wfEntries es = true → (normEntries es).Perm es) :=
  ⟨rfl, normEntries_idem es, perm_normEntries⟩

/-- a TypeProto of arbitrary nesting round-trips exactly: element types, denotations at every
level, and the shape, which lands on the leaf tensor type again -/
theorem C02_type (t : TypeP) (h : wfType t = true) :
    ∃ ty sh, desTypeAndShape t = .ok (ty, sh) ∧ serTypeAndShape ty sh = t := by
  obtain ⟨ty, sh, h1, h2, h3⟩ := type_roundtrip t h
  exact ⟨ty, sh, by simp [desTypeAndShape, h1, h2, bind, Except.bind], h3⟩

example : wfType (.optional (.sequence (.tensor (some 1) (some [⟨.param "N", "DATA_BATCH"⟩, ⟨.unset, ""⟩]) "t") "s") "o") = true := by
  decide

/-- a ValueInfoProto round-trips up to the order of its metadata entries -/
theorem C02_value_info (vi : ValueInfoP) (h : wfVI vi = true) :
    ∃ v, applyInfo (IRValue.blank vi.name) vi = .ok v ∧ serValue v = normValueInfo vi := by
  simp only [wfVI, Bool.and_eq_true] at h
  obtain ⟨ty, sh, h3, _, hok⟩ := applyInfo_ok (IRValue.blank vi.name) vi h.1
  exact ⟨_, hok, serValue_of_info vi ty sh [] none h3⟩

/-- proto-backed tensors (every element type and storage field, any payload): the whole TensorProto
is kept; only the metadata entries are reordered.  Holds for EVERY such proto. -/
theorem C02_tensor_proto_backed (p : TensorP) (hloc : p.dataLocation ≠ 1) (hs : p.dataType ≠ 8) :
    ∃ t, desTensor p = .ok t ∧ serTensor t = normTensor p :=
  tensor_roundtrip_proto_backed p hloc hs

/-- string tensors -/
theorem C02_tensor_string (p : TensorP) (h : wfTensor p = true) (hloc : p.dataLocation ≠ 1)
    (_hs : p.dataType = 8) : ∃ t, desTensor p = .ok t ∧ serTensor t = normTensor p := by
  obtain ⟨t, h1, h2, _⟩ := tensor_roundtrip p h
  exact ⟨t, h1, h2⟩

/-- external tensors: location, offset, length and checksum entries are all kept -/
theorem C02_tensor_external (p : TensorP) (h : wfTensor p = true) (_hloc : p.dataLocation = 1) :
    ∃ t, desTensor p = .ok t ∧ serTensor t = normTensor p := by
  obtain ⟨t, h1, h2, _⟩ := tensor_roundtrip p h
  exact ⟨t, h1, h2⟩

example : wfTensor
    { emptyTensorP with
      dataLocation := 1, dataType := 1,
      externalData := [⟨"checksum", "ab"⟩, ⟨"location", "w.bin"⟩, ⟨"length", "16"⟩, ⟨"offset", "4096"⟩] }
    = true := by
  decide

theorem shardedDim_roundtrip (d : ShardedDimP) : serShardedDim (desShardedDim d) = d := by
  cases d with
  | mk axis simple =>
    simp only [serShardedDim, desShardedDim, List.map_map, ShardedDimP.mk.injEq, true_and]
    have : (serSimpleShard ∘ desSimpleShard) = id := by
      funext s; cases s; simp [serSimpleShard, desSimpleShard, serDimVal_desDimVal]
    rw [this, List.map_id]

theorem shardingSpecs_roundtrip (scopes : Scopes) (ss : List ShardingSpecP)
    (h : ss.all wfShardingSpec = true) :
    serShardingSpecs scopes (ss.map (desShardingSpec scopes)) = .ok ss := by
  induction ss with
  | nil => rfl
  | cons s ss ih =>
    simp only [List.all_cons, Bool.and_eq_true] at h
    have hs : serShardingSpec scopes (desShardingSpec scopes s) = .ok s := by
      have hne : s.tensorName.isEmpty = false := by simpa [wfShardingSpec] using h.1
      have hdims : (s.dims.map desShardedDim).map serShardedDim = s.dims := by
        simp [List.map_map, Function.comp_def, shardedDim_roundtrip]
      cases s with
      | mk tn dev gm dims =>
        simp only at hne hdims
        simp only [desShardingSpec, hne, Bool.false_eq_true, if_false]
        cases hr : resolve scopes tn with
        | some r => simp [serShardingSpec, resolve_refName hr, hne, hdims]
        | none => simp [serShardingSpec, hne, hdims]
    simp only [List.map_cons, serShardingSpecs, hs, ih h.2, bind, Except.bind]

/-- device configurations: model-level configurations round-trip exactly; node-level
configurations (configuration id, sharding specs with tensor references, device groups, sharded
dimensions, pipeline stage) round-trip exactly whenever ids and tensor names are non-empty -/
theorem C02_devcfg :
    (∀ c : DevCfgP, serModelCfg (desModelCfg c) = c) ∧
    (∀ (scopes : Scopes) (cs : List NodeDevCfgP), cs.all wfNodeDevCfg = true →
      serNodeDevCfgs scopes (cs.map (desNodeDevCfg scopes)) = .ok cs) := by
  refine ⟨fun c => by cases c; rfl, ?_⟩
  intro scopes cs h
  induction cs with
  | nil => rfl
  | cons c cs ih =>
    simp only [List.all_cons, Bool.and_eq_true] at h
    have hc : serNodeDevCfg scopes (desNodeDevCfg scopes c) = .ok c := by
      simp only [wfNodeDevCfg, Bool.and_eq_true, Bool.not_eq_true'] at h
      cases c with
      | mk id specs stage =>
        simp only at h
        simp [desNodeDevCfg, serNodeDevCfg, h.1.1, shardingSpecs_roundtrip scopes specs h.1.2,
          bind, Except.bind]
    simp only [List.map_cons, serNodeDevCfgs, hc, ih h.2, bind, Except.bind]

/-- INT / FLOAT / STRING attributes (name, doc string, value; a string that is not UTF-8 is kept
as bytes) round-trip exactly -/
theorem C02_attr_scalar (scopes : Scopes) (n d : String) :
    (∀ i, rtAttr scopes (.int n d i) = .ok (.int n d i)) ∧
    (∀ b, rtAttr scopes (.float n d b) = .ok (.float n d b)) ∧
    (∀ s, rtAttr scopes (.string n d s) = .ok (.string n d s)) := by
  refine ⟨?_, ?_, ?_⟩ <;> intro x <;> simp [rtAttr, desAttr, serAttr, bind, Except.bind]

theorem desBStrs_utf8 (xs : List BStr) (h : xs.all bstrIsUtf8 = true) :
    ∃ ys, desBStrs xs = .ok ys ∧ serBStrs ys = xs := by
  induction xs with
  | nil => exact ⟨[], rfl, rfl⟩
  | cons x xs ih =>
    simp only [List.all_cons, Bool.and_eq_true] at h
    obtain ⟨ys, h1, h2⟩ := ih h.2
    cases x with
    | utf8 s => exact ⟨s :: ys, by simp [desBStrs, h1, bind, Except.bind], by simp [serBStrs] at h2 ⊢; exact h2⟩
    | raw b => simp [bstrIsUtf8] at h

/-- INTS / FLOATS / STRINGS attributes round-trip exactly -/
theorem C02_attr_list (scopes : Scopes) (n d : String) :
    (∀ xs, rtAttr scopes (.ints n d xs) = .ok (.ints n d xs)) ∧
    (∀ xs, rtAttr scopes (.floats n d xs) = .ok (.floats n d xs)) ∧
    (∀ xs, xs.all bstrIsUtf8 = true → rtAttr scopes (.strings n d xs) = .ok (.strings n d xs)) := by
  refine ⟨?_, ?_, ?_⟩
  · intro xs; simp [rtAttr, desAttr, serAttr, bind, Except.bind]
  · intro xs; simp [rtAttr, desAttr, serAttr, bind, Except.bind]
  · intro xs h
    obtain ⟨ys, h1, h2⟩ := desBStrs_utf8 xs h
    simp [rtAttr, desAttr, serAttr, bind, Except.bind, h1, h2]

theorem desTensors_roundtrip (ts : List TensorP) (h : ts.all wfTensor = true) :
    ∃ xs, desTensors ts = .ok xs ∧ xs.map serTensor = ts.map normTensor := by
  induction ts with
  | nil => exact ⟨[], rfl, rfl⟩
  | cons t ts ih =>
    simp only [List.all_cons, Bool.and_eq_true] at h
    obtain ⟨xs, h1, h2⟩ := ih h.2
    obtain ⟨x, g1, g2, _⟩ := tensor_roundtrip t h.1
    exact ⟨x :: xs, by simp [desTensors, g1, h1, bind, Except.bind], by simp [g2, h2]⟩

/-- TENSOR / TENSORS attributes: every tensor round-trips (see `C02_tensor_*`) -/
theorem C02_attr_tensor (scopes : Scopes) (n d : String) :
    (∀ t, wfTensor t = true → rtAttr scopes (.tensor n d t) = .ok (.tensor n d (normTensor t))) ∧
    (∀ ts, ts.all wfTensor = true →
      rtAttr scopes (.tensors n d ts) = .ok (.tensors n d (ts.map normTensor))) := by
  refine ⟨?_, ?_⟩
  · intro t h
    obtain ⟨x, g1, g2, _⟩ := tensor_roundtrip t h
    simp [rtAttr, desAttr, serAttr, bind, Except.bind, g1, g2]
  · intro ts h
    obtain ⟨xs, h1, h2⟩ := desTensors_roundtrip ts h
    simp [rtAttr, desAttr, serAttr, bind, Except.bind, h1, h2]

theorem desTypeAndShapes_roundtrip (tps : List TypeP) (h : tps.all wfType = true) :
    ∃ xs, desTypeAndShapes tps = .ok xs ∧ serTypeAndShapes xs = tps := by
  induction tps with
  | nil => exact ⟨[], rfl, rfl⟩
  | cons t ts ih =>
    simp only [List.all_cons, Bool.and_eq_true] at h
    obtain ⟨xs, h1, h2⟩ := ih h.2
    obtain ⟨ty, sh, g1, g2⟩ := C02_type t h.1
    refine ⟨(ty, sh) :: xs, by simp [desTypeAndShapes, g1, h1, bind, Except.bind], ?_⟩
    simp only [serTypeAndShapes, List.map_cons, g2] at h2 ⊢
    rw [h2]

/-- TYPE_PROTO / TYPE_PROTOS attributes round-trip exactly -/
theorem C02_attr_type (scopes : Scopes) (n d : String) :
    (∀ tp, wfType tp = true → rtAttr scopes (.typeProto n d tp) = .ok (.typeProto n d tp)) ∧
    (∀ tps, tps.all wfType = true → rtAttr scopes (.typeProtos n d tps) = .ok (.typeProtos n d tps)) := by
  refine ⟨?_, ?_⟩
  · intro tp h
    obtain ⟨ty, sh, g1, g2⟩ := C02_type tp h
    simp [rtAttr, desAttr, serAttr, bind, Except.bind, g1, g2]
  · intro tps h
    obtain ⟨xs, h1, h2⟩ := desTypeAndShapes_roundtrip tps h
    simp [rtAttr, desAttr, serAttr, bind, Except.bind, h1, h2]

/-- reference attributes (name, referenced name, declared type, doc string) round-trip exactly -/
theorem C02_attr_ref (scopes : Scopes) (n d r : String) (t : Int) (h : 0 ≤ t ∧ t ≤ 14) :
    rtAttr scopes (.ref n d r t) = .ok (.ref n d r t) := by
  simp [rtAttr, desAttr, serAttr, bind, Except.bind, h]

end IrVerif.Serde

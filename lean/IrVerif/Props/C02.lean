import IrVerif.Lemmas.SerdeFields
import IrVerif.Lemmas.SerdeWideSub
import IrVerif.Lemmas.SerdeMergeSub
import IrVerif.Lemmas.SerdeOutdupSub
import IrVerif.Lemmas.SerdeScalar
import IrVerif.Lemmas.SerdeIR9
/-!
C02 — ONNX proto -> IR -> proto is lossless (DESIGN.md section 5, C02).

The theorems are about the model `IrVerif/Model/Serde.lean` (a transcription of
`src/onnx_ir/serde.py`, tied to it by `harness/c02.py` on every run).  `des*` = deserialize,
`ser*` = serialize, `norm*` = the documented normalisations (a canonical form), `wf*` = the
decidable `WFproto`.

Stage A: every leaf message round-trips, for all inputs.
Stage B: nodes and graphs with arbitrarily nested subgraphs (values captured from enclosing
scopes), functions and models: `WFproto p -> serialize (deserialize p) = norm p`, and `norm` is
idempotent, hence `WFproto p -> norm (serialize (deserialize p)) = norm p` (`C02_model_norm`).
Stage C: the same read field by field, without `norm`: `C02_keeps_model`, `C02_keeps_nodes`,
`C02_keeps_values` (vocabulary `ModelKeeps`, `FnKeeps`, `NodeKeeps`, `GraphKeeps`, `TensorKeeps`,
`VIKeeps` in `IrVerif/Lemmas/SerdeFields.lean`), and the stand-alone entry points
(`C02_node_alone`, `C02_function_alone`).

Facts that hold by construction of the model (bytes payloads are opaque tokens, floats are bit
patterns, a proto-backed tensor keeps its TensorProto; float32 <-> double conversion and UTF-8
decoding live in the trusted renderer of `harness/c02.py`) are stated below for the reader but are
NOT claimed as property theorems: `dim_by_construction`, `attr_scalar_by_construction`,
`tensor_proto_backed_by_construction`.

Stage D (deepening round; model `IrVerif/Model/SerdeWide.lean`): the widened `WFproto`.  `fold*`
removes from a proto exactly the entries that `deserialize` never reads — repeated `value_info`
names (last wins, E6), `value_info` entries naming a graph input (E2), repeated opset domains (E5),
`external_data` entries that are shadowed or carry an unspecified key (E7).
`C02_fold_unread*`: `deserialize (fold p) = deserialize p` for EVERY proto (no hypothesis);
`C02_model_wide` / `C02_graph_wide` / `C02_function_alone_wide` / `C02_tensor_wide`: the round trip
for `WFprotoW p := WFproto (fold p)` with canonical form `norm (fold p)`; `C02_wide_subsumes`: on the
old `WFproto` the fold is the identity, so these contain `C02_model` etc.; `C02_fold_value_info`,
`C02_fold_external`: what the fold keeps.  `C02_tensor_fields`: every field of a TensorProto, one
by one, for all three tensor classes (`serTensorF` = `serialize_tensor_into` field by field; this
supersedes `tensor_proto_backed_by_construction`).

Stage E: `merge*` (E3): a `value_info` entry naming a graph output that the graph produces is united
into the output entry — the same "one Value carries one entry" normalisation as `mergeVI`
(`C02_merge_output`).  This changes what `deserialize` reads, so
`deserialize (merge p) = deserialize p` is proved for `WFproto (merge p)` (`C02_merge_deserialize*`).
`canon p := merge (fold p)`; `C02_model_canon` / `C02_graph_canon` / `C02_function_alone_canon`:
`WFproto (canon p) -> serialize (deserialize p) = norm (canon p)`; `C02_canon_subsumes`: these
contain both the old and the stage-D theorems.

Stage F (second deepening round): E4, several graph output entries with one name.  `WFproto` itself
(`consOutputs` in `wfGraph`) now admits entries with one name when they are identical (distinct names
is the special case, `C02_wf_outputs`; every theorem above therefore also covers such graphs).
`outdup*` replaces every entry of a declared name by the union of the entries of that name
(`C02_outdup_output`: type / shape / doc string of the last one, metadata united, later entry wins) —
what `_deserialize_graph` does to the one `Value` they all address.  `C02_outdup_deserialize*`:
`deserialize (outdup p) = deserialize p` for `WFproto (merge (outdup p))`, any nesting depth;
`canonD p := merge (outdup (fold p))`; `C02_model_outdup` / `C02_graph_outdup` /
`C02_function_alone_outdup` / `C02_node_alone_wide` / `C02_node_wide` / `C02_attr_wide`:
`WFproto (canonD p) -> serialize (deserialize p) = norm (canonD p)`; `C02_outdup_subsumes`: on the
domains of stage E / B `canonD` is `canon` / the identity.
E8 (IR < 10, a value of the main graph named like the experimental entry of a function value, D320):
`C02_model_ir9` / `C02_model_ir9_wide` / `C02_model_ir9_outdup` drop the hypothesis "no such name" of
`wfModel` (`wfModel9`, `normModel9`: reserved names); `C02_ir9_subsumes`.

Stage G (second deepening round; model `IrVerif/Model/SerdeScalar.lean`): dimensions and INT / FLOAT / STRING
attributes as typed fields - int64 ranges with the checked serializers raising exactly outside them, float32
bit patterns with the widening / narrowing conversions, bytes with CPython's strict UTF-8 codec
(`C02_dim_fields`, `C02_shape_fields`, `C02_attr_scalar_fields`, `C02_float32_*`, `C02_utf8_roundtrip`);
supersedes `dim_by_construction` and `attr_scalar_by_construction`.
-/
namespace IrVerif.Serde
open IrVerif.Proto

/-- deserialize then serialize an attribute -/
def rtAttr (scopes : Scopes) (a : AttrP) : Except Err AttrP := desAttr scopes a >>= serAttr scopes none

/-! ## stage A -/

/-- (by construction, not claimed) a dimension round-trips exactly -/
theorem dim_by_construction (d : DimP) : serDim (desDim d) = d := serDim_desDim d

/-- a shape of any rank round-trips exactly -/
theorem C02_shape (s : ShapeP) : serShape (desShape s) = s := serShape_desShape s

/-- string-string maps (metadata_props, quantization parameter names): the round trip
`sortEntries (dictOfEntries es)` (a dict, written back sorted by key) is idempotent and, for distinct
keys, a permutation of the entries (no entry lost, duplicated or altered) -/
theorem C02_maps (es : List Entry) :
    sortEntries (dictOfEntries (sortEntries (dictOfEntries es))) = sortEntries (dictOfEntries es)
    ∧ (wfEntries es = true → (sortEntries (dictOfEntries es)).Perm es) :=
  ⟨normEntries_idem es, perm_normEntries⟩

/-- a TypeProto of arbitrary nesting round-trips exactly: element types, denotations at every
level, and the shape, which lands on the leaf tensor type again -/
theorem C02_type (t : TypeP) (h : wfType t = true) :
    ∃ ty sh, desTypeAndShape t = .ok (ty, sh) ∧ serTypeAndShape ty sh = t :=
  typeAndShape_roundtrip t h

example : wfType (.optional (.sequence (.tensor (some 1) (some [⟨.param "N", "DATA_BATCH"⟩, ⟨.unset, ""⟩]) "t") "s") "o") = true := by
  decide

/-- a ValueInfoProto round-trips up to the order of its metadata entries -/
theorem C02_value_info (vi : ValueInfoP) (h : wfVI vi = true) :
    ∃ v, applyInfo (IRValue.blank vi.name) vi = .ok v ∧ serValue v = normValueInfo vi := by
  simp only [wfVI, Bool.and_eq_true] at h
  obtain ⟨ty, sh, h3, _, hok⟩ := applyInfo_ok (IRValue.blank vi.name) vi h.1
  exact ⟨_, hok, serValue_of_info vi ty sh [] none h3⟩

/-- (by construction, not claimed) proto-backed tensors: the whole TensorProto is kept; only the
metadata entries are reordered -/
theorem tensor_proto_backed_by_construction (p : TensorP) (hloc : p.dataLocation ≠ 1) (hs : p.dataType ≠ 8) :
    ∃ t, desTensor p = .ok t ∧ serTensor t = normTensor p :=
  tensor_roundtrip_proto_backed p hloc hs

/-- string tensors -/
theorem C02_tensor_string (p : TensorP) (h : wfTensor p = true) (_hloc : p.dataLocation ≠ 1)
    (_hs : p.dataType = 8) : ∃ t, desTensor p = .ok t ∧ serTensor t = normTensor p := by
  obtain ⟨t, h1, h2, _⟩ := tensor_roundtrip p h
  exact ⟨t, h1, h2⟩

/-- external tensors: location, offset, length and checksum entries are all kept -/
theorem C02_tensor_external (p : TensorP) (h : wfTensor p = true) (_hloc : p.dataLocation = 1) :
    ∃ t, desTensor p = .ok t ∧ serTensor t = normTensor p := by
  obtain ⟨t, h1, h2, _⟩ := tensor_roundtrip p h
  exact ⟨t, h1, h2⟩

example : wfTensor
    { emptyTensorP with
      dataLocation := 1, dataType := 1,
      externalData := [⟨"checksum", "ab"⟩, ⟨"location", "w.bin"⟩, ⟨"length", "16"⟩, ⟨"offset", "4096"⟩] }
    = true := by
  decide

/-- device configurations: model-level configurations round-trip exactly; node-level
configurations (configuration id, sharding specs with tensor references, device groups, sharded
dimensions, pipeline stage) round-trip exactly whenever ids and tensor names are non-empty -/
theorem C02_devcfg :
    (∀ c : DevCfgP, serModelCfg (desModelCfg c) = c) ∧
    (∀ (scopes : Scopes) (cs : List NodeDevCfgP), cs.all wfNodeDevCfg = true →
      serNodeDevCfgs scopes (cs.map (desNodeDevCfg scopes)) = .ok cs) :=
  ⟨fun c => by cases c; rfl, nodeDevCfgs_roundtrip⟩

/-- (by construction, not claimed) INT / FLOAT / STRING attributes round-trip exactly -/
theorem attr_scalar_by_construction (scopes : Scopes) (n d : String) :
    (∀ i, rtAttr scopes (.int n d i) = .ok (.int n d i)) ∧
    (∀ b, rtAttr scopes (.float n d b) = .ok (.float n d b)) ∧
    (∀ s, rtAttr scopes (.string n d s) = .ok (.string n d s)) := by
  refine ⟨?_, ?_, ?_⟩ <;> intro x <;> simp [rtAttr, desAttr, serAttr, bind, Except.bind]

/-- INTS / FLOATS / STRINGS attributes round-trip exactly -/
theorem C02_attr_list (scopes : Scopes) (n d : String) :
    (∀ xs, rtAttr scopes (.ints n d xs) = .ok (.ints n d xs)) ∧
    (∀ xs, rtAttr scopes (.floats n d xs) = .ok (.floats n d xs)) ∧
    (∀ xs, xs.all bstrIsUtf8 = true → rtAttr scopes (.strings n d xs) = .ok (.strings n d xs)) := by
  refine ⟨?_, ?_, ?_⟩
  · intro xs; simp [rtAttr, desAttr, serAttr, bind, Except.bind]
  · intro xs; simp [rtAttr, desAttr, serAttr, bind, Except.bind]
  · intro xs h
    obtain ⟨ys, h1, h2⟩ := desBStrs_utf8 xs h
    simp [rtAttr, desAttr, serAttr, bind, Except.bind, h1, h2]

/-- TENSOR / TENSORS attributes: every tensor round-trips (see `C02_tensor_*`) -/
theorem C02_attr_tensor (scopes : Scopes) (n d : String) :
    (∀ t, wfTensor t = true → rtAttr scopes (.tensor n d t) = .ok (.tensor n d (normTensor t))) ∧
    (∀ ts, ts.all wfTensor = true →
      rtAttr scopes (.tensors n d ts) = .ok (.tensors n d (ts.map normTensor))) := by
  refine ⟨?_, ?_⟩
  · intro t h
    obtain ⟨x, g1, g2, _⟩ := tensor_roundtrip t h
    simp [rtAttr, desAttr, serAttr, bind, Except.bind, g1, g2]
  · intro ts h
    obtain ⟨xs, h1, h2⟩ := desTensors_roundtrip ts h
    simp [rtAttr, desAttr, serAttr, bind, Except.bind, h1, h2]

/-- TYPE_PROTO / TYPE_PROTOS attributes round-trip exactly -/
theorem C02_attr_type (scopes : Scopes) (n d : String) :
    (∀ tp, wfType tp = true → rtAttr scopes (.typeProto n d tp) = .ok (.typeProto n d tp)) ∧
    (∀ tps, tps.all wfType = true → rtAttr scopes (.typeProtos n d tps) = .ok (.typeProtos n d tps)) := by
  refine ⟨?_, ?_⟩
  · intro tp h
    obtain ⟨ty, sh, g1, g2⟩ := C02_type tp h
    simp [rtAttr, desAttr, serAttr, bind, Except.bind, g1, g2]
  · intro tps h
    obtain ⟨xs, h1, h2⟩ := desTypeAndShapes_roundtrip tps h
    simp [rtAttr, desAttr, serAttr, bind, Except.bind, h1, h2]

/-- reference attributes (name, referenced name, declared type, doc string) round-trip exactly -/
theorem C02_attr_ref (scopes : Scopes) (n d r : String) (t : Int) (h : 0 ≤ t ∧ t ≤ 14) :
    rtAttr scopes (.ref n d r t) = .ok (.ref n d r t) := by
  simp [rtAttr, desAttr, serAttr, bind, Except.bind, h]

/-! ## stage B -/

/-- every attribute, including GRAPH / GRAPHS attributes whose subgraphs (nested to any depth)
capture values of the enclosing scopes `scopes`: the round trip is the canonical form -/
theorem C02_attr (scopes : Scopes) (a : AttrP) (h : wfAttr scopes a = true) :
    rtAttr scopes a = .ok (normAttr a) := by
  obtain ⟨x, h1, h2, _⟩ := attr_rt scopes none a h (Or.inl rfl)
  simp [rtAttr, h1, h2, bind, Except.bind]

/-- a node inside the scope whose table is `tbl` (enclosing scopes `outer`): inputs resolve to the
declared values and serialize back to the same names, outputs likewise (trailing unnamed outputs
trimmed), every attribute and subgraph, metadata, multi-device configuration round-trip; the table
is not changed (no placeholder is created). -/
theorem C02_node (outer : Scopes) (vis : List ValueInfoP) (q : List AnnotP) (ver : Option Int)
    (tbl : List IRValue) (n : NodeP) (h : wfNode (tableNames tbl :: outer) n = true)
    (hver : verAllows ver = true ∨ nodeHasDevCfg n = false) :
    ∃ x, desNode outer vis q tbl n = .ok (x, tbl) ∧
      serNode (tableNames tbl :: outer) ver x = .ok (normNode n) := by
  obtain ⟨x, h1, h2, _⟩ := node_rt outer vis q ver tbl n h hver
  exact ⟨x, h1, h2⟩

/-- a graph in any scope chain `outer` (so: any subgraph, at any nesting depth, capturing outer
values): `serialize (deserialize g) = norm g` -/
theorem C02_graph (outer : Scopes) (ver : Option Int) (g : GraphP) (h : wfGraph outer g = true)
    (hver : verAllows ver = true ∨ graphHasDevCfg g = false) :
    ∃ x, desGraph outer g = .ok x ∧ serGraph outer ver x = .ok (normGraph g) :=
  graph_rt outer ver g h hver

/-- non-vacuity: a graph with an input, an initializer that is also an input, an initializer with
value_info, a quantization annotation, metadata, and an `If`-like node whose `then_branch` subgraph
captures the outer value `x`, uses an outer initializer, carries a reference attribute and a
multi-device configuration, returns an outer value and passes its own input `p` through with an
output entry that differs from the input entry (see `examplePassThrough`). -/
def exampleGraph : GraphP :=
  .mk "main" "doc"
    [ .mk ["x", "w", ""] ["y", ""] "n0" "If" "ai.onnx" "" "" 
        [ .graph "then_branch" ""
            (.mk "then" "" 
              [ .mk ["x", "b"] ["t"] "n1" "Add" "" "ov" "d"
                  [.ref "alpha" "" "alpha_outer" 1, .ints "axes" "" [0, -1]]
                  [⟨"k", "v"⟩]
                  [⟨"cfg0", [⟨"x", [0, 1], [⟨0, [0, 1]⟩], [⟨0, [⟨.value 2, 2⟩]⟩]⟩], some 1⟩] ]
              [] [⟨"p", .tensor (some 9) (some []) "", "", [⟨"m", "1"⟩]⟩]
              [⟨"t", .tensor (some 1) none "", "", []⟩, ⟨"x", .unset "", "", []⟩,
               ⟨"p", .tensor (some 9) (some [⟨.value 1, ""⟩]) "", "out doc", [⟨"o", "3"⟩, ⟨"m", "2"⟩]⟩] [] [] []),
          .int "flag" "" 1 ]
        [⟨"b", "2"⟩, ⟨"a", "1"⟩] [] ]
    [ { emptyTensorP with name := "w", dataType := 1, dims := [2], floatData := [0, 1065353216] },
      { emptyTensorP with name := "b", dataType := 7, dims := [], rawData := some "0100000000000000" } ]
    [ ⟨"x", .tensor (some 1) (some [⟨.param "N", ""⟩, ⟨.value 2, "C"⟩]) "", "", []⟩,
      ⟨"w", .tensor (some 1) (some [⟨.value 2, ""⟩]) "", "", []⟩ ]
    [ ⟨"y", .sequence (.tensor (some 1) (some []) "") "SEQ", "out", [⟨"m", "1"⟩]⟩ ]
    [ ⟨"b", .tensor (some 7) (some []) "", "", []⟩, ⟨"unreferenced", .tensor (some 1) none "", "", []⟩ ]
    [ ⟨"x", [⟨"SCALE_TENSOR", "s"⟩]⟩ ]
    [⟨"z", "1"⟩, ⟨"a", "2"⟩]

example : wfGraph [] exampleGraph = true := by decide

/-- the documented normalisation "one Value carries one type": a value that is both a graph input
and a graph output has ONE type / shape / doc string / metadata dict in the IR, so the two proto
entries are merged: the output entry's type, shape and doc win, the metadata dicts are united
(output entry wins per key) — and BOTH entries read that afterwards (`mergeVI`). -/
def examplePassThrough : GraphP :=
  .mk "g" "" [] []
    [ ⟨"x", .tensor (some 1) (some [⟨.param "N", ""⟩]) "", "in doc", [⟨"k", "i"⟩, ⟨"a", "1"⟩]⟩ ]
    [ ⟨"x", .tensor (some 1) (some [⟨.param "M", ""⟩]) "", "out doc", [⟨"k", "o"⟩, ⟨"b", "2"⟩]⟩ ]
    [] [] []

example : wfGraph [] examplePassThrough = true := by decide

example : (normGraph examplePassThrough).inputs
    = [ ⟨"x", .tensor (some 1) (some [⟨.param "M", ""⟩]) "", "out doc",
          [⟨"a", "1"⟩, ⟨"b", "2"⟩, ⟨"k", "o"⟩]⟩ ]
    ∧ (normGraph examplePassThrough).outputs = (normGraph examplePassThrough).inputs := by decide

/-- a model-local function (with overload, attribute declarations and defaults, reference
attributes in its nodes, value_info for inputs and intermediate values from IR version 10 on):
`serialize (deserialize f) = norm f` -/
theorem C02_function (ver : Int) (f : FunctionP) (h : wfFunction ver f = true)
    (hver : 11 ≤ ver ∨ nodesHaveDevCfg f.nodes = false) :
    ∃ x, desFunction f = .ok x ∧
      serFunction (some ver) (decide (ver ≥ 10)) x = .ok (normFunction (decide (ver ≥ 10)) f) := by
  obtain ⟨x, h1, h2, _⟩ := function_rt ver f h hver
  exact ⟨x, h1, h2⟩

/-- a whole model, any IR version: `WFproto m -> serialize (deserialize m) = norm m`.
(`wfModel` contains the IR-version gates: multi-device fields only from IR 11, function
value_info only from IR 10.) -/
theorem C02_model (m : ModelP) (h : wfModel m = true) :
    ∃ x, desModel m = .ok x ∧ serModel x = .ok (normModel m) :=
  model_rt m h

/-- the same in the form of the property statement: `norm (serialize (deserialize m)) = norm m`
(`norm` is idempotent on well-formed models, `normModel_idem`) -/
theorem C02_model_norm (m : ModelP) (h : wfModel m = true) :
    ∃ x y, desModel m = .ok x ∧ serModel x = .ok y ∧ normModel y = normModel m := by
  obtain ⟨x, h1, h2⟩ := model_rt m h
  exact ⟨x, normModel m, h1, h2, normModel_idem m h⟩

/-- `norm` is a canonical form: applying it twice changes nothing (graphs in any scope chain) -/
theorem C02_norm_idempotent (outer : Scopes) (g : GraphP) (h : wfGraph outer g = true) :
    normGraph (normGraph g) = normGraph g :=
  normGraph_idem outer g h

/-- quantization annotations are a map keyed by tensor name (serde.py does not keep their order):
after the round trip every annotation of the input is present exactly once (a permutation of the
input's annotations, parameter maps sorted), and tensor names stay pairwise distinct — none lost,
none duplicated.  For graphs in any scope chain. -/
theorem C02_annotations (outer : Scopes) (ver : Option Int) (g : GraphP) (h : wfGraph outer g = true)
    (hver : verAllows ver = true ∨ graphHasDevCfg g = false) :
    ∃ x y, desGraph outer g = .ok x ∧ serGraph outer ver x = .ok y ∧
      y.quant.Perm (g.quant.map normAnnot) ∧ (y.quant.map (·.tensorName)).Nodup := by
  obtain ⟨x, h1, h2⟩ := graph_rt outer ver g h hver
  have hp := normGraph_quant outer g h
  refine ⟨x, normGraph g, h1, h2, hp, ?_⟩
  have hnd : (g.quant.map (·.tensorName)).Nodup := by
    cases g with
    | mk name doc nodes inits inputs outputs vis quant md =>
      exact (graphWF_of_wf outer name doc nodes inits inputs outputs vis quant md h).1.nodupQuant
  have : ((g.quant.map normAnnot).map (·.tensorName)) = g.quant.map (·.tensorName) := by
    simp [List.map_map, Function.comp_def, normAnnot]
  exact (List.Perm.nodup_iff (hp.map _)).2 (this ▸ hnd)

/-- no name is lost or invented: the value names (graph inputs, initializers, node inputs and
outputs, graph outputs, at every nesting depth, and of every function), the node names and the
function identifiers of `serialize (deserialize m)` are those of `m`, in the same order (hence as
multisets). -/
theorem C02_no_loss_names (m : ModelP) (h : wfModel m = true) :
    ∃ x y, desModel m = .ok x ∧ serModel x = .ok y ∧
      modelValueNames y = modelValueNames m ∧ modelNodeNames y = modelNodeNames m ∧
      modelFunctionIds y = modelFunctionIds m := by
  obtain ⟨x, h1, h2⟩ := model_rt m h
  obtain ⟨n1, n2, n3⟩ := normModel_names m
  exact ⟨x, normModel m, h1, h2, n1, n2, n3⟩

/-! ## stage C: field by field, and the stand-alone entry points -/

/-- the model-level fields (IR version, producer, domain, model version, doc string, opset imports,
device configurations) are equal, the metadata entries are the same entries; every function is
kept (`FnKeeps`: identifier, doc string, inputs, outputs, attribute declarations and defaults,
opset imports, metadata, value_info); below IR version 10 the experimental `domain::name/value`
entries of function values are kept -/
theorem C02_keeps_model (m : ModelP) (h : wfModel m = true) :
    ∃ x q, desModel m = .ok x ∧ serModel x = .ok q ∧ ModelKeeps q m := by
  obtain ⟨x, q, h1, h2, h3, _, _⟩ := model_keeps m h
  exact ⟨x, q, h1, h2, h3⟩

/-- every node of the model — main graph, function bodies, subgraphs at any depth — is kept, in
order (`NodeKeeps`: name, operator identifier up to `normDomain`, overload, doc string, inputs,
outputs up to `trimTrailingEmpty`, the attribute list with every scalar / list / type / reference
value, multi-device configurations; metadata entries; every tensor attribute by `TensorKeeps`) -/
theorem C02_keeps_nodes (m : ModelP) (h : wfModel m = true) :
    ∃ x q, desModel m = .ok x ∧ serModel x = .ok q ∧
      Pointwise NodeKeeps (modelNodes q) (modelNodes m) := by
  obtain ⟨x, q, h1, h2, _, h3, _⟩ := model_keeps m h
  exact ⟨x, q, h1, h2, h3⟩

/-- every graph of the model — the main graph and every subgraph at any depth — is kept, in order
(`GraphKeeps`: name, doc string, metadata entries; every initializer by `TensorKeeps`: payload and
storage fields equal; every input / output entry: type with element type, shape and denotations, doc
string, metadata — for a pass-through value both entries read `mergeVI input output`; the
value_info of every intermediate value that carries information; the value_info of every
initializer, completed from its tensor by `fillFromTensor`; every quantization annotation) -/
theorem C02_keeps_values (m : ModelP) (h : wfModel m = true) :
    ∃ x q, desModel m = .ok x ∧ serModel x = .ok q ∧
      Pointwise GraphKeeps (modelGraphs q) (modelGraphs m) := by
  obtain ⟨x, q, h1, h2, _, _, h3⟩ := model_keeps m h
  exact ⟨x, q, h1, h2, h3⟩

/-- `from_proto(NodeProto)` / `to_proto`: a stand-alone node (free inputs become placeholder values,
its subgraphs may capture them) round-trips to its canonical form -/
theorem C02_node_alone (n : NodeP) (h : wfNodeAlone n = true) :
    ∃ x tbl, desNodeAlone n = .ok (x, tbl) ∧ serNode [tableNames tbl] none x = .ok (normNode n) := by
  obtain ⟨x, tbl, h1, _, h2⟩ := node_alone_rt n h
  exact ⟨x, tbl, h1, h2⟩

/-- `from_proto(FunctionProto)` / `to_proto`: a stand-alone function is serialized without a
`model_ir_version` and with its value_info -/
theorem C02_function_alone (f : FunctionP) (h : wfFunctionAlone f = true) :
    ∃ x, desFunction f = .ok x ∧ serFunction none true x = .ok (normFunction true f) := by
  obtain ⟨x, h1, h2, _⟩ := function_rt_gen none 10 f h (Or.inl rfl)
  exact ⟨x, h1, by simpa using h2⟩

example : wfNodeAlone (.mk ["a", "", "b", "a"] ["y", ""] "n" "If" "" "" ""
    [.graph "then_branch" "" (.mk "g" "" [.mk ["a", "y"] ["t"] "" "Add" "" "" "" [] [] []] [] []
      [⟨"t", .unset "", "", []⟩] [] [] [])] [] []) = true := by decide

/-- non-vacuity of `wfModel`: IR version 11, the graph above (nested subgraph capturing an outer
value), two functions `custom::f` that differ only in their overload, the second with a reference
attribute, value_info and a node calling the first overload. -/
def exampleModel : ModelP :=
  { irVersion := 11, producerName := "p", producerVersion := "", domain := "", modelVersion := 3,
    doc := "m", opsetImport := [⟨"", 18⟩, ⟨"custom", 1⟩], metadata := [⟨"k", "v"⟩],
    graph := exampleGraph,
    functions :=
      [ { name := "f", domain := "custom", overload := "", doc := "", inputs := ["a"], outputs := ["r"],
          attrNames := ["alpha"], attrProtos := [.int "beta" "" 2],
          nodes := [.mk ["a"] ["r"] "" "Relu" "" "" "" [] [] []],
          opsetImport := [⟨"", 18⟩], valueInfo := [], metadata := [] },
        { name := "f", domain := "custom", overload := "ov1", doc := "d", inputs := ["a", "b"],
          outputs := ["r"], attrNames := ["alpha"], attrProtos := [],
          nodes := [ .mk ["a", "b"] ["t", ""] "n" "f" "custom" "" "" [.ref "alpha" "" "alpha" 1] [] [],
                     .mk ["t"] ["r"] "" "Identity" "" "" "" [] [] [] ],
          opsetImport := [⟨"", 18⟩, ⟨"custom", 1⟩],
          valueInfo := [⟨"a", .tensor (some 1) (some [⟨.param "N", ""⟩]) "", "", []⟩,
                        ⟨"t", .tensor (some 1) none "", "doc", [⟨"m", "1"⟩]⟩],
          metadata := [⟨"z", "1"⟩] } ],
    configuration := [⟨"cfg0", 2, ["CPU", "GPU"]⟩] }

example : wfModel exampleModel = true := by decide

/-- non-vacuity of the IR < 10 branch: function value info in the experimental
`domain::name/value` encoding (value name containing "/"), and a graph whose output is an
initializer -/
def exampleModelIR9 : ModelP :=
  { irVersion := 9, producerName := "", producerVersion := "", domain := "", modelVersion := 0,
    doc := "", opsetImport := [⟨"", 17⟩, ⟨"pkg", 1⟩], metadata := [],
    graph := .mk "g" ""
      [.mk ["x"] ["y"] "call" "fn" "pkg" "" "" [] [] []]
      [{ emptyTensorP with name := "c", dataType := 1, dims := [1], floatData := [0] }]
      [⟨"x", .tensor (some 1) (some [⟨.value 1, ""⟩]) "", "", []⟩]
      [⟨"y", .tensor (some 1) none "", "", []⟩, ⟨"c", .tensor (some 1) (some [⟨.param "N", ""⟩]) "", "k", []⟩]
      [⟨"pkg::fn//blk/out", .tensor (some 1) (some []) "", "", [⟨"b", "2"⟩, ⟨"a", "1"⟩]⟩,
       ⟨"pkg::fn/a", .tensor (some 1) none "", "", []⟩,
       ⟨"pkg::nothing/x", .tensor (some 1) none "", "", []⟩]
      [] [],
    functions :=
      [ { name := "fn", domain := "pkg", overload := "", doc := "", inputs := ["a"], outputs := ["/blk/out"],
          attrNames := [], attrProtos := [],
          nodes := [.mk ["a"] ["/blk/out"] "" "Relu" "" "" "" [] [] []],
          opsetImport := [⟨"", 17⟩], valueInfo := [], metadata := [] } ],
    configuration := [] }

example : wfModel exampleModelIR9 = true := by decide

/-! ## stage D: the widened `WFproto` (deepening round) -/

/-- what the fold drops is never read: `deserialize (fold g) = deserialize g` for EVERY graph, in any
scope chain (so: every subgraph at any depth) — no well-formedness hypothesis -/
theorem C02_fold_unread_graph (outer : Scopes) (g : GraphP) :
    desGraph outer (foldGraph g) = desGraph outer g :=
  desGraph_fold outer g

/-- the same for every function -/
theorem C02_fold_unread_function (f : FunctionP) : desFunction (foldFunction f) = desFunction f :=
  desFunction_fold f

/-- the same for every model from IR version 10 on; below, the main graph's `value_info` list is read
a second time by the experimental function value-info decoding, which selects entries by parsing
their names as `domain::name/value`: there no graph input may have a name of that form
(`inputsPlain`; `wfModel` says so of every value of the main graph) -/
theorem C02_fold_unread (m : ModelP) (h : m.irVersion ≥ 10 ∨ inputsPlain m.graph = true) :
    desModel (foldModel m) = desModel m :=
  desModel_fold m h

/-- what the fold keeps of a `value_info` list (`I` = the graph's input names): for every name that
is not a graph input the entry `deserialize` reads (the last one) is still the one it reads; nothing
is invented; names are distinct afterwards -/
theorem C02_fold_value_info (I : List String) (vis : List ValueInfoP) :
    (∀ n, n ∉ I → findVI (foldVIs I vis) n = findVI vis n) ∧
    (∀ v ∈ foldVIs I vis, v ∈ vis ∧ v.name ∉ I) ∧
    ((foldVIs I vis).map (·.name)).Nodup := by
  refine ⟨fun n hn => findVI_foldVIs I vis hn, ?_, ?_⟩
  · intro v hv
    simp only [foldVIs, List.mem_filter] at hv
    exact ⟨dedupLastBy_subset _ hv.1, by simpa using hv.2⟩
  · unfold foldVIs dedupLastVI
    exact ((List.filter_sublist).map _).nodup (dedupLastBy_nodup (fun v : ValueInfoP => v.name) vis)

/-- what the fold keeps of `external_data`: for each of the four specified keys the value
`ExternalDataInfo` reads (the last entry) is unchanged; only entries of the input remain; keys are
distinct afterwards -/
theorem C02_fold_external (es : List Entry) :
    (∀ k ∈ extKeys, extGet (foldExternal es) k = extGet es k) ∧
    (∀ e ∈ foldExternal es, e ∈ es ∧ e.key ∈ extKeys) ∧
    ((foldExternal es).map (·.key)).Nodup := by
  refine ⟨fun k hk => extGet_foldExternal es hk, ?_, foldExternal_nodup es⟩
  intro e he
  simp only [foldExternal, List.mem_filter] at he
  exact ⟨dedupLastBy_subset _ he.1, by simpa using he.2⟩

/-- a whole model in the widened domain: `WFproto (fold m) -> serialize (deserialize m) = norm (fold m)` -/
theorem C02_model_wide (m : ModelP) (h : wfModelW m = true) :
    ∃ x, desModel m = .ok x ∧ serModel x = .ok (normModelW m) := by
  obtain ⟨x, h1, h2⟩ := model_rt (foldModel m) h
  rw [desModel_fold m (by simpa [foldModel, foldGraph_inputs, inputsPlain] using inputsPlain_of_wf _ h)] at h1
  exact ⟨x, h1, h2⟩

/-- in the form of the property statement: `norm (serialize (deserialize m)) = norm (fold m)` -/
theorem C02_model_norm_wide (m : ModelP) (h : wfModelW m = true) :
    ∃ x y, desModel m = .ok x ∧ serModel x = .ok y ∧ normModel y = normModelW m := by
  obtain ⟨x, h1, h2⟩ := C02_model_wide m h
  exact ⟨x, normModelW m, h1, h2, normModel_idem (foldModel m) h⟩

/-- graphs in any scope chain, widened -/
theorem C02_graph_wide (outer : Scopes) (ver : Option Int) (g : GraphP) (h : wfGraphW outer g = true)
    (hver : verAllows ver = true ∨ graphHasDevCfg (foldGraph g) = false) :
    ∃ x, desGraph outer g = .ok x ∧ serGraph outer ver x = .ok (normGraphW g) := by
  obtain ⟨x, h1, h2⟩ := graph_rt outer ver (foldGraph g) h hver
  rw [desGraph_fold] at h1
  exact ⟨x, h1, h2⟩

/-- stand-alone functions, widened -/
theorem C02_function_alone_wide (f : FunctionP) (h : wfFunctionAloneW f = true) :
    ∃ x, desFunction f = .ok x ∧ serFunction none true x = .ok (normFunctionW true f) := by
  obtain ⟨x, h1, h2⟩ := C02_function_alone (foldFunction f) h
  rw [desFunction_fold] at h1
  exact ⟨x, h1, h2⟩

/-- tensors, widened (external entries with repeated or unspecified keys) -/
theorem C02_tensor_wide (p : TensorP) (h : wfTensorW p = true) :
    ∃ t, desTensor p = .ok t ∧ serTensor t = normTensorW p := by
  obtain ⟨t, h1, h2, _⟩ := tensor_roundtrip (foldTensor p) h
  rw [desTensor_foldTensor] at h1
  exact ⟨t, h1, h2⟩

/-- the widened theorems contain the old ones: on `WFproto` the fold is the identity -/
theorem C02_wide_subsumes (m : ModelP) (h : wfModel m = true) :
    foldModel m = m ∧ wfModelW m = true ∧ normModelW m = normModel m := by
  have hf := foldModel_of_wf m h
  exact ⟨hf, by rw [wfModelW, hf]; exact h, by rw [normModelW, hf]⟩

/-- field by field in the widened domain: everything `ModelKeeps` / `NodeKeeps` / `GraphKeeps` name is
kept of `fold m` (and `C02_fold_value_info` / `C02_fold_external` say what `fold` keeps of `m`) -/
theorem C02_keeps_wide (m : ModelP) (h : wfModelW m = true) :
    ∃ x q, desModel m = .ok x ∧ serModel x = .ok q ∧ ModelKeeps q (foldModel m) ∧
      Pointwise NodeKeeps (modelNodes q) (modelNodes (foldModel m)) ∧
      Pointwise GraphKeeps (modelGraphs q) (modelGraphs (foldModel m)) := by
  obtain ⟨x, q, h1, h2, h3⟩ := model_keeps (foldModel m) h
  rw [desModel_fold m (by simpa [foldModel, foldGraph_inputs, inputsPlain] using inputsPlain_of_wf _ h)] at h1
  exact ⟨x, q, h1, h2, h3⟩

/-- every field of a TensorProto, one by one, for all three tensor classes (`serTensorF` is
`serialize_tensor_into` written out per class and per field; it agrees with `serTensor` on everything
`deserialize_tensor` returns): name, doc string, element type, dims, data location, and the payload
in exactly the storage field it came in (`raw_data`, `float_data`, `int32_data`, `string_data`,
`int64_data`, `double_data`, `uint64_data`: nothing is re-encoded); the external entries as
`C02_fold_external` describes; `metadata_props` as the same finite map.  Supersedes
`tensor_proto_backed_by_construction`. -/
theorem C02_tensor_fields (p : TensorP) (h : wfTensorW p = true) :
    ∃ t, desTensor p = .ok t ∧ serTensorF t = serTensor t ∧ tensorFieldsKept (serTensorF t) p = true := by
  obtain ⟨t, h1, h2⟩ := tensor_fields p h
  exact ⟨t, h1, serTensorF_eq p t h1, h2⟩

/-- non-vacuity: a proto-backed tensor with every storage field populated at once (no hypothesis
beyond distinct metadata keys), and an external tensor with a shadowed `offset`, an unspecified key
and entries out of order -/
example : wfTensorW
    { emptyTensorP with
      name := "t", doc := "d", dataType := 1, dims := [2], rawData := some "0000803f00000040",
      floatData := [1], int32Data := [2], int64Data := [3], doubleData := [4], uint64Data := [5],
      stringData := ["ff"], metadata := [⟨"b", "1"⟩, ⟨"a", "2"⟩] } = true := by decide

def exampleExternalWide : TensorP :=
  { emptyTensorP with
    name := "wext", dataType := 1, dims := [4], dataLocation := 1,
    externalData := [⟨"offset", "0"⟩, ⟨"basepath", "/x"⟩, ⟨"location", "w.bin"⟩, ⟨"offset", "4096"⟩] }

example : wfTensorW exampleExternalWide = true ∧ wfTensor exampleExternalWide = false := by decide

example : (normTensorW exampleExternalWide).externalData = [⟨"location", "w.bin"⟩, ⟨"offset", "4096"⟩] := by
  decide

/-- non-vacuity of the widened domain: `exampleModel` with (E6) two `value_info` entries for `b` in the
main graph, (E2) a `value_info` entry naming the graph input `x`, (E5) the opset domain `custom`
imported twice, (E7) the external initializer above — outside `wfModel`, inside `wfModelW` -/
def exampleModelWide : ModelP :=
  { exampleModel with
    opsetImport := [⟨"", 18⟩, ⟨"custom", 1⟩, ⟨"custom", 2⟩],
    graph := match exampleGraph with
      | .mk name doc nodes inits inputs outputs vis quant md =>
        .mk name doc nodes (inits ++ [exampleExternalWide]) inputs outputs
          ([⟨"b", .tensor (some 7) none "", "shadowed", []⟩, ⟨"x", .tensor (some 9) none "", "", []⟩] ++ vis)
          quant md }

example : wfModelW exampleModelWide = true ∧ wfModel exampleModelWide = false := by decide

example : (normModelW exampleModelWide).opsetImport = [⟨"", 18⟩, ⟨"custom", 2⟩] := by decide

/-- non-vacuity below IR version 10: `exampleModelIR9` with a shadowed experimental entry for the
function value `pkg::fn/a` (E6) and a `value_info` entry naming the graph input `x` (E2) -/
def exampleModelIR9Wide : ModelP :=
  { exampleModelIR9 with
    graph := match exampleModelIR9.graph with
      | .mk name doc nodes inits inputs outputs vis quant md =>
        .mk name doc nodes inits inputs outputs
          ([⟨"pkg::fn/a", .tensor (some 7) none "", "shadowed", []⟩, ⟨"x", .tensor (some 9) none "", "", []⟩] ++ vis)
          quant md }

example : wfModelW exampleModelIR9Wide = true ∧ wfModel exampleModelIR9Wide = false := by decide

/-! ## stage E: merge (E3) and the canonical pre-form `canon = merge ∘ fold` -/

/-- a `value_info` entry naming an output produced in the graph may be united into the output entry:
for every graph (any scope chain, so any nesting depth) with `WFproto (merge g)` the merged graph
deserializes to the same IR -/
theorem C02_merge_deserialize_graph (outer : Scopes) (g : GraphP) (h : wfGraph outer (mergeGraph g) = true) :
    desGraph outer (mergeGraph g) = desGraph outer g :=
  desGraph_merge outer g h

/-- the same for whole models (below IR version 10 the experimental function value-info decoding
finds the same entries: the dropped ones name values of the main graph, and those names are not of
the experimental form) -/
theorem C02_merge_deserialize (m : ModelP) (h : wfModel (mergeModel m) = true) :
    desModel (mergeModel m) = desModel m :=
  desModel_merge m h

/-- what `merge` does to an output entry: nothing, or — there is a well-formed `value_info` entry `vi`
(the last one of that name) for this declared, non-input value — name, type, shape and doc string
stay and the canonical form of the entry is `mergeVI vi vo`, the very normalisation of a value that
is both graph input and output (`examplePassThrough`): metadata united, output entry wins per key -/
theorem C02_merge_output (D I : List String) (vis : List ValueInfoP) (vo : ValueInfoP) :
    mergeOutVI D I vis vo = vo ∨
    ∃ vi, findVI vis vo.name = some vi ∧ wfVI vi = true ∧ D.contains vo.name = true ∧
      I.contains vo.name = false ∧ normValueInfo (mergeOutVI D I vis vo) = mergeVI vi vo := by
  unfold mergeOutVI
  split
  · rename_i ha
    simp only [mergeApplies, Bool.and_eq_true, Bool.not_eq_true'] at ha
    cases hf : findVI vis vo.name with
    | none => left; rfl
    | some vi =>
      simp only []
      split
      · rename_i hwf
        right
        refine ⟨vi, rfl, hwf, ha.1.1, ha.1.2, ?_⟩
        have hnd : (dkeys (dictUpdate (dictOfEntries vi.metadata) (dictOfEntries vo.metadata))).Nodup :=
          nodup_dkeys_dictUpdate (nodup_dkeys_dictOfEntries _) _
        simp only [normValueInfo, mergeVI, normEntries, dictOfEntries_entriesOfDict _ hnd]
      · left; rfl
  · left; rfl

/-- a whole model in the second widened domain: `WFproto (canon m) -> serialize (deserialize m) =
norm (canon m)`, `canon = merge ∘ fold` -/
theorem C02_model_canon (m : ModelP) (h : wfModelX m = true) :
    ∃ x, desModel m = .ok x ∧ serModel x = .ok (normModelX m) := by
  obtain ⟨x, h1, h2⟩ := model_rt (canonModel m) h
  rw [desModel_canon m h] at h1
  exact ⟨x, h1, h2⟩

/-- in the form of the property statement -/
theorem C02_model_norm_canon (m : ModelP) (h : wfModelX m = true) :
    ∃ x y, desModel m = .ok x ∧ serModel x = .ok y ∧ normModel y = normModelX m := by
  obtain ⟨x, h1, h2⟩ := C02_model_canon m h
  exact ⟨x, normModelX m, h1, h2, normModel_idem (canonModel m) h⟩

/-- graphs in any scope chain -/
theorem C02_graph_canon (outer : Scopes) (ver : Option Int) (g : GraphP) (h : wfGraphX outer g = true)
    (hver : verAllows ver = true ∨ graphHasDevCfg (canonGraph g) = false) :
    ∃ x, desGraph outer g = .ok x ∧ serGraph outer ver x = .ok (normGraphX g) := by
  obtain ⟨x, h1, h2⟩ := graph_rt outer ver (canonGraph g) h hver
  unfold canonGraph at h1
  rw [desGraph_merge outer _ h, desGraph_fold] at h1
  exact ⟨x, h1, h2⟩

/-- stand-alone functions -/
theorem C02_function_alone_canon (f : FunctionP) (h : wfFunctionAloneX f = true) :
    ∃ x, desFunction f = .ok x ∧ serFunction none true x = .ok (normFunctionX true f) := by
  obtain ⟨x, h1, h2⟩ := C02_function_alone (canonFunction f) h
  unfold canonFunction at h1
  rw [desFunction_merge 10 _ h, desFunction_fold] at h1
  exact ⟨x, h1, h2⟩

/-- the second widening contains the first and the original domain: on `WFproto` (of the folded
model) `merge` is the identity -/
theorem C02_canon_subsumes (m : ModelP) :
    (wfModel m = true → canonModel m = m ∧ wfModelX m = true ∧ normModelX m = normModel m) ∧
    (wfModelW m = true → canonModel m = foldModel m ∧ wfModelX m = true ∧ normModelX m = normModelW m) := by
  refine ⟨fun h => ?_, fun h => ?_⟩
  · have hc := canonModel_of_wf m h
    exact ⟨hc, by rw [wfModelX, hc]; exact h, by rw [normModelX, hc]⟩
  · have hc : canonModel m = foldModel m := mergeModel_of_wf _ h
    exact ⟨hc, by rw [wfModelX, hc]; exact h, by rw [normModelX, hc, normModelW]⟩

/-- field by field in the second widened domain -/
theorem C02_keeps_canon (m : ModelP) (h : wfModelX m = true) :
    ∃ x q, desModel m = .ok x ∧ serModel x = .ok q ∧ ModelKeeps q (canonModel m) ∧
      Pointwise NodeKeeps (modelNodes q) (modelNodes (canonModel m)) ∧
      Pointwise GraphKeeps (modelGraphs q) (modelGraphs (canonModel m)) := by
  obtain ⟨x, q, h1, h2, h3⟩ := model_keeps (canonModel m) h
  rw [desModel_canon m h] at h1
  exact ⟨x, q, h1, h2, h3⟩

/-- non-vacuity: `exampleModelWide` with (E3) a `value_info` entry for the graph output `y` (a node
output) whose metadata is united into the output entry — outside `wfModelW`, inside `wfModelX` -/
def exampleModelCanon : ModelP :=
  { exampleModelWide with
    graph := match exampleModelWide.graph with
      | .mk name doc nodes inits inputs outputs vis quant md =>
        .mk name doc nodes inits inputs outputs
          (vis ++ [⟨"y", .tensor (some 7) none "", "vi doc", [⟨"v", "1"⟩, ⟨"m", "0"⟩]⟩]) quant md }

example : wfModelX exampleModelCanon = true ∧ wfModelW exampleModelCanon = false := by decide

example : (normModelX exampleModelCanon).graph.outputs
    = [⟨"y", .sequence (.tensor (some 1) (some []) "") "SEQ", "out", [⟨"m", "1"⟩, ⟨"v", "1"⟩]⟩] := by decide

/-! ## stage F: outdup (E4), `canonD = merge ∘ outdup ∘ fold`, stand-alone nodes and attributes widened -/

/-- `WFproto` admits several graph output entries with one name exactly when they are identical; pairwise
distinct output names (the domain of the first round) is the special case -/
theorem C02_wf_outputs (l : List ValueInfoP) :
    (consOutputs l = true ↔ ∀ a ∈ l, ∀ b ∈ l, a.name = b.name → a = b) ∧
    (nodupStr (l.map (·.name)) = true → consOutputs l = true) :=
  ⟨consOutputs_iff, fun h => consOutputs_iff.2 (consOut_of_nodup (nodupStr_iff.1 h))⟩

/-- non-vacuity: a graph whose output `y` is listed twice with identical entries is inside `WFproto` -/
example : wfGraph [] (.mk "g" "" [.mk ["x"] ["y"] "" "Relu" "" "" "" [] [] []] []
    [⟨"x", .tensor (some 1) none "", "", []⟩]
    [⟨"y", .tensor (some 1) none "", "d", [⟨"k", "v"⟩]⟩, ⟨"y", .tensor (some 1) none "", "d", [⟨"k", "v"⟩]⟩]
    [] [] []) = true := by decide

/-- what `outdup` does to an output entry `vo` (`S` = the names the graph declares, `outputs` = all output
entries): nothing, or — the name is declared and every entry of that name is well formed — the entry
becomes the union of the entries of its name: name kept, type / shape / doc string of the LAST entry
of the name (serde.py:881-883 overwrites them entry by entry), the metadata dict = the dicts of the
entries united by `dict.update` in order (later entry wins per key), and every entry of the name
becomes that same entry (so their number and positions are kept) -/
theorem C02_outdup_output (S : List String) (outputs : List ValueInfoP) (vo : ValueInfoP) :
    outdupVI S outputs vo = vo ∨
    (S.contains vo.name = true ∧ (sameName outputs vo).all wfVI = true ∧
      ∃ last, findVI outputs vo.name = some last ∧
        (outdupVI S outputs vo).name = vo.name ∧ (outdupVI S outputs vo).type = last.type ∧
        (outdupVI S outputs vo).doc = last.doc ∧
        dictOfEntries (outdupVI S outputs vo).metadata = unionMd (sameName outputs vo) ∧
        ∀ w ∈ outputs, w.name = vo.name → outdupVI S outputs w = outdupVI S outputs vo) := by
  by_cases ha : outdupApplies S outputs vo = true
  · cases hf : findVI outputs vo.name with
    | none => left; simp only [outdupVI, ha, if_true, hf]
    | some last =>
      right
      have ha' := ha
      simp only [outdupApplies, Bool.and_eq_true] at ha'
      refine ⟨ha'.1, ha'.2, last, rfl, outdupVI_name S outputs vo, ?_, ?_, ?_, ?_⟩
      · simp only [outdupVI, ha, if_true, hf]
      · simp only [outdupVI, ha, if_true, hf]
      · simp only [outdupVI, ha, if_true, hf, dictOfEntries_entriesOfDict _ (nodup_unionMd _)]
      · intro w _ hn
        have hs : sameName outputs w = sameName outputs vo := by simp only [sameName, hn]
        have haw : outdupApplies S outputs w = true := by
          simp only [outdupApplies, hs, hn] at ha ⊢; exact ha
        simp only [outdupVI, ha, haw, if_true, hn, hf, hs]
  · left; simp only [outdupVI, ha, if_false]; rfl

/-- for every graph (any scope chain, so any nesting depth) with `WFproto (merge (outdup g))` the graph
whose repeated output entries are united deserializes to the same IR -/
theorem C02_outdup_deserialize_graph (outer : Scopes) (g : GraphP)
    (h : wfGraph outer (mergeGraph (outdupGraph g)) = true) :
    desGraph outer (outdupGraph g) = desGraph outer g :=
  desGraph_outdup outer g h

/-- the same for whole models -/
theorem C02_outdup_deserialize (m : ModelP) (h : wfModel (mergeModel (outdupModel m)) = true) :
    desModel (outdupModel m) = desModel m :=
  desModel_outdup m h

/-- a whole model in the third widened domain: `WFproto (canonD m) -> serialize (deserialize m) =
norm (canonD m)`, `canonD = merge ∘ outdup ∘ fold` -/
theorem C02_model_outdup (m : ModelP) (h : wfModelD m = true) :
    ∃ x, desModel m = .ok x ∧ serModel x = .ok (normModelD m) := by
  obtain ⟨x, h1, h2⟩ := model_rt (canonDModel m) h
  rw [desModel_canonD m h] at h1
  exact ⟨x, h1, h2⟩

/-- in the form of the property statement -/
theorem C02_model_norm_outdup (m : ModelP) (h : wfModelD m = true) :
    ∃ x y, desModel m = .ok x ∧ serModel x = .ok y ∧ normModel y = normModelD m := by
  obtain ⟨x, h1, h2⟩ := C02_model_outdup m h
  exact ⟨x, normModelD m, h1, h2, normModel_idem (canonDModel m) h⟩

/-- graphs in any scope chain -/
theorem C02_graph_outdup (outer : Scopes) (ver : Option Int) (g : GraphP) (h : wfGraphD outer g = true)
    (hver : verAllows ver = true ∨ graphHasDevCfg (canonDGraph g) = false) :
    ∃ x, desGraph outer g = .ok x ∧ serGraph outer ver x = .ok (normGraphD g) := by
  obtain ⟨x, h1, h2⟩ := graph_rt outer ver (canonDGraph g) h hver
  rw [desGraph_canonD outer g h] at h1
  exact ⟨x, h1, h2⟩

/-- stand-alone functions -/
theorem C02_function_alone_outdup (f : FunctionP) (h : wfFunctionAloneD f = true) :
    ∃ x, desFunction f = .ok x ∧ serFunction none true x = .ok (normFunctionD true f) := by
  obtain ⟨x, h1, h2⟩ := C02_function_alone (canonDFunction f) h
  rw [desFunction_canonD 10 f h] at h1
  exact ⟨x, h1, h2⟩

/-- `from_proto(NodeProto)` / `to_proto` in the widened domain: a stand-alone node whose subgraphs (at
any depth) carry repeated value_info / output entries, value_info for inputs or outputs, external
tensors with shadowed keys -/
theorem C02_node_alone_wide (n : NodeP) (h : wfNodeAloneD n = true) :
    ∃ x tbl, desNodeAlone n = .ok (x, tbl) ∧
      serNode [tableNames tbl] none x = .ok (normNode (canonDNode n)) := by
  obtain ⟨x, tbl, h1, _, h2⟩ := node_alone_rt (canonDNode n) h
  rw [desNodeAlone_canonD n h] at h1
  exact ⟨x, tbl, h1, h2⟩

/-- a node inside a scope (`C02_node`), widened -/
theorem C02_node_wide (outer : Scopes) (vis : List ValueInfoP) (q : List AnnotP) (ver : Option Int)
    (tbl : List IRValue) (n : NodeP) (h : wfNode (tableNames tbl :: outer) (canonDNode n) = true)
    (hver : verAllows ver = true ∨ nodeHasDevCfg (canonDNode n) = false) :
    ∃ x, desNode outer vis q tbl n = .ok (x, tbl) ∧
      serNode (tableNames tbl :: outer) ver x = .ok (normNode (canonDNode n)) := by
  obtain ⟨x, h1, h2, _⟩ := node_rt outer vis q ver tbl (canonDNode n) h hver
  rw [desNode_canonD outer vis q tbl n h] at h1
  exact ⟨x, h1, h2⟩

/-- every attribute (`C02_attr`), widened: GRAPH / GRAPHS attributes whose subgraphs are in the widened
domain, TENSOR(S) attributes with external entries that are shadowed or unspecified -/
theorem C02_attr_wide (scopes : Scopes) (a : AttrP) (h : wfAttrD scopes a = true) :
    rtAttr scopes a = .ok (normAttr (canonDAttr a)) := by
  obtain ⟨x, h1, h2, _⟩ := attr_rt scopes none (canonDAttr a) h (Or.inl rfl)
  rw [desAttr_canonD scopes a h] at h1
  simp [rtAttr, h1, h2, bind, Except.bind]

/-- the third widening contains the second and the original domain: on `WFproto` `canonD` is the
identity, on `WFproto (merge (fold m))` it is `canon` -/
theorem C02_outdup_subsumes (m : ModelP) :
    (wfModel m = true → canonDModel m = m ∧ wfModelD m = true ∧ normModelD m = normModel m) ∧
    (wfModelX m = true → canonDModel m = canonModel m ∧ wfModelD m = true ∧ normModelD m = normModelX m) := by
  refine ⟨fun h => ?_, fun h => ?_⟩
  · have hc := canonDModel_of_wf m h
    exact ⟨hc, by rw [wfModelD, hc]; exact h, by rw [normModelD, hc]⟩
  · have hc := canonDModel_of_wfX m h
    exact ⟨hc, by rw [wfModelD, hc]; exact h, by rw [normModelD, hc, normModelX]⟩

/-- field by field in the third widened domain -/
theorem C02_keeps_outdup (m : ModelP) (h : wfModelD m = true) :
    ∃ x q, desModel m = .ok x ∧ serModel x = .ok q ∧ ModelKeeps q (canonDModel m) ∧
      Pointwise NodeKeeps (modelNodes q) (modelNodes (canonDModel m)) ∧
      Pointwise GraphKeeps (modelGraphs q) (modelGraphs (canonDModel m)) := by
  obtain ⟨x, q, h1, h2, h3⟩ := model_keeps (canonDModel m) h
  rw [desModel_canonD m h] at h1
  exact ⟨x, q, h1, h2, h3⟩

/-- non-vacuity: `exampleModelCanon` (E2 E3 E5 E6 E7) with (E4) a second, different output entry for `y` —
outside `wfModelX`, inside `wfModelD`; both entries come back as the union: type / doc of the last one,
metadata of the `value_info` entry, the first and the second output entry united -/
def exampleModelOutdup : ModelP :=
  { exampleModelCanon with
    graph := match exampleModelCanon.graph with
      | .mk name doc nodes inits inputs outputs vis quant md =>
        .mk name doc nodes inits inputs
          (outputs ++ [⟨"y", .tensor (some 7) (some [⟨.value 3, ""⟩]) "", "again", [⟨"z", "9"⟩, ⟨"m", "5"⟩]⟩])
          vis quant md }

example : wfModelD exampleModelOutdup = true ∧ wfModelX exampleModelOutdup = false := by decide

example : (normModelD exampleModelOutdup).graph.outputs
    = [⟨"y", .tensor (some 7) (some [⟨.value 3, ""⟩]) "", "again", [⟨"m", "5"⟩, ⟨"v", "1"⟩, ⟨"z", "9"⟩]⟩,
       ⟨"y", .tensor (some 7) (some [⟨.value 3, ""⟩]) "", "again", [⟨"m", "5"⟩, ⟨"v", "1"⟩, ⟨"z", "9"⟩]⟩] := by
  decide

/-- non-vacuity of the stand-alone forms: a node whose subgraph lists its output twice (E4) and carries a
repeated value_info name (E6) -/
def exampleNodeWide : NodeP :=
  .mk ["a", ""] ["y"] "n" "If" "" "" ""
    [.graph "then_branch" "" (.mk "g" "" [.mk ["a"] ["t"] "" "Relu" "" "" "" [] [] []] [] []
      [⟨"t", .tensor (some 1) none "", "one", [⟨"k", "1"⟩]⟩, ⟨"t", .tensor (some 1) none "", "two", [⟨"j", "2"⟩]⟩]
      [⟨"u", .tensor (some 1) none "", "", []⟩, ⟨"u", .tensor (some 7) none "", "", []⟩] [] [])] [] []

example : wfNodeAloneD exampleNodeWide = true ∧ wfNodeAlone exampleNodeWide = false := by decide

example : wfAttrD [["a", "y"]] (.graph "then_branch" "" (.mk "g" "" [.mk ["a"] ["t"] "" "Relu" "" "" "" [] [] []] [] []
      [⟨"t", .tensor (some 1) none "", "one", [⟨"k", "1"⟩]⟩, ⟨"t", .tensor (some 1) none "", "two", [⟨"j", "2"⟩]⟩]
      [] [] [])) = true := by decide

/-! ## stage F': IR version < 10 with a graph value named like an experimental entry (E8, D320) -/

/-- a whole model WITHOUT the hypothesis "no value of the main graph is named like `domain::name/value`"
(`wfModel9` = `wfModel` minus that conjunct): below IR version 10 the entry of a function value whose formatted
name is the name of a value of the main graph (an input / output of a top-level node, an initializer:
`reservedP`) is not written — it would be attached to the graph value too when the model is loaded
(serde.py:1593-1615, /repo commit f0d2984) — everything else as in `C02_model` (`normModel9`) -/
theorem C02_model_ir9 (m : ModelP) (h : wfModel9 m = true) :
    ∃ x, desModel m = .ok x ∧ serModel x = .ok (normModel9 m) :=
  model_rt9 m h

/-- the same in front of the fold (E8 together with E2 E5 E6 E7) -/
theorem C02_model_ir9_wide (m : ModelP) (h : wfModel9W m = true) :
    ∃ x, desModel m = .ok x ∧ serModel x = .ok (normModel9W m) :=
  model_rt9W m h

/-- the same in front of `canonD = merge ∘ outdup ∘ fold` (E8 together with E2-E7): below IR version 10 no graph
input and no declared graph output may have a name of the experimental form (`wfModel9D`); the values inside
the graph may -/
theorem C02_model_ir9_outdup (m : ModelP) (h : wfModel9D m = true) :
    ∃ x, desModel m = .ok x ∧ serModel x = .ok (normModel9D m) :=
  model_rt9D m h

/-- these contain `C02_model` / `C02_model_wide` / `C02_model_outdup`: where no value of the main graph has a
name of the experimental form nothing is reserved -/
theorem C02_ir9_subsumes (m : ModelP) :
    (wfModel m = true → wfModel9 m = true ∧ normModel9 m = normModel m) ∧
    (wfModelW m = true → wfModel9W m = true ∧ normModel9W m = normModelW m) ∧
    (wfModelD m = true → wfModel9D m = true ∧ normModel9D m = normModelD m) := by
  refine ⟨wfModel9_of_wf m, fun h => ?_, wfModel9D_of_wfD m⟩
  obtain ⟨h1, h2⟩ := wfModel9_of_wf (foldModel m) h
  refine ⟨?_, h2⟩
  simp only [wfModel9W, h1, Bool.true_and, Bool.or_eq_true, decide_eq_true_eq]
  simpa [foldModel, foldGraph_inputs, inputsPlain] using inputsPlain_of_wf _ h

/-- non-vacuity: `exampleModelIR9` with a node of the main graph whose output is named `pkg::fn/a`, the
experimental name of the input `a` of `pkg::fn`; the `value_info` entry of that name describes the graph value
and is written once -/
def exampleModelIR9E8 : ModelP :=
  { exampleModelIR9 with
    graph := match exampleModelIR9.graph with
      | .mk name doc nodes inits inputs outputs vis quant md =>
        .mk name doc (nodes ++ [.mk ["x"] ["pkg::fn/a"] "e8" "Custom" "" "" "" [] [] []]) inits inputs outputs
          vis quant md }

example : wfModel9 exampleModelIR9E8 = true ∧ wfModel exampleModelIR9E8 = false := by decide

example : (normModel9 exampleModelIR9E8).graph.valueInfo.map (·.name)
    = ["c", "pkg::fn/a", "pkg::fn//blk/out"] := by decide

/-- non-vacuity of `wfModel9D`: the same with the graph output `y` listed twice with differing entries (E4) -/
def exampleModelIR9E8D : ModelP :=
  { exampleModelIR9E8 with
    graph := match exampleModelIR9E8.graph with
      | .mk name doc nodes inits inputs outputs vis quant md =>
        .mk name doc nodes inits inputs (outputs ++ [⟨"y", .tensor (some 7) none "", "again", [⟨"k", "1"⟩]⟩])
          vis quant md }

example : wfModel9D exampleModelIR9E8D = true ∧ wfModel9W exampleModelIR9E8D = false
    ∧ wfModelD exampleModelIR9E8D = false := by decide

/-! ## stage G: the typed scalar level (`IrVerif/Model/SerdeScalar.lean`, `IrVerif/Lemmas/SerdeScalar.lean`)

What used to hold "by construction of the rendering" (`dim_by_construction`, `attr_scalar_by_construction`: int64
payloads as unbounded JSON numbers, float32 <-> double conversion and UTF-8 decoding inside the trusted renderer
of harness/c02.py) as typed theorems: `dim_value` / `i` are int64 and the checked serializers raise exactly outside
that range, `f` is a float32 bit pattern and the IR holds the double it widens to, `s` is bytes and the IR holds the
decoded code points.  Compared with the real code on every run by `harness/c02_scalar.py` (ops `serdescalar.*`). -/

/-- a dimension, field by field.  (1) proto -> IR -> proto, for every Dimension protobuf can hold (`wfDimF`:
`dim_value` in int64): the checked serializer succeeds; the selected member of the `value` oneof and its payload
(`dim_value`, `dim_param` - also the empty string -, or neither) are equal; the denotation is the same string and
keeps its presence bit unless it is empty; this agrees with the unchecked `serDim (desDim _)` of `Model/Serde.lean`
(supersedes `dim_by_construction`).  (2) IR -> proto for IR dimensions that did not come from a proto: `.ok` exactly
when an `int` dimension is in the int64 range, `ValueError` (root cause; re-raised as SerdeError) otherwise - it
never wraps; and what is written deserializes to the same dimension. -/
theorem C02_dim_fields :
    (∀ d : DimF, wfDimF d = true →
      ∃ r, serDimC (desDimF d) = .ok r ∧ r.val = d.val ∧ r.den = normDen d.den ∧
        r.den.getD "" = d.den.getD "" ∧ (d.den ≠ some "" → r.den = d.den) ∧
        r.toP = serDim (desDim d.toP) ∧ r.toP = d.toP) ∧
    (∀ d : IRDimF, ((∃ r, serDimC d = .ok r) ↔ irShapeInRange [d] = true) ∧
      (irShapeInRange [d] = false → serDimC d = .error "ValueError") ∧
      (∀ r, serDimC d = .ok r → desDimF r = ⟨d.dim, normDen d.den⟩ ∧ wfDimF r = true)) :=
  ⟨dim_fields, fun d => ⟨serDimC_ok_iff d, serDimC_error d, desDimF_serDimC d⟩⟩

example : wfDimF ⟨.value (-9223372036854775808), some ""⟩ = true ∧ wfDimF ⟨.param "", none⟩ = true ∧
    wfDimF ⟨.value 9223372036854775808, none⟩ = false := by decide
example : irShapeInRange [⟨.int 9223372036854775808, some "a"⟩] = false ∧
    irShapeInRange [⟨.int 9223372036854775807, none⟩, ⟨.sym none, none⟩] = true := by decide
example : serDimC ⟨.int (-9223372036854775809), none⟩ = .error "ValueError" ∧
    serDimC ⟨.sym (some ""), some ""⟩ = .ok ⟨.param "", none⟩ := ⟨rfl, rfl⟩

/-- a whole shape (any rank, denotations per dimension): the same two statements for the loop of
`serialize_shape_into` - the first dimension outside int64 aborts with ValueError -/
theorem C02_shape_fields :
    (∀ s : ShapeF, s.all wfDimF = true →
      serShapeC (desShapeF s) = .ok (s.map normDimF) ∧
      (s.map normDimF).map DimF.toP = serShape (desShape (s.map DimF.toP))) ∧
    (∀ s : IRShapeF, ((∃ r, serShapeC s = .ok r) ↔ irShapeInRange s = true) ∧
      (irShapeInRange s = false → serShapeC s = .error "ValueError")) :=
  ⟨fun s h => ⟨serShapeC_desShapeF s h, toP_shape s⟩, fun s => ⟨serShapeC_ok_iff s, serShapeC_error s⟩⟩

example : [(⟨.param "N", some "DATA_BATCH"⟩ : DimF), ⟨.unset, none⟩, ⟨.value 3, some ""⟩].all wfDimF = true := by decide
example : irShapeInRange [⟨.int 1, none⟩, ⟨.int 9223372036854775808, none⟩, ⟨.int 3, none⟩] = false := by decide

/-- INT / FLOAT / STRING attributes, every field (supersedes `attr_scalar_by_construction`).
(1) the whole attribute, proto -> IR -> proto: name equal, `doc_string` equal (absent when empty), the payload
field present afterwards with `i` equal / `f` the same BITS except that a signalling NaN comes back quiet (`quiet32`)
/ `s` the same bytes whether they are UTF-8 or not.  (2) INT: every int64 comes back; a Python int serializes iff it
is in `[-2^63, 2^63)`, ValueError otherwise (no wrapping).  (3) FLOAT: for every float32 pattern the bits written
back are `quiet32 b`, i.e. `b` itself for zeros, subnormals, normals, infinities and quiet NaNs.  (4) STRING: all
byte strings come back; a `str` serializes iff it has no lone surrogate, UnicodeEncodeError otherwise.
(5) the rendering `r_attr` of the same attribute round-trips in the unchecked model (`rtAttr`). -/
theorem C02_attr_scalar_fields :
    (∀ a : AttrScalarP, wfScalarP a.val = true → serAttrScalarC (desAttrScalar a) = .ok (normAttrScalarP a)) ∧
    (∀ i : Int, inInt64 i = true → serAttrIntC (desAttrInt (some i)) = .ok i) ∧
    (∀ n : Int, ((∃ r, serAttrIntC n = .ok r) ↔ inInt64 n = true) ∧
      (inInt64 n = false → serAttrIntC n = .error "ValueError") ∧
      (inInt64 n = true ↔ -(2 : Int) ^ 63 ≤ n ∧ n < (2 : Int) ^ 63)) ∧
    (∀ b : Nat, b < 2 ^ 32 → serAttrFloatC (desAttrFloat (some b)) = .ok (quiet32 b) ∧
      ((isNaN32 b = false ∨ 2 ^ 22 ≤ f32Man b) → serAttrFloatC (desAttrFloat (some b)) = .ok b)) ∧
    (∀ bs : List Nat, serAttrStringC (desAttrString (some bs)) = .ok bs) ∧
    (∀ cps : List Nat, ((∃ bs, serAttrStringC (.str cps) = .ok bs) ↔ cps.all (fun c => !isSurrogate c) = true) ∧
      (cps.all (fun c => !isSurrogate c) = false → serAttrStringC (.str cps) = .error "UnicodeEncodeError")) ∧
    (∀ (scopes : Scopes) (a : AttrScalarP), rtAttr scopes a.toAttrP = .ok a.toAttrP) :=
  ⟨serAttrScalarC_desAttrScalar,
   fun i h => by simp [serAttrIntC, desAttrInt, h],
   fun n => ⟨serAttrIntC_ok_iff n, serAttrIntC_error n, inInt64_iff n⟩,
   fun b hb => ⟨by simp [serAttrFloatC, desAttrFloat, f64ToF32_f32ToF64 b hb],
                fun h => by simp [serAttrFloatC, desAttrFloat, f64ToF32_f32ToF64_exact b hb h]⟩,
   fun bs => serAttrStringC_desAttrString (some bs),
   fun cps => ⟨utf8Enc_ok_iff cps, utf8Enc_error cps⟩,
   toAttrP_roundtrip⟩

example : wfScalarP (.int (some (-9223372036854775808))) = true ∧ wfScalarP (.float (some 0x7F800001)) = true ∧
    wfScalarP (.string (some [0xFF, 0xC3, 0xA9])) = true ∧ wfScalarP (.int none) = true ∧
    wfScalarP (.int (some 9223372036854775808)) = false := by decide
example : inInt64 9223372036854775807 = true ∧ inInt64 9223372036854775808 = false ∧
    inInt64 (-9223372036854775809) = false := by decide
example : isNaN32 0x7F800001 = true ∧ f32Man 0x7F800001 < 2 ^ 22 ∧ quiet32 0x7F800001 = 0x7FC00001 ∧
    isNaN32 0xFF800000 = false ∧ (isNaN32 0x7FC00001 = true ∧ 2 ^ 22 ≤ f32Man 0x7FC00001) := by decide
example : [0x61, 0xDC80].all (fun c => !isSurrogate c) = false ∧
    [0x61, 0x1F600].all (fun c => !isSurrogate c) = true := by decide
example : normAttrScalarP ⟨"a", some "", .float (some 0x7F800001)⟩ = ⟨"a", none, .float (some 0x7FC00001)⟩ := by decide

/-- float32 -> double -> float32 on bit patterns, for ALL 2^32 patterns (case analysis on the exponent and
mantissa fields, no enumeration): the bits come back, a signalling NaN with the quiet bit set; both conversions
stay inside their formats -/
theorem C02_float32_widen_narrow :
    (∀ b : Nat, b < 2 ^ 32 → f64ToF32 (f32ToF64 b) = quiet32 b) ∧
    (∀ b : Nat, b < 2 ^ 32 → (isNaN32 b = false ∨ 2 ^ 22 ≤ f32Man b) → f64ToF32 (f32ToF64 b) = b) ∧
    (∀ b : Nat, b < 2 ^ 32 → f32ToF64 b < 2 ^ 64) ∧
    (∀ x : Nat, x < 2 ^ 64 → f64ToF32 x < 2 ^ 32) :=
  ⟨f64ToF32_f32ToF64, f64ToF32_f32ToF64_exact, f32ToF64_lt, f64ToF32_lt⟩

/-- double -> float32 -> double is the identity on every double that is a float32 value (the image of the
widening, all classes incl. NaNs): narrowing loses nothing that is representable -/
theorem C02_float32_representable (x : Nat) (h : ∃ b, b < 2 ^ 32 ∧ x = f32ToF64 b) :
    f32ToF64 (f64ToF32 x) = x :=
  f32ToF64_f64ToF32_of_representable x h

example : ∃ b, b < 2 ^ 32 ∧ 0x36A0000000000000 = f32ToF64 b := ⟨1, by decide, by decide⟩
example : f64ToF32 0x47EFFFFFEFFFFFFF = 0x7F7FFFFF ∧ f64ToF32 0x47EFFFFFF0000000 = 0x7F800000 ∧
    f64ToF32 0x3FB999999999999A = 0x3DCCCCCD ∧ f64ToF32 0x3690000000000000 = 0 ∧
    f64ToF32 0x3690000000000001 = 1 ∧ f64ToF32 0x7FF0000000000001 = 0x7FC00000 := by decide

/-- what is proved about the rounding of `attribute_proto.f = x` (double -> float32):
(1) it is monotone on the non-negative doubles up to +inf (bit-pattern order is value order there) and (2)
commutes with the sign bit; hence (3) faithful: a double between two adjacent float32 values goes to one of the
two; (4) in the NORMAL range it is round-to-nearest, ties-to-even, stated on bit patterns: the doubles strictly
between the normal float32 `b` and its successor are `f32ToF64 b + d`, `0 < d < 2^29`; the successor of the largest
finite float32 is the pattern of infinity, so this contains the overflow threshold 0x47EFFFFFF0000000.
MISSING (compared with the real code on every run, exhaustive scope around 8192 float32 values, not proved): that
the choice between the two neighbours is nearest / ties-to-even also below the least normal float32 (subnormal
results and underflow to zero; there only (3) is proved). -/
theorem C02_float32_rounding_partial :
    (∀ x y : Nat, x ≤ y → y ≤ 2047 * 2 ^ 52 → f64ToF32 x ≤ f64ToF32 y) ∧
    (∀ x : Nat, x < 2 ^ 63 → f64ToF32 (2 ^ 63 + x) = 2 ^ 31 + f64ToF32 x) ∧
    (∀ b x : Nat, b + 1 ≤ inf32 → f32ToF64 b ≤ x → x ≤ f32ToF64 (b + 1) → f64ToF32 x = b ∨ f64ToF32 x = b + 1) ∧
    (∀ b d : Nat, b < inf32 → f32Exp b ≠ 0 → d < 2 ^ 29 →
      f64ToF32 (f32ToF64 b + d) = if d < 2 ^ 28 ∨ (d = 2 ^ 28 ∧ b % 2 = 0) then b else b + 1) :=
  ⟨f64ToF32_mono, f64ToF32_neg, f64ToF32_faithful, f64ToF32_nearest_normal⟩

example : (0x3DCCCCCD : Nat) < inf32 ∧ f32Exp 0x3DCCCCCD ≠ 0 ∧ 0x7F7FFFFF + 1 ≤ inf32 ∧
    f32ToF64 0x7F7FFFFF + 2 ^ 28 = 0x47EFFFFFF0000000 := by decide

/-- UTF-8 as CPython's strict codec, on bytes and code points: (1) bytes -> str -> bytes (the direction of C02):
whatever decodes, encodes back to the same bytes (decoding accepts shortest forms only); (2) str -> bytes -> str:
what encodes, decodes back to the same code points; (3) encoding succeeds iff there is no lone surrogate. -/
theorem C02_utf8_roundtrip :
    (∀ bs cps : List Nat, utf8Dec bs = some cps → utf8Enc cps = .ok bs) ∧
    (∀ cps bs : List Nat, cps.all (fun c => decide (c < 0x110000)) = true → utf8Enc cps = .ok bs →
      utf8Dec bs = some cps) ∧
    (∀ cps : List Nat, (∃ bs, utf8Enc cps = .ok bs) ↔ cps.all (fun c => !isSurrogate c) = true) :=
  ⟨utf8Enc_of_dec, utf8Dec_of_enc, utf8Enc_ok_iff⟩

example : utf8Dec [0x68, 0xC3, 0xA9, 0xF0, 0x9F, 0x98, 0x80] = some [0x68, 0xE9, 0x1F600] ∧
    utf8Dec [0xC0, 0x80] = none ∧ utf8Dec [0xED, 0xA0, 0x80] = none ∧ utf8Dec [0xF4, 0x90, 0x80, 0x80] = none ∧
    [0x68, 0xE9, 0x1F600].all (fun c => decide (c < 0x110000)) = true := by decide

end IrVerif.Serde

/-
C09 — concurrent external-data writing is schedule-independent, bounded and live.
Property theorems about the transition system `IrVerif.Writer` (Model/Writer.lean); all of them
quantify over every configuration (worker count, capacity, tensor sizes / objects / failing
tensors, job structure) satisfying `WF` and over every reachable state, i.e. every schedule.
Helper developments: Lemmas/Writer*.lean.
-/
import IrVerif.Lemmas.WriterLocks
namespace IrVerif.Writer

theorem reachable_inv {cfg : Cfg} (wf : WF cfg) {s : State} (h : Reachable cfg s) :
    SInv cfg s ∧ LInv cfg s := by
  induction h with
  | init => exact ⟨SInv_init, LInv_init cfg⟩
  | step l _ hst ih =>
      have hr := stepRel_of_step hst
      exact ⟨SInv_step wf ih.1 hr, LInv_step wf ih.1 ih.2 hr⟩

/-- largest reservation of the configuration -/
def maxSize (cfg : Cfg) : Nat := cfg.tensors.foldr (fun t m => max t.size m) 0

theorem size_le_maxSize (cfg : Cfg) (i : Nat) : cfg.size i ≤ maxSize cfg := by
  unfold Cfg.size maxSize
  generalize cfg.tensors = l
  induction l generalizing i with
  | nil => simp; rfl
  | cons t ts ih =>
      cases i with
      | zero => simp; omega
      | succ i => have := ih i; simp at this ⊢; omega

/-- bytes of tensors materialised right now: sizes of all threads holding a reservation -/
def materialised (cfg : Cfg) (s : State) : Nat :=
  wsum (fun i p => if holds p = true then cfg.size i else 0) 0 s.tasks

theorem wsum_mul_le (f : Nat → Pc → Nat) (g : Nat → Pc → Nat) (c : Nat)
    (h : ∀ i p, g i p ≤ f i p * c) : ∀ (l : List Pc) (k : Nat), wsum g k l ≤ wsum f k l * c
  | [], _ => by simp [wsum]
  | q :: qs, k => by
      have := wsum_mul_le f g c h qs (k + 1)
      have := h k q
      simp only [wsum, Nat.add_mul]; omega

/-- **C09_budget**: in every reachable state the in-flight counter is exactly the sum of the
    regular reservations of the threads between `acquire` and `release`, it never exceeds the
    capacity, at most one oversized reservation is held (and the flag says so), hence the bytes
    materialised at any time are at most `capacity + largest tensor`. -/
theorem C09_budget {cfg : Cfg} (wf : WF cfg) {s : State} (h : Reachable cfg s) :
    s.inFlight = wsum (fReg cfg) 0 s.tasks ∧ s.inFlight ≤ cfg.capacity ∧
    wsum (fOver cfg) 0 s.tasks ≤ 1 ∧ (s.oversized = true ↔ wsum (fOver cfg) 0 s.tasks = 1) ∧
    materialised cfg s ≤ cfg.capacity + maxSize cfg := by
  obtain ⟨_, hl⟩ := reachable_inv wf h
  have hov := hl.over
  have h1 : wsum (fOver cfg) 0 s.tasks ≤ 1 := by rw [← hov]; split <;> omega
  refine ⟨hl.reg, hl.le, h1, ?_, ?_⟩
  · cases ho : s.oversized <;> simp [ho] at hov ⊢ <;> omega
  · have hsplit : materialised cfg s ≤
        wsum (fReg cfg) 0 s.tasks + wsum (fOver cfg) 0 s.tasks * maxSize cfg := by
      unfold materialised
      have h2 := wsum_mul_le (fOver cfg)
        (fun i p => if holds p = true ∧ cfg.size i > cfg.capacity then cfg.size i else 0)
        (maxSize cfg) (by
          intro i p; have := size_le_maxSize cfg i
          simp only [fOver]; split <;> simp <;> omega) s.tasks 0
      have h3 := wsum_add (fReg cfg)
        (fun i p => if holds p = true ∧ cfg.size i > cfg.capacity then cfg.size i else 0) s.tasks 0
      have h4 := wsum_le_of_le (fun i p => if holds p = true then cfg.size i else 0)
        (fun i p => fReg cfg i p +
          (if holds p = true ∧ cfg.size i > cfg.capacity then cfg.size i else 0))
        (by intro i p; simp only [fReg]; split <;> split <;> split <;> simp_all <;> omega) s.tasks 0
      omega
    have := hl.reg
    have := hl.le
    have : wsum (fOver cfg) 0 s.tasks * maxSize cfg ≤ maxSize cfg := by
      rcases Nat.le_one_iff_eq_zero_or_eq_one.1 h1 with e | e <;> simp [e]
    omega

/-- **C09_callback_mutex**: two threads are never inside the progress callback together. -/
theorem C09_callback_mutex {cfg : Cfg} (wf : WF cfg) {s : State} (h : Reachable cfg s)
    {i j : Nat} (hij : i ≠ j) (hi : s.tasks[i]? = some .cbBody) (hj : s.tasks[j]? = some .cbBody) :
    False := by
  obtain ⟨_, hl⟩ := reachable_inv wf h
  have hcb := hl.cb
  have h2 : fCb i .cbBody + fCb j .cbBody ≤ wsum fCb 0 s.tasks := by
    rcases Nat.lt_or_gt_of_ne hij with hlt | hlt
    · simpa using wsum_ge2 fCb s.tasks 0 i j _ _ hlt hi hj
    · have := wsum_ge2 fCb s.tasks 0 j i _ _ hlt hj hi
      simp at this ⊢; omega
  simp [fCb] at h2
  split at hcb <;> omega

/-- **C09_tensor_mutex**: two uses of the same tensor object are never inside the
    `with tensor lock` section (budget acquire, write, release) together. -/
theorem C09_tensor_mutex {cfg : Cfg} (wf : WF cfg) {s : State} (h : Reachable cfg s)
    {i j : Nat} {p q : Pc} (hij : i ≠ j) (hobj : cfg.obj i = cfg.obj j)
    (hi : s.tasks[i]? = some p) (hj : s.tasks[j]? = some q) (hp : inT p = true) (hq : inT q = true) :
    False := by
  obtain ⟨hs, hl⟩ := reachable_inv wf h
  have hil : i < cfg.n := by rw [← hs.tasks_len]; exact getElem?_lt hi
  have htl := hl.tl (cfg.obj i) (wf.obj_lt i hil)
  have h2 : fT cfg (cfg.obj i) i p + fT cfg (cfg.obj i) j q ≤ wsum (fT cfg (cfg.obj i)) 0 s.tasks := by
    rcases Nat.lt_or_gt_of_ne hij with hlt | hlt
    · simpa using wsum_ge2 (fT cfg (cfg.obj i)) s.tasks 0 i j _ _ hlt hi hj
    · have := wsum_ge2 (fT cfg (cfg.obj i)) s.tasks 0 j i _ _ hlt hj hi
      simp at this ⊢; omega
  simp [fT, hp, hq, hobj.symm] at h2
  split at htl <;> omega

end IrVerif.Writer

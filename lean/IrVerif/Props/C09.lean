/-
C09 — concurrent external-data writing is schedule-independent, bounded and live.
Property theorems about the transition system `IrVerif.Writer` (Model/Writer.lean); all of them
quantify over every configuration (worker count, capacity, tensor sizes / objects / failing
tensors, job structure) satisfying `WF` and over every reachable state, i.e. every schedule.
Helper developments: Lemmas/Writer*.lean.

Deepening round (end of the `IrVerif.WriterN` part):
* `planCfg` (Model/WriterPlan.lean) builds the configuration from the arguments of the save with C07's
  layout model and the preallocation step; `C09_plan_layout` (Layout, Prealloc) and `C09_plan_wf` (WF,
  the pool tree of a sharded save included) hold for every input, so `C09_bytes_serial_layout`,
  `C09_bytes_serial_layout_sharded` and `C09_bytes_serial_layout_c07` (conclusion in C07's file model +
  read-back) have no hypothesis about the configuration.
* `callback=None` is the macro-step system `stepNC` (Model/WriterNC.lean): `C09_nocb_refines` (its
  schedules are model schedules, so every safety theorem applies), `C09_nocb_locks_free`,
  `C09_nocb_deadlock_free`, `C09_nocb_schedule_bounded`.
* failing tensors: every theorem quantifies over arbitrary `fails` / `cbFails` flags, i.e. any number of
  failing tensors in any shards (`exTwoFail` is a witness with two failing shards).

Deepening round 2:
* `C09_bytes_serial_layout_c07_sharded`: the link to C07's file model for EVERY save — every shard file is
  C07's `serialImage` of that shard's writes (`Layout.dataFiles`), read-back per shard file (`C07_readback`) and
  through the recorded placements (`C07_roundtrip`); Lemmas/WriterLayoutShards.lean.
* `IrVerif.Writer.C09_flat_is_general`: the flat model is the one-pool instance of the general model
  (`toN` / `absState` / `absLabel`, Model/WriterFlatN.lean, Lemmas/WriterFlatN.lean): lock-step bisimulation, WF
  carries over; the flat model therefore needs no callback=None variant of its own.
* `C09_memory_bound`: the reservation of every tensor is computed by the model of `_reservation_bytes`
  (`reservationBytes`, `planArgs`), what a writer holds (`peakBytes`: all of `tobytes()` / one buffer of the copy
  loop `copyReads` of `ExternalTensor.tofile`) never exceeds it, hence bytes held <= max(budget, 1) + max nbytes;
  Lemmas/WriterMem.lean.
-/
import IrVerif.Lemmas.WriterFiles
import IrVerif.Lemmas.WriterNFiles
import IrVerif.Lemmas.WriterNC
import IrVerif.Lemmas.WriterPlanWF
import IrVerif.Lemmas.WriterLayoutSerial
import IrVerif.Lemmas.WriterPlanShardsWF
import IrVerif.Lemmas.WriterLayoutShards
import IrVerif.Lemmas.WriterFlatN
import IrVerif.Lemmas.WriterMem
namespace IrVerif.Writer

theorem reachable_inv {cfg : Cfg} (wf : WF cfg) {s : State} (h : Reachable cfg s) :
    SInv cfg s ∧ LInv cfg s :=
  ⟨(reachable_Inv wf h).s, (reachable_Inv wf h).l⟩

theorem reachable_GInv {cfg : Cfg} (wf : WF cfg) {s : State} (h : Reachable cfg s) : GInv s := by
  induction h with
  | init => exact GInv_init cfg
  | step l hr hst ih => exact GInv_step wf (reachable_Inv wf hr).s ih (stepRel_of_step hst)

theorem reachable_of_run {cfg : Cfg} : ∀ (ls : List Label) {s s' : State}, Reachable cfg s →
    run cfg s ls = some s' → Reachable cfg s'
  | [], s, s', hr, h => by simp [run] at h; subst h; exact hr
  | l :: ls, s, s', hr, h => by
      simp only [run] at h
      split at h
      · simp at h
      · rename_i s1 hs1; exact reachable_of_run ls (.step l hr hs1) h

/-- the executable well-formedness test used by the driver implies `WF` -/
theorem wfb_sound {cfg : Cfg} (h : wfb cfg = true) : WF cfg := by
  simp only [wfb, Bool.and_eq_true, decide_eq_true_eq, List.all_eq_true, List.mem_range] at h
  obtain ⟨⟨⟨⟨h1, h2⟩, h3⟩, h4⟩, h5⟩ := h
  exact ⟨h1, h2, fun j hj => (h3 j hj).1.1, fun j hj => (h3 j hj).1.2,
    fun j i hj hi => (h3 j hj).2 i hi, fun i hi => (h4 i hi).1, fun i hi => (h4 i hi).2,
    fun i k hik hk e => h5 k hk i hik e⟩

/-- largest reservation of the configuration -/
def maxSize (cfg : Cfg) : Nat := cfg.tensors.foldr (fun t m => max t.size m) 0

theorem size_le_maxSize (cfg : Cfg) (i : Nat) : cfg.size i ≤ maxSize cfg := by
  unfold Cfg.size maxSize
  generalize cfg.tensors = l
  induction l generalizing i with
  | nil => simp; rfl
  | cons t ts ih =>
      cases i with
      | zero => simp; omega
      | succ i => have := ih i; simp at this ⊢; omega

/-- bytes of tensors materialised right now: sizes of all threads holding a reservation -/
def materialised (cfg : Cfg) (s : State) : Nat :=
  wsum (fun i p => if holds p = true then cfg.size i else 0) 0 s.tasks

theorem wsum_mul_le (f : Nat → Pc → Nat) (g : Nat → Pc → Nat) (c : Nat)
    (h : ∀ i p, g i p ≤ f i p * c) : ∀ (l : List Pc) (k : Nat), wsum g k l ≤ wsum f k l * c
  | [], _ => by simp [wsum]
  | q :: qs, k => by
      have := wsum_mul_le f g c h qs (k + 1)
      have := h k q
      simp only [wsum, Nat.add_mul]; omega

/-- **C09_budget**: in every reachable state the in-flight counter is exactly the sum of the
    regular reservations of the threads between `acquire` and `release`, it never exceeds the
    capacity, at most one oversized reservation is held (and the flag says so), hence the bytes
    materialised at any time are at most `capacity + largest tensor`. -/
theorem C09_budget {cfg : Cfg} (wf : WF cfg) {s : State} (h : Reachable cfg s) :
    s.inFlight = wsum (fReg cfg) 0 s.tasks ∧ s.inFlight ≤ cfg.capacity ∧
    wsum (fOver cfg) 0 s.tasks ≤ 1 ∧ (s.oversized = true ↔ wsum (fOver cfg) 0 s.tasks = 1) ∧
    materialised cfg s ≤ cfg.capacity + maxSize cfg := by
  obtain ⟨_, hl⟩ := reachable_inv wf h
  have hov := hl.over
  have h1 : wsum (fOver cfg) 0 s.tasks ≤ 1 := by rw [← hov]; split <;> omega
  refine ⟨hl.reg, hl.le, h1, ?_, ?_⟩
  · cases ho : s.oversized <;> simp [ho] at hov ⊢ <;> omega
  · have hsplit : materialised cfg s ≤
        wsum (fReg cfg) 0 s.tasks + wsum (fOver cfg) 0 s.tasks * maxSize cfg := by
      unfold materialised
      have h2 := wsum_mul_le (fOver cfg)
        (fun i p => if holds p = true ∧ cfg.size i > cfg.capacity then cfg.size i else 0)
        (maxSize cfg) (by
          intro i p; have := size_le_maxSize cfg i
          simp only [fOver]; split <;> simp <;> omega) s.tasks 0
      have h3 := wsum_add (fReg cfg)
        (fun i p => if holds p = true ∧ cfg.size i > cfg.capacity then cfg.size i else 0) s.tasks 0
      have h4 := wsum_le_of_le (fun i p => if holds p = true then cfg.size i else 0)
        (fun i p => fReg cfg i p +
          (if holds p = true ∧ cfg.size i > cfg.capacity then cfg.size i else 0))
        (by intro i p; simp only [fReg]; split <;> split <;> split <;> simp_all <;> omega) s.tasks 0
      omega
    have := hl.reg
    have := hl.le
    have : wsum (fOver cfg) 0 s.tasks * maxSize cfg ≤ maxSize cfg := by
      rcases Nat.le_one_iff_eq_zero_or_eq_one.1 h1 with e | e <;> simp [e]
    omega

/-- **C09_callback_mutex**: two threads are never inside the progress callback together. -/
theorem C09_callback_mutex {cfg : Cfg} (wf : WF cfg) {s : State} (h : Reachable cfg s)
    {i j : Nat} (hij : i ≠ j) (hi : s.tasks[i]? = some .cbBody) (hj : s.tasks[j]? = some .cbBody) :
    False := by
  obtain ⟨_, hl⟩ := reachable_inv wf h
  have hcb := hl.cb
  have h2 : fCb i .cbBody + fCb j .cbBody ≤ wsum fCb 0 s.tasks := by
    rcases Nat.lt_or_gt_of_ne hij with hlt | hlt
    · simpa using wsum_ge2 fCb s.tasks 0 i j _ _ hlt hi hj
    · have := wsum_ge2 fCb s.tasks 0 j i _ _ hlt hj hi
      simp at this ⊢; omega
  simp [fCb] at h2
  split at hcb <;> omega

/-- **C09_tensor_mutex**: two uses of the same tensor object are never inside the
    `with tensor lock` section together — the section now contains the progress callback (and its
    lock) as well as budget acquire, write and release (`inT`). -/
theorem C09_tensor_mutex {cfg : Cfg} (wf : WF cfg) {s : State} (h : Reachable cfg s)
    {i j : Nat} {p q : Pc} (hij : i ≠ j) (hobj : cfg.obj i = cfg.obj j)
    (hi : s.tasks[i]? = some p) (hj : s.tasks[j]? = some q) (hp : inT p = true) (hq : inT q = true) :
    False := by
  obtain ⟨hs, hl⟩ := reachable_inv wf h
  have hil : i < cfg.n := by rw [← hs.tasks_len]; exact getElem?_lt hi
  have htl := hl.tl (cfg.obj i) (wf.obj_lt i hil)
  have h2 : fT cfg (cfg.obj i) i p + fT cfg (cfg.obj i) j q ≤ wsum (fT cfg (cfg.obj i)) 0 s.tasks := by
    rcases Nat.lt_or_gt_of_ne hij with hlt | hlt
    · simpa using wsum_ge2 (fT cfg (cfg.obj i)) s.tasks 0 i j _ _ hlt hi hj
    · have := wsum_ge2 (fT cfg (cfg.obj i)) s.tasks 0 j i _ _ hlt hj hi
      simp at this ⊢; omega
  simp [fT, hp, hq, hobj.symm] at h2
  split at htl <;> omega


/-- after a successful save every tensor has been written -/
theorem finished_ok_all_done {cfg : Cfg} (wf : WF cfg) {s : State} (h : Reachable cfg s)
    (hm : s.main = .finished false) : ∀ i, i < cfg.n → s.tasks[i]? = some (.done true) := by
  have hI := reachable_Inv wf h
  intro i hi
  have hj := wf.job_lt i hi
  have hall := hI.c.all (Or.inr hm)
  have hin := (nodup_bounded cfg.nJobs s.collected hI.c.nodup hI.c.lt).2 hall (cfg.job i) hj
  have hok := hI.c.ok (Or.inr (Or.inr hm)) (cfg.job i) hin
  exact hI.j.ok_done (cfg.job i) hok i hi rfl

/-- **C09_callback_once**: in every reachable state the callback log has no duplicates and contains
    exactly the tensors whose callback step has been executed; after a successful save it contains
    every tensor exactly once (after a failed save: exactly the tensors that were started, none of
    the cancelled / skipped ones). -/
theorem C09_callback_once {cfg : Cfg} (wf : WF cfg) {s : State} (h : Reachable cfg s) :
    s.log.Nodup ∧ (∀ k, k ∈ s.log ↔ called s k) ∧
    (s.main = .finished false → ∀ k, k ∈ s.log ↔ k < cfg.n) := by
  have hg := reachable_GInv wf h
  refine ⟨hg.nodup, hg.mem, fun hm k => ?_⟩
  rw [hg.mem k]
  constructor
  · rintro ⟨p, hp, _⟩
    rw [← (reachable_Inv wf h).s.tasks_len]; exact getElem?_lt hp
  · intro hk
    exact ⟨_, finished_ok_all_done wf h hm k hk, rfl⟩

/-- **C09_deadlock_free**: every reachable state in which the save has not yet returned to the
    caller has an enabled step (in particular every waiter whose predicate became true has been
    notified: there is no lost wake-up). -/
theorem C09_deadlock_free {cfg : Cfg} (wf : WF cfg) {s : State} (h : Reachable cfg s)
    (hnt : terminal s = false) : ∃ l, (step cfg s l).isSome = true :=
  progress wf (reachable_Inv wf h) hnt

/-- **C09_terminates**: the variant strictly decreases on every step of every schedule. -/
theorem C09_terminates {cfg : Cfg} (wf : WF cfg) {s s' : State} {l : Label} (h : Reachable cfg s)
    (hst : step cfg s l = some s') : variant cfg s' < variant cfg s :=
  variant_decreases wf (reachable_Inv wf h) (stepRel_of_step hst)

/-- hence every schedule is finite: its length is bounded by the initial variant ... -/
theorem C09_schedule_bounded {cfg : Cfg} (wf : WF cfg) : ∀ (ls : List Label) {s s' : State},
    Reachable cfg s → run cfg s ls = some s' → ls.length + variant cfg s' ≤ variant cfg s
  | [], s, s', _, h => by simp [run] at h; subst h; simp
  | l :: ls, s, s', hr, h => by
      simp only [run] at h
      split at h
      · simp at h
      · rename_i s1 hs1
        have h1 := C09_terminates wf hr hs1
        have h2 := C09_schedule_bounded wf ls (.step l hr hs1) h
        simp only [List.length_cons]; omega

/-- ... and a schedule that cannot be extended has returned to the caller. -/
theorem C09_maximal_terminal {cfg : Cfg} (wf : WF cfg) {ls : List Label} {s : State}
    (h : run cfg (init cfg) ls = some s) (hmax : ∀ l, step cfg s l = none) : terminal s = true := by
  cases ht : terminal s
  · obtain ⟨l, hl⟩ := C09_deadlock_free wf (reachable_of_run ls .init h) ht
    rw [hmax l] at hl; simp at hl
  · rfl

/-- **C09_error_quiescent**: when the save returns to the caller — in particular when the
    exception of a failed tensor reaches the caller (`e = true`) — every pool thread has exited,
    no tensor is in progress, the whole budget is released, the wait set is empty and the callback
    lock and all tensor locks are free. -/
theorem C09_error_quiescent {cfg : Cfg} (wf : WF cfg) {s : State} (h : Reachable cfg s) {e : Bool}
    (hm : s.main = .finished e) :
    s.exited = cfg.workers ∧ s.idle = 0 ∧
    (∀ (i : Nat) (p : Pc), s.tasks[i]? = some p → act p = false) ∧
    s.inFlight = 0 ∧ s.oversized = false ∧ s.cbLock = false ∧
    (∀ o, o < cfg.nObjs → s.tLocks.getD o false = false) := by
  have hI := reachable_Inv wf h
  have hex := hI.p.fin_exit e hm
  have hpool := hI.p.pool
  have hna := no_act_of_wsum (s := s) (by omega)
  obtain ⟨h1, h2, h3, h4⟩ := quiet_of_no_act hI.l hna
  exact ⟨hex, by omega, hna, h1, h2, h3, h4⟩

theorem layoutb_sound {cfg : Cfg} (h : layoutb cfg = true) : Layout cfg := by
  simp only [layoutb, Bool.and_eq_true, List.all_eq_true, List.mem_range, decide_eq_true_eq] at h
  exact ⟨h.1, fun i j hi hj => h.2 i hi j hj⟩

theorem reachable_FInv {cfg : Cfg} (wf : WF cfg) (lay : Layout cfg) {s : State}
    (h : Reachable cfg s) : FInv cfg s := by
  induction h with
  | init => exact FInv_init cfg
  | step l hr hst ih => exact FInv_step wf lay (reachable_Inv wf hr).s ih (stepRel_of_step hst)

/-- **C09_bytes_serial**: whenever a save returns normally — after any schedule — every file is
    byte-identical to the one the serial save produces (tensor ranges pairwise disjoint, which is
    what C07 proves of the computed offsets). -/
theorem C09_bytes_serial {cfg : Cfg} (wf : WF cfg) (lay : Layout cfg) {s : State}
    (h : Reachable cfg s) (hm : s.main = .finished false) : s.files = serialFiles cfg := by
  have hf := reachable_FInv wf lay h
  have hall := finished_ok_all_done wf h hm
  have hlen := (reachable_Inv wf h).s.tasks_len
  have hser := serial_spec lay cfg.n (Nat.le_refl _)
  refine Spec_ext (Spec_congr (fun k => ?_) hf) hser
  constructor
  · rintro ⟨p, hp, _⟩; rw [← hlen]; exact getElem?_lt hp
  · intro hk; exact ⟨_, hall k hk, rfl⟩

theorem preallocb_sound {cfg : Cfg} (h : preallocb cfg = true) : Prealloc cfg := by
  simp only [preallocb, Bool.and_eq_true, List.all_eq_true, List.mem_range, Bool.or_eq_true,
    decide_eq_true_eq, List.any_eq_true, beq_iff_eq, Bool.not_eq_true', List.isEmpty_iff] at h
  obtain ⟨h1, h3⟩ := h
  refine ⟨fun φ k => ?_, fun φ => ?_⟩
  · simp only [getB, List.getD_eq_getElem?_getD]
    cases hf : cfg.files[φ]? with
    | none => simp
    | some f =>
        simp only [Option.getD_some]
        cases hk : f[k]? with
        | none => rfl
        | some b =>
            have := h1 f (List.mem_of_getElem? hf) b (List.mem_of_getElem? hk)
            simp [this]
  · rcases Nat.lt_or_ge φ cfg.files.length with hφ | hφ
    · rcases h3 φ hφ with e | ⟨i, hi, ⟨⟨e1, e2⟩, e3⟩⟩
      · left; rw [e]; rfl
      · right
        exact ⟨i, hi, e1, by intro e; rw [e] at e2; simp at e2, e3⟩
    · left
      simp [List.getD_eq_getElem?_getD, List.getElem?_eq_none hφ]

/-- **C09_bytes_serial_wb**: the files of a successful concurrent save equal the files the *serial* writer
    produces starting from empty files (opened "wb", holes left by `seek`), although the parallel
    writer starts from a zero file truncated to the total size. -/
theorem C09_bytes_serial_wb {cfg : Cfg} (wf : WF cfg) (lay : Layout cfg) (pre : Prealloc cfg) {s : State}
    (h : Reachable cfg s) (hm : s.main = .finished false) : s.files = serialFiles (cfgEmpty cfg) := by
  rw [← serial_from_empty lay pre]; exact C09_bytes_serial wf lay h hm

/-! ### the flat model is the one-pool instance of the general model -/

theorem reachable_futs_len {cfg : Cfg} {s : State} (h : Reachable cfg s) : s.futs.length = cfg.nJobs := by
  induction h with
  | init => simp [init]
  | step l _ hst ih => rw [step_futs_length hst]; exact ih

/-- **C09_flat_is_general**: the flat model (single-file parallel writer; shard drivers with serial
    writers) is the general model `IrVerif.WriterN` on the one-pool configuration `toN cfg`.  The initial
    states correspond; in every reachable state a flat step and the general model's step on the translated
    state and label are the SAME partial function (so enabled sets coincide and successor states
    correspond); the general model has no other enabled label there (labels of pools other than pool 0);
    whole schedules and `terminal` correspond; well-formedness carries over.  Hence every theorem about
    `IrVerif.WriterN` — including those about the writer without a callback (`stepNC`), which the flat
    model does not have — applies to the flat configurations, and the flat theorems above are instances. -/
theorem C09_flat_is_general (cfg : Cfg) :
    absState (init cfg) = WriterN.init (toN cfg) ∧
    (∀ {s : State}, Reachable cfg s → ∀ l : Label,
      (step cfg s l).map absState = WriterN.step (toN cfg) (absState s) (absLabel l)) ∧
    (∀ {s : State}, Reachable cfg s → ∀ l' : WriterN.Label,
      (WriterN.step (toN cfg) (absState s) l').isSome = true → ∃ l, l' = absLabel l) ∧
    (∀ ls : List Label, (run cfg (init cfg) ls).map absState =
      WriterN.run (toN cfg) (WriterN.init (toN cfg)) (ls.map absLabel)) ∧
    (∀ {s : State}, Reachable cfg s → WriterN.Reachable (toN cfg) (absState s)) ∧
    (∀ s : State, WriterN.terminal (absState s) = terminal s) ∧
    (WF cfg → WriterN.WF (toN cfg)) := by
  refine ⟨abs_init cfg, fun hr l => step_abs cfg _ (reachable_futs_len hr) l,
    fun _ l' h => step_other cfg _ l' h, fun ls => ?_, fun hr => ?_, abs_terminal, toN_wf⟩
  · rw [← abs_init]; exact run_abs cfg ls (init cfg) (by simp [init])
  · induction hr with
    | init => rw [abs_init]; exact .init
    | step l hr hst ih =>
        have := step_abs cfg _ (reachable_futs_len hr) l
        rw [hst] at this
        exact .step (absLabel l) ih this.symm

/-! ### non-vacuity -/

/-- 2 workers, capacity 2, two oversized tensors (3 > 2) -/
def exCfg (fail0 : Bool) : Cfg where
  workers := 2
  capacity := 2
  nObjs := 2
  mode := .parallel
  tensors := [⟨0, 3, fail0, false, 0, 0, 0, [1, 1, 1]⟩, ⟨1, 3, false, false, 1, 0, 3, [2, 2, 2]⟩]
  jobStarts := [0, 1]
  files := [[0, 0, 0, 0, 0, 0]]

example : Layout (exCfg false) := layoutb_sound (by decide)
example : Prealloc (exCfg false) := preallocb_sound (by decide)
example : WF (exCfg false) := wfb_sound (by decide)
example : WF (exCfg true) := wfb_sound (by decide)

/-- a successful complete schedule in which tensor 1 waits for the oversized slot and is woken -/
example : (run (exCfg false) (init (exCfg false))
    [.main 0, .main 0, .take, .take, .task 0, .task 0, .task 0, .task 0, .task 0, .task 1, .task 1,
     .task 1, .task 1, .task 0, .main 0, .task 1, .task 1, .task 1, .main 1, .exit, .exit,
     .main 0]).map (fun s => (s.main, s.log, s.files)) =
      some (.finished false, [0, 1], [[1, 1, 1, 2, 2, 2]]) := by decide

/-- the waiting state is reachable (hypothesis of `WInv` is not vacuous) -/
example : (run (exCfg false) (init (exCfg false))
    [.main 0, .main 0, .take, .take, .task 0, .task 0, .task 0, .task 0, .task 1, .task 1,
     .task 1, .task 1]).map (fun s => s.tasks) = some [.write, .waiting] := by decide

/-- a failing complete schedule: the exception reaches the caller -/
example : (run (exCfg true) (init (exCfg true))
    [.main 0, .main 0, .take, .take, .task 0, .task 0, .task 0, .task 1, .task 1, .task 1, .task 1,
     .task 0, .task 1, .task 1, .main 1, .task 0, .task 0, .task 0, .main 0, .exit, .exit,
     .main 0]).map (fun s => s.main) = some (.finished true) := by decide

end IrVerif.Writer

/-! ## The general (nested) model `IrVerif.WriterN`

A tree of worker pools: the flat modes above are its instances with one pool; in addition every
shard driver may run a *parallel* writer (`workers_per_shard >= 2`), i.e. own an inner pool, all
pools sharing the one budget, the tensor-object locks and the outer callback lock.  The theorems
quantify over every well-formed pool tree (any depth), every sizes / capacity / failing tensors, and
every schedule. -/
namespace IrVerif.WriterN

theorem reachable_GInv {cfg : Cfg} (wf : WF cfg) {s : State} (h : Reachable cfg s) : GInv s := by
  induction h with
  | init => exact GInv_init cfg
  | step l hr hst ih => exact GInv_step wf (reachable_Inv wf hr).s ih (stepRel_of_step hst)

theorem reachable_of_run {cfg : Cfg} : ∀ (ls : List Label) {s s' : State}, Reachable cfg s →
    run cfg s ls = some s' → Reachable cfg s'
  | [], s, s', hr, h => by simp [run] at h; subst h; exact hr
  | l :: ls, s, s', hr, h => by
      simp only [run] at h
      split at h
      · simp at h
      · rename_i s1 hs1; exact reachable_of_run ls (.step l hr hs1) h

def maxSize (cfg : Cfg) : Nat := cfg.tensors.foldr (fun t m => max t.size m) 0

theorem size_le_maxSize (cfg : Cfg) (i : Nat) : cfg.size i ≤ maxSize cfg := by
  unfold Cfg.size maxSize
  generalize cfg.tensors = l
  induction l generalizing i with
  | nil => simp; rfl
  | cons t ts ih =>
      cases i with
      | zero => simp; omega
      | succ i => have := ih i; simp at this ⊢; omega

def materialised (cfg : Cfg) (s : State) : Nat :=
  wsum (fun i p => if holds p = true then cfg.size i else 0) 0 s.tasks

theorem wsum_mul_le (f : Nat → Pc → Nat) (g : Nat → Pc → Nat) (c : Nat)
    (h : ∀ i p, g i p ≤ f i p * c) : ∀ (l : List Pc) (k : Nat), wsum g k l ≤ wsum f k l * c
  | [], _ => by simp [wsum]
  | q :: qs, k => by
      have := wsum_mul_le f g c h qs (k + 1)
      have := h k q
      simp only [wsum, Nat.add_mul]; omega

/-- **C09_budget** (nested): as `IrVerif.Writer.C09_budget`, for all pools together — the one
    shared budget bounds the bytes materialised by the threads of *all* shards. -/
theorem C09_budget {cfg : Cfg} (wf : WF cfg) {s : State} (h : Reachable cfg s) :
    s.inFlight = wsum (fReg cfg) 0 s.tasks ∧ s.inFlight ≤ cfg.capacity ∧
    wsum (fOver cfg) 0 s.tasks ≤ 1 ∧ (s.oversized = true ↔ wsum (fOver cfg) 0 s.tasks = 1) ∧
    materialised cfg s ≤ cfg.capacity + maxSize cfg := by
  have hl := (reachable_Inv wf h).l
  have hov := hl.over
  have h1 : wsum (fOver cfg) 0 s.tasks ≤ 1 := by rw [← hov]; split <;> omega
  refine ⟨hl.reg, hl.le, h1, ?_, ?_⟩
  · cases ho : s.oversized <;> simp [ho] at hov ⊢ <;> omega
  · have hsplit : materialised cfg s ≤
        wsum (fReg cfg) 0 s.tasks + wsum (fOver cfg) 0 s.tasks * maxSize cfg := by
      unfold materialised
      have h2 := wsum_mul_le (fOver cfg)
        (fun i p => if holds p = true ∧ cfg.size i > cfg.capacity then cfg.size i else 0)
        (maxSize cfg) (by
          intro i p; have := size_le_maxSize cfg i
          simp only [fOver]; split <;> simp <;> omega) s.tasks 0
      have h3 := wsum_add (fReg cfg)
        (fun i p => if holds p = true ∧ cfg.size i > cfg.capacity then cfg.size i else 0) s.tasks 0
      have h4 := wsum_le_of_le (fun i p => if holds p = true then cfg.size i else 0)
        (fun i p => fReg cfg i p +
          (if holds p = true ∧ cfg.size i > cfg.capacity then cfg.size i else 0))
        (by intro i p; simp only [fReg]; split <;> split <;> split <;> simp_all <;> omega) s.tasks 0
      omega
    have := hl.reg
    have := hl.le
    have : wsum (fOver cfg) 0 s.tasks * maxSize cfg ≤ maxSize cfg := by
      rcases Nat.le_one_iff_eq_zero_or_eq_one.1 h1 with e | e <;> simp [e]
    omega

/-- **C09_callback_mutex** (nested): two threads — of the same or of different pools — are never
    inside the progress callback together. -/
theorem C09_callback_mutex {cfg : Cfg} (wf : WF cfg) {s : State} (h : Reachable cfg s)
    {i j : Nat} (hij : i ≠ j) (hi : s.tasks[i]? = some .cbBody) (hj : s.tasks[j]? = some .cbBody) :
    False := by
  have hcb := (reachable_Inv wf h).l.cb
  have h2 : fCb i .cbBody + fCb j .cbBody ≤ wsum fCb 0 s.tasks := by
    rcases Nat.lt_or_gt_of_ne hij with hlt | hlt
    · simpa using wsum_ge2 fCb s.tasks 0 i j _ _ hlt hi hj
    · have := wsum_ge2 fCb s.tasks 0 j i _ _ hlt hj hi
      simp at this ⊢; omega
  simp [fCb] at h2
  split at hcb <;> omega

/-- **C09_tensor_mutex** (nested): two uses of the same tensor object — also from different shards
    — are never inside the tensor-lock section together; the section contains the progress callback
    with its lock(s), budget acquire, write and release (`inT`). -/
theorem C09_tensor_mutex {cfg : Cfg} (wf : WF cfg) {s : State} (h : Reachable cfg s)
    {i j : Nat} {p q : Pc} (hij : i ≠ j) (hobj : cfg.obj i = cfg.obj j)
    (hi : s.tasks[i]? = some p) (hj : s.tasks[j]? = some q) (hp : inT p = true) (hq : inT q = true) :
    False := by
  have hI := reachable_Inv wf h
  have hil : i < cfg.n := by rw [← hI.s.tasks_len]; exact getElem?_lt hi
  have htl := hI.l.tl (cfg.obj i) (wf.obj_lt i hil)
  have h2 : fT cfg (cfg.obj i) i p + fT cfg (cfg.obj i) j q ≤ wsum (fT cfg (cfg.obj i)) 0 s.tasks := by
    rcases Nat.lt_or_gt_of_ne hij with hlt | hlt
    · simpa using wsum_ge2 (fT cfg (cfg.obj i)) s.tasks 0 i j _ _ hlt hi hj
    · have := wsum_ge2 (fT cfg (cfg.obj i)) s.tasks 0 j i _ _ hlt hj hi
      simp at this ⊢; omega
  simp [fT, hp, hq, hobj.symm] at h2
  split at htl <;> omega

theorem reachable_KInv {cfg : Cfg} (wf : WF cfg) {s : State} (h : Reachable cfg s) : KInv cfg s := by
  induction h with
  | init => exact KInv_init wf
  | step l hr hst ih => exact KInv_step wf (reachable_Inv wf hr) ih (stepRel_of_step hst)

/-- (nested) after a successful save every tensor has been written, whatever pool wrote it -/
theorem finished_ok_all_done {cfg : Cfg} (wf : WF cfg) {s : State} (h : Reachable cfg s)
    (hm : (s.pl 0).owner = .closed false) : ∀ i, i < cfg.n → s.tasks[i]? = some (.done true) :=
  all_done_of_closed_ok wf (reachable_Inv wf h) (reachable_KInv wf h) hm

/-- **C09_callback_once** (nested): in every reachable state the callback log has no duplicates and
    contains exactly the tensors whose callback step has been executed; after a successful save it
    contains every tensor exactly once. -/
theorem C09_callback_once {cfg : Cfg} (wf : WF cfg) {s : State} (h : Reachable cfg s) :
    s.log.Nodup ∧ (∀ k, k ∈ s.log ↔ called s k) ∧
    ((s.pl 0).owner = .closed false → ∀ k, k ∈ s.log ↔ k < cfg.n) := by
  have hg := reachable_GInv wf h
  refine ⟨hg.nodup, hg.mem, fun hm k => ?_⟩
  rw [hg.mem k]
  constructor
  · rintro ⟨p, hp, _⟩
    rw [← (reachable_Inv wf h).s.tasks_len]; exact getElem?_lt hp
  · intro hk
    exact ⟨_, finished_ok_all_done wf h hm k hk, rfl⟩

theorem layoutb_sound {cfg : Cfg} (h : layoutb cfg = true) : Layout cfg := by
  simp only [layoutb, Bool.and_eq_true, List.all_eq_true, List.mem_range, decide_eq_true_eq] at h
  exact ⟨h.1, fun i j hi hj => h.2 i hi j hj⟩

theorem reachable_FInv {cfg : Cfg} (wf : WF cfg) (lay : Layout cfg) {s : State}
    (h : Reachable cfg s) : FInv cfg s := by
  induction h with
  | init => exact FInv_init cfg
  | step l hr hst ih => exact FInv_step wf lay (reachable_Inv wf hr).s ih (stepRel_of_step hst)

/-- **C09_bytes_serial** (nested): after any schedule of any pool tree, a save that returns normally
    has produced files byte-identical to the serial save. -/
theorem C09_bytes_serial {cfg : Cfg} (wf : WF cfg) (lay : Layout cfg) {s : State}
    (h : Reachable cfg s) (hm : (s.pl 0).owner = .closed false) : s.files = serialFiles cfg := by
  have hf := reachable_FInv wf lay h
  have hall := finished_ok_all_done wf h hm
  have hlen := (reachable_Inv wf h).s.tasks_len
  have hser := serial_spec lay cfg.n (Nat.le_refl _)
  refine Spec_ext (Spec_congr (fun k => ?_) hf) hser
  constructor
  · rintro ⟨p, hp, _⟩; rw [← hlen]; exact getElem?_lt hp
  · intro hk; exact ⟨_, hall k hk, rfl⟩

theorem preallocb_sound {cfg : Cfg} (h : preallocb cfg = true) : Prealloc cfg := by
  simp only [preallocb, Bool.and_eq_true, List.all_eq_true, List.mem_range, Bool.or_eq_true,
    decide_eq_true_eq, List.any_eq_true, beq_iff_eq, Bool.not_eq_true', List.isEmpty_iff] at h
  obtain ⟨h1, h3⟩ := h
  refine ⟨fun φ k => ?_, fun φ => ?_⟩
  · simp only [getB, List.getD_eq_getElem?_getD]
    cases hf : cfg.files[φ]? with
    | none => simp
    | some f =>
        simp only [Option.getD_some]
        cases hk : f[k]? with
        | none => rfl
        | some b =>
            have := h1 f (List.mem_of_getElem? hf) b (List.mem_of_getElem? hk)
            simp [this]
  · rcases Nat.lt_or_ge φ cfg.files.length with hφ | hφ
    · rcases h3 φ hφ with e | ⟨i, hi, ⟨⟨e1, e2⟩, e3⟩⟩
      · left; rw [e]; rfl
      · right
        exact ⟨i, hi, e1, by intro e; rw [e] at e2; simp at e2, e3⟩
    · left
      simp [List.getD_eq_getElem?_getD, List.getElem?_eq_none hφ]

/-- **C09_bytes_serial_wb**: the files of a successful concurrent save equal the files the *serial* writer
    produces starting from empty files (opened "wb", holes left by `seek`), although the parallel
    writer starts from a zero file truncated to the total size. -/
theorem C09_bytes_serial_wb {cfg : Cfg} (wf : WF cfg) (lay : Layout cfg) (pre : Prealloc cfg) {s : State}
    (h : Reachable cfg s) (hm : (s.pl 0).owner = .closed false) : s.files = serialFiles (cfgEmpty cfg) := by
  rw [← serial_from_empty lay pre]; exact C09_bytes_serial wf lay h hm

theorem reachable_EInv {cfg : Cfg} (wf : WF cfg) {s : State} (h : Reachable cfg s) : EInv cfg s := by
  induction h with
  | init => exact EInv_init cfg
  | step l hr hst ih =>
      exact EInv_step wf (reachable_Inv wf hr) (reachable_KInv wf hr) ih (stepRel_of_step hst)

/-- **C09_error_reported**: when the save returns to the caller, it raises (`e = true`) exactly when
    some tensor failed (its write or its callback raised).  Claimed: a failure is never swallowed and
    an error is never invented.  Not claimed: *which* of several failures' exceptions the caller sees
    (the first one the owner of each pool happens to consume), nor that tensors other than the failed
    one were written. -/
theorem C09_error_reported {cfg : Cfg} (wf : WF cfg) {s : State} (h : Reachable cfg s) {e : Bool}
    (hm : (s.pl 0).owner = .closed e) : e = true ↔ ∃ i : Nat, s.tasks[i]? = some (.done false) := by
  constructor
  · intro he; subst he
    exact closed_err_cause wf (reachable_Inv wf h) (reachable_EInv wf h) cfg.nPools 0 (by omega) hm
  · rintro ⟨i, hi⟩
    cases e
    · have hil : i < cfg.n := by rw [← (reachable_Inv wf h).s.tasks_len]; exact getElem?_lt hi
      have := finished_ok_all_done wf h hm i hil
      rw [hi] at this; simp at this
    · rfl

/-- **C09_deadlock_free** (nested): every reachable state in which the save has not returned has an
    enabled step. -/
theorem C09_deadlock_free {cfg : Cfg} (wf : WF cfg) {s : State} (h : Reachable cfg s)
    (hnt : terminal s = false) : ∃ l, (step cfg s l).isSome = true :=
  progress wf (reachable_Inv wf h) hnt

/-- **C09_terminates** (nested): the variant strictly decreases on every step. -/
theorem C09_terminates {cfg : Cfg} (wf : WF cfg) {s s' : State} {l : Label} (h : Reachable cfg s)
    (hst : step cfg s l = some s') : variant cfg s' < variant cfg s :=
  variant_decreases wf (reachable_Inv wf h) (stepRel_of_step hst)

theorem C09_schedule_bounded {cfg : Cfg} (wf : WF cfg) : ∀ (ls : List Label) {s s' : State},
    Reachable cfg s → run cfg s ls = some s' → ls.length + variant cfg s' ≤ variant cfg s
  | [], s, s', _, h => by simp [run] at h; subst h; simp
  | l :: ls, s, s', hr, h => by
      simp only [run] at h
      split at h
      · simp at h
      · rename_i s1 hs1
        have h1 := C09_terminates wf hr hs1
        have h2 := C09_schedule_bounded wf ls (.step l hr hs1) h
        simp only [List.length_cons]; omega

theorem C09_maximal_terminal {cfg : Cfg} (wf : WF cfg) {ls : List Label} {s : State}
    (h : run cfg (init cfg) ls = some s) (hmax : ∀ l, step cfg s l = none) : terminal s = true := by
  cases ht : terminal s
  · obtain ⟨l, hl⟩ := C09_deadlock_free wf (reachable_of_run ls .init h) ht
    rw [hmax l] at hl; simp at hl
  · rfl

/-- **C09_error_quiescent** (nested): when the save returns to the caller / the exception reaches the
    caller, no pool owner is inside an executor, every pool that was created has all its threads
    exited, no tensor is in progress, the whole budget is released and the callback lock, every
    inner callback lock and all tensor locks are free. -/
theorem C09_error_quiescent {cfg : Cfg} (wf : WF cfg) {s : State} (h : Reachable cfg s) {e : Bool}
    (hm : (s.pl 0).owner = .closed e) :
    (∀ q, ownAct (s.pl q).owner = false) ∧
    (∀ q, (s.pl q).owner ≠ .notCreated → (s.pl q).exited = (cfg.pool q).size ∧ (s.pl q).idle = 0) ∧
    (∀ (i : Nat) (p : Pc), s.tasks[i]? = some p → act p = false) ∧
    s.inFlight = 0 ∧ s.oversized = false ∧ s.cbLock = false ∧
    (∀ o, o < cfg.nObjs → s.tLocks.getD o false = false) ∧
    (∀ q, q < cfg.nPools → s.cbIn.getD q false = false) := by
  have hI := reachable_Inv wf h
  have hcl : ∀ q, ownAct (s.pl q).owner = false := fun q => closed_all wf hI hm q q (Nat.le_refl _)
  have hclosed : ∀ q, (s.pl q).owner ≠ .notCreated → ∃ e', (s.pl q).owner = .closed e' := by
    intro q hnc
    have := hcl q
    cases ho : (s.pl q).owner with
    | notCreated => exact absurd ho hnc
    | closed e' => exact ⟨e', rfl⟩
    | submit k => rw [ho] at this; simp [ownAct] at this
    | collect => rw [ho] at this; simp [ownAct] at this
    | join e' => rw [ho] at this; simp [ownAct] at this
  have hpoolq : ∀ q, (s.pl q).owner ≠ .notCreated →
      (s.pl q).exited = (cfg.pool q).size ∧ (s.pl q).idle = 0 ∧ wsum (fActQ cfg q) 0 s.tasks = 0 := by
    intro q hnc
    obtain ⟨e', he'⟩ := hclosed q hnc
    have hex := hI.p.fin_exit q e' he'
    have hpool := hI.p.pool q hnc
    exact ⟨hex, by omega, by omega⟩
  have hna : ∀ (i : Nat) (p : Pc), s.tasks[i]? = some p → act p = false := by
    intro i p hi
    cases hp : act p
    · rfl
    · exfalso
      have hcr := hI.s.act_created wf hi hp
      have hz := (hpoolq _ hcr).2.2
      have := wsum_ge0 (fActQ cfg (cfg.poolOf i)) s.tasks i p hi
      simp [fActQ, hp] at this
      omega
  obtain ⟨h1, h2, h3, h4, h5⟩ := quiet_of_no_act hI.l hna
  exact ⟨hcl, fun q hnc => ⟨(hpoolq q hnc).1, (hpoolq q hnc).2.1⟩, hna, h1, h2, h3, h4, h5⟩


theorem pool_default {cfg : Cfg} {q : Nat} (h : cfg.nPools ≤ q) : cfg.pool q = default := by
  simp [Cfg.pool, Cfg.nPools] at *
  simp [List.getElem?_eq_none h]

/-- the executable well-formedness test used by the driver implies `WF` -/
theorem wfb_sound {cfg : Cfg} (h : wfb cfg = true) : WF cfg := by
  simp only [wfb, Bool.and_eq_true, decide_eq_true_eq, List.all_eq_true, List.mem_range] at h
  obtain ⟨⟨⟨⟨⟨⟨h1, h2⟩, h3⟩, h4⟩, h5⟩, h6⟩, h7⟩ := h
  have inr : ∀ q j, j ∈ (cfg.pool q).jobs → q < cfg.nPools := by
    intro q j hj
    rcases Nat.lt_or_ge q cfg.nPools with hq | hq
    · exact hq
    · rw [pool_default hq, show (default : PoolCfg).jobs = [] from rfl] at hj; simp at hj
  refine ⟨h1, h2, ?_, fun q hq => (h3 q hq).1.1.2, fun q hq => (h3 q hq).1.2, ?_, ?_, ?_, ?_, ?_, ?_,
    fun i hi => (h6 i hi).1.1, fun i hi => (h6 i hi).1.2, fun i hi => (h6 i hi).2,
    fun i k hik hk e => h7 k hk i hik e, ?_, ?_⟩
  · intro q hq h0
    have := (h3 q hq).1.1.1 h0
    cases hp : (cfg.pool q).parent with
    | none => rw [hp] at this; simp at this
    | some jp => exact ⟨jp, rfl⟩
  · intro q
    rcases Nat.lt_or_ge q cfg.nPools with hq | hq
    · exact (h4 q hq).1
    · rw [pool_default hq, show (default : PoolCfg).jobs = [] from rfl]; simp
  · intro q j hj
    have hq := inr q j hj
    have := (h4 q hq).2 j hj
    exact ⟨this.1, this.2, hq⟩
  · intro j hj
    have := (h5 j hj).1.2
    simpa using this
  · intro j hj hsub
    have := (h5 j hj).2
    rw [hsub] at this
    simp only [Bool.and_eq_true, decide_eq_true_eq, List.all_eq_true, List.mem_range] at this
    exact this.1.1
  · intro j hj hsub
    have := (h5 j hj).2
    rw [hsub] at this
    simp only [Bool.and_eq_true, decide_eq_true_eq, List.all_eq_true, List.mem_range] at this
    exact this.1.2
  · intro j i hj hsub hi
    have := (h5 j hj).2
    rw [hsub] at this
    simp only [Bool.and_eq_true, decide_eq_true_eq, List.all_eq_true, List.mem_range] at this
    exact this.2 i hi
  · intro j q' hj hsub
    have := (h5 j hj).2
    rw [hsub] at this
    simp only [Bool.and_eq_true, decide_eq_true_eq] at this
    exact ⟨this.1.1, this.1.2, this.2⟩
  · intro q jp hq hpar
    have := (h3 q hq).2
    rw [hpar] at this
    simp only [Bool.and_eq_true, decide_eq_true_eq] at this
    exact this

/-! ### non-vacuity (nested) -/

/-- 2 shards x 2 inner workers, 4 tensors, capacity 4, tensor 1 oversized, object 0 shared by
    tensors 0 and 2, tensor 3 fails when `fail3` -/
def exNested (fail3 : Bool) : Cfg where
  capacity := 4
  nObjs := 3
  tensors := [⟨0, 2, false, false, 2, 0, 0, [1, 1]⟩, ⟨1, 5, false, false, 3, 0, 2, [2, 2, 2, 2, 2]⟩,
              ⟨0, 2, false, false, 4, 1, 0, [1, 1]⟩, ⟨2, 2, fail3, false, 5, 1, 2, [3, 3]⟩]
  pools := [⟨2, false, [0, 1], false, none⟩, ⟨2, true, [2, 3], true, some 0⟩, ⟨2, true, [4, 5], true, some 1⟩]
  jobs := [⟨0, 0, some 1⟩, ⟨0, 2, some 2⟩, ⟨1, 0, none⟩, ⟨1, 1, none⟩, ⟨2, 2, none⟩, ⟨2, 3, none⟩]
  files := [[0, 0, 0, 0, 0, 0, 0], [0, 0, 0, 0]]

example : Layout (exNested true) := layoutb_sound (by decide)
example : Prealloc (exNested true) := preallocb_sound (by decide)
example : WF (exNested true) := wfb_sound (by decide)
example : WF (exNested false) := wfb_sound (by decide)


/-- a complete successful nested schedule: both shard drivers run an inner pool -/
example : (run (exNested false) (init (exNested false))
    [.owner 0 0, .owner 0 0, .take 0, .owner 1 0, .owner 1 0, .take 0, .owner 2 0, .owner 2 0, .take 1,
     .take 1, .take 2, .take 2, .task 0, .task 0, .task 0, .task 0, .task 0, .task 0, .task 0,
     .owner 1 2, .task 1, .task 1, .task 1, .task 1, .task 1, .task 1, .task 1, .owner 1 3, .exit 1,
     .exit 1, .owner 1 0, .owner 0 0, .task 2, .task 2, .task 2, .task 2, .task 2, .task 2, .task 2,
     .owner 2 4, .task 3, .task 3, .task 3, .task 3, .task 3, .task 3, .task 3, .owner 2 5, .exit 2,
     .exit 2, .owner 2 0, .owner 0 0, .exit 0, .exit 0, .owner 0 0]).map
      (fun s => ((s.pl 0).owner, s.log, s.files)) =
    some (.closed false, [0, 1, 2, 3], [[1, 1, 2, 2, 2, 2, 2], [1, 1, 3, 3]]) := by decide

/-- a nested state in which a thread of one shard waits for budget held by a thread of the other
    shard (capacity 3: 2 + 2 does not fit) -/
example : (run { exNested false with capacity := 3 } (init { exNested false with capacity := 3 })
    [.owner 0 0, .owner 0 0, .take 0, .owner 1 0, .owner 1 0, .take 0, .owner 2 0, .owner 2 0, .take 1,
     .take 1, .take 2, .take 2, .task 3, .task 3, .task 3, .task 3, .task 3, .task 0, .task 0, .task 0,
     .task 0, .task 0]).map (fun s => (s.tasks, s.inFlight)) =
    some ([.waiting, .tAcq, .tAcq, .write], 2) := by decide

/-- the failing tensor's exception reaches the caller through the inner and the outer pool -/
example : (run (exNested true) (init (exNested true))
    [.owner 0 0, .owner 0 0, .take 0, .owner 1 0, .owner 1 0, .take 0, .owner 2 0, .owner 2 0, .take 1,
     .take 1, .take 2, .take 2, .task 0, .task 0, .task 0, .task 0, .task 0, .task 0, .task 0,
     .owner 1 2, .task 1, .task 1, .task 1, .task 1, .task 1, .task 1, .task 1, .owner 1 3, .exit 1,
     .exit 1, .owner 1 0, .owner 0 0, .task 2, .task 2, .task 2, .task 2, .task 2, .task 2, .task 2,
     .owner 2 4, .task 3, .task 3, .task 3, .task 3, .task 3, .task 3, .task 3, .owner 2 5, .exit 2,
     .exit 2, .owner 2 0, .owner 0 0, .exit 0, .exit 0, .owner 0 0]).map
      (fun s => (s.pl 0).owner) = some (.closed true) := by decide


/-! ### Layout and start image derived from C07 (deepening round)

`planCfg` (Model/WriterPlan.lean) builds the writer configuration from the arguments of the save only:
offsets by C07's `Layout.computeInfos`, shards by `Layout.shardRaw`, start image of a file written by
`_write_parallel` = `truncate(total_size)` of the freshly opened file, of a file written by
`_write_serial` = the freshly opened file.  `Layout` and `Prealloc` — hypotheses of `C09_bytes_serial`
and `C09_bytes_serial_wb` — are theorems about it. -/

/-- **C09_plan_layout**: for every save (any tensors, shard limit, alignment, worker count, budget) the
    byte ranges of the configuration are pairwise disjoint inside every data file (from
    `Layout.C07_disjoint`), every tensor goes to an existing file, and every start image is all zeros
    and exactly as long as the end of the last non-empty tensor of that file (from the preallocation
    step and `Layout.totalSize_eq_layoutEnd`), or empty. -/
theorem C09_plan_layout {ts : List TSpec} {maxShard al : Option Nat} {athr workers capacity : Nat}
    {cfg : Cfg} (h : planCfg ts maxShard al athr workers capacity = some cfg) :
    Layout cfg ∧ Prealloc cfg :=
  ⟨planCfg_layout h, planCfg_prealloc h⟩

/-- **C09_plan_wf_single**: when the save writes one data file (no shard limit, or everything fits one
    shard) the configuration is well formed. -/
theorem C09_plan_wf_single {ts : List TSpec} {maxShard al : Option Nat} {athr workers capacity : Nat}
    {cfg : Cfg} (h : planCfg ts maxShard al athr workers capacity = some cfg)
    (h1 : (shardsOf ts maxShard al athr).length ≤ 1) : WF cfg := by
  simp only [planCfg, h1, if_true] at h
  split at h
  · rename_i hc
    cases h
    exact planSingle_wf ts al athr workers capacity (by omega) (by omega)
  · simp at h

/-- **C09_bytes_serial_layout**: the combined theorem for a save into ONE data file.  Inputs: the
    tensors (bytes, object identities, reservations, failure flags), the shard limit, the alignment
    parameters, the worker count, the budget and a schedule — nothing else, in particular no
    hypothesis about offsets, disjointness, the start image or the well-formedness of the
    configuration.  Whenever the concurrent save returns normally, after any schedule, the data file
    is byte-identical to the one the serial writer produces from an empty file. -/
theorem C09_bytes_serial_layout (ts : List TSpec) (maxShard al : Option Nat) (athr workers capacity : Nat)
    {cfg : Cfg} (h : planCfg ts maxShard al athr workers capacity = some cfg)
    (h1 : (shardsOf ts maxShard al athr).length ≤ 1)
    (ls : List Label) {s : State} (hrun : run cfg (init cfg) ls = some s)
    (hm : (s.pl 0).owner = .closed false) :
    s.files = serialFiles (cfgEmpty cfg) :=
  C09_bytes_serial_wb (C09_plan_wf_single h h1) (planCfg_layout h) (planCfg_prealloc h)
    (reachable_of_run ls .init hrun) hm

/-- **C09_bytes_serial_layout_c07**: the same save (one data file), stated with C07's file model only:
    after any schedule a concurrent save that returns normally has left exactly
    `Layout.serialImage (Layout.writesOf …)` — the image C07's serial writer produces for the layout C07
    computes — and therefore (C07_readback_layout) every tensor reads back from its recorded
    `(offset, length)`. -/
theorem C09_bytes_serial_layout_c07 (ts : List TSpec) (maxShard al : Option Nat) (athr workers capacity : Nat)
    {cfg : Cfg} (h : planCfg ts maxShard al athr workers capacity = some cfg)
    (h1 : (shardsOf ts maxShard al athr).length ≤ 1)
    (ls : List Label) {s : State} (hrun : run cfg (init cfg) ls = some s)
    (hm : (s.pl 0).owner = .closed false) :
    s.files = [Layout.serialImage (Layout.writesOf al athr (ts.map (·.data)))] ∧
    ∀ w ∈ Layout.writesOf al athr (ts.map (·.data)),
      Layout.readAt ((s.files.getD 0 [])) w.1 w.2.length = w.2 := by
  have hf := C09_bytes_serial_layout ts maxShard al athr workers capacity h h1 ls hrun hm
  have hc : cfg = planSingle ts al athr workers capacity := by
    simp only [planCfg, h1, if_true] at h
    split at h
    · cases h; rfl
    · simp at h
  subst hc
  rw [planSingle_serial_eq_C07] at hf
  refine ⟨hf, fun w hw => ?_⟩
  rw [hf]
  exact (Layout.C07_readback_layout al athr (ts.map (·.data)) _ (List.Perm.refl _) 0 w hw).2


/-- **C09_plan_wf**: the configuration of EVERY concurrent save is well formed — also the tree of
    pools of a sharded save (shard drivers, inner writers, job and pool numbering), using
    `Layout.C07_shards_partition` (the shards partition the tensors, none is empty). -/
theorem C09_plan_wf {ts : List TSpec} {maxShard al : Option Nat} {athr workers capacity : Nat}
    {cfg : Cfg} (h : planCfg ts maxShard al athr workers capacity = some cfg) : WF cfg := by
  by_cases h1 : (shardsOf ts maxShard al athr).length ≤ 1
  · exact C09_plan_wf_single h h1
  · simp only [planCfg, h1, if_false] at h
    split at h
    · rename_i hw
      cases h
      cases maxShard with
      | none => simp [shardsOf] at h1
      | some m =>
          have hts : ts ≠ [] := by
            intro e; subst e
            simp [shardsOf, Layout.shardRaw, Layout.shardRawGo] at h1
          have hp := Layout.C07_shards_partition TSpec.nbytes m al athr ts
          exact planSharded_wf ts _ al athr workers capacity (by omega) (by omega)
            (hp.2 hts) hp.1
    · simp at h

/-- **C09_bytes_serial_layout_sharded**: the combined theorem for every save, sharded ones with their
    tree of pools included: inputs are the tensors, the shard limit, the alignment parameters, the
    worker count, the budget and a schedule; no hypothesis about the configuration is left.  Every
    data file of a concurrent save that returns normally equals the serially written one. -/
theorem C09_bytes_serial_layout_sharded (ts : List TSpec) (maxShard al : Option Nat)
    (athr workers capacity : Nat) {cfg : Cfg} (h : planCfg ts maxShard al athr workers capacity = some cfg)
    (ls : List Label) {s : State} (hrun : run cfg (init cfg) ls = some s)
    (hm : (s.pl 0).owner = .closed false) :
    s.files = serialFiles (cfgEmpty cfg) :=
  C09_bytes_serial_wb (C09_plan_wf h) (planCfg_layout h) (planCfg_prealloc h)
    (reachable_of_run ls .init hrun) hm

/-- **C09_bytes_serial_layout_c07_sharded**: EVERY concurrent save (one data file or several shards, shard
    drivers with serial or with nested parallel writers), stated with C07's file model only.  After any
    schedule, a save that returns normally has left, for every shard `j` of `Layout.shardRaw` (the shards
    partition the tensors: `C07_shards_partition`), exactly `Layout.serialImage (Layout.writesOf …)` of that
    shard's tensors — i.e. `Layout.dataFiles … none`, C07's model of the files of the whole save; every write
    of a shard reads back from that shard's file (`C07_readback`), and every tensor reads back from the
    `(shard, offset, length)` C07's `placeRaw` records for it (`C07_roundtrip`).  Supersedes
    `C09_bytes_serial_layout_c07` (one data file). -/
theorem C09_bytes_serial_layout_c07_sharded (ts : List TSpec) (maxShard al : Option Nat)
    (athr workers capacity : Nat) {cfg : Cfg} (h : planCfg ts maxShard al athr workers capacity = some cfg)
    (ls : List Label) {s : State} (hrun : run cfg (init cfg) ls = some s)
    (hm : (s.pl 0).owner = .closed false) :
    (shardsOf ts maxShard al athr).flatten = ts ∧
    s.files = (shardsOf ts maxShard al athr).map
      (fun sh => Layout.serialImage (Layout.writesOf al athr (sh.map (·.data)))) ∧
    s.files = Layout.dataFiles (ts.map (·.data)) maxShard al athr none ∧
    (∀ (j : Nat) (sh : List TSpec), (shardsOf ts maxShard al athr)[j]? = some sh →
      ∀ w ∈ Layout.writesOf al athr (sh.map (·.data)),
        Layout.readAt (s.files.getD j []) w.1 w.2.length = w.2) ∧
    ∀ pb ∈ (Layout.placeRaw ((ts.map (·.data)).map List.length) maxShard al athr).zip (ts.map (·.data)),
      ∃ img, s.files[pb.1.shard]? = some img ∧ Layout.readAt img pb.1.offset pb.1.length = pb.2 := by
  have hf := C09_bytes_serial_layout_sharded ts maxShard al athr workers capacity h ls hrun hm
  rw [planCfg_serial_eq_C07 h] at hf
  have hd : s.files = Layout.dataFiles (ts.map (·.data)) maxShard al athr none := by
    rw [dataFiles_eq_shards]; exact hf
  refine ⟨shardsOf_flatten ts maxShard al athr, hf, hd, ?_, ?_⟩
  · intro j sh hj w hw
    have hfile : s.files.getD j [] = Layout.serialImage (Layout.writesOf al athr (sh.map (·.data))) := by
      rw [hf, List.getD_eq_getElem?_getD, List.getElem?_map, hj]; rfl
    rw [hfile]
    exact Layout.C07_readback [] _ _ (List.Perm.refl _) (Layout.writesOf_disjoint al athr _) w hw
  · intro pb hpb
    rw [hd]
    exact Layout.C07_roundtrip (ts.map (·.data)) maxShard al athr pb hpb


theorem maxSize_le (cfg : Cfg) (B : Nat) (h : ∀ i, cfg.size i ≤ B) : maxSize cfg ≤ B := by
  unfold maxSize
  unfold Cfg.size at h
  generalize cfg.tensors = l at h
  induction l with
  | nil => simp
  | cons t ts ih =>
      have h0 := h 0
      have := ih (fun i => by have := h (i + 1); simpa using this)
      simp at h0 ⊢; omega

/-- **C09_memory_bound**: the memory bound of the property statement, from the code's own reservation rule
    instead of reservations given as inputs.  Inputs: the tensor arguments (is it an ExternalTensor, its bytes),
    the copy chunk size, the arguments of the save, a schedule.  The reservation the writer takes for tensor `i`
    is `_reservation_bytes` = `min(nbytes, chunk)` for an ExternalTensor and `nbytes` otherwise; what the writing
    thread holds in a userspace buffer (`peakBytes`: all of `tobytes()`, resp. one buffer of the copy loop of
    `ExternalTensor.tofile`) never exceeds that reservation; hence in every reachable state of every schedule
    the bytes held by all threads between `budget.acquire` and `budget.release` are at most
    `max(max_in_flight_bytes, 1) + max(tensor.nbytes)`. -/
theorem C09_memory_bound (chunk : Nat) (args : List TArg) (maxShard al : Option Nat)
    (athr workers capacity : Nat) {cfg : Cfg}
    (h : planArgs chunk args maxShard al athr workers capacity = some cfg) {s : State}
    (hr : Reachable cfg s) :
    (∀ i, cfg.size i =
      reservationBytes chunk (args.getD i default).external (args.getD i default).data.length) ∧
    cfg.capacity = max capacity 1 ∧
    (∀ a : TArg, peakBytes chunk a ≤ reservationBytes chunk a.external a.data.length) ∧
    heldBytes chunk args s ≤ materialised cfg s ∧
    heldBytes chunk args s ≤ max capacity 1 + maxNbytes args := by
  have hs := planCfg_spec h
  have hsz : ∀ i, cfg.size i =
      reservationBytes chunk (args.getD i default).external (args.getD i default).data.length := by
    intro i
    rw [(size_of_spec hs.1 i).1, getD_map_spec]; rfl
  have hheld : heldBytes chunk args s ≤ materialised cfg s := by
    unfold heldBytes materialised
    apply wsum_le_of_le
    intro i p
    split
    · rw [hsz i]; exact peak_le_reservation chunk _
    · exact Nat.le_refl _
  have hb := (C09_budget (C09_plan_wf h) hr).2.2.2.2
  have hmax : maxSize cfg ≤ maxNbytes args := by
    apply maxSize_le
    intro i
    rw [hsz i]
    exact Nat.le_trans (reservation_le_nbytes chunk _ _) (nbytes_le_max args i)
  refine ⟨hsz, hs.2, peak_le_reservation chunk, hheld, ?_⟩
  rw [hs.2] at hb
  omega

/-! ### The writer without a callback (`callback=None`), Model/WriterNC.lean -/

/-- **C09_nocb_refines**: every schedule of the writer without a callback is, step by step expanded,
    a schedule of the general model ending in the same state; hence every state it reaches is
    reachable in the model and `C09_budget`, `C09_tensor_mutex`, `C09_error_quiescent`,
    `C09_error_reported`, `C09_bytes_serial*` apply to it unchanged. -/
theorem C09_nocb_refines {cfg : Cfg} (ls : List Label) {s : State}
    (h : runNC cfg (init cfg) ls = some s) :
    (∃ ls', ls.length ≤ ls'.length ∧ run cfg (init cfg) ls' = some s) ∧ Reachable cfg s := by
  obtain ⟨ls', hlen, hr⟩ := runNC_run ls h
  exact ⟨⟨ls', hlen, hr⟩, reachable_of_run ls' .init hr⟩

theorem reachableNC_of_runNC {cfg : Cfg} : ∀ (ls : List Label) {s s' : State}, ReachableNC cfg s →
    runNC cfg s ls = some s' → ReachableNC cfg s'
  | [], s, s', hr, h => by simp [runNC] at h; subst h; exact hr
  | l :: ls, s, s', hr, h => by
      simp only [runNC] at h
      split at h
      · simp at h
      · rename_i s1 hs1; exact reachableNC_of_runNC ls (.step l hr hs1) h

/-- **C09_nocb_locks_free**: at every synchronisation point of the writer without a callback no
    callback lock is held and nobody is inside a callback. -/
theorem C09_nocb_locks_free {cfg : Cfg} (hnc : ncb cfg = true) {s : State} (h : ReachableNC cfg s) :
    s.cbLock = false ∧ (∀ q, s.cbIn.getD q false = false) ∧ ∀ i : Nat, s.tasks[i]? ≠ some Pc.cbBody := by
  have hI := reachableNC_NCInv hnc h
  exact ⟨hI.cb, hI.cbin, fun i hi => (hI.good i _ hi).1 rfl⟩

/-- **C09_nocb_deadlock_free**: the writer without a callback has, in every reachable state in which
    the save has not returned, an enabled step; its enabled labels are exactly the model's. -/
theorem C09_nocb_deadlock_free {cfg : Cfg} (wf : WF cfg) (hnc : ncb cfg = true) {s : State}
    (h : ReachableNC cfg s) :
    (∀ l, (stepNC cfg s l).isSome = (step cfg s l).isSome) ∧
    (terminal s = false → ∃ l, (stepNC cfg s l).isSome = true) := by
  have hI := reachableNC_NCInv hnc h
  refine ⟨enabledNC_iff hnc hI, fun hnt => ?_⟩
  obtain ⟨l, hl⟩ := C09_deadlock_free wf (reachableNC_reachable h) hnt
  exact ⟨l, by rw [enabledNC_iff hnc hI]; exact hl⟩

/-- **C09_nocb_schedule_bounded**: every schedule of the writer without a callback is finite, bounded
    by the model's variant; one that cannot be extended has returned to the caller. -/
theorem C09_nocb_schedule_bounded {cfg : Cfg} (wf : WF cfg) (hnc : ncb cfg = true) (ls : List Label)
    {s : State} (h : runNC cfg (init cfg) ls = some s) :
    ls.length + variant cfg s ≤ variant cfg (init cfg) ∧
    ((∀ l, stepNC cfg s l = none) → terminal s = true) := by
  obtain ⟨ls', hlen, hr⟩ := runNC_run ls h
  have hb := C09_schedule_bounded wf ls' .init hr
  refine ⟨by omega, fun hmax => ?_⟩
  cases ht : terminal s
  · obtain ⟨l, hl⟩ := (C09_nocb_deadlock_free wf hnc (reachableNC_of_runNC ls .init h)).2 ht
    rw [hmax l] at hl; simp at hl
  · rfl

/-! ### non-vacuity (plan, no callback) -/

/-- two tensors (3 and 2 bytes) into one file, 2 workers -/
def exPlanTs : List TSpec := [⟨0, 3, false, false, [1, 1, 1]⟩, ⟨1, 2, false, false, [2, 2]⟩]

example : (planCfg exPlanTs none none 0 2 4).isSome = true := by decide
example : (shardsOf exPlanTs none none 0).length ≤ 1 := by decide
/-- aligned: the second tensor starts at 4096, the start image has 4098 zeros -/
example : ((planCfg exPlanTs none (some 1) 1 2 4).map fun c => (c.tensors.map (·.off), c.files.map List.length)) =
    some ([0, 4096], [4098]) := by decide +kernel
/-- a sharded plan with a nested writer is produced and is well formed -/
example : ((planCfg (exPlanTs ++ exPlanTs) (some 5) none 0 6 4).map fun c => (c.pools.length, wfb c)) =
    some (3, true) := by decide

/-- a complete schedule of the planned configuration without a callback: 2 model steps fewer per
    tensor, the same file -/
example : ((planCfg exPlanTs none none 0 2 8).bind fun c => (runNC c (init c)
    [.owner 0 0, .owner 0 0, .take 0, .take 0, .task 0, .task 1, .task 0, .task 1, .task 0, .task 1,
     .task 0, .task 1, .task 0, .task 1, .owner 0 0, .owner 0 1, .exit 0, .exit 0, .owner 0 0]).map
      fun s => ((s.pl 0).owner, s.files)) = some (.closed false, [[1, 1, 1, 2, 2]]) := by decide

example : ncb (exNested false) = true := by decide

/-- several failing tensors (`C09_error_quiescent`, `C09_error_reported` quantify over every subset of
    failing tensors): tensors 1 and 3 fail in two different shards, both shard futures end in error,
    the caller sees the exception after everything is released -/
def exTwoFail : Cfg :=
  { exNested true with
    tensors := [⟨0, 2, false, false, 2, 0, 0, [1, 1]⟩, ⟨1, 5, true, false, 3, 0, 2, [2, 2, 2, 2, 2]⟩,
                ⟨0, 2, false, false, 4, 1, 0, [1, 1]⟩, ⟨2, 2, true, false, 5, 1, 2, [3, 3]⟩] }

example : WF exTwoFail := wfb_sound (by decide)

example : (run exTwoFail (init exTwoFail)
    [.owner 0 0, .owner 0 0, .take 0, .owner 1 0, .owner 1 0, .take 0, .owner 2 0, .owner 2 0, .take 1,
     .take 1, .take 2, .take 2, .task 0, .task 0, .task 0, .task 0, .task 0, .task 0, .task 0,
     .owner 1 2, .task 1, .task 1, .task 1, .task 1, .task 1, .task 1, .task 1, .owner 1 3, .exit 1,
     .exit 1, .owner 1 0, .owner 0 0, .task 2, .task 2, .task 2, .task 2, .task 2, .task 2, .task 2,
     .owner 2 4, .task 3, .task 3, .task 3, .task 3, .task 3, .task 3, .task 3, .owner 2 5, .exit 2,
     .exit 2, .owner 2 0, .exit 0, .exit 0, .owner 0 0]).map
      (fun s => ((s.pl 0).owner, s.tasks, s.inFlight)) =
    some (.closed true, [.done true, .done false, .done true, .done false], 0) := by decide

/-! ### non-vacuity (sharded C07 link, memory bound) -/

/-- two shards: C07's file model of the save has one serial image per shard -/
example : Layout.dataFiles ((exPlanTs ++ exPlanTs).map (·.data)) (some 5) none 0 none =
    [[1, 1, 1, 2, 2], [1, 1, 1, 2, 2]] := by decide
example : (planCfg (exPlanTs ++ exPlanTs) (some 5) none 0 6 4).isSome = true ∧
    (shardsOf (exPlanTs ++ exPlanTs) (some 5) none 0).length = 2 := by decide

/-- an ExternalTensor of 7 bytes with chunk size 3: reservation 3, the copy loop reads 3, 3, 1; an in-memory
    tensor of 7 bytes reserves 7 -/
def exArgs : List TArg := [⟨0, true, false, false, [1, 2, 3, 4, 5, 6, 7]⟩, ⟨1, false, false, false, [9, 9, 9, 9, 9, 9, 9]⟩]
example : copyReads 3 7 7 = [3, 3, 1] := by decide
example : exArgs.map (peakBytes 3) = [3, 7] ∧ exArgs.map (fun a => reservationBytes 3 a.external a.data.length) = [3, 7] := by
  decide
example : ((planArgs 3 exArgs none none 0 2 4).map fun c => c.tensors.map (·.size)) = some [3, 7] := by decide

end IrVerif.WriterN

namespace IrVerif.Writer

/-- a use of it: a flat configuration without failing callbacks, driven WITHOUT a callback (`stepNC` of the
    general model on `toN cfg`), is deadlock free and every schedule is finite -/
example {cfg : Cfg} (wf : WF cfg) (hnc : WriterN.ncb (toN cfg) = true) (ls : List WriterN.Label)
    {t : WriterN.State} (h : WriterN.runNC (toN cfg) (WriterN.init (toN cfg)) ls = some t) :
    ls.length + WriterN.variant (toN cfg) t ≤ WriterN.variant (toN cfg) (WriterN.init (toN cfg)) :=
  (WriterN.C09_nocb_schedule_bounded ((C09_flat_is_general cfg).2.2.2.2.2.2 wf) hnc ls h).1

/-- the translation on the non-vacuity configuration `exCfg`: the flat run and the general run agree -/
example : (run (exCfg false) (init (exCfg false)) [.main 0, .main 0, .take, .take, .task 0, .task 1]).map absState =
    WriterN.run (toN (exCfg false)) (WriterN.init (toN (exCfg false)))
      [.owner 0 0, .owner 0 0, .take 0, .take 0, .task 0, .task 1] := by decide

example : WriterN.wfb (toN (exCfg false)) = true := by decide

end IrVerif.Writer

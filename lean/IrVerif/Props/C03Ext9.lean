/-
C03, deepening round 6 (wave 4): IR -> proto (IR version < 10 format) -> IR in the EXTENDED model
(`Model/ScopeExt9.lean`).  Proofs in `Lemmas/ScopeExt9*.lean`.
-/
import IrVerif.Lemmas.ScopeExt9Top
namespace IrVerif.Scope

/-- **C03_roundtrip_ext_ir9_partial**: what is PROVED of the round trip IR -> proto (IR < 10 format) -> IR of
    extended models with functions.  Hypothesis: the certificate `ReloadableME` of `C03_roundtrip_ext_model` (decided
    for the main graph by `reloadableEB`; every deserialized model satisfies it).  Then `serializeME9` raises only in
    a device configuration, or it returns `Q` such that, with `q` the proto `serializeME` writes (IR >= 10 format) and
    `D` its reload (`deserializeME q = .ok D`, to which `C03_roundtrip_ext_model` applies: `IsoME w D σ`):
    * `Q.funcs` = `q.funcs` without value_info, `Q.graph.vinfo = q.graph.vinfo ++ E`, every entry of `E` is
      `ExpEntryOK` (written by name for a truthy-named value of a function without overload, parses back, not a
      reserved name, emitted info and sorted metadata, stable payload);
    * the MAIN GRAPH of `Q` deserializes to the main graph of `D` - store, merged metadata, annotations, device
      configurations and tree (`deserGraphE {} {} [] Q.graph = .ok (st, x, D.root)` where `(st, x)` is the state in
      which `deserializeME q` starts its functions): the main-graph half of the round trip is that of the IR >= 10
      format, isomorphic to `w`'s with the same metadata; the entries are inert in every store / scope stack, and
      `D` serializes to `q` again.
    MISSING for `C03_roundtrip_ext_ir9` (`deserializeME9 Q = .ok D9 ∧ IsoME w D9 σ` under an additional decidable
    hypothesis: every truthy-named function value that has something to say can be written, i.e. no overload, the
    name parses back and is not reserved): the function half, as for `C17_idempotent_ext_ir9_partial`. -/
theorem C03_roundtrip_ext_ir9_partial (ver : Option Int) (w : MWorldE) (h : ReloadableME w) :
    (∃ e, serializeME9 ver w = .error (.dev e)) ∨
    ∃ (w1 : MWorldE) (Q q : ModelE) (E : List VInfoE) (D : MWorldE) (st : Store) (x : Ext),
      serializeME9 ver w = .ok (w1, Q) ∧ serializeME ver w = .ok (w1, q) ∧
      Q.funcs = (q.funcs.map fun f => { f with vinfo := [] }) ∧ Q.graph.vinfo = q.graph.vinfo ++ E ∧
      (∀ e ∈ E, ExpEntryOK w e) ∧
      (∀ (st : Store) (x : Ext) (outer : List Table), deserGraphE st x outer Q.graph = deserGraphE st x outer q.graph) ∧
      deserializeME q = .ok D ∧ deserGraphE {} {} [] Q.graph = .ok (st, x, D.root) ∧
      deserFuncsE st x [] q.funcs = .ok (D.st, D.ext, D.funcs) ∧ ∃ w2, serializeME ver D = .ok (w2, q) :=
  roundtrip_ext_ir9_partial ver w h

/-- the hypothesis is satisfiable and the second alternative occurs: a deserialized IR < 10 model -/
example : ∃ w, deserializeME ⟨.mk [⟨"x", {}, []⟩] [] [] [ .mk ["x"] ["y"] [] [] ] [⟨"y", {}, []⟩] [],
      [⟨⟨"custom", "f", ""⟩, ["a"], ["c"], [⟨"c", {}, [("z", "0")]⟩], [ .mk ["a"] ["c"] [] [] ]⟩]⟩ = .ok w ∧
    ReloadableME w := by
  cases h : deserializeME ⟨.mk [⟨"x", {}, []⟩] [] [] [ .mk ["x"] ["y"] [] [] ] [⟨"y", {}, []⟩] [],
      [⟨⟨"custom", "f", ""⟩, ["a"], ["c"], [⟨"c", {}, [("z", "0")]⟩], [ .mk ["a"] ["c"] [] [] ]⟩]⟩ with
  | ok w => exact ⟨w, rfl, deserializeME_reloadableME _ w h⟩
  | error e =>
    have : (match deserializeME ⟨.mk [⟨"x", {}, []⟩] [] [] [ .mk ["x"] ["y"] [] [] ] [⟨"y", {}, []⟩] [],
      [⟨⟨"custom", "f", ""⟩, ["a"], ["c"], [⟨"c", {}, [("z", "0")]⟩], [ .mk ["a"] ["c"] [] [] ]⟩]⟩ with
      | .ok _ => true | .error _ => false) = true := by decide +kernel
    rw [h] at this
    cases this

/-! ### the round trip of the IR < 10 format is FALSE under `ReloadableME` alone (finding D321) -/

/-- main graph `Identity(x) -> "custom::f/c"`, `Identity("custom::f/c") -> y`, where the main-graph value
    `custom::f/c` has a value_info entry of its own (type `f32`, metadata `k=1`); function `custom::f`:
    `Identity(a) -> c`, whose values carry NO info and NO metadata.  (Given in the IR >= 10 format and loaded with
    `deserializeME`, so the IR model is exactly this.) -/
def exampleLeak9 : ModelE :=
  ⟨.mk [⟨"x", { ty := some "f32" }, []⟩] [] [⟨"custom::f/c", { ty := some "f32" }, [("k", "1")]⟩]
      [ .mk ["x"] ["custom::f/c"] [] [], .mk ["custom::f/c"] ["y"] [] [] ] [⟨"y", { ty := some "f32" }, []⟩] [],
    [⟨⟨"custom", "f", ""⟩, ["a"], ["c"], [], [ .mk ["a"] ["c"] [] [] ]⟩]⟩

/-- info and merged metadata of the function values of a model, function by function: inputs, then node outputs
    (positional: invariant under the renumbering of a round trip) -/
def funcValues (w : MWorldE) : List (Info × List (String × String)) :=
  w.funcs.flatMap fun f => (f.2.inputs ++ f.2.nodes.flatMap NodeT.outputs).map fun v => ((w.st.vals v).info, w.ext.vmeta v)

/-- IR model -> proto in the IR < 10 format -> IR model: are the function values `before` and `after` those given? -/
def leak9 (P : ModelE) (before after : List (Info × List (String × String))) : Bool :=
  match deserializeME P with
  | .error _ => false
  | .ok w =>
    match serializeME9 (some 9) w with
    | .error _ => false
    | .ok (_, Q) =>
      match deserializeME9 Q with
      | .error _ => false
      | .ok D => decide (funcValues w = before) && decide (funcValues D = after)

/-- **C03_ext_ir9_not_roundtrip** (finding D321, the code AS IT IS, after the repair of D320): for the IR version < 10
    format the round trip IR -> proto -> IR is NOT an isomorphism under the certificate `ReloadableME` alone.  There is
    an IR model `w` that satisfies `ReloadableME` (it is a deserialized model), serializes (`serializeME9 (some 9) w =
    .ok (_, Q)`) and reloads (`deserializeME9 Q = .ok D`), but the function value `c`, which carries no info and no
    metadata in `w`, carries the type `f32` AND the metadata `k=1` in `D`: the post-pass of `deserialize_model` reads
    the value_info entry of the MAIN-GRAPH value named `custom::f/c` as an experimental entry of the function
    `custom::f` as well.  (The repair of D320 reserved these names on the WRITING side only; the fix-point
    `C17_idempotent_ir9` is not affected: the leaked info is written and read again consistently.)  Reproduced on the
    real code (proposed_fixes/D321.md); check signature `roundtrip:not-isomorphic:ir9-main-graph-value-info-leaks-onto-function-value`.
    A full `C03_roundtrip_ext_ir9` therefore needs, next to `ReloadableME`, the decidable hypothesis that no value the
    main graph's value_info is written for is named like an experimental entry of a function of the model (or the
    proposed fix D321, which makes the reader ignore such entries). -/
theorem C03_ext_ir9_not_roundtrip :
    ∃ (w w1 : MWorldE) (Q : ModelE) (D : MWorldE), ReloadableME w ∧ serializeME9 (some 9) w = .ok (w1, Q) ∧
      deserializeME9 Q = .ok D ∧ funcValues w ≠ funcValues D := by
  have h : leak9 exampleLeak9 [({}, []), ({}, [])] [({}, []), ({ ty := some "f32" }, [("k", "1")])] = true := by
    decide +kernel
  unfold leak9 at h
  split at h
  · simp at h
  · rename_i w hw
    split at h
    · simp at h
    · rename_i w1 Q hq
      split at h
      · simp at h
      · rename_i D hD
        simp only [Bool.and_eq_true, decide_eq_true_eq] at h
        refine ⟨w, w1, Q, D, deserializeME_reloadableME _ w hw, hq, hD, ?_⟩
        rw [h.1, h.2]
        decide

end IrVerif.Scope

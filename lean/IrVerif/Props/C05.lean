/-
C05 — every built-in pass, alone or composed, preserves what the model computes.
Property theorems only; the developments are in Lemmas/Sem*.lean.

`Valid m` (= `validModel m = true`, evaluated by the driver on every generated model):
value ids are bound once in the whole nest (SSA; they are object identities in Python) and every
graph's outputs are bound at the top level of that graph.
All theorems hold for EVERY operator interpretation `I` (any `sem`, any `tv`) and every input list.
-/
import IrVerif.Lemmas.SemDce
import IrVerif.Lemmas.SemIdentity
import IrVerif.Lemmas.SemCse
import IrVerif.Lemmas.SemInputs
import IrVerif.Lemmas.SemLift
import IrVerif.Lemmas.SemDedup
import IrVerif.Lemmas.SemOutputFix
import IrVerif.Lemmas.SemLsi
import IrVerif.Lemmas.SemPerm
import IrVerif.Lemmas.InlineFuncs
import IrVerif.Lemmas.SemValid3
import IrVerif.Lemmas.InlineCoh
import IrVerif.Lemmas.InlineDepth
import IrVerif.Lemmas.AddDefaults
namespace IrVerif.Passes
open IrVerif.Sem
variable {Val : Type}

/-- a pass on models preserves what the model computes, the output list length and the
    non-initializer inputs (count and order); likewise for every model-local function body
    (function bodies are denoted under an arbitrary environment and call sites are interpreted by
    `sem`, which is universally quantified) -/
def Preserves (pass : Model → Model) (m : Model) : Prop :=
  (∀ (Val : Type) (I : Interp Val) (xs : List Val), denote I (pass m) xs = denote I m xs) ∧
  (∀ (Val : Type) (I : Interp Val) (k : Nat) (ρ : Env Val) (xs : List Val),
      denoteFunc I (pass m) k ρ xs = denoteFunc I m k ρ xs) ∧
  (pass m).graph.outputs.length = m.graph.outputs.length ∧
  (pass m).graph.freeInputs = m.graph.freeInputs ∧
  (pass m).funcs.length = m.funcs.length

theorem validG_iff (g : Graph) :
    validG g = true ↔ ssaG g = true ∧ closedG g = true ∧ noFwdG g = true ∧ scopedG [] g = true := by
  simp [validG, and_assoc]

/-- **C05_dce** — RemoveUnusedNodesPass (node removal in every scope, trailing empty inputs,
    unused main-graph initializers, function bodies; without the schema-driven output trimming). -/
theorem C05_dce (m : Model) (hv : validModel m = true) : Preserves dceModel m := by
  obtain ⟨g, fs⟩ := m
  simp only [validModel, Bool.and_eq_true, List.all_eq_true] at hv
  obtain ⟨hg, hfs⟩ := hv
  rw [validG_iff] at hg
  cases g with
  | mk inputs outputs inits nodes =>
  have hsg := hg.1
  simp only [ssaG, Bool.and_eq_true, nodupB_iff, disj_iff] at hsg
  obtain ⟨⟨⟨_, hndi⟩, hdisj⟩, hsn⟩ := hsg
  have hcn : closedNodes nodes = true := by
    have := hg.2.1; simp only [closedG, Bool.and_eq_true] at this; exact this.2
  refine ⟨?_, ?_, ?_, ?_, ?_⟩
  · intro Val I xs
    simp only [denote, dceModel, dceG, Graph.inputs, Graph.outputs, Graph.inits, Graph.nodes]
    rw [evalG_filter_inits I inputs outputs inits _ _ hndi]
    · exact congrFun (dceG_sound I (.mk inputs outputs inits nodes) hg.1 hg.2.1 Env.empty) xs
    · intro q hq hp
      simp only [Bool.or_eq_false_iff, List.contains_eq_mem, decide_eq_false_iff_not,
        List.mem_append, usesG, not_or] at hp
      refine ⟨hp.2, fun hr => ?_⟩
      have hr' := (mem_refsG q.1 _).1 hr
      simp only [usesG, boutsG, List.mem_append] at hr'
      rcases hr' with hr' | hr' | hr'
      · exact hp.1.1.1 hr'
      · exact hp.1.2 hr'
      · have h1 := dceNodes_bouts q.1 _ _ _ hr'
        exact hdisj q.1 (by simp [List.mem_map]; exact Or.inr ⟨q.2, hq⟩)
          (bouts_sub_defsNodes nodes hcn h1)
  · intro Val I k ρ xs
    simp only [denoteFunc, dceModel, List.getElem?_map]
    cases hk : fs[k]? with
    | none => rfl
    | some f =>
      have hf := hfs f (List.mem_of_getElem? hk)
      rw [validG_iff] at hf
      simp only [Option.map_some]
      exact congrFun (dceG_sound I f hf.1 hf.2.1 ρ) xs
  · simp [dceModel, dceG, Graph.outputs]
  · simp only [dceModel, dceG, Graph.freeInputs, Graph.inputs, Graph.inits]
    apply List.filter_congr
    intro v hv
    congr 1
    rw [Bool.eq_iff_iff]
    simp only [List.contains_iff_mem, List.mem_map, List.mem_filter]
    constructor
    · rintro ⟨q, ⟨hq, _⟩, rfl⟩; exact ⟨q, hq, rfl⟩
    · rintro ⟨q, hq, rfl⟩
      exact ⟨q, ⟨hq, by simp [hv]⟩, rfl⟩
  · simp [dceModel]

theorem ieG_outputs_length (ii loc : List VId) : ∀ (ns : List Node) (σ : Subst) (outs : List VId),
    (ieNodes ii loc σ outs ns).outs.length = outs.length
  | [], _, _ => by simp [ieNodes]
  | .mk op attrs ins nouts bodies :: ns, σ, outs => by
    simp only [ieNodes]
    split
    · split
      · exact ieG_outputs_length ii loc ns σ outs
      · rw [ieG_outputs_length ii loc ns _ _, List.length_map]
    · exact ieG_outputs_length ii loc ns σ outs

/-- **C05_identity** — IdentityEliminationPass in every scope (main graph, subgraphs with captured
    values, function bodies), with its keep rule. -/
theorem C05_identity (m : Model) (hv : validModel m = true) : Preserves ieModel m := by
  obtain ⟨g, fs⟩ := m
  simp only [validModel, Bool.and_eq_true, List.all_eq_true] at hv
  obtain ⟨hg, hfs⟩ := hv
  rw [validG_iff] at hg
  have hnil : ∀ D, SubstOK [] D := fun D p hp => by simp at hp
  have hrel : ∀ (Val : Type) (ρ : Env Val), Rel [] ρ ρ := fun _ ρ v => by rw [Subst.app_nil]
  refine ⟨?_, ?_, ?_, ?_, ?_⟩
  · intro Val I xs
    simp only [denote, ieModel]
    exact (congrFun (ieG_sound I _ g [] Env.empty Env.empty (hrel _ _) (hnil _) hg.1 hg.2.1 hg.2.2.1) xs).symm
  · intro Val I k ρ xs
    simp only [denoteFunc, ieModel, List.getElem?_map]
    cases hk : fs[k]? with
    | none => rfl
    | some f =>
      have hf := hfs f (List.mem_of_getElem? hk)
      rw [validG_iff] at hf
      simp only [Option.map_some]
      exact (congrFun (ieG_sound I _ f [] ρ ρ (hrel _ _) (hnil _) hf.1 hf.2.1 hf.2.2.1) xs).symm
  · cases g with
    | mk inputs outputs inits nodes =>
      simp only [ieModel, ieG, Graph.outputs]
      exact ieG_outputs_length _ _ nodes [] outputs
  · cases g with
    | mk inputs outputs inits nodes => simp [ieModel, ieG, Graph.freeInputs, Graph.inputs, Graph.inits]
  · simp [ieModel]

theorem cseFixOuts_length (gins : List VId) (pairs : List (VId × VId)) :
    ∀ (todo : List VId) (rep : List (VId × VId)) (done : List VId),
    (cseFixOuts gins pairs rep done todo).1.length = done.length + todo.length
  | [], _, _ => by simp [cseFixOuts]
  | o :: rest, rep, done => by
    simp only [cseFixOuts]
    split
    · rw [cseFixOuts_length gins pairs rest]; simp; omega
    · split
      · split
        · simp only; rw [cseFixOuts_length gins pairs rest]; simp; omega
        · rw [cseFixOuts_length gins pairs rest]; simp; omega
      · rw [cseFixOuts_length gins pairs rest]; simp; omega

theorem cseNodes_outs_length (limit : Nat) (gins : List VId) :
    ∀ (ns tbl : List Node) (σ : Subst) (outs : List VId),
    (cseNodes limit gins tbl σ outs ns).outs.length = outs.length
  | [], _, _, _ => by simp [cseNodes]
  | .mk op attrs ins nouts bodies :: ns, tbl, σ, outs => by
    simp only [cseNodes]
    split
    · exact cseNodes_outs_length limit gins ns tbl σ outs
    · split
      · simp only
        rw [cseNodes_outs_length limit gins ns, cseFixOuts_length]; simp
      · exact cseNodes_outs_length limit gins ns _ σ outs

theorem cseNodes_keeps_stochastic (limit : Nat) (gins : List VId) :
    ∀ (ns tbl : List Node) (σ : Subst) (outs : List VId) (n : Node), n ∈ ns → isStochasticOp n.op = true →
    ∃ n' ∈ (cseNodes limit gins tbl σ outs ns).nodes, n'.op = n.op ∧ n'.outs = n.outs ∧ n'.attrs = n.attrs
  | [], _, _, _, n, h, _ => by simp at h
  | .mk op attrs ins nouts bodies :: ns, tbl, σ, outs, n, hn, hst => by
    simp only [cseNodes]
    rcases List.mem_cons.1 hn with hn | hn
    · subst hn
      have hskip : cseSkip limit op attrs bodies = true := by
        simp only [Node.op] at hst
        simp only [cseSkip, Bool.or_eq_true]
        right
        simpa [isNonDeterministicOp, isStochasticOp] using hst
      rw [if_pos hskip]
      exact ⟨_, List.mem_cons_self, rfl, rfl, rfl⟩
    · split
      · obtain ⟨n', h1, h2⟩ := cseNodes_keeps_stochastic limit gins ns tbl σ outs n hn hst
        exact ⟨n', List.mem_cons_of_mem _ h1, h2⟩
      · split
        · obtain ⟨n', h1, h2⟩ := cseNodes_keeps_stochastic limit gins ns tbl _ _ n hn hst
          exact ⟨n', List.mem_append_right _ h1, h2⟩
        · obtain ⟨n', h1, h2⟩ := cseNodes_keeps_stochastic limit gins ns _ σ outs n hn hst
          exact ⟨n', List.mem_cons_of_mem _ h1, h2⟩

/-- **C05_cse_skips** — the determinism assumption of `C05_cse` made explicit.  In the semantics every
    operator is a function of (operator, attributes, bodies, arguments) EXCEPT the stochastic operators
    (`isStochasticOp`: RandomUniform, RandomNormal, RandomUniformLike, RandomNormalLike, Multinomial,
    Bernoulli), whose interpretation also receives the node's output ids, so two such nodes may differ on
    equal arguments.  CSE never removes or merges a node of a stochastic operator: every such node of the
    main graph is still there afterwards, with its operator, attributes and outputs.  (`C05_cse` itself
    is proved for this semantics: its proof needs that the skip list covers `isStochasticOp`.) -/
theorem C05_cse_skips (limit : Nat) (m : Model) (n : Node) (hn : n ∈ m.graph.nodes)
    (hst : isStochasticOp n.op = true) :
    ∃ n' ∈ (cseModel limit m).graph.nodes, n'.op = n.op ∧ n'.outs = n.outs ∧ n'.attrs = n.attrs := by
  obtain ⟨g, fs⟩ := m
  cases g with
  | mk inputs outputs inits nodes =>
    simp only [Graph.nodes] at hn
    simp only [cseModel, Graph.nodes]
    exact cseNodes_keeps_stochastic limit inputs nodes [] [] outputs n hn hst

theorem forall2_refl {α : Type} {R : α → α → Prop} (h : ∀ a, R a a) : ∀ l : List α, List.Forall₂ R l l
  | [] => List.Forall₂.nil
  | a :: l => List.Forall₂.cons (h a) (forall2_refl h l)

/-- **C05_cse** — CommonSubexpressionEliminationPass (any size limit): dictionary key = operator id,
    number of outputs, input identities, attribute values (fixed key of D50); control-flow nodes,
    large tensors and random operators are skipped; graph outputs are rewired directly or through a
    new Identity node; uses inside subgraphs are replaced.  Determinism of operators is exactly
    "`sem` is a function". -/
theorem C05_cse (limit : Nat) (m : Model) (hv : validModel m = true) : Preserves (cseModel limit) m := by
  obtain ⟨g, fs⟩ := m
  simp only [validModel, Bool.and_eq_true, List.all_eq_true] at hv
  obtain ⟨hg, _⟩ := hv
  rw [validG_iff] at hg
  cases g with
  | mk inputs outputs inits nodes =>
  obtain ⟨hs, hc, hf, _⟩ := hg
  simp only [ssaG, Bool.and_eq_true] at hs
  simp only [closedG, Bool.and_eq_true] at hc
  simp only [noFwdG] at hf
  refine ⟨?_, ?_, ?_, ?_, ?_⟩
  · intro Val I xs
    simp only [denote, cseModel, evalG]
    symm
    refine cseNodes_sound I limit inputs nodes [] [] outputs outputs _ _
      (fun v _ => by rw [Subst.app_nil]) (fun p hp => by simp at hp) hs.2 hc.2 hf
      (fun n1 h1 => by simp at h1) (forall2_refl (R := OutOK [] _ _) (fun a => Or.inl (Subst.app_nil a).symm) outputs)
  · intro Val I k ρ xs
    simp [denoteFunc, cseModel]
  · simp only [cseModel, Graph.outputs]
    exact cseNodes_outs_length limit inputs nodes [] [] outputs
  · simp [cseModel, Graph.freeInputs, Graph.inputs, Graph.inits]
  · simp [cseModel]

theorem preserves_mapInputs (f : List VId → List VId → List VId) (hf : KeepsFree f) (m : Model) :
    Preserves (fun m => { graph := mapInputsTop f m.graph, funcs := m.funcs }) m := by
  obtain ⟨g, fs⟩ := m
  refine ⟨?_, ?_, ?_, ?_, ?_⟩
  · intro Val I xs
    simp only [denote]
    exact congrFun (mapInputsTop_sound I f hf g Env.empty) xs
  · intro Val I k ρ xs; rfl
  · cases g with
    | mk inputs outputs inits nodes => simp [mapInputsTop, Graph.outputs]
  · cases g with
    | mk inputs outputs inits nodes =>
      simp only [mapInputsTop, Graph.freeInputs, Graph.inputs, Graph.inits]
      exact hf inputs (inits.map Prod.fst)
  · rfl

/-- **C05_rm_init_inputs** — RemoveInitializersFromInputsPass (main graph). -/
theorem C05_rm_init_inputs (m : Model) : Preserves rmInitInputsModel m :=
  preserves_mapInputs removeInitsFromInputs keepsFree_remove m

/-- **C05_add_init_inputs** — AddInitializersToInputsPass (main graph): the
    initializer-backed inputs it appends are not inputs a caller has to supply. -/
theorem C05_add_init_inputs (m : Model) : Preserves addInitInputsModel m :=
  preserves_mapInputs addInitsToInputs keepsFree_add m

/-- **C05_lift_const** — LiftConstantsToInitializersPass (any `lift_all_constants`, any `size_limit`):
    Constant nodes of every attribute form in the main graph and in subgraphs become initializers of
    the graph they are in; the tensor is `constTensor`, the meaning the semantics fixes for Constant. -/
theorem C05_lift_const (liftAll : Bool) (limit : Nat) (m : Model) (hv : validModel m = true) :
    Preserves (liftConstModel liftAll limit) m := by
  obtain ⟨g, fs⟩ := m
  simp only [validModel, Bool.and_eq_true, List.all_eq_true] at hv
  obtain ⟨hg, _⟩ := hv
  rw [validG_iff] at hg
  refine ⟨?_, ?_, ?_, ?_, ?_⟩
  · intro Val I xs
    simp only [denote, liftConstModel]
    exact congrFun (liftG_sound I liftAll limit g hg.1 hg.2.2.1 Env.empty) xs
  · intro Val I k ρ xs; rfl
  · cases g with
    | mk inputs outputs inits nodes => simp [liftConstModel, liftG, Graph.outputs]
  · cases g with
    | mk inputs outputs inits nodes =>
      have hs := hg.1
      simp only [ssaG, Bool.and_eq_true, disj_iff] at hs
      simp only [liftConstModel, liftG, Graph.freeInputs, Graph.inputs, Graph.inits]
      apply List.filter_congr
      intro v hv
      congr 1
      rw [Bool.eq_iff_iff]
      simp only [List.map_append, List.contains_iff_mem, List.mem_append]
      constructor
      · rintro (h | h)
        · exact h
        · exact absurd (outsTop_sub_defsNodes nodes (liftNodes_ids_sub liftAll limit outputs v nodes h))
            (hs.1.2 v (by simp [hv]))
      · exact Or.inl
  · rfl

/-- **C05_dedup** — DeduplicateInitializersPass / DeduplicateHashedInitializersPass (any size limit; main
    graph and subgraphs, uses inside subgraphs replaced; initializers that are graph inputs or outputs are
    left alone).  The key (dtype, shape, bytes / strings) is the tensor (fixed key of D37). -/
theorem C05_dedup (limit : Nat) (m : Model) (hv : validModel m = true) : Preserves (dedupModel limit) m := by
  obtain ⟨g, fs⟩ := m
  simp only [validModel, Bool.and_eq_true, List.all_eq_true] at hv
  obtain ⟨hg, _⟩ := hv
  rw [validG_iff] at hg
  refine ⟨?_, ?_, ?_, ?_, ?_⟩
  · intro Val I xs
    simp only [denote, dedupModel]
    exact (congrFun (dedupG_sound I limit g [] Env.empty Env.empty (fun v => by rw [Subst.app_nil])
      (fun p hp => by simp at hp) hg.1 hg.2.1) xs).symm
  · intro Val I k ρ xs; rfl
  · cases g with
    | mk inputs outputs inits nodes => simp [dedupModel, dedupG, Graph.outputs]
  · cases g with
    | mk inputs outputs inits nodes =>
      obtain ⟨hsub, hb, hcc⟩ := dedupInits_spec limit (inputs ++ outputs) inits [] []
        (fun key k h => by simp at h)
      simp only [dedupModel, dedupG, Graph.freeInputs, Graph.inputs, Graph.inits]
      apply List.filter_congr
      intro v hv
      congr 1
      rw [Bool.eq_iff_iff]
      simp only [List.contains_iff_mem]
      constructor
      · exact fun h => (hsub.map Prod.fst).subset h
      · intro h
        obtain ⟨q, hq, rfl⟩ := List.mem_map.1 h
        refine List.mem_map.2 ⟨q, hcc q.1 q.2 hq ?_, rfl⟩
        cases hl : (dedupInits limit (inputs ++ outputs) [] inits).2.lookup q.1 with
        | none => rfl
        | some k => exact absurd (List.mem_append_left _ hv) (hb q.1 k hl).1
  · rfl

theorem mem_refsBodies_of_mem {v : VId} {f : Graph} : ∀ {bs : List Graph}, f ∈ bs → v ∈ refsG f →
    v ∈ refsBodies bs
  | [], hf, _ => by simp at hf
  | b :: bs, hf, hv => by
    simp only [refsBodies, List.mem_append]
    rcases List.mem_cons.1 hf with hf | hf
    · left; rw [← hf]; exact hv
    · exact Or.inr (mem_refsBodies_of_mem hf hv)

/-- **C05_output_fix** — OutputFixPass (main graph, functions and all subgraphs): values listed twice
    as outputs and graph inputs used directly as outputs get an Identity node with a fresh output. -/
theorem C05_output_fix (m : Model) (hv : validModel m = true) : Preserves ofixModel m := by
  have hv' := hv
  simp only [validModel, Bool.and_eq_true, List.all_eq_true] at hv'
  obtain ⟨hg, hfs⟩ := hv'
  have hsg := ((validG_iff m.graph).1 hg).1
  refine ⟨?_, ?_, ?_, ?_, ?_⟩
  · intro Val I xs
    simp only [denote, ofixModel]
    refine congrFun (ofixG_sound I _ m.graph (freshId m) hsg (fun v hv => lt_freshId_of_mem m ?_) Env.empty) xs
    have := (mem_refsG v m.graph).2 (Or.inr hv)
    simp [this]
  · intro Val I k ρ xs
    simp only [denoteFunc, ofixModel]
    have h := ofixBodies_getElem? (ginsG m.graph ++ ginsBodies m.funcs) m.funcs
      (ofixG (ginsG m.graph ++ ginsBodies m.funcs) (freshId m) m.graph).2 k
    cases hk : m.funcs[k]? with
    | none => simp only [hk] at h; rw [h]
    | some f =>
      simp only [hk] at h
      obtain ⟨n', hn, hget⟩ := h
      rw [hget]
      simp only
      have hsf := ((validG_iff f).1 (hfs f (List.mem_of_getElem? hk))).1
      refine congrFun (ofixG_sound I _ f n' hsf (fun v hv => ?_) ρ) xs
      refine Nat.lt_of_lt_of_le (lt_freshId_of_mem m ?_) (Nat.le_trans (ofixG_mono _ m.graph _) hn)
      have hmem : v ∈ refsBodies m.funcs :=
        mem_refsBodies_of_mem (List.mem_of_getElem? hk) ((mem_refsG v f).2 (Or.inr hv))
      simp [hmem]
  · cases hg' : m.graph with
    | mk inputs outputs inits nodes =>
      simp [ofixModel, hg', ofixG, Graph.outputs, ofixDirect_length, ofixMulti_length]
  · cases hg' : m.graph with
    | mk inputs outputs inits nodes =>
      rw [hg'] at hsg
      simp only [ssaG, Bool.and_eq_true, nodupB_iff] at hsg
      simp only [ofixModel, hg', ofixG, Graph.freeInputs, Graph.inputs, Graph.inits]
      obtain ⟨_, hmem1⟩ := foldl_moveToEnd
        (fixedInputs (ofixDirect (ginsG (Graph.mk inputs outputs inits nodes) ++ ginsBodies m.funcs)
          (ofixMulti [] outputs (ofixNodes (ginsG (Graph.mk inputs outputs inits nodes) ++ ginsBodies m.funcs)
            (freshId m) nodes).2).1
          (ofixMulti [] outputs (ofixNodes (ginsG (Graph.mk inputs outputs inits nodes) ++ ginsBodies m.funcs)
            (freshId m) nodes).2).2.2).2.1) inits hsg.1.1.2
      apply List.filter_congr
      intro v _
      congr 1
      rw [Bool.eq_iff_iff]
      simp only [List.contains_iff_mem, List.mem_map]
      constructor
      · rintro ⟨p, hp, rfl⟩; exact ⟨p, (hmem1 p).1 hp, rfl⟩
      · rintro ⟨p, hp, rfl⟩; exact ⟨p, (hmem1 p).2 hp, rfl⟩
  · simp [ofixModel, ofixBodies_length]

/-- **C05_lift_sub_inits** — LiftSubgraphInitializersToMainGraphPass: initializers of subgraphs (at
    any depth) that are neither inputs nor outputs of their graph move to the main graph. -/
theorem C05_lift_sub_inits (m : Model) (hv : validModel m = true) : Preserves lsiModel m := by
  obtain ⟨g, fs⟩ := m
  simp only [validModel, Bool.and_eq_true, List.all_eq_true] at hv
  obtain ⟨hg, _⟩ := hv
  rw [validG_iff] at hg
  cases g with
  | mk inputs outputs inits nodes =>
  refine ⟨?_, ?_, ?_, ?_, ?_⟩
  · intro Val I xs
    simp only [denote, lsiModel]
    exact congrFun (lsiMain_sound I inputs outputs inits nodes hg.1 hg.2.1 hg.2.2.2 Env.empty) xs
  · intro Val I k ρ xs; rfl
  · simp [lsiModel, Graph.outputs]
  · have hs := hg.1
    simp only [ssaG, Bool.and_eq_true, disj_iff] at hs
    simp only [lsiModel, Graph.freeInputs, Graph.inputs, Graph.inits]
    apply List.filter_congr
    intro v hv
    congr 1
    rw [Bool.eq_iff_iff]
    simp only [List.map_append, List.contains_iff_mem, List.mem_append]
    constructor
    · rintro (h | h)
      · exact h
      · exact absurd ((lsiNodes_ids nodes hs.2).2 v h) (hs.1.2 v (by simp [hv]))
    · exact Or.inl
  · rfl

/-- **C05_toposort** — TopologicalSortPass as a permutation: if `m'` is `m` with the node list of
    every graph (main graph, subgraphs at any depth, function bodies) permuted (`reorderModel`), and
    both are valid (SSA, no node reads a value bound by itself or later), then they compute the same:
    the denotation does not depend on which dependency-respecting order the nodes are listed in.
    That the real pass returns such a model is checked on every generated case (`passes.reorder`);
    that `Graph.sort` orders any acyclic graph and is stable is C12. -/
theorem C05_toposort (m m' : Model) (hv : validModel m = true) (hv' : validModel m' = true)
    (hr : reorderModel m m' = true) :
    (∀ (Val : Type) (I : Interp Val) (xs : List Val), denote I m' xs = denote I m xs) ∧
    (∀ (Val : Type) (I : Interp Val) (k : Nat) (ρ : Env Val) (xs : List Val),
      denoteFunc I m' k ρ xs = denoteFunc I m k ρ xs) ∧
    m'.graph.outputs.length = m.graph.outputs.length ∧ m'.graph.freeInputs = m.graph.freeInputs := by
  obtain ⟨g, fs⟩ := m
  obtain ⟨g', fs'⟩ := m'
  simp only [validModel, Bool.and_eq_true, List.all_eq_true] at hv hv'
  simp only [reorderModel, Bool.and_eq_true] at hr
  have hg := (validG_iff g).1 hv.1
  have hg' := (validG_iff g').1 hv'.1
  have hfs : ∀ b ∈ fs, GraphOK b := fun b hb => by
    have := (validG_iff b).1 (hv.2 b hb); exact ⟨this.1, this.2.2.1⟩
  have hfs' : ∀ b ∈ fs', GraphOK b := fun b hb => by
    have := (validG_iff b).1 (hv'.2 b hb); exact ⟨this.1, this.2.2.1⟩
  refine ⟨?_, ?_, ?_, ?_⟩
  · intro Val I xs
    simp only [denote]
    exact (congrFun (reorderG_sound I g g' hr.1 ⟨hg.1, hg.2.2.1⟩ ⟨hg'.1, hg'.2.2.1⟩ Env.empty) xs).symm
  · intro Val I k ρ xs
    simp only [denoteFunc]
    have := reorderBodies_getElem? I fs fs' hr.2 hfs hfs' k ρ
    cases h1 : fs[k]? <;> cases h2 : fs'[k]? <;> simp only [h1, h2] at this ⊢
    exact (congrFun this xs).symm
  · cases g; cases g'
    simp only [reorderG, Bool.and_eq_true, beq_iff_eq] at hr
    simp only [Graph.outputs] at hr ⊢
    rw [hr.1.1.1.2]
  · cases g; cases g'
    simp only [reorderG, Bool.and_eq_true, beq_iff_eq, Graph.inputs, Graph.inits] at hr
    simp only [Graph.freeInputs, Graph.inputs, Graph.inits]
    rw [hr.1.1.1.1, hr.1.1.2]

/-- NOT a property theorem (definitional): in pass sequences the model of TopologicalSortPass on a valid
    (hence topologically ordered) model is the identity, by stability of the sort (C12). -/
theorem topoSortSorted_preserves (m : Model) : Preserves topoSortModel m :=
  ⟨fun _ _ _ => rfl, fun _ _ _ _ _ => rfl, rfl, rfl, rfl⟩

/-- NOT property theorems (definitional; used only so that `C05_compose` covers sequences containing these
    passes): metadata, doc strings and names are not part of the IR the denotation is defined on (values
    are identities), so on this IR ClearMetadataAndDocStringPass and NameFixPass are the identity.  What is
    checked for these two passes is the correspondence (the real result has the structure of the input)
    and the evaluation oracle. -/
theorem clearMeta_preserves (m : Model) : Preserves clearMetaModel m :=
  ⟨fun _ _ _ => rfl, fun _ _ _ _ _ => rfl, rfl, rfl, rfl⟩
theorem nameFix_preserves (m : Model) : Preserves nameFixModel m :=
  ⟨fun _ _ _ => rfl, fun _ _ _ _ _ => rfl, rfl, rfl, rfl⟩

theorem Preserves.trans {p q : Model → Model} {m : Model} (hp : Preserves p m) (hq : Preserves q (p m)) :
    Preserves (fun m => q (p m)) m := by
  obtain ⟨p1, p2, p3, p4, p5⟩ := hp
  obtain ⟨q1, q2, q3, q4, q5⟩ := hq
  exact ⟨fun V I xs => (q1 V I xs).trans (p1 V I xs), fun V I k ρ xs => (q2 V I k ρ xs).trans (p2 V I k ρ xs),
    q3.trans p3, q4.trans p4, q5.trans p5⟩

/-- every modelled pass preserves what the model computes on the models that satisfy its assumptions -/
theorem C05_pass (p : PassId) (m : Model) (h : p.pre m = true) : Preserves p.run m := by
  cases p with
  | dce => exact C05_dce m h
  | identity => exact C05_identity m h
  | cse limit => exact C05_cse limit m h
  | dedup limit => exact C05_dedup limit m h
  | liftConst a l => exact C05_lift_const a l m h
  | liftSubInits => exact C05_lift_sub_inits m h
  | rmInitInputs => exact C05_rm_init_inputs m
  | addInitInputs => exact C05_add_init_inputs m
  | outputFix => exact C05_output_fix m h
  | clearMeta => exact clearMeta_preserves m
  | nameFix => exact nameFix_preserves m
  | topoSort => exact topoSortSorted_preserves m

/-- **C05_compose** — any sequence (any length) of the modelled passes preserves what the model
    computes, the number of outputs and the non-initializer inputs, provided every pass of the
    sequence meets a model satisfying its assumptions (`chainOK`, evaluated by the driver on every
    generated sequence: every intermediate model is SSA, closed, topologically ordered and scoped). -/
theorem C05_compose : ∀ (ps : List PassId) (m : Model), chainOK ps m = true → Preserves (runPasses ps) m
  | [], m, _ => ⟨fun _ _ _ => rfl, fun _ _ _ _ _ => rfl, rfl, rfl, rfl⟩
  | p :: ps, m, h => by
    simp only [chainOK, Bool.and_eq_true] at h
    have := Preserves.trans (p := p.run) (q := runPasses ps) (C05_pass p m h.1) (C05_compose ps (p.run m) h.2)
    exact this

/-- **C05_pass_valid** — every modelled pass returns a valid model when it is given one: value ids stay bound
    once in the whole nest (SSA), every graph's outputs stay bound at the top level of that graph (closed), node
    lists stay topologically ordered, and every value a node reads stays in scope.  For the passes that delete
    (RemoveUnusedNodes, LiftConstants, LiftSubgraphInitializers), that substitute values (IdentityElimination,
    Deduplicate, CSE incl. its Identity nodes at the place of the removed node) and that add Identity nodes with
    fresh outputs (OutputFix); orderedness of the deleting / substituting passes is C14's. -/
theorem C05_pass_valid (p : PassId) (m : Model) (hv : validModel m = true) : validModel (p.run m) = true := by
  cases p with
  | dce => exact dceModel_valid m hv
  | identity => exact ieModel_valid m hv
  | cse limit => exact cseModel_valid limit m hv
  | dedup limit => exact dedupModel_valid limit m hv
  | liftConst a l => exact liftConstModel_valid a l m hv
  | liftSubInits => exact lsiModel_valid m hv
  | rmInitInputs => exact rmInitInputsModel_valid m hv
  | addInitInputs => exact addInitInputsModel_valid m hv
  | outputFix => exact ofixModel_valid m hv
  | clearMeta => exact hv
  | nameFix => exact hv
  | topoSort => exact hv

theorem chainOK_of_valid : ∀ (ps : List PassId) (m : Model), validModel m = true → chainOK ps m = true
  | [], _, _ => rfl
  | p :: ps, m, hv => by
    simp only [chainOK, Bool.and_eq_true]
    refine ⟨?_, chainOK_of_valid ps (p.run m) (C05_pass_valid p m hv)⟩
    cases p <;> first | exact hv | rfl

theorem runPasses_valid : ∀ (ps : List PassId) (m : Model), validModel m = true → validModel (runPasses ps m) = true
  | [], _, hv => hv
  | p :: ps, m, hv => runPasses_valid ps (p.run m) (C05_pass_valid p m hv)

/-- **C05_compose_valid** — `C05_compose` without its hypothesis about the intermediate models: ANY sequence (any
    length) of the modelled passes applied to a valid model preserves what the model computes, the number of
    outputs and the non-initializer inputs, and returns a valid model (so that the result can be handed to the next
    sequence).  Supersedes `C05_compose` (kept: it also covers sequences started on a model that only satisfies the
    assumptions of its first passes). -/
theorem C05_compose_valid (ps : List PassId) (m : Model) (hv : validModel m = true) :
    Preserves (runPasses ps) m ∧ validModel (runPasses ps m) = true :=
  ⟨C05_compose ps m (chainOK_of_valid ps m hv), runPasses_valid ps m hv⟩

/-- non-vacuity: a valid model on which the pass does something (a dead node is removed) -/
example : validModel ⟨.mk [0] [1] [] [.mk ⟨"", "Neg", ""⟩ [] [some 0] [1] [], .mk ⟨"", "Abs", ""⟩ [] [some 0] [2] []], []⟩ = true := by
  decide

/-- non-vacuity: the pass eliminates `2 = Identity(1)` and rewires the graph output -/
example : (ieModel ⟨.mk [0] [2] [] [.mk ⟨"", "Neg", ""⟩ [] [some 0] [1] [], .mk ⟨"", "Identity", ""⟩ [] [some 1] [2] []], []⟩).graph.outputs = [1] := by
  decide

/-- non-vacuity: CSE merges the second `Neg(0)`; its output 2 is a graph output next to the kept
    node's output 1, so an Identity node producing it is inserted -/
example : (cseModel 10 ⟨.mk [0] [1, 2] [] [.mk ⟨"", "Neg", ""⟩ [] [some 0] [1] [], .mk ⟨"", "Neg", ""⟩ [] [some 0] [2] []], []⟩).graph.nodes.length = 2 := by
  decide

/-- non-vacuity: dedup merges the second of two equal initializers and rewires its use -/
example : (dedupModel 1024 ⟨.mk [0] [3] [(1, ⟨1, [1], [0, 0, 128, 63], []⟩), (2, ⟨1, [1], [0, 0, 128, 63], []⟩)]
    [.mk ⟨"", "Add", ""⟩ [] [some 1, some 2] [3] []], []⟩).graph.inits.length = 1 := by decide

/-- non-vacuity: a Constant node becomes an initializer of its graph -/
example : (liftConstModel true 0 ⟨.mk [0] [2] [] [.mk ⟨"", "Constant", ""⟩ [("value_int", .int 7)] [] [1] [],
    .mk ⟨"", "Add", ""⟩ [] [some 0, some 1] [2] []], []⟩).graph.inits.length = 1 := by decide

/-- non-vacuity: a graph input used directly as output gets an Identity node -/
example : (ofixModel ⟨.mk [0] [0, 0] [] [], []⟩).graph.nodes.length = 2 := by decide

/-- non-vacuity: the initializer of an If branch moves to the main graph -/
example : (lsiModel ⟨.mk [0] [2] [] [.mk ⟨"", "If", ""⟩ [] [some 0] [2]
    [.mk [] [3] [(1, ⟨1, [], [0, 0, 0, 0], []⟩)] [.mk ⟨"", "Neg", ""⟩ [] [some 1] [3] []]]], []⟩).graph.inits.length = 1 := by
  decide

/-- non-vacuity of `C05_compose`: a three-pass chain on a valid model satisfies `chainOK` -/
example : chainOK [.outputFix, .identity, .dce]
    ⟨.mk [0] [2, 2] [] [.mk ⟨"", "Neg", ""⟩ [] [some 0] [1] [], .mk ⟨"", "Identity", ""⟩ [] [some 1] [2] []], []⟩ = true := by
  decide

end IrVerif.Passes

/-! ## model-local functions: InlinePass, RemoveUnusedFunctionsPass, RemoveUnusedOpsetsPass

The IR of Model/Inline.lean: nodes may call model-local functions; a call denotes the body of the function
under the call's inputs and attribute bindings (`evalGF`, `funcDen`), unrolled to a depth (`denoteAt d`);
`denoteF` = depth `number of functions`. -/
namespace IrVerif.Inline
open IrVerif.Sem IrVerif.Passes

theorem lvl_zero_eq (fs : List Func) : lvl fs 0 = fun op => (findFunc fs op).isNone := by
  funext op; simp [lvl]

/-- **C05_call_depth** — for a valid model (non-recursive call graph) the unrolling depth is irrelevant from
    the number of functions on: every deeper unrolling denotes the same function. -/
theorem C05_call_depth (m : FModel) (hv : validF m = true) {Val : Type} (I : Interp Val) (d : Nat)
    (hd : m.funcs.length ≤ d) (xs : List Val) : denoteAt d I m xs = denoteF I m xs := by
  simp only [validF, Bool.and_eq_true, List.all_eq_true] at hv
  obtain ⟨⟨⟨⟨⟨_, _⟩, hl⟩, _⟩, _⟩, _⟩ := hv
  simp only [denoteF, denoteAt]
  have hall : ∀ (g : FGraph), opsAllG (lvl m.funcs m.funcs.length) g = true := by
    intro g
    refine opsAllG_mono (p := fun _ => true) (fun op _ => ?_) g ?_
    · cases hf : findFunc m.funcs op with
      | none => exact lvl_mono_le m.funcs (Nat.zero_le _) op (by simp [lvl, hf])
      | some f => obtain ⟨hm, hid⟩ := findFunc_some hf; exact hid ▸ hl f hm
    · exact opsAllG_true g
  exact congrFun (evalGF_congrΦ I _ _ (lvl m.funcs m.funcs.length)
    (fun op hop => fenv_stable I m.funcs _ op hop d hd) [] m.graph Env.empty (hall m.graph)) xs

/-- what the call sites need of the function table of a valid model, at an unrolling depth that covers every
    call tree -/
theorem tblOK_of_valid (m : FModel) (hv : validF m = true) {Val : Type} (I : Interp Val) (k d : Nat)
    (hk : ∀ f ∈ m.funcs, lvl m.funcs k f.id = true) (hkd : k ≤ d) : TblOK I (fenv I m.funcs d) m.funcs := by
  simp only [validF, Bool.and_eq_true, List.all_eq_true, decide_eq_true_eq, Option.isNone_iff_eq_none] at hv
  obtain ⟨⟨⟨⟨⟨⟨hid, hvm⟩, _⟩, _⟩, _⟩, hcf⟩, hfb⟩ := hv
  simp only [validModel, eraseModel, Bool.and_eq_true, List.all_eq_true, List.mem_map, forall_exists_index,
    and_imp, forall_apply_eq_imp_iff₂] at hvm
  refine ⟨fun op f hf => fenv_unfold I m.funcs k hk hkd hf, fun op f hf => (hfb f (findFunc_some hf).1).1,
    fun op f hf => (hfb f (findFunc_some hf).1).2, fun op f hf => ?_, fun op f hf => hcf f (findFunc_some hf).1,
    hid, fenv_none I m.funcs d hid⟩
  have := ((validG_iff _).1 (hvm.2 f (findFunc_some hf).1)).2.1
  simp only [Func.graph, eraseG, closedG, Bool.and_eq_true] at this
  exact this.2

/-- `_inline_calls_in` on the main graph of a valid model (any criteria, nested calls to any depth): the
    denotation under the function table of the model is unchanged; so is the number of outputs -/
theorem inline_main_sound (crit : OpId → Bool) (m : FModel) (hv : validF m = true) (k : Nat)
    (hk : ∀ f ∈ m.funcs, lvl m.funcs k f.id = true) :
    (∀ (Val : Type) (I : Interp Val) (d : Nat), k ≤ d →
      evalGF I (fenv I m.funcs d) [] m.graph Env.empty =
        evalGF I (fenv I m.funcs d) [] (inlG m.funcs crit (inlAt m.funcs crit m.funcs.length)
          ⟨freshF m, [], 0, false, false⟩ [] m.graph).2 Env.empty) ∧
    (inlG m.funcs crit (inlAt m.funcs crit m.funcs.length) ⟨freshF m, [], 0, false, false⟩ [] m.graph).2.outputs.length =
      m.graph.outputs.length ∧
    freshF m ≤ (inlG m.funcs crit (inlAt m.funcs crit m.funcs.length) ⟨freshF m, [], 0, false, false⟩ [] m.graph).1.next := by
  have hv' := hv
  simp only [validF, Bool.and_eq_true, List.all_eq_true, decide_eq_true_eq] at hv'
  obtain ⟨⟨⟨⟨⟨⟨_, hvm⟩, _⟩, _⟩, hcg⟩, _⟩, _⟩ := hv'
  simp only [validModel, eraseModel, Bool.and_eq_true, List.all_eq_true, List.mem_map, forall_exists_index,
    and_imp, forall_apply_eq_imp_iff₂] at hvm
  obtain ⟨hvg, _⟩ := hvm
  rw [validG_iff] at hvg
  have hbound : ∀ v, (v ∈ refsG (eraseG m.graph) ∨ v ∈ defsG (eraseG m.graph)) → v < freshF m := by
    intro v hv
    refine lt_freshId_of_mem (eraseModel m) ?_
    simp only [eraseModel, List.mem_append]
    rcases hv with h | h
    · exact Or.inl (Or.inl (Or.inl h))
    · exact Or.inl (Or.inl (Or.inr h))
  refine ⟨fun Val I d hd => ?_, ?_, ?_⟩
  · have ht := tblOK_of_valid m hv I k d hk hd
    exact (inlG_sound I (fenv I m.funcs d) [] m.funcs crit _ (freshF m) ht (deepOK_inlAt I _ [] m.funcs crit ht _)
      m.graph [] ⟨freshF m, [], 0, false, false⟩ Env.empty Env.empty (fun v _ => by rw [Subst.app_nil])
      (fun p hp => by simp at hp) hvg.1 hvg.2.1 hvg.2.2.1 (fun v hv => hbound v (Or.inl hv))
      (fun v hv => hbound v (Or.inr hv)) (Nat.le_refl _) (fun p hp => by simp at hp) hcg).1
  rotate_left
  · have hI : Interp Unit := ⟨fun _ _ _ _ _ => [], fun _ => ()⟩
    have ht := tblOK_of_valid m hv hI k k hk (Nat.le_refl _)
    exact (inlG_sound hI (fenv hI m.funcs k) [] m.funcs crit _ (freshF m) ht (deepOK_inlAt hI _ [] m.funcs crit ht _)
      m.graph [] ⟨freshF m, [], 0, false, false⟩ Env.empty Env.empty (fun v _ => by rw [Subst.app_nil])
      (fun p hp => by simp at hp) hvg.1 hvg.2.1 hvg.2.2.1 (fun v hv => hbound v (Or.inl hv))
      (fun v hv => hbound v (Or.inr hv)) (Nat.le_refl _) (fun p hp => by simp at hp) hcg).2.1
  · cases hg : m.graph with
    | mk inputs outputs inits nodes =>
      rw [hg] at hvg hbound hcg
      simp only [inlG, FGraph.outputs]
      simp only [eraseG, ssaG, Bool.and_eq_true] at hvg
      have hI : Interp Unit := ⟨fun _ _ _ _ _ => [], fun _ => ()⟩
      have ht := tblOK_of_valid m hv hI k k hk (Nat.le_refl _)
      simp only [callsOKG] at hcg
      have hc := hvg.2.1
      simp only [eraseG, closedG, Bool.and_eq_true] at hc
      have hf := hvg.2.2.1
      simp only [eraseG, noFwdG] at hf
      have key := inlNodes_sound hI (fenv hI m.funcs k) [] m.funcs crit (inlAt m.funcs crit m.funcs.length)
        (freshF m) ht (deepOK_inlAt hI _ [] m.funcs crit ht _) nodes [] outputs ⟨freshF m, [], 0, false, false⟩
        Env.empty Env.empty (fun v _ => by rw [Subst.app_nil]) (fun p hp => by simp at hp) hvg.1.2 hc.2 hf
        (fun v hv => hbound v (Or.inl (by simp only [eraseG, refsG, List.mem_append]; exact Or.inr hv)))
        (fun v hv => hbound v (Or.inr (by simp only [eraseG, defsG, List.mem_append]; exact Or.inr hv)))
        (Nat.le_refl _) (fun p hp => by simp at hp) hcg
      have hmapnil : outputs.map (Subst.app []) = outputs := by
        conv => rhs; rw [← List.map_id outputs]
        apply List.map_congr_left
        intro v _; exact Subst.app_nil v
      rw [hmapnil] at key
      rw [key.2.1, List.length_map]

theorem inlG_inputs_inits (tbl : List Func) (crit : OpId → Bool) (deeper : Deeper) (st : ISt) (σ : Subst) (g : FGraph) :
    (inlG tbl crit deeper st σ g).2.inputs = g.inputs ∧ (inlG tbl crit deeper st σ g).2.inits = g.inits := by
  cases g with
  | mk inputs outputs inits nodes => simp [inlG, FGraph.inputs, FGraph.inits]

/-- the run on the main graph of a valid model: the unrolling budget is not exhausted, no accepted call is left,
    only accepted functions are recorded as inlined -/
theorem inline_main_run (crit : OpId → Bool) (m : FModel) (hv : validF m = true) :
    (inlG m.funcs crit (inlAt m.funcs crit m.funcs.length) ⟨freshF m, [], 0, false, false⟩ [] m.graph).1.stuck = false ∧
    opsAllG (notAcc m.funcs crit) (inlG m.funcs crit (inlAt m.funcs crit m.funcs.length)
      ⟨freshF m, [], 0, false, false⟩ [] m.graph).2 = true ∧
    (∀ op ∈ (inlG m.funcs crit (inlAt m.funcs crit m.funcs.length) ⟨freshF m, [], 0, false, false⟩ [] m.graph).1.inlined,
      crit op = true) := by
  have hv' := hv
  simp only [validF, Bool.and_eq_true, List.all_eq_true, decide_eq_true_eq, Option.isNone_iff_eq_none] at hv'
  obtain ⟨⟨⟨⟨⟨⟨hid, _⟩, hnd⟩, hl⟩, _⟩, _⟩, _⟩ := hv'
  have hall : opsAllG (lvl m.funcs (m.funcs.length + 1)) m.graph = true := by
    refine opsAllG_mono (p := fun _ => true) (fun op _ => ?_) m.graph (opsAllG_true m.graph)
    cases hf : findFunc m.funcs op with
    | none => exact lvl_mono_le m.funcs (Nat.zero_le _) op (by simp [lvl, hf])
    | some f => obtain ⟨hm, hfid⟩ := findFunc_some hf; exact lvl_mono m.funcs _ op (hfid ▸ hl f hm)
  have hlt := lvlTbl_ht (SigEq.refl m.funcs) (lvlTbl_self m.funcs hnd)
  obtain ⟨a, b, c, _⟩ := inlG_lvl m.funcs m.funcs crit (inlAt m.funcs crit m.funcs.length) m.funcs.length hid
    (fun _ => rfl) (hlt m.funcs.length)
    (deepL_inlAt m.funcs m.funcs crit hid (fun _ => rfl) hlt m.funcs.length m.funcs.length (Nat.le_refl _))
    m.graph ⟨freshF m, [], 0, false, false⟩ [] hall
  refine ⟨a, b, fun op hop => ?_⟩
  rcases c op hop with h | h
  · simp at h
  · exact h

/-- **C05_inline_partial** — InlinePass (any `criteria`) on models whose function bodies contain no calls to
    model-local functions (`flatFuncs`: single-level calls).  Covered: any number of calls, in the main
    graph and in subgraphs at any depth; attribute parameters with and without defaults, reference
    attributes (resolved, kept as references to outer parameters, or dropped); calls that supply fewer inputs
    than the function has; control-flow subgraphs with captured
    values inside function bodies (cloned with fresh inputs and initializers); outputs of the call rewired in
    later nodes, in subgraphs and in the graph outputs; deletion of the inlined functions.
    For every operator interpretation, every unrolling depth `d ≥ 1` and every input the inlined model
    denotes the same outputs; the main graph keeps its inputs, initializers and number of outputs.

    Since the second deepening round `validF` no longer excludes function outputs that are function inputs
    (D300: the repaired pass forwards them through an Identity node, and so does `instantiate`).
    Still excluded by `validF`: stochastic operators in function bodies.
    FULL STATEMENT: the same without `hflat`, i.e. for functions calling functions to any depth: `C05_inline` below
    (for depths `d ≥ number of functions`; this theorem, for call-free function bodies, holds from depth 1).
    When the real pass raises (a call does not supply a function input that the function returns) `inlineModel`
    answers with the unchanged model (`runOK`; by `C05_inline_total` that is the only case on a valid model). -/
theorem C05_inline_partial (crit : OpId → Bool) (m : FModel) (hv : validF m = true) (hflat : flatFuncs m = true) :
    (∀ (Val : Type) (I : Interp Val) (d : Nat), 1 ≤ d → ∀ xs : List Val,
      denoteAt d I (inlineModel crit m) xs = denoteAt d I m xs) ∧
    (inlineModel crit m).graph.outputs.length = m.graph.outputs.length ∧
    (inlineModel crit m).graph.inputs = m.graph.inputs ∧ (inlineModel crit m).graph.inits = m.graph.inits := by
  have hv' := hv
  simp only [validF, Bool.and_eq_true, List.all_eq_true, decide_eq_true_eq] at hv'
  obtain ⟨⟨⟨⟨⟨⟨_, _⟩, hnd⟩, _⟩, _⟩, _⟩, _⟩ := hv'
  have hflat' : FlatTbl m.funcs := by
    intro f hf
    simp only [flatFuncs, List.all_eq_true] at hflat
    exact hflat f hf
  have hl1 : ∀ f ∈ m.funcs, lvl m.funcs 1 f.id = true := by
    intro f hf
    rw [lvl]
    split
    · rfl
    · rename_i f' hf'
      rw [lvl_zero_eq]
      exact hflat' f' (findFunc_some hf').1
  have hrun : (inlineRun crit m).model =
      ⟨(inlG m.funcs crit (inlAt m.funcs crit m.funcs.length) ⟨freshF m, [], 0, false, false⟩ [] m.graph).2,
        m.funcs.filter (fun f => !(inlG m.funcs crit (inlAt m.funcs crit m.funcs.length)
          ⟨freshF m, [], 0, false, false⟩ [] m.graph).1.inlined.contains f.id), m.domains⟩ ∧
      (inlineRun crit m).st = (inlG m.funcs crit (inlAt m.funcs crit m.funcs.length) ⟨freshF m, [], 0, false, false⟩ [] m.graph).1 := by
    refine ⟨?_, ?_⟩ <;> simp only [inlineRun, inlFuncs_flat crit _ m.funcs hnd hflat']
  obtain ⟨hsound, hlen, _⟩ := inline_main_sound crit m hv 1 hl1
  by_cases hfall : runOK crit m = true
  · have hm : inlineModel crit m = (inlineRun crit m).model := by unfold inlineModel; rw [if_pos hfall]
    simp only [runOK, Bool.and_eq_true] at hfall
    have hnd' := hfall.1.1.1.2
    simp only [noDangling, Bool.and_eq_true] at hnd'
    rw [hrun.2] at hnd'
    rw [hrun.1] at hnd'
    rw [hm, hrun.1]
    refine ⟨fun Val I d hd xs => ?_, hlen, (inlG_inputs_inits _ _ _ _ _ _).1, (inlG_inputs_inits _ _ _ _ _ _).2⟩
    simp only [denoteAt]
    rw [hsound Val I d hd]
    refine congrFun (evalGF_congrΦ I _ _ _ (fun op hop => ?_) [] _ Env.empty hnd'.1) xs
    refine fenv_filter I m.funcs hflat' (fun op => !(inlG m.funcs crit (inlAt m.funcs crit m.funcs.length)
      ⟨freshF m, [], 0, false, false⟩ [] m.graph).1.inlined.contains op) d op ?_
    simp only [Bool.or_eq_true, Option.isNone_iff_eq_none] at hop
    rcases hop with h | h
    · exact Or.inr h
    · exact Or.inl h
  · have hm : inlineModel crit m = m := by unfold inlineModel; rw [if_neg hfall]
    rw [hm]
    exact ⟨fun _ _ _ _ _ => rfl, rfl, rfl, rfl⟩

/-- **C05_inline_nested_partial** — InlinePass with `criteria=None` (every call is inlined) on valid models whose
    functions call functions to ANY depth (no `flatFuncs`): the nodes cloned for a call are processed in turn
    (`inlAt`, one level of the unrolling budget per level of nesting), calls inside cloned bodies are inlined with
    the values of the enclosing clone, function inputs that a function returns are forwarded through Identity
    nodes, inputs that a call does not supply stay absent through every level.  For every operator
    interpretation, every unrolling depth `d ≥ number of functions` (the depth at which every call tree is
    unrolled, `C05_call_depth`) and every input the inlined model denotes the same outputs; the main graph keeps
    its inputs, initializers and number of outputs.
    Proof: the clone of a function body is again SSA, closed and ordered over the fresh interval
    (`instantiate_wf`), so `inlNodes_sound` applies to it, by induction over the budget (`deepOK_inlAt`).
    FULL STATEMENT: the same for every criteria = `C05_inline` below.  With `criteria=None` no call is left in the
    main graph, so the functions that remain do not matter here. -/
theorem C05_inline_nested_partial (m : FModel) (hv : validF m = true) :
    (∀ (Val : Type) (I : Interp Val) (d : Nat), m.funcs.length ≤ d → ∀ xs : List Val,
      denoteAt d I (inlineModel (fun _ => true) m) xs = denoteAt d I m xs) ∧
    (inlineModel (fun _ => true) m).graph.outputs.length = m.graph.outputs.length ∧
    (inlineModel (fun _ => true) m).graph.inputs = m.graph.inputs ∧
    (inlineModel (fun _ => true) m).graph.inits = m.graph.inits := by
  have hv' := hv
  simp only [validF, Bool.and_eq_true, List.all_eq_true, decide_eq_true_eq] at hv'
  obtain ⟨⟨⟨⟨⟨⟨_, _⟩, _⟩, hl⟩, _⟩, _⟩, _⟩ := hv'
  obtain ⟨hsound, hlen, _⟩ := inline_main_sound (fun _ => true) m hv m.funcs.length hl
  have hgraph : (inlineRun (fun _ => true) m).model.graph =
      (inlG m.funcs (fun _ => true) (inlAt m.funcs (fun _ => true) m.funcs.length)
        ⟨freshF m, [], 0, false, false⟩ [] m.graph).2 := by simp only [inlineRun]
  by_cases hfall : runOK (fun _ => true) m = true
  · have hm : inlineModel (fun _ => true) m = (inlineRun (fun _ => true) m).model := by
      unfold inlineModel; rw [if_pos hfall]
    simp only [runOK, Bool.and_eq_true] at hfall
    have hna := hfall.1.1.2
    simp only [noAccepted, Bool.true_and] at hna
    rw [hm]
    refine ⟨fun Val I d hd xs => ?_, by rw [hgraph]; exact hlen, by rw [hgraph]; exact (inlG_inputs_inits _ _ _ _ _ _).1,
      by rw [hgraph]; exact (inlG_inputs_inits _ _ _ _ _ _).2⟩
    simp only [denoteAt]
    rw [hsound Val I d hd, ← hgraph]
    refine congrFun (evalGF_congrΦ I _ _ (fun op => !(findFunc m.funcs op).isSome) (fun op hop => ?_) [] _ Env.empty hna) xs
    have hn : findFunc m.funcs op = none := by
      cases h : findFunc m.funcs op with
      | none => rfl
      | some f => rw [h] at hop; simp at hop
    rw [fenv_none I m.funcs d hn]
    refine fenv_none I _ d ?_
    simp only [inlineRun]
    exact findFunc_filter_none _ _ (findFunc_none_of_ids (inlFuncs_ids _ _ _ _ _) hn)
  · have hm : inlineModel (fun _ => true) m = m := by unfold inlineModel; rw [if_neg hfall]
    rw [hm]
    exact ⟨fun _ _ _ _ _ => rfl, rfl, rfl, rfl⟩

theorem mem_defsBodies_of_mem {v : VId} {f : Graph} : ∀ {bs : List Graph}, f ∈ bs → v ∈ defsG f → v ∈ defsBodies bs
  | [], hf, _ => by simp at hf
  | b :: bs, hf, hv => by
    simp only [defsBodies, List.mem_append]
    rcases List.mem_cons.1 hf with hf | hf
    · left; rw [← hf]; exact hv
    · exact Or.inr (mem_defsBodies_of_mem hf hv)

/-- **C05_inline** — InlinePass with ANY `criteria` on valid models whose functions call functions to ANY depth: the
    full statement.  In addition to `C05_inline_nested_partial`: a criterion may keep functions (and calls to them,
    in the main graph and in other kept functions); the bodies of the functions that are left are rewritten in
    place in dictionary order (`inlFuncs`), later clones copy the rewritten bodies, functions inlined anywhere are
    deleted.  For every operator interpretation, every unrolling depth `d ≥ number of functions` and every input
    the resulting model denotes the same outputs; the main graph keeps its inputs, initializers and number of
    outputs.
    Proof: main graph by `inline_main_sound`; each rewritten function denotes the same function under the function
    environment of the model before the pass (`inlFuncs_den`, by `inlNodes_sound` for the table of that moment);
    the function environment of the result agrees with it on every function that is kept, by induction over the
    unrolling depth (`fenv_result`).
    `inlineModel` answers with the unchanged model when `runOK` fails; by `C05_inline_total` that happens on a valid
    model only when the real pass raises (`raised`): every other conjunct of `runOK` is proved there. -/
theorem C05_inline (crit : OpId → Bool) (m : FModel) (hv : validF m = true) :
    (∀ (Val : Type) (I : Interp Val) (d : Nat), m.funcs.length ≤ d → ∀ xs : List Val,
      denoteAt d I (inlineModel crit m) xs = denoteAt d I m xs) ∧
    (inlineModel crit m).graph.outputs.length = m.graph.outputs.length ∧
    (inlineModel crit m).graph.inputs = m.graph.inputs ∧ (inlineModel crit m).graph.inits = m.graph.inits := by
  have hv' := hv
  simp only [validF, Bool.and_eq_true, List.all_eq_true, decide_eq_true_eq, Option.isNone_iff_eq_none] at hv'
  obtain ⟨⟨⟨⟨⟨⟨hid, hvm⟩, hnd⟩, hl⟩, _⟩, hcf⟩, hfb⟩ := hv'
  simp only [validModel, eraseModel, Bool.and_eq_true, List.all_eq_true, List.mem_map, forall_exists_index,
    and_imp, forall_apply_eq_imp_iff₂] at hvm
  obtain ⟨hsound, hlen, hnext⟩ := inline_main_sound crit m hv m.funcs.length hl
  have hgraph : (inlineRun crit m).model.graph =
      (inlG m.funcs crit (inlAt m.funcs crit m.funcs.length) ⟨freshF m, [], 0, false, false⟩ [] m.graph).2 := by
    simp only [inlineRun]
  by_cases hfall : runOK crit m = true
  · have hm : inlineModel crit m = (inlineRun crit m).model := by unfold inlineModel; rw [if_pos hfall]
    simp only [runOK, Bool.and_eq_true] at hfall
    obtain ⟨⟨⟨⟨_, hdang⟩, _⟩, hsyn⟩, hdepth⟩ := hfall
    simp only [noDangling, Bool.and_eq_true, List.all_eq_true] at hdang
    have hsyn0 : synOK m.funcs m.funcs = true := by
      simp only [synOK, Bool.and_eq_true, List.all_eq_true]
      intro f hf
      have hc := ((validG_iff _).1 (hvm.2 f hf)).2.1
      simp only [Func.graph, eraseG, closedG, Bool.and_eq_true] at hc
      exact ⟨⟨⟨(hfb f hf).1, (hfb f hf).2⟩, hc.2⟩, hcf f hf⟩
    have hdepth0 : depthOK m.funcs.length m.funcs = true := by
      simp only [depthOK, List.all_eq_true]; exact hl
    simp only [hsyn0, Bool.not_true, Bool.false_or] at hsyn
    simp only [hdepth0, Bool.not_true, Bool.false_or] at hdepth
    simp only [synOK, Bool.and_eq_true, List.all_eq_true] at hsyn
    simp only [depthOK, List.all_eq_true] at hdepth
    rw [hm]
    refine ⟨fun Val I d hd xs => ?_, by rw [hgraph]; exact hlen, by rw [hgraph]; exact (inlG_inputs_inits _ _ _ _ _ _).1,
      by rw [hgraph]; exact (inlG_inputs_inits _ _ _ _ _ _).2⟩
    simp only [denoteAt]
    rw [hsound Val I d hd, ← hgraph]
    -- the loop over the functions
    have ht := tblOK_of_valid m hv I m.funcs.length d hl hd
    have hbound : ∀ f ∈ m.funcs, ∀ v, (v ∈ refsG (eraseG f.graph) ∨ v ∈ defsG (eraseG f.graph)) → v < freshF m := by
      intro f hf v hv
      refine lt_freshId_of_mem (eraseModel m) ?_
      have hfm : eraseG f.graph ∈ (eraseModel m).funcs := List.mem_map.2 ⟨f, hf, rfl⟩
      simp only [List.mem_append]
      rcases hv with h | h
      · exact Or.inl (Or.inr (mem_refsBodies_of_mem hfm h))
      · exact Or.inr (mem_defsBodies_of_mem hfm h)
    have ctx : LoopCtx I (fenv I m.funcs d) m.funcs (freshF m) := by
      refine ⟨ht.den, hnd, ht.noidentΦ, hid, fun f hf => ?_⟩
      have hvf := (validG_iff _).1 (hvm.2 f hf)
      have hs := hvf.1
      have hfw := hvf.2.2.1
      simp only [Func.graph, eraseG, ssaG, Bool.and_eq_true] at hs
      simp only [Func.graph, eraseG, noFwdG] at hfw
      refine ⟨hs.2, hfw, fun v hv => ?_, fun v hv => ?_, fun v hv => ?_⟩
      · exact hbound f hf v (Or.inl (by simp only [Func.graph, eraseG, refsG, List.mem_append]; exact Or.inr hv))
      · exact hbound f hf v (Or.inr (by simp only [Func.graph, eraseG, defsG, List.mem_append]; exact Or.inr hv))
      · exact hbound f hf v (Or.inl (by simp only [Func.graph, eraseG, refsG, List.mem_append]; exact Or.inl hv))
    have hsyn00 : SynTbl m.funcs m.funcs := by
      intro f hf
      have hc := ((validG_iff _).1 (hvm.2 f hf)).2.1
      simp only [Func.graph, eraseG, closedG, Bool.and_eq_true] at hc
      exact ⟨⟨(hfb f hf).1, (hfb f hf).2, hcf f hf⟩, hc.2⟩
    have hdenfin : DenOK I (fenv I m.funcs d) (inlineRun crit m).tbl := by
      have := (inlFuncs_den ctx crit m.funcs.length hl (m.funcs.map (·.id)) (inlG m.funcs crit (inlAt m.funcs crit m.funcs.length)
        ⟨freshF m, [], 0, false, false⟩ [] m.graph).1 m.funcs hnd (SigEq.refl _) hnext
        (fun g hg _ => hg) ht.den hsyn00 (lvlTbl_self m.funcs hnd) (inline_main_run crit m hv).2.2
        (fun g hg h => absurd (List.mem_map.2 ⟨g, hg, rfl⟩) h)).1
      simpa only [inlineRun] using this
    have hids : (inlineRun crit m).tbl.map (·.id) = m.funcs.map (·.id) := by
      simp only [inlineRun]; exact inlFuncs_ids _ _ _ _ _
    have hfuncs : (inlineRun crit m).model.funcs =
        (inlineRun crit m).tbl.filter (fun f => !(inlineRun crit m).st.inlined.contains f.id) := by
      simp only [inlineRun]
    -- the function environment of the result
    have hres := fenv_result I (inlineRun crit m).model.funcs (fenv I m.funcs d)
      (fun op => (findFunc m.funcs op).isNone || !(inlineRun crit m).st.inlined.contains op)
      (fun op f' hf' => by
        have hk : (!(inlineRun crit m).st.inlined.contains op) = true := by
          obtain ⟨hmem, hfid⟩ := findFunc_some hf'
          rw [hfuncs] at hmem
          rw [← hfid]; exact (List.mem_filter.1 hmem).2
        rw [hfuncs, findFunc_filter _ (fun o => !(inlineRun crit m).st.inlined.contains o) op (Or.inl hk)] at hf'
        exact hdenfin op f' hf')
      (fun op hnone hok => by
        simp only [Bool.or_eq_true, Option.isNone_iff_eq_none] at hok
        rcases hok with h | h
        · exact fenv_none I m.funcs d h
        · rw [hfuncs, findFunc_filter _ (fun o => !(inlineRun crit m).st.inlined.contains o) op (Or.inl h)] at hnone
          exact fenv_none I m.funcs d (findFunc_none_of_ids hids.symm hnone))
      (fun f' hf' => hdang.2 f' hf')
    refine congrFun (evalGF_congrΦ I _ _ _ (fun op hop => ?_) [] _ Env.empty hdang.1) xs
    refine hres d op hop (lvl_mono_le _ hd op ?_)
    cases hf : findFunc (inlineRun crit m).model.funcs op with
    | none => exact lvl_mono_le _ (Nat.zero_le _) op (by simp [lvl, hf])
    | some f => obtain ⟨hmem, hfid⟩ := findFunc_some hf; exact hfid ▸ hdepth f hmem
  · have hm : inlineModel crit m = m := by unfold inlineModel; rw [if_neg hfall]
    rw [hm]
    exact ⟨fun _ _ _ _ _ => rfl, rfl, rfl, rfl⟩

/-- **C05_inline_total** — on a valid model the model of the pass falls back to the unchanged model ONLY when the
    real pass raises (`raised`: a call does not supply a function input that the function returns).  Everything else
    that `inlineModel` checks on its own result (`runOK`) is proved: the unrolling budget (number of functions)
    suffices for a non-recursive call graph, no call that the criterion accepts is left in the main graph, no call
    to a deleted function remains in the main graph or in a remaining function, the function bodies that the pass
    rewrote in place are again closed, call-well-formed and free of stochastic operators, and the call trees of the
    remaining functions are not deeper than the number of functions of the model.  So `C05_inline` speaks about the
    run itself: `inlineModel crit m = (inlineRun crit m).model` whenever the run does not raise. -/
theorem C05_inline_total (crit : OpId → Bool) (m : FModel) (hv : validF m = true)
    (hr : (inlineRun crit m).st.raised = false) :
    runOK crit m = true ∧ inlineModel crit m = (inlineRun crit m).model := by
  have hv' := hv
  simp only [validF, Bool.and_eq_true, List.all_eq_true, decide_eq_true_eq, Option.isNone_iff_eq_none] at hv'
  obtain ⟨⟨⟨⟨⟨⟨hid, hvm⟩, hnd⟩, hl⟩, _⟩, hcf⟩, hfb⟩ := hv'
  simp only [validModel, eraseModel, Bool.and_eq_true, List.all_eq_true, List.mem_map, forall_exists_index,
    and_imp, forall_apply_eq_imp_iff₂] at hvm
  obtain ⟨_, _, hnext⟩ := inline_main_sound crit m hv m.funcs.length hl
  obtain ⟨m1, m2, m3⟩ := inline_main_run crit m hv
  -- the loop over the functions, for the trivial interpretation
  let hI : Interp Unit := ⟨fun _ _ _ _ _ => [], fun _ => ()⟩
  have ht := tblOK_of_valid m hv hI m.funcs.length m.funcs.length hl (Nat.le_refl _)
  have hbound : ∀ f ∈ m.funcs, ∀ v, (v ∈ refsG (eraseG f.graph) ∨ v ∈ defsG (eraseG f.graph)) → v < freshF m := by
    intro f hf v hv
    refine lt_freshId_of_mem (eraseModel m) ?_
    have hfm : eraseG f.graph ∈ (eraseModel m).funcs := List.mem_map.2 ⟨f, hf, rfl⟩
    simp only [List.mem_append]
    rcases hv with h | h
    · exact Or.inl (Or.inr (mem_refsBodies_of_mem hfm h))
    · exact Or.inr (mem_defsBodies_of_mem hfm h)
  have ctx : LoopCtx hI (fenv hI m.funcs m.funcs.length) m.funcs (freshF m) := by
    refine ⟨ht.den, hnd, ht.noidentΦ, hid, fun f hf => ?_⟩
    have hvf := (validG_iff _).1 (hvm.2 f hf)
    have hs := hvf.1
    have hfw := hvf.2.2.1
    simp only [Func.graph, eraseG, ssaG, Bool.and_eq_true] at hs
    simp only [Func.graph, eraseG, noFwdG] at hfw
    refine ⟨hs.2, hfw, fun v hv => ?_, fun v hv => ?_, fun v hv => ?_⟩
    · exact hbound f hf v (Or.inl (by simp only [Func.graph, eraseG, refsG, List.mem_append]; exact Or.inr hv))
    · exact hbound f hf v (Or.inr (by simp only [Func.graph, eraseG, defsG, List.mem_append]; exact Or.inr hv))
    · exact hbound f hf v (Or.inl (by simp only [Func.graph, eraseG, refsG, List.mem_append]; exact Or.inl hv))
  have hsyn00 : SynTbl m.funcs m.funcs := by
    intro f hf
    have hc := ((validG_iff _).1 (hvm.2 f hf)).2.1
    simp only [Func.graph, eraseG, closedG, Bool.and_eq_true] at hc
    exact ⟨⟨(hfb f hf).1, (hfb f hf).2, hcf f hf⟩, hc.2⟩
  obtain ⟨_, r2, r3, r4, r5, r6⟩ := inlFuncs_den ctx crit m.funcs.length hl (m.funcs.map (·.id))
    (inlG m.funcs crit (inlAt m.funcs crit m.funcs.length) ⟨freshF m, [], 0, false, false⟩ [] m.graph).1 m.funcs hnd
    (SigEq.refl _) hnext (fun g hg _ => hg) ht.den hsyn00 (lvlTbl_self m.funcs hnd) m3
    (fun g hg h => absurd (List.mem_map.2 ⟨g, hg, rfl⟩) h)
  have hst : (inlineRun crit m).st = (inlFuncs crit m.funcs.length (inlG m.funcs crit (inlAt m.funcs crit m.funcs.length)
      ⟨freshF m, [], 0, false, false⟩ [] m.graph).1 m.funcs (m.funcs.map (·.id))).1 := by simp only [inlineRun]
  have htbl : (inlineRun crit m).tbl = (inlFuncs crit m.funcs.length (inlG m.funcs crit (inlAt m.funcs crit m.funcs.length)
      ⟨freshF m, [], 0, false, false⟩ [] m.graph).1 m.funcs (m.funcs.map (·.id))).2 := by simp only [inlineRun]
  have hgraph : (inlineRun crit m).model.graph =
      (inlG m.funcs crit (inlAt m.funcs crit m.funcs.length) ⟨freshF m, [], 0, false, false⟩ [] m.graph).2 := by
    simp only [inlineRun]
  have hfuncs : (inlineRun crit m).model.funcs =
      (inlineRun crit m).tbl.filter (fun f => !(inlineRun crit m).st.inlined.contains f.id) := by
    simp only [inlineRun]
  rw [← hst] at r4 r5 r6
  rw [← htbl] at r2 r3 r6
  -- an operator that is not an accepted call is not a function or was not inlined
  have hok : ∀ op, notAcc m.funcs crit op = true →
      ((findFunc m.funcs op).isNone || !(inlineRun crit m).st.inlined.contains op) = true := by
    intro op h
    simp only [notAcc, Bool.not_eq_true', Bool.and_eq_false_iff] at h
    simp only [Bool.or_eq_true, Bool.not_eq_true', Option.isNone_iff_eq_none]
    rcases h with h | h
    · right
      cases hc : (inlineRun crit m).st.inlined.contains op with
      | false => rfl
      | true => rw [r5 op (by simpa using hc)] at h; cases h
    · left
      cases hf : findFunc m.funcs op with
      | none => rfl
      | some f => rw [hf] at h; cases h
  have hdang : noDangling m.funcs (inlineRun crit m) = true := by
    simp only [noDangling, Bool.and_eq_true, List.all_eq_true]
    refine ⟨?_, fun g hg => ?_⟩
    · rw [hgraph]; exact opsAllG_mono hok _ m2
    · rw [hfuncs] at hg
      obtain ⟨hgm, hk⟩ := List.mem_filter.1 hg
      rcases r6 g hgm with h | h
      · simp only [Bool.not_eq_true', List.contains_eq_mem, decide_eq_false_iff_not] at hk
        exact absurd h hk
      · exact opsAllNodes_mono hok _ h
  have hids : (inlineRun crit m).tbl.map (·.id) = m.funcs.map (·.id) := by
    simp only [inlineRun]; exact inlFuncs_ids _ _ _ _ _
  have hsynfin : synOK m.funcs (inlineRun crit m).tbl = true := by
    simp only [synOK, Bool.and_eq_true, List.all_eq_true]
    intro g hg
    obtain ⟨⟨a, b, c⟩, d⟩ := r2 g hg
    exact ⟨⟨⟨a, b⟩, d⟩, c⟩
  have hdepth : depthOK m.funcs.length (inlineRun crit m).model.funcs = true := by
    simp only [depthOK, List.all_eq_true]
    intro g hg
    have hg' := hg
    rw [hfuncs] at hg'
    obtain ⟨hgm, hk⟩ := List.mem_filter.1 hg'
    have hgid : g.id ∈ m.funcs.map (·.id) := hids ▸ List.mem_map.2 ⟨g, hgm, rfl⟩
    obtain ⟨g0, hg0, hg0id⟩ := List.mem_map.1 hgid
    refine lvl_result m.funcs (inlineRun crit m).model.funcs
      (fun op => (findFunc m.funcs op).isNone || !(inlineRun crit m).st.inlined.contains op)
      (fun op hn => ?_) (fun op g' hf' => ?_) m.funcs.length g.id (hg0id ▸ hl g0 hg0) ?_
    · rw [hfuncs]
      exact findFunc_filter_none _ _ (findFunc_none_of_ids hids hn)
    · obtain ⟨hm', hid'⟩ := findFunc_some hf'
      have hm'' := hm'
      rw [hfuncs] at hm''
      obtain ⟨hgm', hk'⟩ := List.mem_filter.1 hm''
      refine ⟨fun j hj => r3 g' hgm' j (hid' ▸ hj), ?_⟩
      rcases r6 g' hgm' with h | h
      · simp only [Bool.not_eq_true', List.contains_eq_mem, decide_eq_false_iff_not] at hk'
        exact absurd h hk'
      · exact opsAllNodes_mono hok _ h
    · simp only [Bool.or_eq_true]
      exact Or.inr hk
  have hrun : runOK crit m = true := by
    simp only [runOK, Bool.and_eq_true, Bool.not_eq_true', Bool.or_eq_true]
    refine ⟨⟨⟨⟨⟨?_, hr⟩, hdang⟩, ?_⟩, Or.inr hsynfin⟩, Or.inr hdepth⟩
    · rw [r4]; exact m1
    · simp only [noAccepted]
      rw [hgraph]
      exact m2
  exact ⟨hrun, by unfold inlineModel; rw [if_pos hrun]⟩

/-- non-vacuity of `C05_inline_total`: the run of the valid nested model below does not raise ... -/
example : (inlineRun (fun _ => true) ⟨.mk [0] [2, 3] [] [.mk ⟨"l", "F", ""⟩ [] [some 0] [2, 3] []],
    [⟨⟨"l", "F", ""⟩, [], [10], [11, 12], [.mk ⟨"l", "G", ""⟩ [] [some 10] [11, 12] []], []⟩,
     ⟨⟨"l", "G", ""⟩, [], [20], [21, 20], [.mk ⟨"", "Neg", ""⟩ [] [some 20] [21] []], []⟩], []⟩).st.raised = false := by
  decide

/-- ... and `raised` is not vacuous: G returns its second input, F calls G without it (a valid model: the real pass
    raises on it, the model of the pass predicts that and answers with the unchanged model) -/
example : (validF ⟨.mk [0] [2] [] [.mk ⟨"l", "G", ""⟩ [] [some 0] [2, 3] []],
    [⟨⟨"l", "G", ""⟩, [], [20, 22], [21, 22], [.mk ⟨"", "Neg", ""⟩ [] [some 20] [21] []], []⟩], []⟩ &&
    (inlineRun (fun _ => true) ⟨.mk [0] [2] [] [.mk ⟨"l", "G", ""⟩ [] [some 0] [2, 3] []],
    [⟨⟨"l", "G", ""⟩, [], [20, 22], [21, 22], [.mk ⟨"", "Neg", ""⟩ [] [some 20] [21] []], []⟩], []⟩).st.raised) = true := by
  decide

/-- ... also for the second cause (wave 5): the call uses one of the two outputs of G; the model is valid (`callOK`
    admits fewer outputs), the real pass raises ValueError in `replace_all_uses_with`, the run of the model is `raised` -/
example : (validF ⟨.mk [0] [2] [] [.mk ⟨"l", "G", ""⟩ [] [some 0] [2] []],
    [⟨⟨"l", "G", ""⟩, [], [20], [21, 22], [.mk ⟨"", "Neg", ""⟩ [] [some 20] [21] [], .mk ⟨"", "Abs", ""⟩ [] [some 20] [22] []], []⟩], []⟩ &&
    (inlineRun (fun _ => true) ⟨.mk [0] [2] [] [.mk ⟨"l", "G", ""⟩ [] [some 0] [2] []],
    [⟨⟨"l", "G", ""⟩, [], [20], [21, 22], [.mk ⟨"", "Neg", ""⟩ [] [some 20] [21] [], .mk ⟨"", "Abs", ""⟩ [] [some 20] [22] []], []⟩], []⟩).st.raised) = true := by
  decide

/-- non-vacuity of `C05_inline`: the criterion keeps F and accepts G; F (kept) calls G, the main graph calls F and G.
    The run has a result (`runOK`), G is inlined into the main graph and into the body of F and deleted, the call to
    F stays -/
example : (validF ⟨.mk [0] [2] [] [.mk ⟨"l", "F", ""⟩ [] [some 0] [1] [], .mk ⟨"l", "G", ""⟩ [] [some 1] [2] []],
    [⟨⟨"l", "F", ""⟩, [], [10], [11], [.mk ⟨"l", "G", ""⟩ [] [some 10] [11] []], []⟩,
     ⟨⟨"l", "G", ""⟩, [], [20], [21], [.mk ⟨"", "Neg", ""⟩ [] [some 20] [21] []], []⟩], []⟩ &&
    runOK (fun op => op.name == "G") ⟨.mk [0] [2] [] [.mk ⟨"l", "F", ""⟩ [] [some 0] [1] [], .mk ⟨"l", "G", ""⟩ [] [some 1] [2] []],
    [⟨⟨"l", "F", ""⟩, [], [10], [11], [.mk ⟨"l", "G", ""⟩ [] [some 10] [11] []], []⟩,
     ⟨⟨"l", "G", ""⟩, [], [20], [21], [.mk ⟨"", "Neg", ""⟩ [] [some 20] [21] []], []⟩], []⟩) = true := by decide

example : ((inlineModel (fun op => op.name == "G") ⟨.mk [0] [2] [] [.mk ⟨"l", "F", ""⟩ [] [some 0] [1] [], .mk ⟨"l", "G", ""⟩ [] [some 1] [2] []],
    [⟨⟨"l", "F", ""⟩, [], [10], [11], [.mk ⟨"l", "G", ""⟩ [] [some 10] [11] []], []⟩,
     ⟨⟨"l", "G", ""⟩, [], [20], [21], [.mk ⟨"", "Neg", ""⟩ [] [some 20] [21] []], []⟩], []⟩).funcs.map
      (fun f => (f.id.name, f.nodes.map (·.op.name)))) = [("F", ["Neg"])] := by decide

/-- non-vacuity of `C05_inline_partial`: a valid model with a call whose function has an attribute parameter
    with a default, a reference attribute and an input the call does not supply; the pass replaces the call -/
example : validF ⟨.mk [0] [2] [] [.mk ⟨"local", "F", ""⟩ [] [some 0] [2] []],
    [⟨⟨"local", "F", ""⟩, [("alpha", some (.float 1056964608))], [10, 12], [11],
      [.mk ⟨"", "Selu", ""⟩ [("alpha", .ref "alpha")] [some 10] [11] []], [""]⟩], ["", "local"]⟩ = true := by
  decide

example : flatFuncs ⟨.mk [0] [2] [] [.mk ⟨"local", "F", ""⟩ [] [some 0] [2] []],
    [⟨⟨"local", "F", ""⟩, [("alpha", some (.float 1056964608))], [10, 12], [11],
      [.mk ⟨"", "Selu", ""⟩ [("alpha", .ref "alpha")] [some 10] [11] []], [""]⟩], ["", "local"]⟩ = true := by
  decide

/-- non-vacuity of `C05_inline_nested_partial` and of the D300 repair: F calls G, G returns its own input next to
    a computed value; the model is valid, the run has a result (`runOK`), both calls are inlined (no function is
    left) and the returned input reaches the graph output through an Identity node -/
example : validF ⟨.mk [0] [2, 3] [] [.mk ⟨"l", "F", ""⟩ [] [some 0] [2, 3] []],
    [⟨⟨"l", "F", ""⟩, [], [10], [11, 12], [.mk ⟨"l", "G", ""⟩ [] [some 10] [11, 12] []], []⟩,
     ⟨⟨"l", "G", ""⟩, [], [20], [21, 20], [.mk ⟨"", "Neg", ""⟩ [] [some 20] [21] []], []⟩], []⟩ = true := by
  decide

example : (inlineModel (fun _ => true) ⟨.mk [0] [2, 3] [] [.mk ⟨"l", "F", ""⟩ [] [some 0] [2, 3] []],
    [⟨⟨"l", "F", ""⟩, [], [10], [11, 12], [.mk ⟨"l", "G", ""⟩ [] [some 10] [11, 12] []], []⟩,
     ⟨⟨"l", "G", ""⟩, [], [20], [21, 20], [.mk ⟨"", "Neg", ""⟩ [] [some 20] [21] []], []⟩], []⟩).graph.nodes.map (·.op.name)
    = ["Neg", "Identity"] := by decide


/-- at every depth from the number of functions on a model whose call trees are that shallow denotes what it
    denotes at its canonical depth (`C05_call_depth` without the other conjuncts of `validF`) -/
theorem denoteAt_of_depthOK (m : FModel) (hl : depthOK m.funcs.length m.funcs = true) {Val : Type} (I : Interp Val)
    (d : Nat) (hd : m.funcs.length ≤ d) (xs : List Val) : denoteAt d I m xs = denoteF I m xs := by
  simp only [depthOK, List.all_eq_true] at hl
  simp only [denoteF, denoteAt]
  have hall : ∀ (g : FGraph), opsAllG (lvl m.funcs m.funcs.length) g = true := by
    intro g
    refine opsAllG_mono (p := fun _ => true) (fun op _ => ?_) g ?_
    · cases hf : findFunc m.funcs op with
      | none => exact lvl_mono_le m.funcs (Nat.zero_le _) op (by simp [lvl, hf])
      | some f => obtain ⟨hm, hid⟩ := findFunc_some hf; exact hid ▸ hl f hm
    · exact opsAllG_true g
  exact congrFun (evalGF_congrΦ I _ _ (lvl m.funcs m.funcs.length)
    (fun op hop => fenv_stable I m.funcs _ op hop d hd) [] m.graph Env.empty (hall m.graph)) xs

/-- **C05_inline_canonical** — `C05_inline` at the canonical depth of BOTH models: the call trees of the functions that
    InlinePass leaves are not deeper than the number of functions that are left (they are not deeper than the number of
    functions before, `C05_inline_total`; a call tree over `n` functions without recursion has depth at most `n`,
    `lvl_le_length`: a chain of calls of strictly decreasing depth consists of distinct functions), the result has
    at most as many functions as the model, so `denoteF` of the result - unrolling to ITS number of functions - is
    its denotation at the depth of the model before, and that is `denoteF` of the model before. -/
theorem C05_inline_canonical (crit : OpId → Bool) (m : FModel) (hv : validF m = true) :
    depthOK (inlineModel crit m).funcs.length (inlineModel crit m).funcs = true ∧
    (inlineModel crit m).funcs.length ≤ m.funcs.length ∧
    ∀ (Val : Type) (I : Interp Val) (xs : List Val), denoteF I (inlineModel crit m) xs = denoteF I m xs := by
  have hv' := hv
  simp only [validF, Bool.and_eq_true, List.all_eq_true, decide_eq_true_eq, Option.isNone_iff_eq_none] at hv'
  obtain ⟨⟨⟨⟨⟨⟨_, _⟩, _⟩, hl⟩, _⟩, _⟩, _⟩ := hv'
  have hdepth0 : depthOK m.funcs.length m.funcs = true := by
    simp only [depthOK, List.all_eq_true]; exact hl
  by_cases hfall : runOK crit m = true
  · have hm : inlineModel crit m = (inlineRun crit m).model := by unfold inlineModel; rw [if_pos hfall]
    have hfall' := hfall
    simp only [runOK, Bool.and_eq_true] at hfall'
    have hdepth := hfall'.2
    simp only [hdepth0, Bool.not_true, Bool.false_or] at hdepth
    have hcan := depthOK_canonical _ _ hdepth
    have hlen : (inlineRun crit m).model.funcs.length ≤ m.funcs.length := by
      have hids : (inlineRun crit m).tbl.map (·.id) = m.funcs.map (·.id) := by
        simp only [inlineRun]; exact inlFuncs_ids _ _ _ _ _
      have h1 : (inlineRun crit m).model.funcs.length ≤ (inlineRun crit m).tbl.length := by
        simp only [inlineRun]; exact List.length_filter_le _ _
      have h2 : (inlineRun crit m).tbl.length = m.funcs.length := by
        have := congrArg List.length hids
        simpa using this
      omega
    rw [hm]
    refine ⟨hcan, hlen, fun Val I xs => ?_⟩
    rw [← denoteAt_of_depthOK _ hcan I m.funcs.length hlen xs, ← hm]
    exact (C05_inline crit m hv).1 Val I m.funcs.length (Nat.le_refl _) xs
  · have hm : inlineModel crit m = m := by unfold inlineModel; rw [if_neg hfall]
    rw [hm]
    exact ⟨hdepth0, Nat.le_refl _, fun _ _ _ => rfl⟩

/-- non-vacuity of `C05_inline_canonical`: the model before has two functions (canonical depth 2), the result has one
    (canonical depth 1): the two `denoteF` unroll to different depths -/
example : (inlineModel (fun op => op.name == "G") ⟨.mk [0] [2] [] [.mk ⟨"l", "F", ""⟩ [] [some 0] [1] [], .mk ⟨"l", "G", ""⟩ [] [some 1] [2] []],
    [⟨⟨"l", "F", ""⟩, [], [10], [11], [.mk ⟨"l", "G", ""⟩ [] [some 10] [11] []], []⟩,
     ⟨⟨"l", "G", ""⟩, [], [20], [21], [.mk ⟨"", "Neg", ""⟩ [] [some 20] [21] []], []⟩], []⟩).funcs.length = 1 := by decide


/-- a function reachable from the main graph or from a reachable function -/
inductive Reach (m : FModel) : OpId → Prop where
  | main {op : OpId} : op ∈ opsG m.graph → (findFunc m.funcs op).isSome = true → Reach m op
  | step {g op : OpId} {f : Func} : Reach m g → findFunc m.funcs g = some f → op ∈ opsNodes f.nodes →
      (findFunc m.funcs op).isSome = true → Reach m op

/-- **C05_unused_functions** — RemoveUnusedFunctionsPass: at every unrolling depth the model denotes the same
    outputs (for every operator interpretation and input), the main graph is unchanged, and every function
    reachable from the main graph or from a reachable function is kept.  No validity assumption. -/
theorem C05_unused_functions (m : FModel) :
    (∀ (Val : Type) (I : Interp Val) (d : Nat) (xs : List Val), denoteAt d I (rufModel m) xs = denoteAt d I m xs) ∧
    (rufModel m).graph = m.graph ∧
    (∀ f ∈ m.funcs, Reach m f.id → f ∈ (rufModel m).funcs) := by
  by_cases hc : closedUsed m.funcs (usedFuncs m) = true
  · have hm : rufModel m = { m with funcs := m.funcs.filter (fun f => (usedFuncs m).contains f.id) } := by
      unfold rufModel; rw [if_pos hc]
    simp only [closedUsed, List.all_eq_true, Bool.or_eq_true, Bool.not_eq_true', callees, List.mem_filter,
      and_imp] at hc
    have hmain : ∀ op ∈ opsG m.graph, (findFunc m.funcs op).isSome = true → (usedFuncs m).contains op = true := by
      intro op hop hs
      simp only [usedFuncs, List.contains_eq_mem, decide_eq_true_eq]
      exact reachIter_subset _ _ _ _ (by simp [callees, hop, hs])
    have hcl : ∀ op f, findFunc m.funcs op = some f → (usedFuncs m).contains op = true →
        opsAllNodes (fun o => (usedFuncs m).contains o || (findFunc m.funcs o).isNone) f.nodes = true := by
      intro op f hf hk
      obtain ⟨hmem, hid⟩ := findFunc_some hf
      rw [opsAllNodes_iff]
      intro o ho
      rcases hc f hmem with h | h
      · rw [hid, hk] at h; cases h
      · cases hs : findFunc m.funcs o with
        | none => simp
        | some f' =>
          have := h o ho (by simp [hs])
          simp only [Bool.or_eq_true]; exact Or.inl this
    rw [hm]
    refine ⟨fun Val I d xs => ?_, rfl, fun f hf hr => ?_⟩
    · simp only [denoteAt]
      refine congrFun (evalGF_congrΦ I _ _ (fun o => (usedFuncs m).contains o || (findFunc m.funcs o).isNone)
        (fun op hop => ?_) [] m.graph Env.empty ?_) xs
      · refine fenv_filter_closed I m.funcs _ hcl d op ?_
        simp only [Bool.or_eq_true, Option.isNone_iff_eq_none] at hop
        exact hop
      · rw [opsAllG_iff]
        intro o ho
        cases hs : findFunc m.funcs o with
        | none => simp
        | some f' =>
          have := hmain o ho (by simp [hs])
          simp only [Bool.or_eq_true]; exact Or.inl this
    · simp only [List.mem_filter]
      refine ⟨hf, ?_⟩
      have : ∀ op, Reach m op → (usedFuncs m).contains op = true := by
        intro op hr
        induction hr with
        | main ho hs => exact hmain _ ho hs
        | step _ hg ho hs ih =>
          obtain ⟨hmem, hid⟩ := findFunc_some hg
          rcases hc _ hmem with h | h
          · rw [hid, ih] at h; cases h
          · exact h _ ho hs
      exact this f.id hr
  · have hm : rufModel m = m := by unfold rufModel; rw [if_neg hc]
    rw [hm]
    exact ⟨fun _ _ _ _ => rfl, rfl, fun f hf _ => hf⟩

/-- **C05_unused_opsets** — RemoveUnusedOpsetsPass (either setting of `process_functions`): the denotation at
    every unrolling depth, the main graph and the function bodies are unchanged (only opset imports are
    touched), and the model keeps every imported domain that is the default domain, the domain of a function
    or the domain of a node of the main graph (at any depth). -/
theorem C05_unused_opsets (pf : Bool) (m : FModel) :
    (∀ (Val : Type) (I : Interp Val) (d : Nat) (xs : List Val), denoteAt d I (ruoModel pf m) xs = denoteAt d I m xs) ∧
    (ruoModel pf m).graph = m.graph ∧
    (∀ dm ∈ m.domains, (dm = "" ∨ dm ∈ domsG m.graph ∨ ∃ f ∈ m.funcs, f.id.domain = dm) →
      dm ∈ (ruoModel pf m).domains) := by
  refine ⟨fun Val I d xs => ?_, rfl, fun dm hdm h => ?_⟩
  · simp only [denoteAt, ruoModel]
    cases pf with
    | false => rfl
    | true => simp only [if_true, fenv_map_domains]
  · simp only [ruoModel, List.mem_filter, List.contains_eq_mem, decide_eq_true_eq, List.mem_cons, List.mem_append,
      List.mem_map]
    refine ⟨hdm, ?_⟩
    rcases h with h | h | ⟨f, hf, h⟩
    · exact Or.inl (Or.inl h)
    · exact Or.inr h
    · exact Or.inl (Or.inr ⟨f, hf, h⟩)

/-- non-vacuity: the unused function G is removed, F (called) and H (called by F) are kept -/
example : ((rufModel ⟨.mk [0] [1] [] [.mk ⟨"l", "F", ""⟩ [] [some 0] [1] []],
    [⟨⟨"l", "F", ""⟩, [], [10], [11], [.mk ⟨"l", "H", ""⟩ [] [some 10] [11] []], []⟩,
     ⟨⟨"l", "G", ""⟩, [], [20], [21], [.mk ⟨"", "Neg", ""⟩ [] [some 20] [21] []], []⟩,
     ⟨⟨"l", "H", ""⟩, [], [30], [31], [.mk ⟨"", "Abs", ""⟩ [] [some 30] [31] []], []⟩], []⟩).funcs.map (·.id.name))
    = ["F", "H"] := by decide

/-- **C05_coherent** — the two groups of theorems speak about one semantics.  On a model of the function-call IR
    whose main graph calls no model-local function, has no reference attribute and whose Identity nodes have one
    input (`pureMain`, evaluated by the driver on every generated model), the function-aware denotation at EVERY
    unrolling depth (so also `denoteF`) under an interpretation `I` is the denotation of Model/Sem.lean (`denote`,
    the semantics of `C05_dce` ... `C05_compose`) of the erased model under `trimI I`, the interpretation that
    ignores trailing absent arguments.  The pass theorems hold for every interpretation, in particular for
    `trimI I`; so they speak about `denoteF` of function-free models. -/
theorem C05_coherent (m : FModel) (h : pureMain m = true) {Val : Type} (I : Interp Val) (d : Nat) (xs : List Val) :
    denoteAt d I m xs = denote (trimI I) (eraseModel m) xs := by
  simp only [pureMain, Bool.and_eq_true] at h
  simp only [denoteAt, denote, eraseModel]
  refine congrFun (evalGF_pure I _ [] m.graph Env.empty ?_ h.1.2 h.2) xs
  refine opsAllG_mono (fun op hop => ?_) m.graph h.1.1
  simp only [Option.isNone_iff_eq_none] at hop ⊢
  exact fenv_none I m.funcs d hop

/-- **C05_coherent_lift** — every model `m` of the pass IR (Model/Sem.lean) whose Identity nodes have one input,
    read as a model without functions of the function-call IR (`liftModel`), has the denotation `denoteF I` =
    `denote (trimI I) m`; and for an interpretation that ignores trailing absent arguments (ONNX: an omitted
    trailing optional input and an empty one are the same) the two denotations are EQUAL: `denoteF I = denote I`. -/
theorem C05_coherent_lift (m : Model) (h : identOKG (liftG m.graph) = true) {Val : Type} (I : Interp Val) (xs : List Val) :
    denoteF I (liftModel m) xs = denote (trimI I) m xs ∧
    ((∀ op a b args t, I.sem op a b (trimV args) t = I.sem op a b args t) →
      denoteF I (liftModel m) xs = denote I m xs) := by
  have hp : pureMain (liftModel m) = true := by
    simp only [pureMain, liftModel, Bool.and_eq_true]
    refine ⟨⟨?_, noRefs_liftG m.graph⟩, h⟩
    exact opsAllG_mono (fun op _ => by simp [findFunc]) _ (opsAllG_true _)
  have h1 : denoteF I (liftModel m) xs = denote (trimI I) m xs := by
    have := C05_coherent (liftModel m) hp I (liftModel m).funcs.length xs
    simp only [denoteF]
    rw [this]
    simp only [denote, eraseModel, liftModel, erase_liftG]
  refine ⟨h1, fun hI => ?_⟩
  rw [h1]
  have : trimI I = I := by
    cases I with
    | mk sem tv =>
      simp only [trimI, Interp.mk.injEq, and_true]
      funext op a b args t
      exact hI op a b args t
  rw [this]

/-- non-vacuity of `C05_coherent`: a model with a function that the main graph does not call -/
example : pureMain ⟨.mk [0] [1] [] [.mk ⟨"", "Identity", ""⟩ [] [some 0] [1] []],
    [⟨⟨"l", "G", ""⟩, [], [20], [21], [.mk ⟨"", "Neg", ""⟩ [] [some 20] [21] []], []⟩], []⟩ = true := by decide

/-! ## AddDefaultAttributesPass (Model/AddDefaults.lean) -/

/-- **C05_add_defaults** — AddDefaultAttributesPass, with ONNX's schema tables as a parameter `T` (domain, operator
    type, opset version ↦ attribute declarations with `required` flag and default), the versions of the main graph's
    opset imports and the per-node versions (`ir.Node.version`): the pass adds to every node - of the main graph, of
    subgraphs at any depth and of every function body - the defaults of the schema it looks up for the node
    (`node.version`, else the MAIN graph's import of the node's domain, else nothing) that are not required, have a
    valid default and are absent from the node.
    ASSUMPTION `DefaultRespecting I T imports nver m`: the operator interpretation is default-respecting for that
    table on this model - at every node that is not a call of a model-local function, for every default `(k, d)` the
    looked-up schema declares, `I` gives the same results with and without `(k, d)` whenever `k` is absent
    (`RespectsDefault`; ONNX: an absent optional attribute means its default) - and a node that calls a
    model-local function gets no new attribute (decidable: `callsUntouched`, evaluated on every generated case).
    Then for every unrolling depth and every input the model after the pass denotes the same outputs (also at its
    canonical depth, `denoteF`), and the main graph keeps its inputs, outputs and initializers and the model its
    functions' identifiers, signatures and opset domains.  No validity assumption.
    `respectsDefault_of_sem` derives `RespectsDefault` from the same statement about `I.sem` for every operator
    other than Constant.  The ReferenceEvaluator oracle of the harness checks the instances of the assumption
    (outputs before = outputs after on the generated models); the table handed to the driver is dumped from
    `onnx.defs` for every operator, domain and version that occurs in the generated case. -/
theorem C05_add_defaults (T : SchemaTable) (imports : List (String × Nat)) (nver : FNode → Option Nat) (m : FModel)
    {Val : Type} (I : Interp Val) (hI : DefaultRespecting I T imports nver m) :
    (∀ (d : Nat) (xs : List Val), denoteAt d I (addDefaultsModel T imports nver m) xs = denoteAt d I m xs) ∧
    (∀ xs : List Val, denoteF I (addDefaultsModel T imports nver m) xs = denoteF I m xs) ∧
    (addDefaultsModel T imports nver m).graph.outputs = m.graph.outputs ∧
    (addDefaultsModel T imports nver m).graph.inputs = m.graph.inputs ∧
    (addDefaultsModel T imports nver m).graph.inits = m.graph.inits ∧
    (addDefaultsModel T imports nver m).funcs.map (fun f => (f.id, f.params, f.inputs, f.outputs, f.domains)) =
      m.funcs.map (fun f => (f.id, f.params, f.inputs, f.outputs, f.domains)) := by
  obtain ⟨hg, hf⟩ := hI
  have hat : ∀ (d : Nat) (xs : List Val), denoteAt d I (addDefaultsModel T imports nver m) xs = denoteAt d I m xs := by
    intro d xs
    simp only [denoteAt, addDefaultsModel]
    rw [fenv_addDef I m.funcs _ hf d,
      evalGF_addDef I (fenv I m.funcs d) m.funcs _ (fenv_isSome I m.funcs d) [] m.graph Env.empty hg]
  refine ⟨hat, fun xs => ?_, ?_, ?_, ?_, ?_⟩
  · have := hat m.funcs.length xs
    simpa only [denoteF, addDefaultsModel, List.length_map] using this
  · cases hgr : m.graph with
    | mk i o t n => simp [addDefaultsModel, hgr, addDefG, FGraph.outputs]
  · cases hgr : m.graph with
    | mk i o t n => simp [addDefaultsModel, hgr, addDefG, FGraph.inputs]
  · cases hgr : m.graph with
    | mk i o t n => simp [addDefaultsModel, hgr, addDefG, FGraph.inits]
  · simp [addDefaultsModel, addDefFunc, List.map_map, Function.comp_def]

/-- non-vacuity: the table declares `alpha` (default 0.5... as bits) for Selu at version 18 and a required attribute;
    the node has no `alpha`: the pass adds it, to the node in the main graph and to the one in the function body -/
example : ((addDefaultsModel (fun d t v => if d == "" && t == "Selu" && v == 18 then
      some [⟨"alpha", false, some (.float 1056964608)⟩, ⟨"gamma", true, some (.float 0)⟩, ⟨"beta", false, none⟩] else none)
    [("", 18)] (fun _ => none)
    ⟨.mk [0] [2] [] [.mk ⟨"", "Selu", ""⟩ [] [some 0] [1] [], .mk ⟨"l", "F", ""⟩ [] [some 1] [2] []],
     [⟨⟨"l", "F", ""⟩, [], [10], [11], [.mk ⟨"", "Selu", ""⟩ [("alpha", .ref "a")] [some 10] [11] []], []⟩], []⟩).graph.nodes.map
      (fun n => n.attrs.map Prod.fst)) = [["alpha"], []] := by decide

/-- the assumption is satisfiable by an interpretation that looks at attributes: `sem` reads the attribute list after
    filling in the default, so it cannot tell an absent `alpha` from the default one -/
example : RespectsDefault (Val := Nat)
    ⟨fun _ attrs _ _ _ => [match (attrs ++ [("alpha", AttrData.float 5)]).lookup "alpha" with
      | some (.float b) => b | _ => 0], fun _ => 0⟩ ⟨"", "Selu", ""⟩ "alpha" (.float 5) := by
  refine respectsDefault_of_sem _ _ _ _ (by decide) (fun attrs bodies args t hk => ?_)
  have hnone : attrs.lookup "alpha" = none := by
    rw [List.lookup_eq_none_iff]
    intro p hp
    simp only [bne_iff_ne, ne_eq]
    intro hpe
    exact hk (List.mem_map.2 ⟨p, hp, hpe.symm⟩)
  simp [List.lookup_append, hnone]

/-- ... and it is a real restriction: an interpretation that counts attributes does not respect any default -/
example : ¬ RespectsDefault (Val := Nat) ⟨fun _ attrs _ _ _ => [attrs.length], fun _ => 0⟩ ⟨"", "Selu", ""⟩ "alpha" (.float 5) := by
  intro h
  have := h [] [1] [] [] (by simp)
  simp [nodeResultsF, nodeResults, isIdentityOp, constOf, isConstantOp, isStochasticOp] at this

end IrVerif.Inline

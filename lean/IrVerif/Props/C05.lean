/-
C05 — every built-in pass, alone or composed, preserves what the model computes.
Property theorems only; the developments are in Lemmas/Sem*.lean.

`Valid m` (= `validModel m = true`, evaluated by the driver on every generated model):
value ids are bound once in the whole nest (SSA; they are object identities in Python) and every
graph's outputs are bound at the top level of that graph.
All theorems hold for EVERY operator interpretation `I` (any `sem`, any `tv`) and every input list.
-/
import IrVerif.Lemmas.SemDce
import IrVerif.Lemmas.SemIdentity
import IrVerif.Lemmas.SemCse
import IrVerif.Lemmas.SemInputs
import IrVerif.Lemmas.SemLift
import IrVerif.Lemmas.SemDedup
import IrVerif.Lemmas.SemOutputFix
import IrVerif.Lemmas.SemLsi
import IrVerif.Lemmas.SemPerm
namespace IrVerif.Passes
open IrVerif.Sem
variable {Val : Type}

/-- a pass on models preserves what the model computes, the output list length and the
    non-initializer inputs (count and order); likewise for every model-local function body
    (function bodies are denoted under an arbitrary environment and call sites are interpreted by
    `sem`, which is universally quantified) -/
def Preserves (pass : Model → Model) (m : Model) : Prop :=
  (∀ (Val : Type) (I : Interp Val) (xs : List Val), denote I (pass m) xs = denote I m xs) ∧
  (∀ (Val : Type) (I : Interp Val) (k : Nat) (ρ : Env Val) (xs : List Val),
      denoteFunc I (pass m) k ρ xs = denoteFunc I m k ρ xs) ∧
  (pass m).graph.outputs.length = m.graph.outputs.length ∧
  (pass m).graph.freeInputs = m.graph.freeInputs ∧
  (pass m).funcs.length = m.funcs.length

theorem validG_iff (g : Graph) :
    validG g = true ↔ ssaG g = true ∧ closedG g = true ∧ noFwdG g = true ∧ scopedG [] g = true := by
  simp [validG, and_assoc]

/-- **C05_dce** — RemoveUnusedNodesPass (node removal in every scope, trailing empty inputs,
    unused main-graph initializers, function bodies; without the schema-driven output trimming). -/
theorem C05_dce (m : Model) (hv : validModel m = true) : Preserves dceModel m := by
  obtain ⟨g, fs⟩ := m
  simp only [validModel, Bool.and_eq_true, List.all_eq_true] at hv
  obtain ⟨hg, hfs⟩ := hv
  rw [validG_iff] at hg
  cases g with
  | mk inputs outputs inits nodes =>
  have hsg := hg.1
  simp only [ssaG, Bool.and_eq_true, nodupB_iff, disj_iff] at hsg
  obtain ⟨⟨⟨_, hndi⟩, hdisj⟩, hsn⟩ := hsg
  have hcn : closedNodes nodes = true := by
    have := hg.2.1; simp only [closedG, Bool.and_eq_true] at this; exact this.2
  refine ⟨?_, ?_, ?_, ?_, ?_⟩
  · intro Val I xs
    simp only [denote, dceModel, dceG, Graph.inputs, Graph.outputs, Graph.inits, Graph.nodes]
    rw [evalG_filter_inits I inputs outputs inits _ _ hndi]
    · exact congrFun (dceG_sound I (.mk inputs outputs inits nodes) hg.1 hg.2.1 Env.empty) xs
    · intro q hq hp
      simp only [Bool.or_eq_false_iff, List.contains_eq_mem, decide_eq_false_iff_not,
        List.mem_append, usesG, not_or] at hp
      refine ⟨hp.2, fun hr => ?_⟩
      have hr' := (mem_refsG q.1 _).1 hr
      simp only [usesG, boutsG, List.mem_append] at hr'
      rcases hr' with hr' | hr' | hr'
      · exact hp.1.1.1 hr'
      · exact hp.1.2 hr'
      · have h1 := dceNodes_bouts q.1 _ _ _ hr'
        exact hdisj q.1 (by simp [List.mem_map]; exact Or.inr ⟨q.2, hq⟩)
          (bouts_sub_defsNodes nodes hcn h1)
  · intro Val I k ρ xs
    simp only [denoteFunc, dceModel, List.getElem?_map]
    cases hk : fs[k]? with
    | none => rfl
    | some f =>
      have hf := hfs f (List.mem_of_getElem? hk)
      rw [validG_iff] at hf
      simp only [Option.map_some]
      exact congrFun (dceG_sound I f hf.1 hf.2.1 ρ) xs
  · simp [dceModel, dceG, Graph.outputs]
  · simp only [dceModel, dceG, Graph.freeInputs, Graph.inputs, Graph.inits]
    apply List.filter_congr
    intro v hv
    congr 1
    rw [Bool.eq_iff_iff]
    simp only [List.contains_iff_mem, List.mem_map, List.mem_filter]
    constructor
    · rintro ⟨q, ⟨hq, _⟩, rfl⟩; exact ⟨q, hq, rfl⟩
    · rintro ⟨q, hq, rfl⟩
      exact ⟨q, ⟨hq, by simp [hv]⟩, rfl⟩
  · simp [dceModel]

theorem ieG_outputs_length (ii loc : List VId) : ∀ (ns : List Node) (σ : Subst) (outs : List VId),
    (ieNodes ii loc σ outs ns).outs.length = outs.length
  | [], _, _ => by simp [ieNodes]
  | .mk op attrs ins nouts bodies :: ns, σ, outs => by
    simp only [ieNodes]
    split
    · split
      · exact ieG_outputs_length ii loc ns σ outs
      · rw [ieG_outputs_length ii loc ns _ _, List.length_map]
    · exact ieG_outputs_length ii loc ns σ outs

/-- **C05_identity** — IdentityEliminationPass in every scope (main graph, subgraphs with captured
    values, function bodies), with its keep rule. -/
theorem C05_identity (m : Model) (hv : validModel m = true) : Preserves ieModel m := by
  obtain ⟨g, fs⟩ := m
  simp only [validModel, Bool.and_eq_true, List.all_eq_true] at hv
  obtain ⟨hg, hfs⟩ := hv
  rw [validG_iff] at hg
  have hnil : ∀ D, SubstOK [] D := fun D p hp => by simp at hp
  have hrel : ∀ (Val : Type) (ρ : Env Val), Rel [] ρ ρ := fun _ ρ v => by rw [Subst.app_nil]
  refine ⟨?_, ?_, ?_, ?_, ?_⟩
  · intro Val I xs
    simp only [denote, ieModel]
    exact (congrFun (ieG_sound I _ g [] Env.empty Env.empty (hrel _ _) (hnil _) hg.1 hg.2.1 hg.2.2.1) xs).symm
  · intro Val I k ρ xs
    simp only [denoteFunc, ieModel, List.getElem?_map]
    cases hk : fs[k]? with
    | none => rfl
    | some f =>
      have hf := hfs f (List.mem_of_getElem? hk)
      rw [validG_iff] at hf
      simp only [Option.map_some]
      exact (congrFun (ieG_sound I _ f [] ρ ρ (hrel _ _) (hnil _) hf.1 hf.2.1 hf.2.2.1) xs).symm
  · cases g with
    | mk inputs outputs inits nodes =>
      simp only [ieModel, ieG, Graph.outputs]
      exact ieG_outputs_length _ _ nodes [] outputs
  · cases g with
    | mk inputs outputs inits nodes => simp [ieModel, ieG, Graph.freeInputs, Graph.inputs, Graph.inits]
  · simp [ieModel]

theorem cseFixOuts_length (gins : List VId) (pairs : List (VId × VId)) :
    ∀ (todo : List VId) (rep : List (VId × VId)) (done : List VId),
    (cseFixOuts gins pairs rep done todo).1.length = done.length + todo.length
  | [], _, _ => by simp [cseFixOuts]
  | o :: rest, rep, done => by
    simp only [cseFixOuts]
    split
    · rw [cseFixOuts_length gins pairs rest]; simp; omega
    · split
      · split
        · simp only; rw [cseFixOuts_length gins pairs rest]; simp; omega
        · rw [cseFixOuts_length gins pairs rest]; simp; omega
      · rw [cseFixOuts_length gins pairs rest]; simp; omega

theorem cseNodes_outs_length (limit : Nat) (gins : List VId) :
    ∀ (ns tbl : List Node) (σ : Subst) (outs : List VId),
    (cseNodes limit gins tbl σ outs ns).outs.length = outs.length
  | [], _, _, _ => by simp [cseNodes]
  | .mk op attrs ins nouts bodies :: ns, tbl, σ, outs => by
    simp only [cseNodes]
    split
    · exact cseNodes_outs_length limit gins ns tbl σ outs
    · split
      · simp only
        rw [cseNodes_outs_length limit gins ns, cseFixOuts_length]; simp
      · exact cseNodes_outs_length limit gins ns _ σ outs

theorem cseNodes_keeps_stochastic (limit : Nat) (gins : List VId) :
    ∀ (ns tbl : List Node) (σ : Subst) (outs : List VId) (n : Node), n ∈ ns → isStochasticOp n.op = true →
    ∃ n' ∈ (cseNodes limit gins tbl σ outs ns).nodes, n'.op = n.op ∧ n'.outs = n.outs ∧ n'.attrs = n.attrs
  | [], _, _, _, n, h, _ => by simp at h
  | .mk op attrs ins nouts bodies :: ns, tbl, σ, outs, n, hn, hst => by
    simp only [cseNodes]
    rcases List.mem_cons.1 hn with hn | hn
    · subst hn
      have hskip : cseSkip limit op attrs bodies = true := by
        simp only [Node.op] at hst
        simp only [cseSkip, Bool.or_eq_true]
        right
        simpa [isNonDeterministicOp, isStochasticOp] using hst
      rw [if_pos hskip]
      exact ⟨_, List.mem_cons_self, rfl, rfl, rfl⟩
    · split
      · obtain ⟨n', h1, h2⟩ := cseNodes_keeps_stochastic limit gins ns tbl σ outs n hn hst
        exact ⟨n', List.mem_cons_of_mem _ h1, h2⟩
      · split
        · obtain ⟨n', h1, h2⟩ := cseNodes_keeps_stochastic limit gins ns tbl _ _ n hn hst
          exact ⟨n', List.mem_append_right _ h1, h2⟩
        · obtain ⟨n', h1, h2⟩ := cseNodes_keeps_stochastic limit gins ns _ σ outs n hn hst
          exact ⟨n', List.mem_cons_of_mem _ h1, h2⟩

/-- **C05_cse_skips** — the determinism assumption of `C05_cse` made explicit.  In the semantics every
    operator is a function of (operator, attributes, bodies, arguments) EXCEPT the stochastic operators
    (`isStochasticOp`: RandomUniform, RandomNormal, RandomUniformLike, RandomNormalLike, Multinomial,
    Bernoulli), whose interpretation also receives the node's output ids, so two such nodes may differ on
    equal arguments.  CSE never removes or merges a node of a stochastic operator: every such node of the
    main graph is still there afterwards, with its operator, attributes and outputs.  (`C05_cse` itself
    is proved for this semantics: its proof needs that the skip list covers `isStochasticOp`.) -/
theorem C05_cse_skips (limit : Nat) (m : Model) (n : Node) (hn : n ∈ m.graph.nodes)
    (hst : isStochasticOp n.op = true) :
    ∃ n' ∈ (cseModel limit m).graph.nodes, n'.op = n.op ∧ n'.outs = n.outs ∧ n'.attrs = n.attrs := by
  obtain ⟨g, fs⟩ := m
  cases g with
  | mk inputs outputs inits nodes =>
    simp only [Graph.nodes] at hn
    simp only [cseModel, Graph.nodes]
    exact cseNodes_keeps_stochastic limit inputs nodes [] [] outputs n hn hst

theorem forall2_refl {α : Type} {R : α → α → Prop} (h : ∀ a, R a a) : ∀ l : List α, List.Forall₂ R l l
  | [] => List.Forall₂.nil
  | a :: l => List.Forall₂.cons (h a) (forall2_refl h l)

/-- **C05_cse** — CommonSubexpressionEliminationPass (any size limit): dictionary key = operator id,
    number of outputs, input identities, attribute values (fixed key of D50); control-flow nodes,
    large tensors and random operators are skipped; graph outputs are rewired directly or through a
    new Identity node; uses inside subgraphs are replaced.  Determinism of operators is exactly
    "`sem` is a function". -/
theorem C05_cse (limit : Nat) (m : Model) (hv : validModel m = true) : Preserves (cseModel limit) m := by
  obtain ⟨g, fs⟩ := m
  simp only [validModel, Bool.and_eq_true, List.all_eq_true] at hv
  obtain ⟨hg, _⟩ := hv
  rw [validG_iff] at hg
  cases g with
  | mk inputs outputs inits nodes =>
  obtain ⟨hs, hc, hf, _⟩ := hg
  simp only [ssaG, Bool.and_eq_true] at hs
  simp only [closedG, Bool.and_eq_true] at hc
  simp only [noFwdG] at hf
  refine ⟨?_, ?_, ?_, ?_, ?_⟩
  · intro Val I xs
    simp only [denote, cseModel, evalG]
    symm
    refine cseNodes_sound I limit inputs nodes [] [] outputs outputs _ _
      (fun v _ => by rw [Subst.app_nil]) (fun p hp => by simp at hp) hs.2 hc.2 hf
      (fun n1 h1 => by simp at h1) (forall2_refl (R := OutOK [] _ _) (fun a => Or.inl (Subst.app_nil a).symm) outputs)
  · intro Val I k ρ xs
    simp [denoteFunc, cseModel]
  · simp only [cseModel, Graph.outputs]
    exact cseNodes_outs_length limit inputs nodes [] [] outputs
  · simp [cseModel, Graph.freeInputs, Graph.inputs, Graph.inits]
  · simp [cseModel]

theorem preserves_mapInputs (f : List VId → List VId → List VId) (hf : KeepsFree f) (m : Model) :
    Preserves (fun m => { graph := mapInputsTop f m.graph, funcs := m.funcs }) m := by
  obtain ⟨g, fs⟩ := m
  refine ⟨?_, ?_, ?_, ?_, ?_⟩
  · intro Val I xs
    simp only [denote]
    exact congrFun (mapInputsTop_sound I f hf g Env.empty) xs
  · intro Val I k ρ xs; rfl
  · cases g with
    | mk inputs outputs inits nodes => simp [mapInputsTop, Graph.outputs]
  · cases g with
    | mk inputs outputs inits nodes =>
      simp only [mapInputsTop, Graph.freeInputs, Graph.inputs, Graph.inits]
      exact hf inputs (inits.map Prod.fst)
  · rfl

/-- **C05_rm_init_inputs** — RemoveInitializersFromInputsPass (main graph). -/
theorem C05_rm_init_inputs (m : Model) : Preserves rmInitInputsModel m :=
  preserves_mapInputs removeInitsFromInputs keepsFree_remove m

/-- **C05_add_init_inputs** — AddInitializersToInputsPass (main graph): the
    initializer-backed inputs it appends are not inputs a caller has to supply. -/
theorem C05_add_init_inputs (m : Model) : Preserves addInitInputsModel m :=
  preserves_mapInputs addInitsToInputs keepsFree_add m

/-- **C05_lift_const** — LiftConstantsToInitializersPass (any `lift_all_constants`, any `size_limit`):
    Constant nodes of every attribute form in the main graph and in subgraphs become initializers of
    the graph they are in; the tensor is `constTensor`, the meaning the semantics fixes for Constant. -/
theorem C05_lift_const (liftAll : Bool) (limit : Nat) (m : Model) (hv : validModel m = true) :
    Preserves (liftConstModel liftAll limit) m := by
  obtain ⟨g, fs⟩ := m
  simp only [validModel, Bool.and_eq_true, List.all_eq_true] at hv
  obtain ⟨hg, _⟩ := hv
  rw [validG_iff] at hg
  refine ⟨?_, ?_, ?_, ?_, ?_⟩
  · intro Val I xs
    simp only [denote, liftConstModel]
    exact congrFun (liftG_sound I liftAll limit g hg.1 hg.2.2.1 Env.empty) xs
  · intro Val I k ρ xs; rfl
  · cases g with
    | mk inputs outputs inits nodes => simp [liftConstModel, liftG, Graph.outputs]
  · cases g with
    | mk inputs outputs inits nodes =>
      have hs := hg.1
      simp only [ssaG, Bool.and_eq_true, disj_iff] at hs
      simp only [liftConstModel, liftG, Graph.freeInputs, Graph.inputs, Graph.inits]
      apply List.filter_congr
      intro v hv
      congr 1
      rw [Bool.eq_iff_iff]
      simp only [List.map_append, List.contains_iff_mem, List.mem_append]
      constructor
      · rintro (h | h)
        · exact h
        · exact absurd (outsTop_sub_defsNodes nodes (liftNodes_ids_sub liftAll limit outputs v nodes h))
            (hs.1.2 v (by simp [hv]))
      · exact Or.inl
  · rfl

/-- **C05_dedup** — DeduplicateInitializersPass / DeduplicateHashedInitializersPass (any size limit; main
    graph and subgraphs, uses inside subgraphs replaced; initializers that are graph inputs or outputs are
    left alone).  The key (dtype, shape, bytes / strings) is the tensor (fixed key of D37). -/
theorem C05_dedup (limit : Nat) (m : Model) (hv : validModel m = true) : Preserves (dedupModel limit) m := by
  obtain ⟨g, fs⟩ := m
  simp only [validModel, Bool.and_eq_true, List.all_eq_true] at hv
  obtain ⟨hg, _⟩ := hv
  rw [validG_iff] at hg
  refine ⟨?_, ?_, ?_, ?_, ?_⟩
  · intro Val I xs
    simp only [denote, dedupModel]
    exact (congrFun (dedupG_sound I limit g [] Env.empty Env.empty (fun v => by rw [Subst.app_nil])
      (fun p hp => by simp at hp) hg.1 hg.2.1) xs).symm
  · intro Val I k ρ xs; rfl
  · cases g with
    | mk inputs outputs inits nodes => simp [dedupModel, dedupG, Graph.outputs]
  · cases g with
    | mk inputs outputs inits nodes =>
      obtain ⟨hsub, hb, hcc⟩ := dedupInits_spec limit (inputs ++ outputs) inits [] []
        (fun key k h => by simp at h)
      simp only [dedupModel, dedupG, Graph.freeInputs, Graph.inputs, Graph.inits]
      apply List.filter_congr
      intro v hv
      congr 1
      rw [Bool.eq_iff_iff]
      simp only [List.contains_iff_mem]
      constructor
      · exact fun h => (hsub.map Prod.fst).subset h
      · intro h
        obtain ⟨q, hq, rfl⟩ := List.mem_map.1 h
        refine List.mem_map.2 ⟨q, hcc q.1 q.2 hq ?_, rfl⟩
        cases hl : (dedupInits limit (inputs ++ outputs) [] inits).2.lookup q.1 with
        | none => rfl
        | some k => exact absurd (List.mem_append_left _ hv) (hb q.1 k hl).1
  · rfl

theorem mem_refsBodies_of_mem {v : VId} {f : Graph} : ∀ {bs : List Graph}, f ∈ bs → v ∈ refsG f →
    v ∈ refsBodies bs
  | [], hf, _ => by simp at hf
  | b :: bs, hf, hv => by
    simp only [refsBodies, List.mem_append]
    rcases List.mem_cons.1 hf with hf | hf
    · left; rw [← hf]; exact hv
    · exact Or.inr (mem_refsBodies_of_mem hf hv)

/-- **C05_output_fix** — OutputFixPass (main graph, functions and all subgraphs): values listed twice
    as outputs and graph inputs used directly as outputs get an Identity node with a fresh output. -/
theorem C05_output_fix (m : Model) (hv : validModel m = true) : Preserves ofixModel m := by
  have hv' := hv
  simp only [validModel, Bool.and_eq_true, List.all_eq_true] at hv'
  obtain ⟨hg, hfs⟩ := hv'
  have hsg := ((validG_iff m.graph).1 hg).1
  refine ⟨?_, ?_, ?_, ?_, ?_⟩
  · intro Val I xs
    simp only [denote, ofixModel]
    refine congrFun (ofixG_sound I _ m.graph (freshId m) hsg (fun v hv => lt_freshId_of_mem m ?_) Env.empty) xs
    have := (mem_refsG v m.graph).2 (Or.inr hv)
    simp [this]
  · intro Val I k ρ xs
    simp only [denoteFunc, ofixModel]
    have h := ofixBodies_getElem? (ginsG m.graph ++ ginsBodies m.funcs) m.funcs
      (ofixG (ginsG m.graph ++ ginsBodies m.funcs) (freshId m) m.graph).2 k
    cases hk : m.funcs[k]? with
    | none => simp only [hk] at h; rw [h]
    | some f =>
      simp only [hk] at h
      obtain ⟨n', hn, hget⟩ := h
      rw [hget]
      simp only
      have hsf := ((validG_iff f).1 (hfs f (List.mem_of_getElem? hk))).1
      refine congrFun (ofixG_sound I _ f n' hsf (fun v hv => ?_) ρ) xs
      refine Nat.lt_of_lt_of_le (lt_freshId_of_mem m ?_) (Nat.le_trans (ofixG_mono _ m.graph _) hn)
      have hmem : v ∈ refsBodies m.funcs :=
        mem_refsBodies_of_mem (List.mem_of_getElem? hk) ((mem_refsG v f).2 (Or.inr hv))
      simp [hmem]
  · cases hg' : m.graph with
    | mk inputs outputs inits nodes =>
      simp [ofixModel, hg', ofixG, Graph.outputs, ofixDirect_length, ofixMulti_length]
  · cases hg' : m.graph with
    | mk inputs outputs inits nodes =>
      rw [hg'] at hsg
      simp only [ssaG, Bool.and_eq_true, nodupB_iff] at hsg
      simp only [ofixModel, hg', ofixG, Graph.freeInputs, Graph.inputs, Graph.inits]
      obtain ⟨_, hmem1⟩ := foldl_moveToEnd
        (fixedInputs (ofixDirect (ginsG (Graph.mk inputs outputs inits nodes) ++ ginsBodies m.funcs)
          (ofixMulti [] outputs (ofixNodes (ginsG (Graph.mk inputs outputs inits nodes) ++ ginsBodies m.funcs)
            (freshId m) nodes).2).1
          (ofixMulti [] outputs (ofixNodes (ginsG (Graph.mk inputs outputs inits nodes) ++ ginsBodies m.funcs)
            (freshId m) nodes).2).2.2).2.1) inits hsg.1.1.2
      apply List.filter_congr
      intro v _
      congr 1
      rw [Bool.eq_iff_iff]
      simp only [List.contains_iff_mem, List.mem_map]
      constructor
      · rintro ⟨p, hp, rfl⟩; exact ⟨p, (hmem1 p).1 hp, rfl⟩
      · rintro ⟨p, hp, rfl⟩; exact ⟨p, (hmem1 p).2 hp, rfl⟩
  · simp [ofixModel, ofixBodies_length]

/-- **C05_lift_sub_inits** — LiftSubgraphInitializersToMainGraphPass: initializers of subgraphs (at
    any depth) that are neither inputs nor outputs of their graph move to the main graph. -/
theorem C05_lift_sub_inits (m : Model) (hv : validModel m = true) : Preserves lsiModel m := by
  obtain ⟨g, fs⟩ := m
  simp only [validModel, Bool.and_eq_true, List.all_eq_true] at hv
  obtain ⟨hg, _⟩ := hv
  rw [validG_iff] at hg
  cases g with
  | mk inputs outputs inits nodes =>
  refine ⟨?_, ?_, ?_, ?_, ?_⟩
  · intro Val I xs
    simp only [denote, lsiModel]
    exact congrFun (lsiMain_sound I inputs outputs inits nodes hg.1 hg.2.1 hg.2.2.2 Env.empty) xs
  · intro Val I k ρ xs; rfl
  · simp [lsiModel, Graph.outputs]
  · have hs := hg.1
    simp only [ssaG, Bool.and_eq_true, disj_iff] at hs
    simp only [lsiModel, Graph.freeInputs, Graph.inputs, Graph.inits]
    apply List.filter_congr
    intro v hv
    congr 1
    rw [Bool.eq_iff_iff]
    simp only [List.map_append, List.contains_iff_mem, List.mem_append]
    constructor
    · rintro (h | h)
      · exact h
      · exact absurd ((lsiNodes_ids nodes hs.2).2 v h) (hs.1.2 v (by simp [hv]))
    · exact Or.inl
  · rfl

/-- **C05_toposort** — TopologicalSortPass as a permutation: if `m'` is `m` with the node list of
    every graph (main graph, subgraphs at any depth, function bodies) permuted (`reorderModel`), and
    both are valid (SSA, no node reads a value bound by itself or later), then they compute the same:
    the denotation does not depend on which dependency-respecting order the nodes are listed in.
    That the real pass returns such a model is checked on every generated case (`passes.reorder`);
    that `Graph.sort` orders any acyclic graph and is stable is C12. -/
theorem C05_toposort (m m' : Model) (hv : validModel m = true) (hv' : validModel m' = true)
    (hr : reorderModel m m' = true) :
    (∀ (Val : Type) (I : Interp Val) (xs : List Val), denote I m' xs = denote I m xs) ∧
    (∀ (Val : Type) (I : Interp Val) (k : Nat) (ρ : Env Val) (xs : List Val),
      denoteFunc I m' k ρ xs = denoteFunc I m k ρ xs) ∧
    m'.graph.outputs.length = m.graph.outputs.length ∧ m'.graph.freeInputs = m.graph.freeInputs := by
  obtain ⟨g, fs⟩ := m
  obtain ⟨g', fs'⟩ := m'
  simp only [validModel, Bool.and_eq_true, List.all_eq_true] at hv hv'
  simp only [reorderModel, Bool.and_eq_true] at hr
  have hg := (validG_iff g).1 hv.1
  have hg' := (validG_iff g').1 hv'.1
  have hfs : ∀ b ∈ fs, GraphOK b := fun b hb => by
    have := (validG_iff b).1 (hv.2 b hb); exact ⟨this.1, this.2.2.1⟩
  have hfs' : ∀ b ∈ fs', GraphOK b := fun b hb => by
    have := (validG_iff b).1 (hv'.2 b hb); exact ⟨this.1, this.2.2.1⟩
  refine ⟨?_, ?_, ?_, ?_⟩
  · intro Val I xs
    simp only [denote]
    exact (congrFun (reorderG_sound I g g' hr.1 ⟨hg.1, hg.2.2.1⟩ ⟨hg'.1, hg'.2.2.1⟩ Env.empty) xs).symm
  · intro Val I k ρ xs
    simp only [denoteFunc]
    have := reorderBodies_getElem? I fs fs' hr.2 hfs hfs' k ρ
    cases h1 : fs[k]? <;> cases h2 : fs'[k]? <;> simp only [h1, h2] at this ⊢
    exact (congrFun this xs).symm
  · cases g; cases g'
    simp only [reorderG, Bool.and_eq_true, beq_iff_eq] at hr
    simp only [Graph.outputs] at hr ⊢
    rw [hr.1.1.1.2]
  · cases g; cases g'
    simp only [reorderG, Bool.and_eq_true, beq_iff_eq, Graph.inputs, Graph.inits] at hr
    simp only [Graph.freeInputs, Graph.inputs, Graph.inits]
    rw [hr.1.1.1.1, hr.1.1.2]

/-- NOT a property theorem (definitional): in pass sequences the model of TopologicalSortPass on a valid
    (hence topologically ordered) model is the identity, by stability of the sort (C12). -/
theorem topoSortSorted_preserves (m : Model) : Preserves topoSortModel m :=
  ⟨fun _ _ _ => rfl, fun _ _ _ _ _ => rfl, rfl, rfl, rfl⟩

/-- NOT property theorems (definitional; used only so that `C05_compose` covers sequences containing these
    passes): metadata, doc strings and names are not part of the IR the denotation is defined on (values
    are identities), so on this IR ClearMetadataAndDocStringPass and NameFixPass are the identity.  What is
    checked for these two passes is the correspondence (the real result has the structure of the input)
    and the evaluation oracle. -/
theorem clearMeta_preserves (m : Model) : Preserves clearMetaModel m :=
  ⟨fun _ _ _ => rfl, fun _ _ _ _ _ => rfl, rfl, rfl, rfl⟩
theorem nameFix_preserves (m : Model) : Preserves nameFixModel m :=
  ⟨fun _ _ _ => rfl, fun _ _ _ _ _ => rfl, rfl, rfl, rfl⟩

theorem Preserves.trans {p q : Model → Model} {m : Model} (hp : Preserves p m) (hq : Preserves q (p m)) :
    Preserves (fun m => q (p m)) m := by
  obtain ⟨p1, p2, p3, p4, p5⟩ := hp
  obtain ⟨q1, q2, q3, q4, q5⟩ := hq
  exact ⟨fun V I xs => (q1 V I xs).trans (p1 V I xs), fun V I k ρ xs => (q2 V I k ρ xs).trans (p2 V I k ρ xs),
    q3.trans p3, q4.trans p4, q5.trans p5⟩

/-- every modelled pass preserves what the model computes on the models that satisfy its assumptions -/
theorem C05_pass (p : PassId) (m : Model) (h : p.pre m = true) : Preserves p.run m := by
  cases p with
  | dce => exact C05_dce m h
  | identity => exact C05_identity m h
  | cse limit => exact C05_cse limit m h
  | dedup limit => exact C05_dedup limit m h
  | liftConst a l => exact C05_lift_const a l m h
  | liftSubInits => exact C05_lift_sub_inits m h
  | rmInitInputs => exact C05_rm_init_inputs m
  | addInitInputs => exact C05_add_init_inputs m
  | outputFix => exact C05_output_fix m h
  | clearMeta => exact clearMeta_preserves m
  | nameFix => exact nameFix_preserves m
  | topoSort => exact topoSortSorted_preserves m

/-- **C05_compose** — any sequence (any length) of the modelled passes preserves what the model
    computes, the number of outputs and the non-initializer inputs, provided every pass of the
    sequence meets a model satisfying its assumptions (`chainOK`, evaluated by the driver on every
    generated sequence: every intermediate model is SSA, closed, topologically ordered and scoped). -/
theorem C05_compose : ∀ (ps : List PassId) (m : Model), chainOK ps m = true → Preserves (runPasses ps) m
  | [], m, _ => ⟨fun _ _ _ => rfl, fun _ _ _ _ _ => rfl, rfl, rfl, rfl⟩
  | p :: ps, m, h => by
    simp only [chainOK, Bool.and_eq_true] at h
    have := Preserves.trans (p := p.run) (q := runPasses ps) (C05_pass p m h.1) (C05_compose ps (p.run m) h.2)
    exact this

/-- non-vacuity: a valid model on which the pass does something (a dead node is removed) -/
example : validModel ⟨.mk [0] [1] [] [.mk ⟨"", "Neg", ""⟩ [] [some 0] [1] [], .mk ⟨"", "Abs", ""⟩ [] [some 0] [2] []], []⟩ = true := by
  decide

/-- non-vacuity: the pass eliminates `2 = Identity(1)` and rewires the graph output -/
example : (ieModel ⟨.mk [0] [2] [] [.mk ⟨"", "Neg", ""⟩ [] [some 0] [1] [], .mk ⟨"", "Identity", ""⟩ [] [some 1] [2] []], []⟩).graph.outputs = [1] := by
  decide

/-- non-vacuity: CSE merges the second `Neg(0)`; its output 2 is a graph output next to the kept
    node's output 1, so an Identity node producing it is inserted -/
example : (cseModel 10 ⟨.mk [0] [1, 2] [] [.mk ⟨"", "Neg", ""⟩ [] [some 0] [1] [], .mk ⟨"", "Neg", ""⟩ [] [some 0] [2] []], []⟩).graph.nodes.length = 2 := by
  decide

/-- non-vacuity: dedup merges the second of two equal initializers and rewires its use -/
example : (dedupModel 1024 ⟨.mk [0] [3] [(1, ⟨1, [1], [0, 0, 128, 63], []⟩), (2, ⟨1, [1], [0, 0, 128, 63], []⟩)]
    [.mk ⟨"", "Add", ""⟩ [] [some 1, some 2] [3] []], []⟩).graph.inits.length = 1 := by decide

/-- non-vacuity: a Constant node becomes an initializer of its graph -/
example : (liftConstModel true 0 ⟨.mk [0] [2] [] [.mk ⟨"", "Constant", ""⟩ [("value_int", .int 7)] [] [1] [],
    .mk ⟨"", "Add", ""⟩ [] [some 0, some 1] [2] []], []⟩).graph.inits.length = 1 := by decide

/-- non-vacuity: a graph input used directly as output gets an Identity node -/
example : (ofixModel ⟨.mk [0] [0, 0] [] [], []⟩).graph.nodes.length = 2 := by decide

/-- non-vacuity: the initializer of an If branch moves to the main graph -/
example : (lsiModel ⟨.mk [0] [2] [] [.mk ⟨"", "If", ""⟩ [] [some 0] [2]
    [.mk [] [3] [(1, ⟨1, [], [0, 0, 0, 0], []⟩)] [.mk ⟨"", "Neg", ""⟩ [] [some 1] [3] []]]], []⟩).graph.inits.length = 1 := by
  decide

/-- non-vacuity of `C05_compose`: a three-pass chain on a valid model satisfies `chainOK` -/
example : chainOK [.outputFix, .identity, .dce]
    ⟨.mk [0] [2, 2] [] [.mk ⟨"", "Neg", ""⟩ [] [some 0] [1] [], .mk ⟨"", "Identity", ""⟩ [] [some 1] [2] []], []⟩ = true := by
  decide

end IrVerif.Passes

/-
C17, deepening round 6 (wave 4): function bodies BELOW IR version 10 in the EXTENDED model
(`Model/ScopeExt9.lean`: `deserializeME9` / `serializeME9`; type / shape / doc_string AND metadata_props of function
values stored in the main graph's value_info under `domain::function/value`).  Proofs in `Lemmas/ScopeExt9*.lean`.
-/
import IrVerif.Lemmas.ScopeExt9Cert
namespace IrVerif.Scope

/-- **C17_ext9_erasure**: on EVERY extended model proto the IR < 10 run of the extended model (`deserializeME9`:
    `deserializeME`, then the post-pass that applies the experimental `domain::function/value` entries of the main
    graph's value_info to the function inputs and node outputs - info overwritten, metadata merged, last entry per
    name wins) and the core IR < 10 run `deserializeM9` on the erased proto return the same store and the same tree
    (main graph and functions), or the same error.  So `C17_idempotent_ir9`'s certificate, consistency and the kernel
    invariant carry over: the metadata never influences resolution, allocation, use-def links or ownership. -/
theorem C17_ext9_erasure (p : ModelE) :
    (match deserializeME9 p with
      | .ok w => deserializeM9 (eraseM p) = .ok w.core
      | .error e => deserializeM9 (eraseM p) = .error e) :=
  deserializeME9_erase p

/-- **C17_ext9_entries_inert** (the main-graph half of the extended IR < 10 fix-point, metadata included): for every
    model `w` that `deserializeME9` returns and every IR version, the experimental entries that `serializeME9`
    appends to the main graph's value_info - each with the emitted info AND the sorted metadata of a function value -
    are INERT for the main graph's extended run: `Q.graph` (with the entries) and `q.graph` (the main graph
    `serializeME` writes, without them) deserialize with `deserGraphE` to the same store, the same extension state
    (merged metadata, quantization annotations, device configurations) and the same tree, or the same error, in every
    store / extension state / scope stack.  In particular no metadata of an experimental entry leaks onto a
    main-graph value of the reloaded model.  (Reading is by name: a PROTO whose main graph has a value named like an
    experimental entry does attach the entry's info and metadata to that value - that is `deserGraphE` and
    `C17_ext9_erasure`; the reserved names of the repair of D320 make sure `serializeME9` never writes such a proto.)
    No hypothesis beyond "deserialization succeeded": the initializers of a deserialized model are keyed by the name
    of their value (`deserializeME9_keys`, from the certificate `deserializeM9_reloadable`). -/
theorem C17_ext9_entries_inert (ver : Option Int) (p : ModelE) (w : MWorldE) (hd : deserializeME9 p = .ok w)
    (w1 : MWorldE) (Q : ModelE) (h : serializeME9 ver w = .ok (w1, Q)) :
    ∃ q, serializeME ver w = .ok (w1, q) ∧
      ∀ (st : Store) (x : Ext) (outer : List Table), deserGraphE st x outer Q.graph = deserGraphE st x outer q.graph :=
  ext9_entries_inert ver w w1 Q h (deserializeME9_keys p w hd)

/-- **C17_ext9_reloadable**: every model that `deserializeME9` returns - for EVERY extended model proto, whatever its
    experimental entries (repeated, with or without type, with metadata, under names of main-graph values, for
    overloaded or missing functions) and whatever value_info its functions carry below IR 10 - satisfies the
    certificate `ReloadableME` of the extended round-trip theorems: the resolution certificate of the core (the
    post-pass writes infos that are a function of the name among a function's values: `post_reloadable`), the
    certificates `extG` / `extF` of the extension state (they read the store through names only and the extension
    state through the annotations only: `extG_setInfo`; equally named inputs of a function get the SAME metadata
    merged into the same metadata: `foldE_vmeta_at`) and `ExtWF`.  Consequences: `C03_roundtrip_ext_model`,
    `C03_roundtrip_ext` and `C03_roundtrip_ext_ir9_partial` apply to it; serializing it in either format raises
    only in a device configuration. -/
theorem C17_ext9_reloadable (p : ModelE) (w : MWorldE) (hd : deserializeME9 p = .ok w) : ReloadableME w :=
  deserializeME9_reloadableME p w hd

/-- **C17_idempotent_ext_ir9_partial**: what is PROVED of the fix-point of the IR < 10 format in the extended model,
    for EVERY model proto `p` with `deserializeME9 p = .ok w` (no hypothesis) and every IR version:
    `serializeME9 ver w` raises only in a device configuration (never for lack of a name), or it returns `Q` such
    that, with `q` the proto `serializeME` writes for `w` (IR >= 10 format) and `D` its reload:
    (a) `Q.funcs` = `q.funcs` with their value_info removed and `Q.graph.vinfo = q.graph.vinfo ++ E`;
    (b) every entry of `E` is `ExpEntryOK`: written for a truthy-named value `u` of a function without overload, named
        `formatExp domain name (name of u)`, which parses back to exactly that function and value name and is not a
        name the main graph is looked up with; it carries the emitted info of `u` and `ssSorted (vmeta u)`, and that
        payload is stable: read into an empty dict and written again it is unchanged (merge = overwrite there);
    (c) with or without `E` the main graph deserializes identically, in every store / extension state / scope stack
        (`C17_ext9_entries_inert`), so the MAIN-GRAPH half of `deserializeME9 Q` is that of `deserializeME q`:
        `deserGraphE {} {} [] Q.graph = .ok (st, x, D.root)`, and `D` serializes to `q` again (`serializeME ver D`).
    MISSING for the full statement `C17_idempotent_ext_ir9` (`deserializeME9 Q = .ok D9 ∧ serializeME9 ver D9 = .ok (_, Q)`):
    the FUNCTION half of the reload - `deserFuncsE` of the functions WITHOUT value_info yields the functions of `D`
    with info / metadata of the function values cleared (a frame of the deserializer w.r.t. the value_info table, or,
    on the route of `ir9_core`, the frame of `serGraphE` / `serFuncsE` w.r.t. info and metadata of non-emitted
    values: the extended analogue of `Lemmas/ScopeFunc9Frame`), the closed form of the extended post-pass on that
    model for node outputs as well (`foldE_vmeta_at` does the inputs) and the congruence of `expOfFuncE` under the
    reload isomorphism (analogue of the case analysis in `ir9_core`).  The driver evaluates the full statement on
    every generated IR < 10 case with functions (`ext9_model_fixpoint`), the oracle evaluates it on the real code. -/
theorem C17_idempotent_ext_ir9_partial (ver : Option Int) (p : ModelE) (w : MWorldE) (hd : deserializeME9 p = .ok w) :
    (∃ e, serializeME9 ver w = .error (.dev e)) ∨
    ∃ (w1 : MWorldE) (Q q : ModelE) (E : List VInfoE) (D : MWorldE) (st : Store) (x : Ext),
      serializeME9 ver w = .ok (w1, Q) ∧ serializeME ver w = .ok (w1, q) ∧
      Q.funcs = (q.funcs.map fun f => { f with vinfo := [] }) ∧ Q.graph.vinfo = q.graph.vinfo ++ E ∧
      (∀ e ∈ E, ExpEntryOK w e) ∧
      (∀ (st : Store) (x : Ext) (outer : List Table), deserGraphE st x outer Q.graph = deserGraphE st x outer q.graph) ∧
      deserializeME q = .ok D ∧ deserGraphE {} {} [] Q.graph = .ok (st, x, D.root) ∧
      deserFuncsE st x [] q.funcs = .ok (D.st, D.ext, D.funcs) ∧ ∃ w2, serializeME ver D = .ok (w2, q) :=
  roundtrip_ext_ir9_partial ver w (deserializeME9_reloadableME p w hd)

/-! ### non-vacuity -/

/-- main graph `Identity(x) -> y` with TWO experimental entries for the value `c` of function `custom::f` (metadata
    `k=1`, then `b=2`: the last one is applied); the function carries a value_info for `c` with metadata `z=0` of
    its own (read first, the experimental entry is MERGED into it) -/
def exampleExt9 : ModelE :=
  ⟨.mk [⟨"x", {}, []⟩] [] [⟨"custom::f/c", {}, [("k", "1")]⟩, ⟨"custom::f/c", { ty := some "f32" }, [("b", "2")]⟩]
      [ .mk ["x"] ["y"] [] [] ] [⟨"y", {}, []⟩] [],
    [⟨⟨"custom", "f", ""⟩, ["a"], ["c"], [⟨"c", {}, [("z", "0")]⟩], [ .mk ["a"] ["c"] [] [] ]⟩]⟩

/-- the names of the main graph's value_info entries after deserialize-then-serialize, and the merged metadata of
    the function values (inputs, then node outputs) of the deserialized model -/
def first9E (ver : Option Int) (P : ModelE) : Option (List Name × List SS) :=
  match deserializeME9 P with
  | .error _ => none
  | .ok m =>
    match serializeME9 ver m with
    | .error _ => none
    | .ok (_, Q) =>
      some (Q.graph.vinfo.map (·.name), m.funcs.flatMap fun f => (f.2.inputs ++ f.2.nodes.flatMap NodeT.outputs).map m.ext.vmeta)

/-- the hypotheses are satisfiable, the second alternative of `C17_idempotent_ext_ir9_partial` occurs with one entry
    written, and the metadata is MERGED: `z=0` of the function's own entry survives next to `b=2` of the LAST
    experimental entry; `k=1` of the overwritten experimental entry does not.  (The fix-point itself is evaluated by
    the driver on every generated case: `List.mergeSort` does not reduce in the kernel.) -/
example : first9E (some 9) exampleExt9 = some (["custom::f/c"], [[], [("z", "0"), ("b", "2")]]) := by decide +kernel

end IrVerif.Scope

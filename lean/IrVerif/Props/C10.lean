/-
C10 — external tensor reads never escape the model directory: property theorems.
Model: `IrVerif/Model/Path.lean`; helper lemmas: `IrVerif/Lemmas/Path.lean`.
-/
import IrVerif.Lemmas.PathReal
import IrVerif.Lemmas.PathLoad
namespace IrVerif.Path

/-- **C10_lexical**: when check 1 (_core.py:789-799) passes, the components of
`normpath(abspath(join(base, loc)))` extend those of `normpath(abspath(base))` *component-wise*
(so a sibling such as /a/bc of the base /a/b is excluded, and a root base is handled), and both
are made only of entry names (no "", ".", ".." and no separator inside a component): the path
stays lexically inside the base.  For every cwd, base spelling and location. -/
theorem C10_lexical (cwd base loc : Str) (hcwd : isabs cwd = true)
    (h : check1 cwd base loc = true) :
    comps (abspath cwd base) <+: comps (abspath cwd (tensorPath base loc)) ∧
    (∀ c ∈ comps (abspath cwd (tensorPath base loc)), Clean c) ∧
    (∀ c ∈ comps (abspath cwd base), Clean c) := by
  refine ⟨contained_comps _ _ h, ?_, ?_⟩
  · unfold abspath
    rw [comps_normpath_abs _ (isabs_abspath_arg cwd _ hcwd)]
    exact normStack_clean _
  · unfold abspath
    rw [comps_normpath_abs _ (isabs_abspath_arg cwd _ hcwd)]
    exact normStack_clean _

/- non-vacuity and the named corner cases of C10_lexical -/
example : check1 "/w".toList "/a/b".toList "d/f".toList = true := by decide
example : check1 "/w".toList "/a/b".toList "../bc/f".toList = false := by decide   -- prefix sibling
example : check1 "/w".toList "/a/b".toList "../b/f".toList = true := by decide
example : check1 "/w".toList "/".toList "etc/passwd".toList = true := by decide     -- root base
example : check1 "/w".toList "sub/".toList "/w/sub/f".toList = true := by decide   -- relative base
example : check1 "/w".toList "sub".toList "../f".toList = false := by decide
example : ¬ (comps "/a/b".toList <+: comps "/a/bc/f".toList) := by decide

theorem isabs_normpath_abs (p : Str) (h : isabs p = true) : isabs (normpath p) = true := by
  rw [normpath_abs p h]
  have := splitroot_abs p h
  cases hn : (splitroot p).1 with
  | zero => exact absurd hn this
  | succ n => simp [List.replicate_succ, isabs]

/-- **C10_load_base_nonempty**: for every spelling of the model path (absolute, relative, "./x",
bare name, trailing separators, empty) and every load-time working directory, the base directory
`load()` assigns (_io.py:37) is non-empty, so the containment checks are never disabled for a
loaded model, and absolute, so a later chdir cannot change what it names. -/
theorem C10_load_base_nonempty (cwdS modelPath : Str) (hcwd : isabs cwdS = true) :
    loadBase cwdS modelPath ≠ [] ∧ isabs (loadBase cwdS modelPath) = true := by
  have h : isabs (loadBase cwdS modelPath) = true := by
    unfold loadBase loadBaseAbs abspath
    exact isabs_normpath_abs _ (isabs_abspath_arg cwdS _ hcwd)
  refine ⟨?_, h⟩
  intro e
  rw [e] at h
  simp [isabs] at h

/-- D23 on the derivation before the fix: a bare file name gives the empty base directory. -/
example : loadBaseUnfixed "model.onnx".toList = [] := by decide
example : loadBase "/w".toList "model.onnx".toList = "/w".toList := by decide
example : loadBase "/w".toList "dir/model.onnx".toList = "/w/dir".toList := by decide

/-- **C10_real**: when check 2 (_core.py:802-810) passes, the components of
`realpath(join(base, loc))` extend those of `realpath(base)` component-wise, and both consist of
entry names only.  For every file system, cwd string, base spelling and location. -/
theorem C10_real (fs : FS) (kfuel fuel : Nat) (cwdS : Str) (cwd : Loc) (base loc : Str)
    (hcwd : isabs cwdS = true) (h : check2 fs kfuel fuel cwdS cwd base loc = true) :
    comps (realpath fs kfuel fuel cwdS cwd base) <+:
      comps (realpath fs kfuel fuel cwdS cwd (tensorPath base loc)) ∧
    (∀ c ∈ comps (realpath fs kfuel fuel cwdS cwd (tensorPath base loc)), Clean c) ∧
    (∀ c ∈ comps (realpath fs kfuel fuel cwdS cwd base), Clean c) := by
  refine ⟨contained_comps _ _ h, ?_, ?_⟩ <;>
  · unfold realpath abspath
    rw [comps_normpath_abs _ (isabs_abspath_arg cwdS _ hcwd)]
    exact normStack_clean _

theorem checkContainment_pass (fs : FS) (kfuel fuel : Nat) (cwdS : Str) (cwd : Loc) (base loc : Str)
    (h : checkContainment fs kfuel fuel cwdS cwd base loc = Verdict.pass) :
    base ≠ [] ∧ check1 cwdS base loc = true ∧ check2 fs kfuel fuel cwdS cwd base loc = true ∧
      check3 fs kfuel fuel cwdS cwd base loc = true := by
  unfold checkContainment at h
  split at h
  · exact absurd h (by simp)
  · rename_i hb
    split at h
    · exact absurd h (by simp)
    · rename_i h1
      split at h
      · exact absurd h (by simp)
      · rename_i h2
        split at h
        · exact absurd h (by simp)
        · rename_i h3
          exact ⟨hb, by simpa using h1, by simpa using h2, by simpa using h3⟩

theorem checkContainment_skipped (fs : FS) (kfuel fuel : Nat) (cwdS : Str) (cwd : Loc) (base loc : Str)
    (h : checkContainment fs kfuel fuel cwdS cwd base loc = Verdict.skipped) : base = [] := by
  unfold checkContainment at h
  split at h
  · assumption
  · split at h
    · exact absurd h (by simp)
    · split at h
      · exact absurd h (by simp)
      · split at h <;> exact absurd h (by simp)

theorem produce_ok (ep : EntryPoint) (content : List Nat) (offset length : Nat) (bytes : List Nat)
    (h : produce ep content offset length = ReadResult.ok bytes) :
    bytes = (content.drop offset).take length ∧ offset + length ≤ content.length := by
  unfold produce at h
  cases ep <;> simp only at h <;> (repeat' split at h) <;> simp_all <;> omega

theorem openFile_some (fs : FS) (kfuel : Nat) (cwd : Loc) (p : Str) (i : Nat)
    (h : openFile fs kfuel cwd p = some i) :
    ∃ l, kresolve fs kfuel cwd p true = some l ∧ fs.get l = some (Node.file i) := by
  unfold openFile at h
  cases hk : kresolve fs kfuel cwd p true with
  | none => simp [hk] at h
  | some l =>
    simp only [hk] at h
    cases hg : fs.get l with
    | none => simp [hg] at h
    | some n =>
      cases n with
      | dir => simp [hg] at h
      | link t => simp [hg] at h
      | file j =>
        simp only [hg, Option.some.injEq] at h
        subst h
        exact ⟨l, rfl, hg⟩

/-- what is known about a file the guarded read opened: it is the regular file `i` at the
location `l` the kernel resolved `join(base, loc)` to; it has at most one link; `l` lies
component-wise below `realpath(base)` and below the kernel's own resolution `bl` of the base whenever
the base resolves; `l` is reached through real directories only; the path is also lexically inside -/
def SafeOpen (fs : FS) (kfuel fuel : Nat) (cwd : Loc) (base loc : Str) (i : Nat) : Prop :=
  ∃ l, kresolve fs kfuel cwd (tensorPath base loc) true = some l ∧
    fs.get l = some (Node.file i) ∧
    fs.nlink i ≤ 1 ∧
    comps (realpath fs kfuel fuel (render cwd) cwd base) <+: l ∧
    (∀ bl, kresolve fs kfuel cwd base true = some bl → bl <+: l) ∧
    Chain fs l ∧
    comps (abspath (render cwd) base) <+: comps (abspath (render cwd) (tensorPath base loc))

theorem safeOpen_of_pass (fs : FS) (kfuel fuel : Nat) (cwd : Loc) (hcwd : RealDir fs cwd)
    (hfuel : kfuel ≤ fuel) (base loc : Str) (i : Nat)
    (hv : checkContainment fs kfuel fuel (render cwd) cwd base loc = Verdict.pass)
    (ho : openFile fs kfuel cwd (tensorPath base loc) = some i) :
    SafeOpen fs kfuel fuel cwd base loc i := by
  obtain ⟨_, hc1, hc2, hc3⟩ := checkContainment_pass _ _ _ _ _ _ _ hv
  obtain ⟨l, hk, hg⟩ := openFile_some _ _ _ _ _ ho
  obtain ⟨hrp, hchain⟩ := realpath_of_kresolve fs kfuel fuel cwd hcwd _ kfuel l hk hfuel
  have hin : comps (realpath fs kfuel fuel (render cwd) cwd base) <+: l := by
    have := contained_comps _ _ hc2
    rwa [hrp, comps_render l hchain.1] at this
  refine ⟨l, hk, hg, ?_, hin, ?_, hchain, contained_comps _ _ hc1⟩
  · unfold check3 at hc3
    rw [hrp] at hc3
    unfold statNlink at hc3
    rw [kresolve_render fs kfuel cwd l hchain _ hg (by intro t; simp)] at hc3
    simpa [hg] using hc3
  · intro bl hbl
    obtain ⟨hrb, hcb⟩ := realpath_of_kresolve fs kfuel fuel cwd hcwd _ kfuel bl hbl hfuel
    rwa [hrb, comps_render bl hcb.1] at hin

/-- **C10_read_safe**: with a non-empty base directory, whenever a read through any entry point
returns bytes, they are the requested slice of the content of a regular file `i` that is a safe
open (`SafeOpen`: at most one link, resolved location below the fully resolved base directory,
reached through real directories only, lexically inside as well).  Any other location does not
return bytes (`ReadResult` is `raised` otherwise; see C10_open_safe / C10_all_entry_points for
"before any byte is read").  Hypotheses: the working directory is a chain of real directories and
`os.getcwd()` is its rendering; the Python recursion bound is at least the kernel's ELOOP bound. -/
theorem C10_read_safe (fs : FS) (kfuel fuel : Nat) (cwd : Loc) (hcwd : RealDir fs cwd)
    (hfuel : kfuel ≤ fuel) (base loc : Str) (offset length : Nat) (ep : EntryPoint)
    (bytes : List Nat) (hb : base ≠ [])
    (h : (read fs kfuel fuel (render cwd) cwd base loc offset length ep).1 = ReadResult.ok bytes) :
    ∃ i, bytes = ((fs.data i).drop offset).take length ∧ SafeOpen fs kfuel fuel cwd base loc i := by
  unfold read at h
  cases hv : checkContainment fs kfuel fuel (render cwd) cwd base loc with
  | rej1 => simp [hv] at h
  | rej2 => simp [hv] at h
  | rej3 => simp [hv] at h
  | skipped => exact absurd (checkContainment_skipped _ _ _ _ _ _ _ hv) hb
  | pass =>
    simp only [hv] at h
    cases ho : openFile fs kfuel cwd (tensorPath base loc) with
    | none => simp [ho] at h
    | some i =>
      simp only [ho] at h
      exact ⟨i, (produce_ok _ _ _ _ _ h).1, safeOpen_of_pass fs kfuel fuel cwd hcwd hfuel base loc i hv ho⟩

theorem read_rej (fs : FS) (kfuel fuel : Nat) (cwdS : Str) (cwd : Loc) (base loc : Str)
    (offset length : Nat) (ep : EntryPoint) (v : Verdict)
    (hv : checkContainment fs kfuel fuel cwdS cwd base loc = v)
    (h : v = Verdict.rej1 ∨ v = Verdict.rej2 ∨ v = Verdict.rej3) :
    read fs kfuel fuel cwdS cwd base loc offset length ep = (ReadResult.raised, [Ev.check v]) := by
  unfold read
  rw [hv]
  rcases h with h | h | h <;> subst h <;> rfl

theorem read_open (fs : FS) (kfuel fuel : Nat) (cwdS : Str) (cwd : Loc) (base loc : Str)
    (offset length : Nat) (ep : EntryPoint) (v : Verdict)
    (hv : checkContainment fs kfuel fuel cwdS cwd base loc = v)
    (h : v = Verdict.pass ∨ v = Verdict.skipped) :
    read fs kfuel fuel cwdS cwd base loc offset length ep =
      (match openFile fs kfuel cwd (tensorPath base loc) with
       | none => (ReadResult.raised, [Ev.check v, Ev.openEv (tensorPath base loc) none])
       | some i => (produce ep (fs.data i) offset length,
                    [Ev.check v, Ev.openEv (tensorPath base loc) (some i)])) := by
  unfold read
  rw [hv]
  rcases h with h | h <;> subst h <;> rfl

/-- **C10_all_entry_points**: for each of the modelled entry points (numpy, tobytes, `__array__`,
serialisation to raw bytes, tofile) the first event is the containment check; a rejecting verdict
gives `raised` with no open event at all; an open event happens only after the verdict `pass`
(or with an empty base directory, where the check is skipped by design) and only for
`join(base, loc)`; the verdict and the file opened do not depend on the entry point. -/
theorem C10_all_entry_points (fs : FS) (kfuel fuel : Nat) (cwdS : Str) (cwd : Loc) (base loc : Str)
    (offset length : Nat) (ep : EntryPoint) (v : Verdict)
    (hv : checkContainment fs kfuel fuel cwdS cwd base loc = v) :
    (read fs kfuel fuel cwdS cwd base loc offset length ep).2.head? = some (Ev.check v) ∧
    ((v = Verdict.rej1 ∨ v = Verdict.rej2 ∨ v = Verdict.rej3) →
      read fs kfuel fuel cwdS cwd base loc offset length ep = (ReadResult.raised, [Ev.check v])) ∧
    (∀ p i, Ev.openEv p i ∈ (read fs kfuel fuel cwdS cwd base loc offset length ep).2 →
      p = tensorPath base loc ∧ (v = Verdict.pass ∨ (v = Verdict.skipped ∧ base = []))) ∧
    (∀ ep', (read fs kfuel fuel cwdS cwd base loc offset length ep').2 =
      (read fs kfuel fuel cwdS cwd base loc offset length ep).2) := by
  have hcases : (v = Verdict.rej1 ∨ v = Verdict.rej2 ∨ v = Verdict.rej3) ∨
      (v = Verdict.pass ∨ v = Verdict.skipped) := by cases v <;> simp
  rcases hcases with hrej | hopen
  · have e := fun ep => read_rej fs kfuel fuel cwdS cwd base loc offset length ep v hv hrej
    refine ⟨by rw [e]; rfl, fun _ => e ep, ?_, fun ep' => by rw [e, e]⟩
    intro p i hm
    rw [e] at hm
    simp at hm
  · have e := fun ep => read_open fs kfuel fuel cwdS cwd base loc offset length ep v hv hopen
    refine ⟨?_, ?_, ?_, ?_⟩
    · rw [e]; split <;> rfl
    · intro hrej
      rcases hopen with h | h <;> subst h <;> simp at hrej
    · intro p i hm
      rw [e] at hm
      have hp : p = tensorPath base loc := by
        split at hm <;> simp at hm <;> exact hm.1
      refine ⟨hp, ?_⟩
      rcases hopen with h | h
      · exact Or.inl h
      · exact Or.inr ⟨h, checkContainment_skipped _ _ _ _ _ _ _ (hv.trans h)⟩
    · intro ep'
      rw [e, e]
      split <;> rfl

end IrVerif.Path

namespace IrVerif.Path

/-- **C10_open_safe**: with a non-empty base directory, for every entry point, every file a read
opens (an open event carrying an inode in the trace; whatever the read returns afterwards, e.g. it
may still raise because the file is too short) is a safe open: no byte of a file outside the
resolved base directory, or of a file with several links, is ever read. -/
theorem C10_open_safe (fs : FS) (kfuel fuel : Nat) (cwd : Loc) (hcwd : RealDir fs cwd)
    (hfuel : kfuel ≤ fuel) (base loc : Str) (offset length : Nat) (ep : EntryPoint) (hb : base ≠ [])
    (p : Str) (i : Nat)
    (h : Ev.openEv p (some i) ∈ (read fs kfuel fuel (render cwd) cwd base loc offset length ep).2) :
    p = tensorPath base loc ∧ SafeOpen fs kfuel fuel cwd base loc i := by
  obtain ⟨_, _, hopen, _⟩ := C10_all_entry_points fs kfuel fuel (render cwd) cwd base loc offset length
    ep _ rfl
  obtain ⟨hp, hv⟩ := hopen p (some i) h
  have hpass : checkContainment fs kfuel fuel (render cwd) cwd base loc = Verdict.pass := by
    rcases hv with hv | ⟨_, hb'⟩
    · exact hv
    · exact absurd hb' hb
  refine ⟨hp, safeOpen_of_pass fs kfuel fuel cwd hcwd hfuel base loc i hpass ?_⟩
  rw [read_open fs kfuel fuel (render cwd) cwd base loc offset length ep _ hpass (Or.inl rfl)] at h
  cases ho : openFile fs kfuel cwd (tensorPath base loc) with
  | none => simp [ho] at h
  | some j =>
    simp only [ho] at h
    simp at h
    rw [h.2]

/-- **C10_load_base_is_model_dir**: for every spelling of the model path `p` whose last piece is a
file name (bare name, relative, absolute, "./x", repeated or leading separators, through symbolic
links, with ".." after a symbolic link), if the kernel opens `p` from the load-time directory `cwd`
(resolves it to `ml`), then the base directory `join(getcwd(), dirname(p) or ".")` resolves, from
ANY later working directory `cwd'`, to a directory `d`, and `d` is exactly the directory in which
the kernel looked up the file name at load time: the model's directory. -/
theorem C10_load_base_is_model_dir (fs : FS) (f : Nat) (cwd cwd' : Loc) (hcwd : RealDir fs cwd)
    (p : Str) (ml : Loc) (hn : Clean (tailPart p)) (h : kresolve fs f cwd p true = some ml) :
    ∃ d, kresolve fs f cwd' (loadBaseJoin (render cwd) p) true = some d ∧
      fs.get d = some Node.dir ∧ walk fs f d [tailPart p] true = some ml := by
  obtain ⟨d, h1, h2, h3⟩ := load_base_is_model_dir fs f cwd p ml hn h
  refine ⟨d, ?_, h2, h3⟩
  unfold loadBaseJoin
  rw [kresolve_join_cwd fs f cwd cwd' hcwd _ (loadDir_ne_nil p)]
  exact h1

/-- **C10_load_read_safe**: end to end, with a chdir between load and read.  A model opened from
`p` (any spelling) in the working directory `cwd` gets the base directory
`join(getcwd(), dirname(p) or ".")`; every later read of one of its external tensors, made from
any working directory `cwd'`, that returns bytes returns the requested slice of a regular file
with at most one link whose resolved location `l` lies below the model's directory `d`. -/
theorem C10_load_read_safe (fs : FS) (kfuel fuel : Nat) (cwd cwd' : Loc) (hcwd : RealDir fs cwd)
    (hcwd' : RealDir fs cwd') (hfuel : kfuel ≤ fuel) (p : Str) (ml : Loc) (hn : Clean (tailPart p))
    (hopen : kresolve fs kfuel cwd p true = some ml)
    (loc : Str) (offset length : Nat) (ep : EntryPoint) (bytes : List Nat)
    (h : (read fs kfuel fuel (render cwd') cwd' (loadBaseJoin (render cwd) p) loc offset length ep).1 =
      ReadResult.ok bytes) :
    ∃ d l i, kresolve fs kfuel cwd' (loadBaseJoin (render cwd) p) true = some d ∧
      fs.get d = some Node.dir ∧ walk fs kfuel d [tailPart p] true = some ml ∧
      kresolve fs kfuel cwd' (tensorPath (loadBaseJoin (render cwd) p) loc) true = some l ∧ d <+: l ∧
      fs.get l = some (Node.file i) ∧ fs.nlink i ≤ 1 ∧
      bytes = ((fs.data i).drop offset).take length := by
  obtain ⟨d, hd1, hd2, hd3⟩ := C10_load_base_is_model_dir fs kfuel cwd cwd' hcwd p ml hn hopen
  have hne : loadBaseJoin (render cwd) p ≠ [] := pjoin_ne_nil _ _ (loadDir_ne_nil p)
  obtain ⟨i, hbytes, l, hk, hg, hnl, _, hbl, _, _⟩ :=
    C10_read_safe fs kfuel fuel cwd' hcwd' hfuel (loadBaseJoin (render cwd) p) loc offset length ep bytes
      hne h
  exact ⟨d, l, i, hd1, hd2, hd3, hk, hbl d hd1, hg, hnl, hbytes⟩

example : tailPart "a//m.onnx".toList = "m.onnx".toList ∧ loadDir "a//m.onnx".toList = "a".toList := by
  decide
example : loadBaseJoin "/w".toList "x/../m.onnx".toList = "/w/x/..".toList := by decide
example : loadBaseAbs "/w".toList "x/../m.onnx".toList = "/w".toList := by decide

end IrVerif.Path

/-! ### non-vacuity of C10_read_safe: a tree /b/f on which a guarded read returns bytes -/
namespace IrVerif.Path

def exFS : FS where
  node := fun l => if l = [['b']] then some Node.dir
    else if l = [['b'], ['f']] then some (Node.file 1) else none
  dnlink := fun _ => 2
  nlink := fun _ => 1
  data := fun _ => [10, 20, 30]

theorem exFS_b : RealDir exFS [['b']] :=
  ⟨by simpa using Chain.snoc (RealDir.root exFS) (c := ['b']) ⟨by decide, by decide, by decide, by decide⟩, by decide⟩

theorem exFS_bf : Chain exFS [['b'], ['f']] := by
  simpa using Chain.snoc exFS_b (c := ['f']) ⟨by decide, by decide, by decide, by decide⟩

example : (read exFS 40 40 (render []) [] "/b".toList "f".toList 0 3 EntryPoint.numpy).1 =
    ReadResult.ok [10, 20, 30] := by
  have hk : kresolve exFS 40 [] "/b/f".toList true = some [['b'], ['f']] :=
    kresolve_render exFS 40 [] _ exFS_bf (Node.file 1) (by decide) (by intro t; simp)
  have hkb : kresolve exFS 40 [] "/b".toList true = some [['b']] :=
    kresolve_render exFS 40 [] _ exFS_b.1 Node.dir (by decide) (by intro t; simp)
  have hp : tensorPath "/b".toList "f".toList = "/b/f".toList := by decide
  have r1 := (realpath_of_kresolve exFS 40 40 [] (RealDir.root exFS) _ 40 _ hk (Nat.le_refl _)).1
  have r2 := (realpath_of_kresolve exFS 40 40 [] (RealDir.root exFS) _ 40 _ hkb (Nat.le_refl _)).1
  have hv : checkContainment exFS 40 40 (render []) [] "/b".toList "f".toList = Verdict.pass := by
    have c1 : check1 (render []) "/b".toList "f".toList = true := by decide
    have c2 : check2 exFS 40 40 (render []) [] "/b".toList "f".toList = true := by
      unfold check2; rw [hp, r1, r2]; decide
    have c3 : check3 exFS 40 40 (render []) [] "/b".toList "f".toList = true := by
      unfold check3 statNlink
      rw [hp, r1]
      have : kresolve exFS 40 [] (render [['b'], ['f']]) true = some [['b'], ['f']] := hk
      rw [this]
      decide
    unfold checkContainment
    rw [if_neg (by decide), if_neg (by rw [c1]; simp), if_neg (by rw [c2]; simp),
      if_neg (by rw [c3]; simp)]
  have ho : openFile exFS 40 [] "/b/f".toList = some 1 := by
    unfold openFile; rw [hk]; decide
  unfold read
  rw [hv]
  simp only [hp, ho]
  decide

end IrVerif.Path

/-! ### calls on a tensor with cached state, sequences of calls -/
namespace IrVerif.Path

theorem loadStep_events (fs : FS) (kfuel fuel : Nat) (cwdS : Str) (cwd : Loc) (base loc : Str)
    (offset length : Nat) (st : TState) (ep : EntryPoint) :
    (loadStep fs kfuel fuel cwdS cwd base loc offset length st).2.1 =
      (read fs kfuel fuel cwdS cwd base loc offset length ep).2 := by
  have hep := (C10_all_entry_points fs kfuel fuel cwdS cwd base loc offset length ep _ rfl).2.2.2
    EntryPoint.numpy
  unfold loadStep
  simp only
  split
  · exact hep
  · split
    · exact hep
    · split <;> exact hep

theorem openedIno_event (fs : FS) (kfuel fuel : Nat) (cwdS : Str) (cwd : Loc) (base loc : Str)
    (offset length : Nat) (ep : EntryPoint) (i : Nat)
    (h : openedIno fs kfuel fuel cwdS cwd base loc = some i) :
    Ev.openEv (tensorPath base loc) (some i) ∈
      (read fs kfuel fuel cwdS cwd base loc offset length ep).2 := by
  unfold openedIno at h
  unfold read
  cases hv : checkContainment fs kfuel fuel cwdS cwd base loc <;> simp only [hv] at h ⊢ <;>
    first
    | exact absurd h (by simp)
    | (rw [h]; simp)

/-- the state after a load maps what was mapped before, or the inode this very load opened -/
theorem loadStep_raw (fs : FS) (kfuel fuel : Nat) (cwdS : Str) (cwd : Loc) (base loc : Str)
    (offset length : Nat) (st : TState) (i : Nat)
    (h : (loadStep fs kfuel fuel cwdS cwd base loc offset length st).2.2.raw = some i) :
    st.raw = some i ∨ openedIno fs kfuel fuel cwdS cwd base loc = some i := by
  unfold loadStep at h
  simp only at h
  split at h
  · exact Or.inl h
  · rename_i j hj
    split at h
    · exact Or.inl h
    · split at h <;> (simp only [Option.some.injEq] at h; subst h; exact Or.inr hj)

theorem loadThen_events (fs : FS) (kfuel fuel : Nat) (cwdS : Str) (cwd : Loc) (base loc : Str)
    (offset length : Nat) (st : TState) (fin : TState → TState) :
    (loadThen fs kfuel fuel cwdS cwd base loc offset length st fin).2.1 =
      (loadStep fs kfuel fuel cwdS cwd base loc offset length st).2.1 := by
  unfold loadThen
  simp only
  split <;> rfl

/-- **C10_call_events**: whatever the cached state, the events of one call of an entry point are
either none at all (only for a non-`tofile` entry point of a tensor that is already mapped: it is
served from the mapping and opens nothing), or exactly the check-then-open events of a guarded
read (`read`): the check is made on EVERY call that opens the path; `tofile` always is such a
call and its result does not depend on the cached state. -/
theorem C10_call_events (fs : FS) (kfuel fuel : Nat) (cwdS : Str) (cwd : Loc) (base loc : Str)
    (offset length : Nat) (ep : EntryPoint) (st : TState) :
    ((call fs kfuel fuel cwdS cwd base loc offset length ep st).2.1 = [] ∧
        ep ≠ EntryPoint.tofile ∧ st.raw ≠ none) ∨
    (call fs kfuel fuel cwdS cwd base loc offset length ep st).2.1 =
        (read fs kfuel fuel cwdS cwd base loc offset length ep).2 := by
  have hl := loadStep_events fs kfuel fuel cwdS cwd base loc offset length st ep
  have ht := loadThen_events fs kfuel fuel cwdS cwd base loc offset length st
  have hep := (C10_all_entry_points fs kfuel fuel cwdS cwd base loc offset length EntryPoint.tofile _ rfl).2.2.2 ep
  cases ep with
  | tofile => right; rfl
  | tobytes =>
    unfold call
    cases hr : st.raw with
    | some i => left; simp
    | none => right; simp only; rw [ht, hl]
  | numpy =>
    unfold call
    simp only
    split
    · rename_i i ha hr; left; simp [hr]
    · right; rw [ht, hl]
  | array =>
    unfold call
    simp only
    split
    · rename_i i ha hr; left; simp [hr]
    · right; rw [ht, hl]
  | serializeRaw =>
    unfold call
    simp only
    split
    · rename_i i ha hr; left; simp [hr]
    · right; rw [ht, hl]

theorem read_ok (fs : FS) (kfuel fuel : Nat) (cwdS : Str) (cwd : Loc) (base loc : Str)
    (offset length : Nat) (ep : EntryPoint) (bytes : List Nat)
    (h : (read fs kfuel fuel cwdS cwd base loc offset length ep).1 = ReadResult.ok bytes) :
    ∃ i, openedIno fs kfuel fuel cwdS cwd base loc = some i ∧
      bytes = sliceOf (fs.data i) offset length := by
  unfold read at h
  unfold openedIno
  cases hv : checkContainment fs kfuel fuel cwdS cwd base loc <;> simp only [hv] at h ⊢ <;>
    first
    | exact absurd h (by simp)
    | (cases ho : openFile fs kfuel cwd (tensorPath base loc) with
       | none => simp [ho] at h
       | some i =>
         simp only [ho] at h
         exact ⟨i, rfl, (produce_ok _ _ _ _ _ h).1⟩)

theorem loadStep_ok (fs : FS) (kfuel fuel : Nat) (cwdS : Str) (cwd : Loc) (base loc : Str)
    (offset length : Nat) (st : TState)
    (h : (loadStep fs kfuel fuel cwdS cwd base loc offset length st).1 = true) :
    ∃ i, openedIno fs kfuel fuel cwdS cwd base loc = some i ∧
      (loadStep fs kfuel fuel cwdS cwd base loc offset length st).2.2 = { raw := some i, arr := true } := by
  unfold loadStep at h ⊢
  cases hoi : openedIno fs kfuel fuel cwdS cwd base loc with
  | none => simp [hoi] at h
  | some j =>
    simp only [hoi] at h ⊢
    by_cases h1 : fs.data j = []
    · simp [h1] at h
    · by_cases h2 : (fs.data j).length < offset + length
      · simp [h1, h2] at h
      · exact ⟨j, rfl, by simp [h1, h2]⟩

theorem loadThen_ok (fs : FS) (kfuel fuel : Nat) (cwdS : Str) (cwd : Loc) (base loc : Str)
    (offset length : Nat) (st : TState) (fin : TState → TState) (bytes : List Nat)
    (h : (loadThen fs kfuel fuel cwdS cwd base loc offset length st fin).1 = ReadResult.ok bytes) :
    ∃ i, openedIno fs kfuel fuel cwdS cwd base loc = some i ∧
      bytes = sliceOf (fs.data i) offset length := by
  unfold loadThen at h
  simp only at h
  split at h
  · rename_i i h1 h2
    obtain ⟨j, hj, hst⟩ := loadStep_ok _ _ _ _ _ _ _ _ _ _ h1
    rw [hst] at h2
    simp only [Option.some.injEq] at h2
    subst h2
    simp only [ReadResult.ok.injEq] at h
    exact ⟨j, hj, h.symm⟩
  · simp at h

theorem loadThen_raw (fs : FS) (kfuel fuel : Nat) (cwdS : Str) (cwd : Loc) (base loc : Str)
    (offset length : Nat) (st : TState) (fin : TState → TState)
    (hfin : ∀ s i, (fin s).raw = some i → s.raw = some i) (i : Nat)
    (h : (loadThen fs kfuel fuel cwdS cwd base loc offset length st fin).2.2.raw = some i) :
    st.raw = some i ∨ openedIno fs kfuel fuel cwdS cwd base loc = some i := by
  unfold loadThen at h
  simp only at h
  split at h
  · exact loadStep_raw _ _ _ _ _ _ _ _ _ _ _ (hfin _ _ h)
  · exact loadStep_raw _ _ _ _ _ _ _ _ _ _ _ h

/-- **C10_call_open_safe**: with a non-empty base directory, every file opened by ANY call of any
entry point, whatever the tensor's cached state (mapped or not), is a safe open. -/
theorem C10_call_open_safe (fs : FS) (kfuel fuel : Nat) (cwd : Loc) (hcwd : RealDir fs cwd)
    (hfuel : kfuel ≤ fuel) (base loc : Str) (offset length : Nat) (ep : EntryPoint) (st : TState)
    (hb : base ≠ []) (p : Str) (i : Nat)
    (h : Ev.openEv p (some i) ∈ (call fs kfuel fuel (render cwd) cwd base loc offset length ep st).2.1) :
    p = tensorPath base loc ∧ SafeOpen fs kfuel fuel cwd base loc i := by
  rcases C10_call_events fs kfuel fuel (render cwd) cwd base loc offset length ep st with ⟨he, _, _⟩ | he
  · rw [he] at h; simp at h
  · rw [he] at h
    exact C10_open_safe fs kfuel fuel cwd hcwd hfuel base loc offset length ep hb p i h

/-- **C10_call_result**: bytes returned by a call are the requested slice of the inode this call
opened (after its own check), or, when the call opened nothing, of the inode the tensor had mapped
before; and the inode mapped after the call is the one mapped before or the one this call opened. -/
theorem C10_call_result (fs : FS) (kfuel fuel : Nat) (cwdS : Str) (cwd : Loc) (base loc : Str)
    (offset length : Nat) (ep : EntryPoint) (st : TState) :
    (∀ bytes, (call fs kfuel fuel cwdS cwd base loc offset length ep st).1 = ReadResult.ok bytes →
      ∃ i, bytes = sliceOf (fs.data i) offset length ∧
        (Ev.openEv (tensorPath base loc) (some i) ∈
            (call fs kfuel fuel cwdS cwd base loc offset length ep st).2.1 ∨
          ((call fs kfuel fuel cwdS cwd base loc offset length ep st).2.1 = [] ∧ st.raw = some i))) ∧
    (∀ i, (call fs kfuel fuel cwdS cwd base loc offset length ep st).2.2.raw = some i →
      st.raw = some i ∨ Ev.openEv (tensorPath base loc) (some i) ∈
        (call fs kfuel fuel cwdS cwd base loc offset length ep st).2.1) := by
  have hev := fun i (h : openedIno fs kfuel fuel cwdS cwd base loc = some i) =>
    openedIno_event fs kfuel fuel cwdS cwd base loc offset length ep i h
  have hl := loadStep_events fs kfuel fuel cwdS cwd base loc offset length st ep
  have ht := loadThen_events fs kfuel fuel cwdS cwd base loc offset length st
  have hfinid : ∀ (s : TState) (i : Nat), (id s).raw = some i → s.raw = some i := fun _ _ h => h
  cases ep with
  | tofile =>
    refine ⟨?_, fun i h => Or.inl h⟩
    intro bytes h
    obtain ⟨i, hi, hb⟩ := read_ok _ _ _ _ _ _ _ _ _ _ _ h
    exact ⟨i, hb, Or.inl (hev i hi)⟩
  | tobytes =>
    unfold call
    cases hr : st.raw with
    | some j =>
      simp only
      refine ⟨?_, fun i h => Or.inl (hr ▸ h)⟩
      intro bytes h
      simp only [ReadResult.ok.injEq] at h
      exact ⟨j, h.symm, Or.inr ⟨by simp, by simp⟩⟩
    | none =>
      simp only
      refine ⟨?_, ?_⟩
      · intro bytes h
        obtain ⟨i, hi, hb⟩ := loadThen_ok _ _ _ _ _ _ _ _ _ _ _ _ h
        exact ⟨i, hb, Or.inl (by rw [ht, hl]; exact hev i hi)⟩
      · intro i h
        rcases loadThen_raw _ _ _ _ _ _ _ _ _ _ _ hfinid i h with h' | h'
        · rw [hr] at h'; exact absurd h' (by simp)
        · exact Or.inr (by rw [ht, hl]; exact hev i h')
  | numpy =>
    unfold call
    simp only
    have hfin : ∀ (s : TState) (i : Nat),
        ((fun (s : TState) => if EntryPoint.numpy = EntryPoint.serializeRaw then TState.fresh else s) s).raw
          = some i → s.raw = some i := by
      intro s i h; simpa using h
    split
    · rename_i j ha hr
      refine ⟨?_, ?_⟩
      · intro bytes h
        simp only [ReadResult.ok.injEq] at h
        exact ⟨j, h.symm, Or.inr ⟨rfl, hr⟩⟩
      · intro i h; exact Or.inl (hfin _ _ h)
    · refine ⟨?_, ?_⟩
      · intro bytes h
        obtain ⟨i, hi, hb⟩ := loadThen_ok _ _ _ _ _ _ _ _ _ _ _ _ h
        exact ⟨i, hb, Or.inl (by rw [ht, hl]; exact hev i hi)⟩
      · intro i h
        rcases loadThen_raw _ _ _ _ _ _ _ _ _ _ _ hfin i h with h' | h'
        · exact Or.inl h'
        · exact Or.inr (by rw [ht, hl]; exact hev i h')
  | array =>
    unfold call
    simp only
    have hfin : ∀ (s : TState) (i : Nat),
        ((fun (s : TState) => if EntryPoint.array = EntryPoint.serializeRaw then TState.fresh else s) s).raw
          = some i → s.raw = some i := by
      intro s i h; simpa using h
    split
    · rename_i j ha hr
      refine ⟨?_, ?_⟩
      · intro bytes h
        simp only [ReadResult.ok.injEq] at h
        exact ⟨j, h.symm, Or.inr ⟨rfl, hr⟩⟩
      · intro i h; exact Or.inl (hfin _ _ h)
    · refine ⟨?_, ?_⟩
      · intro bytes h
        obtain ⟨i, hi, hb⟩ := loadThen_ok _ _ _ _ _ _ _ _ _ _ _ _ h
        exact ⟨i, hb, Or.inl (by rw [ht, hl]; exact hev i hi)⟩
      · intro i h
        rcases loadThen_raw _ _ _ _ _ _ _ _ _ _ _ hfin i h with h' | h'
        · exact Or.inl h'
        · exact Or.inr (by rw [ht, hl]; exact hev i h')
  | serializeRaw =>
    unfold call
    simp only
    have hfin : ∀ (s : TState) (i : Nat),
        ((fun (s : TState) => if EntryPoint.serializeRaw = EntryPoint.serializeRaw then TState.fresh else s) s).raw
          = some i → s.raw = some i := by
      intro s i h; simp [TState.fresh] at h
    split
    · rename_i j ha hr
      refine ⟨?_, ?_⟩
      · intro bytes h
        simp only [ReadResult.ok.injEq] at h
        exact ⟨j, h.symm, Or.inr ⟨rfl, hr⟩⟩
      · intro i h; exact Or.inl (hfin _ _ h)
    · refine ⟨?_, ?_⟩
      · intro bytes h
        obtain ⟨i, hi, hb⟩ := loadThen_ok _ _ _ _ _ _ _ _ _ _ _ _ h
        exact ⟨i, hb, Or.inl (by rw [ht, hl]; exact hev i hi)⟩
      · intro i h
        rcases loadThen_raw _ _ _ _ _ _ _ _ _ _ _ hfin i h with h' | h'
        · exact Or.inl h'
        · exact Or.inr (by rw [ht, hl]; exact hev i h')

/-- every log entry of a session is the output of a `call` in the tree / base of that moment -/
theorem runSess_entries (kfuel fuel : Nat) (cwdS : Str) (cwd : Loc) (loc : Str) (offset length : Nat) :
    ∀ (steps : List Step) (s : Sess), ∀ e ∈ (runSess kfuel fuel cwdS cwd loc offset length s steps).2,
      ∃ st, e.events = (call e.fs kfuel fuel cwdS cwd e.base loc offset length e.ep st).2.1 ∧
        e.res = (call e.fs kfuel fuel cwdS cwd e.base loc offset length e.ep st).1 := by
  intro steps
  induction steps with
  | nil => intro s e he; simp [runSess] at he
  | cons x xs ih =>
    intro s e he
    cases x with
    | setFS fs => simp only [runSess, stepSess] at he; exact ih _ e he
    | setBase b => simp only [runSess, stepSess] at he; exact ih _ e he
    | release => simp only [runSess, stepSess] at he; exact ih _ e he
    | call ep =>
      simp only [runSess, stepSess, List.mem_cons] at he
      rcases he with rfl | he
      · exact ⟨s.st, rfl, rfl⟩
      · exact ih _ e he

theorem runSess_bytes (kfuel fuel : Nat) (cwdS : Str) (cwd : Loc) (loc : Str) (offset length : Nat) :
    ∀ (steps : List Step) (s : Sess) (P : Nat → Prop), (∀ i, s.st.raw = some i → P i) →
      ∀ e ∈ (runSess kfuel fuel cwdS cwd loc offset length s steps).2, ∀ bytes,
        e.res = ReadResult.ok bytes →
        ∃ i, bytes = sliceOf (e.fs.data i) offset length ∧
          (P i ∨ ∃ e' ∈ (runSess kfuel fuel cwdS cwd loc offset length s steps).2,
            Ev.openEv (tensorPath e'.base loc) (some i) ∈ e'.events) := by
  intro steps
  induction steps with
  | nil => intro s P _ e he; simp [runSess] at he
  | cons x xs ih =>
    intro s P hP e he bytes hb
    cases x with
    | setFS fs =>
      simp only [runSess, stepSess] at he ⊢
      exact ih { s with fs := fs } P hP e he bytes hb
    | setBase b =>
      simp only [runSess, stepSess] at he ⊢
      exact ih { s with base := b } P hP e he bytes hb
    | release =>
      simp only [runSess, stepSess] at he ⊢
      exact ih { s with st := TState.fresh } P (by intro i h; simp [TState.fresh] at h) e he bytes hb
    | call ep =>
      simp only [runSess, stepSess, List.mem_cons] at he ⊢
      obtain ⟨hres, hstate⟩ := C10_call_result s.fs kfuel fuel cwdS cwd s.base loc offset length ep s.st
      rcases he with rfl | he
      · obtain ⟨i, hi, hor⟩ := hres bytes hb
        refine ⟨i, hi, ?_⟩
        rcases hor with hev | ⟨_, hraw⟩
        · exact Or.inr ⟨_, Or.inl rfl, hev⟩
        · exact Or.inl (hP i hraw)
      · have := ih _ (fun i => P i ∨ Ev.openEv (tensorPath s.base loc) (some i) ∈
            (call s.fs kfuel fuel cwdS cwd s.base loc offset length ep s.st).2.1)
          (by
            intro i h
            rcases hstate i h with h' | h'
            · exact Or.inl (hP i h')
            · exact Or.inr h') e he bytes hb
        obtain ⟨i, hi, hor⟩ := this
        refine ⟨i, hi, ?_⟩
        rcases hor with (hp | hev) | ⟨e', he', hev⟩
        · exact Or.inl hp
        · exact Or.inr ⟨_, Or.inl rfl, hev⟩
        · exact Or.inr ⟨e', Or.inr he', hev⟩

/-- **C10_session_safe**: for every sequence of steps in the life of an external tensor (calls of
any entry point, arbitrary changes of the tree between calls, re-assignments of `base_dir`,
`release()`), starting unmapped: (1) every file opened by any call is a safe open with respect to
the tree and the base directory at the time of THAT call (every call that opens the path makes the
check first; a cached mapping never replaces the check); (2) every byte sequence a call returns is
the slice of an inode that this call or an earlier call of the sequence opened (so, by (1), opened
safely at that time): a mapped tensor is served from its mapping, which was obtained through a
checked open. -/
theorem C10_session_safe (kfuel fuel : Nat) (cwd : Loc) (hfuel : kfuel ≤ fuel) (loc : Str)
    (offset length : Nat) (s0 : Sess) (h0 : s0.st.raw = none) (steps : List Step)
    (e : LogEntry) (he : e ∈ (runSess kfuel fuel (render cwd) cwd loc offset length s0 steps).2) :
    (∀ p i, e.base ≠ [] → RealDir e.fs cwd → Ev.openEv p (some i) ∈ e.events →
      p = tensorPath e.base loc ∧ SafeOpen e.fs kfuel fuel cwd e.base loc i) ∧
    (∀ bytes, e.res = ReadResult.ok bytes →
      ∃ i, bytes = sliceOf (e.fs.data i) offset length ∧
        ∃ e' ∈ (runSess kfuel fuel (render cwd) cwd loc offset length s0 steps).2,
          Ev.openEv (tensorPath e'.base loc) (some i) ∈ e'.events) := by
  refine ⟨?_, ?_⟩
  · intro p i hb hcwd hm
    obtain ⟨st, hev, _⟩ := runSess_entries kfuel fuel (render cwd) cwd loc offset length steps s0 e he
    rw [hev] at hm
    exact C10_call_open_safe e.fs kfuel fuel cwd hcwd hfuel e.base loc offset length e.ep st hb p i hm
  · intro bytes hb
    obtain ⟨i, hi, hor⟩ := runSess_bytes kfuel fuel (render cwd) cwd loc offset length steps s0
      (fun _ => False) (by intro i h; rw [h0] at h; exact absurd h (by simp)) e he bytes hb
    rcases hor with hf | h
    · exact absurd hf id
    · exact ⟨i, hi, h⟩

/-- the stateful pattern of a skipped re-check is excluded: after a mapping call, `tofile` on a
tensor whose location now leads outside still makes the check (its events are those of a fresh
guarded read, whatever the cached state) -/
example (fs : FS) (kfuel fuel : Nat) (cwdS : Str) (cwd : Loc) (base loc : Str) (offset length : Nat)
    (st : TState) :
    (call fs kfuel fuel cwdS cwd base loc offset length EntryPoint.tofile st).2.1 =
      (read fs kfuel fuel cwdS cwd base loc offset length EntryPoint.tofile).2 := rfl

end IrVerif.Path

/-! ### `load()` gives EVERY external tensor of the model the base directory -/
namespace IrVerif.Path

mutual
theorem reachGraph_sub : ∀ (g : GTree) (x : String), x ∈ reachGraph g → x ∈ g.inits ∨ x ∈ walkGraphNodes g
  | GTree.mk i nodes, x, h => by
    simp only [reachGraph, List.mem_append] at h
    rcases h with h | h
    · exact Or.inl h
    · exact Or.inr (by simpa [walkGraphNodes] using reachNodes_sub nodes x h)
theorem reachNodes_sub : ∀ (ns : List NTree) (x : String), x ∈ reachNodes ns → x ∈ walkNodes ns
  | [], x, h => by simp [reachNodes] at h
  | n :: ns, x, h => by
    simp only [reachNodes, List.mem_append] at h
    simp only [walkNodes, List.mem_append]
    rcases h with h | h
    · exact Or.inl (reachNode_sub n x h)
    · exact Or.inr (reachNodes_sub ns x h)
theorem reachNode_sub : ∀ (n : NTree) (x : String), x ∈ reachNode n → x ∈ walkNode n
  | NTree.mk ta gs, x, h => by
    simp only [reachNode, List.mem_append] at h
    simp only [walkNode, List.mem_append]
    rcases h with h | h
    · exact Or.inl (Or.inl h)
    · rcases reachGraphs_sub gs x h with h' | h'
      · exact Or.inl (Or.inr h')
      · exact Or.inr h'
theorem reachGraphs_sub : ∀ (gs : List GTree) (x : String), x ∈ reachGraphs gs →
    x ∈ initsOf gs ∨ x ∈ walkGraphs gs
  | [], x, h => by simp [reachGraphs] at h
  | g :: gs, x, h => by
    simp only [reachGraphs, List.mem_append] at h
    simp only [initsOf, walkGraphs, List.mem_append]
    rcases h with h | h
    · rcases reachGraph_sub g x h with h' | h'
      · exact Or.inl (Or.inl h')
      · exact Or.inr (Or.inl h')
    · rcases reachGraphs_sub gs x h with h' | h'
      · exact Or.inl (Or.inr h')
      · exact Or.inr (Or.inr h')
end

theorem reachFuncs_sub : ∀ (fs : List GTree) (x : String), x ∈ reachFuncs fs → x ∈ funcsTensors fs
  | [], x, h => by simp [reachFuncs] at h
  | f :: fs, x, h => by
    simp only [reachFuncs, List.mem_append] at h
    simp only [funcsTensors, List.mem_append]
    rcases h with h | h
    · left
      unfold allTensors
      rcases reachGraph_sub f x h with h' | h'
      · exact List.mem_append.mpr (Or.inl h')
      · exact List.mem_append.mpr (Or.inr h')
    · exact Or.inr (reachFuncs_sub fs x h)

/-- **C10_load_all_positions**: what `load()` assigns the base directory to (`set_base_dir` on the
main graph and on the body of every model-local function; the walker `_all_tensors` with
attributes over `RecursiveGraphIterator`) covers EVERY tensor position of the model: initializers
and TENSOR/TENSORS attribute tensors of the main graph, of every function body and of every graph
nested in them at any depth through GRAPH/GRAPHS attributes.  Hence after `load(p)` every external
tensor of the model has the base directory `loadBase cwd p`, which is never empty and absolute
(C10_load_base_nonempty). -/
theorem C10_load_all_positions (main : GTree) (funcs : List GTree) (p : Str) (x : String)
    (hx : x ∈ reachModel main funcs) :
    x ∈ loadTensors main funcs ∧
    (∀ (cwdS : Str), isabs cwdS = true → ∀ (baseOf : String → Str),
      (∀ y ∈ loadTensors main funcs, baseOf y = loadBase cwdS p) →
      baseOf x = loadBase cwdS p ∧ baseOf x ≠ []) := by
  have hmem : x ∈ loadTensors main funcs := by
    unfold loadTensors
    unfold reachModel at hx
    rcases List.mem_append.mp hx with h | h
    · apply List.mem_append.mpr; left
      unfold allTensors
      rcases reachGraph_sub main x h with h' | h'
      · exact List.mem_append.mpr (Or.inl h')
      · exact List.mem_append.mpr (Or.inr h')
    · exact List.mem_append.mpr (Or.inr (reachFuncs_sub funcs x h))
  refine ⟨hmem, ?_⟩
  intro cwdS hc baseOf hset
  have := hset x hmem
  exact ⟨this, by rw [this]; exact (C10_load_base_nonempty cwdS p hc).1⟩

/-- before D180 only the main graph was walked: a tensor attribute in a function body was missed -/
example : "f_attr" ∈ reachModel (GTree.mk [] []) [GTree.mk [] [NTree.mk ["f_attr"] []]] ∧
    "f_attr" ∉ allTensors (GTree.mk [] []) ∧
    "f_attr" ∈ loadTensors (GTree.mk [] []) [GTree.mk [] [NTree.mk ["f_attr"] []]] := by decide

/-- the seeded shallow walker (`for node in graph`) misses a tensor attribute of a node inside an
If branch and an initializer two levels down: the theorem is about the recursive walker -/
example :
    let inner := GTree.mk ["deep_init"] []
    let branch := GTree.mk ["d1_init"] [NTree.mk ["d1_attr"] [inner]]
    let g := GTree.mk ["main_init"] [NTree.mk ["main_attr"] [branch]]
    "d1_attr" ∈ reachGraph g ∧ "deep_init" ∈ reachGraph g ∧
    "d1_attr" ∉ allTensorsShallow g ∧ "deep_init" ∉ allTensorsShallow g ∧
    "d1_attr" ∈ allTensors g ∧ "deep_init" ∈ allTensors g := by
  decide

end IrVerif.Path

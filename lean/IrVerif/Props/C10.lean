/-
C10 — external tensor reads never escape the model directory: property theorems.
Model: `IrVerif/Model/Path.lean`; helper lemmas: `IrVerif/Lemmas/Path*.lean`.

Round 3 (deepening) added, next to the round-1/2 theorems: `C10_nul_rejected` (NUL characters are in
the model: check 2 raises), `C10_eloop_no_open` (a path the kernel does not resolve within its
symlink bound is never opened, whatever `os.path.realpath` said), `C10_fuel_discharged` (the
recursion bound of the transcribed `realpath` is discharged by the kernel's bound: every
`fuel ≥ kfuel` gives the outcome of `fuel = kfuel`), `C10_zero_size` (zero-size tensors: `bodyZ`),
and `C10_world_safe` (supersedes `C10_session_safe`: several tensors, `base_dir` values of type str /
os.PathLike / bytes, and every public way of re-basing: setter, `set_base_dir`, `load_to_model`,
`convert_tensors_from_external`; a clone shares the tensor objects).  Entry-point completeness
(`body` lists ALL places where onnx_ir opens a location-derived path) is tied to /repo by the static
scan in harness/c10.py (FILE_SITES / PATH_USERS), not by a theorem.

Round 4: the kernel walk counts ALL symbolic links followed in one resolution (Linux: MAXSYMLINKS = 40
in total, not a nesting depth); every theorem above was re-proved for it with unchanged statement, and
`C10_eloop_counts_all_links` states the counting.  Added: `C10_world_chdir_opens` (histories with
`os.chdir`), `C10_bytes_location` (a bytes location), and - for the check as repaired after D451 / D452 /
D453 and the model with PATH_MAX at every `os.lstat` / `os.stat` - `C10_pathmax_verified_partial` and
`C10_pathmax_safe` (safe open from the samestat + fixed-point cross-check, under the decidable
hypothesis that the two `realpath` answers are link-free, evaluated on every generated case).

Round 5: that hypothesis was meant to follow from the fixed-point condition of D453 ("a fixed point of the
blind realpath that is shorter than PATH_MAX and that the kernel resolves is link-free").  It does NOT: a
non-strict `realpath` reports a loop by returning its input, and an entry it cannot lstat followed by
lexically stripped ".." can lead it back to the link it is resolving (D454, a genuine escape).  The
check was repaired once more (prefix walk `noLinkOn` over both answers) and `C10_pathmax_safe_full` proves
the safe open from the check alone.  `C10_blind_safe` generalises it to ANY restriction of `os.lstat` /
`os.stat` / `open` (`Sys`, `SysOK`: ENAMETOOLONG, EACCES, whatever errno), `C10_eacces_safe` is the
instance with per-directory search permissions (`walkA`, `sysA`; the PATH_MAX model is the instance
`sysP`: `checkContainmentP_eq_V`).  `C10_world_chdir_safe` extends the bytes-provenance half of
`C10_world_safe` to histories with `os.chdir`.
-/
import IrVerif.Lemmas.PathReal
import IrVerif.Lemmas.PathLoad
import IrVerif.Lemmas.PathCall
import IrVerif.Lemmas.PathWorld
import IrVerif.Lemmas.PathNoLink
import IrVerif.Lemmas.PathSys
namespace IrVerif.Path

/-- **C10_lexical**: when check 1 (_core.py:789-799) passes, the components of
`normpath(abspath(join(base, loc)))` extend those of `normpath(abspath(base))` *component-wise*
(so a sibling such as /a/bc of the base /a/b is excluded, and a root base is handled), and both
are made only of entry names (no "", ".", ".." and no separator inside a component): the path
stays lexically inside the base.  For every cwd, base spelling and location. -/
theorem C10_lexical (cwd base loc : Str) (hcwd : isabs cwd = true)
    (h : check1 cwd base loc = true) :
    comps (abspath cwd base) <+: comps (abspath cwd (tensorPath base loc)) ∧
    (∀ c ∈ comps (abspath cwd (tensorPath base loc)), Clean c) ∧
    (∀ c ∈ comps (abspath cwd base), Clean c) := by
  refine ⟨contained_comps _ _ h, ?_, ?_⟩
  · unfold abspath
    rw [comps_normpath_abs _ (isabs_abspath_arg cwd _ hcwd)]
    exact normStack_clean _
  · unfold abspath
    rw [comps_normpath_abs _ (isabs_abspath_arg cwd _ hcwd)]
    exact normStack_clean _

/- non-vacuity and the named corner cases of C10_lexical -/
example : check1 "/w".toList "/a/b".toList "d/f".toList = true := by decide
example : check1 "/w".toList "/a/b".toList "../bc/f".toList = false := by decide   -- prefix sibling
example : check1 "/w".toList "/a/b".toList "../b/f".toList = true := by decide
example : check1 "/w".toList "/".toList "etc/passwd".toList = true := by decide     -- root base
example : check1 "/w".toList "sub/".toList "/w/sub/f".toList = true := by decide   -- relative base
example : check1 "/w".toList "sub".toList "../f".toList = false := by decide
example : ¬ (comps "/a/b".toList <+: comps "/a/bc/f".toList) := by decide

theorem isabs_normpath_abs (p : Str) (h : isabs p = true) : isabs (normpath p) = true := by
  rw [normpath_abs p h]
  have := splitroot_abs p h
  cases hn : (splitroot p).1 with
  | zero => exact absurd hn this
  | succ n => simp [List.replicate_succ, isabs]

/-- **C10_load_base_nonempty**: for every spelling of the model path (absolute, relative, "./x",
bare name, trailing separators, empty) and every load-time working directory, the base directory
`load()` assigns (_io.py:37-41) is non-empty, so the containment checks are never disabled for a
loaded model, and absolute, so a later chdir cannot change what it names. -/
theorem C10_load_base_nonempty (cwdS modelPath : Str) (hcwd : isabs cwdS = true) :
    loadBase cwdS modelPath ≠ [] ∧ isabs (loadBase cwdS modelPath) = true := by
  have h : isabs (loadBase cwdS modelPath) = true := by
    unfold loadBase pjoin
    by_cases ha : isabs (loadDir modelPath) = true
    · simp [ha]
    · have hne : cwdS ≠ [] := by intro e; rw [e] at hcwd; simp [isabs] at hcwd
      simp only [ha, Bool.false_eq_true, if_false, hne, false_or]
      split
      · rw [isabs_append _ _ hne]; exact hcwd
      · rw [isabs_append _ _ hne]; exact hcwd
  refine ⟨?_, h⟩
  intro e
  rw [e] at h
  simp [isabs] at h

/-- D23 on the derivation before the fix: a bare file name gives the empty base directory. -/
example : loadBaseUnfixed "model.onnx".toList = [] := by decide
example : loadBase "/w".toList "model.onnx".toList = "/w/.".toList := by decide
example : loadBase "/w".toList "dir/model.onnx".toList = "/w/dir".toList := by decide

/-- check 2 passes: no NUL character in the base directory or the location, and the resolved path
is (character-wise) inside the resolved base -/
theorem check2_true (fs : FS) (kfuel fuel : Nat) (cwdS : Str) (cwd : Loc) (base loc : Str)
    (h : check2 fs kfuel fuel cwdS cwd base loc = true) :
    (hasNul base || hasNul loc) = false ∧
      contained (realpath fs kfuel fuel cwdS cwd base)
        (realpath fs kfuel fuel cwdS cwd (tensorPath base loc)) = true := by
  unfold check2 at h
  cases hn : (hasNul base || hasNul loc) with
  | true => simp [hn] at h
  | false => simpa [hn] using h

/-- **C10_real**: when check 2 (_core.py:802-810) passes, the components of
`realpath(join(base, loc))` extend those of `realpath(base)` component-wise, and both consist of
entry names only.  For every file system, cwd string, base spelling and location. -/
theorem C10_real (fs : FS) (kfuel fuel : Nat) (cwdS : Str) (cwd : Loc) (base loc : Str)
    (hcwd : isabs cwdS = true) (h : check2 fs kfuel fuel cwdS cwd base loc = true) :
    comps (realpath fs kfuel fuel cwdS cwd base) <+:
      comps (realpath fs kfuel fuel cwdS cwd (tensorPath base loc)) ∧
    (∀ c ∈ comps (realpath fs kfuel fuel cwdS cwd (tensorPath base loc)), Clean c) ∧
    (∀ c ∈ comps (realpath fs kfuel fuel cwdS cwd base), Clean c) := by
  refine ⟨contained_comps _ _ (check2_true _ _ _ _ _ _ _ h).2, ?_, ?_⟩ <;>
  · unfold realpath abspath
    rw [comps_normpath_abs _ (isabs_abspath_arg cwdS _ hcwd)]
    exact normStack_clean _

theorem checkContainment_pass (fs : FS) (kfuel fuel : Nat) (cwdS : Str) (cwd : Loc) (base loc : Str)
    (h : checkContainment fs kfuel fuel cwdS cwd base loc = Verdict.pass) :
    base ≠ [] ∧ check1 cwdS base loc = true ∧ check2 fs kfuel fuel cwdS cwd base loc = true ∧
      check3 fs kfuel fuel cwdS cwd base loc = true := by
  unfold checkContainment at h
  split at h
  · exact absurd h (by simp)
  · rename_i hb
    split at h
    · exact absurd h (by simp)
    · rename_i h1
      split at h
      · exact absurd h (by simp)
      · rename_i h2
        split at h
        · exact absurd h (by simp)
        · rename_i h3
          exact ⟨hb, by simpa using h1, by simpa using h2, by simpa using h3⟩

theorem checkContainment_skipped (fs : FS) (kfuel fuel : Nat) (cwdS : Str) (cwd : Loc) (base loc : Str)
    (h : checkContainment fs kfuel fuel cwdS cwd base loc = Verdict.skipped) : base = [] := by
  unfold checkContainment at h
  split at h
  · assumption
  · split at h
    · exact absurd h (by simp)
    · split at h
      · exact absurd h (by simp)
      · split at h <;> exact absurd h (by simp)

theorem openFile_some (fs : FS) (kfuel : Nat) (cwd : Loc) (p : Str) (i : Nat) (reg : Bool)
    (h : openFile fs kfuel cwd p = some (i, reg)) :
    ∃ l, kresolve fs kfuel cwd p true = some l ∧
      ((reg = true ∧ fs.get l = some (Node.file i)) ∨ (reg = false ∧ fs.get l = some (Node.other i))) := by
  unfold openFile at h
  split at h
  · exact absurd h (by simp)
  cases hk : kresolve fs kfuel cwd p true with
  | none => simp [hk] at h
  | some l =>
    simp only [hk] at h
    cases hg : fs.get l with
    | none => simp [hg] at h
    | some n =>
      cases n with
      | dir => simp [hg] at h
      | link t => simp [hg] at h
      | file j =>
        simp only [hg, Option.some.injEq, Prod.mk.injEq] at h
        obtain ⟨rfl, rfl⟩ := h
        exact ⟨l, rfl, Or.inl ⟨rfl, hg⟩⟩
      | other j =>
        simp only [hg, Option.some.injEq, Prod.mk.injEq] at h
        obtain ⟨rfl, rfl⟩ := h
        exact ⟨l, rfl, Or.inr ⟨rfl, hg⟩⟩

/-- what is known about a file a call opened: it is the REGULAR file `i` at the location `l` the
kernel resolved `join(base, loc)` to; it has at most one link; `l` lies component-wise below
`realpath(base)` and below the kernel's own resolution `bl` of the base whenever the base resolves;
`l` is reached through real directories only; the path is also lexically inside -/
def SafeOpen (fs : FS) (kfuel fuel : Nat) (cwd : Loc) (base loc : Str) (i : Nat) : Prop :=
  ∃ l, kresolve fs kfuel cwd (tensorPath base loc) true = some l ∧
    fs.get l = some (Node.file i) ∧
    fs.nlink i ≤ 1 ∧
    comps (realpath fs kfuel fuel (render cwd) cwd base) <+: l ∧
    (∀ bl, kresolve fs kfuel cwd base true = some bl → bl <+: l) ∧
    Chain fs l ∧
    comps (abspath (render cwd) base) <+: comps (abspath (render cwd) (tensorPath base loc))

theorem safeOpen_of_pass (fs : FS) (kfuel fuel : Nat) (cwd : Loc) (hcwd : RealDir fs cwd)
    (hfuel : kfuel ≤ fuel) (base loc : Str) (i : Nat) (reg : Bool)
    (hv : checkContainment fs kfuel fuel (render cwd) cwd base loc = Verdict.pass)
    (ho : openFile fs kfuel cwd (tensorPath base loc) = some (i, reg)) :
    SafeOpen fs kfuel fuel cwd base loc i := by
  obtain ⟨_, hc1, hc2, hc3⟩ := checkContainment_pass _ _ _ _ _ _ _ hv
  obtain ⟨l, hk, hkind⟩ := openFile_some _ _ _ _ _ _ ho
  obtain ⟨hrp, hchain⟩ := realpath_of_kresolve fs kfuel fuel cwd hcwd _ kfuel l hk hfuel
  have hin : comps (realpath fs kfuel fuel (render cwd) cwd base) <+: l := by
    have := contained_comps _ _ (check2_true _ _ _ _ _ _ _ hc2).2
    rwa [hrp, comps_render l hchain.1] at this
  -- check 3 stats the very string the open uses: the same object, regular, at most one link
  have hreg : fs.get l = some (Node.file i) ∧ fs.nlink i ≤ 1 := by
    unfold check3 at hc3
    unfold statFile at hc3
    rw [hk] at hc3
    rcases hkind with ⟨_, hg⟩ | ⟨_, hg⟩
    · simp only [hg] at hc3
      split at hc3
      · simp only [Bool.and_eq_true, decide_eq_true_eq] at hc3
        exact ⟨hg, hc3.1.2⟩
      · exact absurd hc3 (by simp)
    · simp only [hg] at hc3
      split at hc3
      · simp at hc3
      · exact absurd hc3 (by simp)
  refine ⟨l, hk, hreg.1, hreg.2, hin, ?_, hchain, contained_comps _ _ hc1⟩
  intro bl hbl
  obtain ⟨hrb, hcb⟩ := realpath_of_kresolve fs kfuel fuel cwd hcwd _ kfuel bl hbl hfuel
  rwa [hrb, comps_render bl hcb.1] at hin

theorem pass_of_not_rejecting (fs : FS) (kfuel fuel : Nat) (cwdS : Str) (cwd : Loc) (base loc : Str)
    (hb : base ≠ []) (h : rejecting (checkContainment fs kfuel fuel cwdS cwd base loc) = false) :
    checkContainment fs kfuel fuel cwdS cwd base loc = Verdict.pass := by
  cases hv : checkContainment fs kfuel fuel cwdS cwd base loc with
  | rej1 => rw [hv] at h; simp [rejecting] at h
  | rej2 => rw [hv] at h; simp [rejecting] at h
  | rej3 => rw [hv] at h; simp [rejecting] at h
  | skipped => exact absurd (checkContainment_skipped _ _ _ _ _ _ _ hv) hb
  | pass => rfl

/-- the events of a read of an unmapped tensor are the check-then-open events, for every entry
point -/
theorem read_events (fs : FS) (kfuel fuel : Nat) (cwdS : Str) (cwd : Loc) (base loc : Str)
    (offset length : Nat) (ep : EntryPoint) :
    (read fs kfuel fuel cwdS cwd base loc offset length ep).2 =
      guardedEvents fs kfuel fuel cwdS cwd base loc := by
  unfold read
  simp only
  rw [call_eq_spec]
  exact callSpec_fresh_events _ _ _ _ _ _ _ _ _ _

/-- an open event is preceded, in the same call, by the containment check with a verdict that does
not reject -/
def CheckedOpens (v : Verdict) (events : List Ev) : Prop :=
  ∀ pre p oi post, events = pre ++ Ev.openEv p oi :: post →
    Ev.check v ∈ pre ∧ rejecting v = false

theorem checkedOpens_guarded (fs : FS) (kfuel fuel : Nat) (cwdS : Str) (cwd : Loc) (base loc : Str) :
    CheckedOpens (checkContainment fs kfuel fuel cwdS cwd base loc)
      (guardedEvents fs kfuel fuel cwdS cwd base loc) := by
  intro pre p oi post h
  unfold guardedEvents at h
  by_cases hv : rejecting (checkContainment fs kfuel fuel cwdS cwd base loc) = true
  · simp only [hv, if_true] at h
    cases pre with
    | nil => simp at h
    | cons x t =>
      simp only [List.cons_append, List.cons.injEq] at h
      have := h.2
      cases t <;> simp at this
  · have hv' : rejecting (checkContainment fs kfuel fuel cwdS cwd base loc) = false := by simpa using hv
    simp only [hv', Bool.false_eq_true, if_false] at h
    refine ⟨?_, hv'⟩
    cases pre with
    | nil => simp at h
    | cons x t =>
      simp only [List.cons_append, List.cons.injEq] at h
      rw [← h.1]; simp

/-- **C10_all_entry_points**: the five read entry points are five statement lists (`body`:
numpy, `__array__`, tobytes, tofile, serialisation) run by an interpreter in which an open
statement opens the path whatever was checked before.  For each of them, from ANY cached state of
the tensor (mapped or not): every open event of the call is preceded, in that call, by the
containment check with a non-rejecting verdict; it opens `join(base, loc)` only; after a rejecting
check nothing is opened and the call raises; and a call that performs no event at all is a
non-`tofile` entry point served from state cached by an earlier call. -/
theorem C10_all_entry_points (fs : FS) (kfuel fuel : Nat) (cwdS : Str) (cwd : Loc) (base loc : Str)
    (offset length : Nat) (ep : EntryPoint) (st : TState) :
    CheckedOpens (checkContainment fs kfuel fuel cwdS cwd base loc)
      (call fs kfuel fuel cwdS cwd base loc offset length ep st).2.1 ∧
    (∀ p oi, Ev.openEv p oi ∈ (call fs kfuel fuel cwdS cwd base loc offset length ep st).2.1 →
      p = tensorPath base loc) ∧
    (rejecting (checkContainment fs kfuel fuel cwdS cwd base loc) = true →
      (∀ p oi, Ev.openEv p oi ∉ (call fs kfuel fuel cwdS cwd base loc offset length ep st).2.1) ∧
      ((call fs kfuel fuel cwdS cwd base loc offset length ep st).2.1 ≠ [] →
        (call fs kfuel fuel cwdS cwd base loc offset length ep st).1 = ReadResult.raised)) ∧
    ((call fs kfuel fuel cwdS cwd base loc offset length ep st).2.1 = [] →
      ep ≠ EntryPoint.tofile ∧ st ≠ TState.fresh) := by
  rw [call_eq_spec]
  rcases callSpec_events fs kfuel fuel cwdS cwd base loc offset length ep st with ⟨he, h1, h2⟩ | he
  · rw [he]
    refine ⟨?_, by simp, fun _ => ⟨by simp, by simp⟩, fun _ => ⟨h1, h2⟩⟩
    intro pre p oi post h
    cases pre <;> simp at h
  · refine ⟨by rw [he]; exact checkedOpens_guarded _ _ _ _ _ _ _, ?_, ?_, ?_⟩
    · intro p oi hm
      rw [he] at hm
      exact (guardedEvents_open _ _ _ _ _ _ _ _ _ hm).1
    · intro hrej
      obtain ⟨hge, hgo⟩ := guardedEvents_rej _ _ _ _ _ _ _ hrej
      refine ⟨?_, ?_⟩
      · intro p oi hm
        rw [he, hge] at hm
        simp at hm
      · intro _
        obtain ⟨hres, _⟩ := callSpec_result fs kfuel fuel cwdS cwd base loc offset length ep st
        cases hr : (callSpec fs kfuel fuel cwdS cwd base loc offset length ep st).1 with
        | raised => rfl
        | ok bytes =>
          obtain ⟨i, _, hor⟩ := hres bytes hr
          rcases hor with ⟨reg, hg, _⟩ | ⟨hnil, _⟩
          · rw [hgo] at hg; exact absurd hg (by simp)
          · rw [he, hge] at hnil; exact absurd hnil (by simp)
    · intro hnil
      rw [he] at hnil
      have := guardedEvents_head fs kfuel fuel cwdS cwd base loc
      rw [hnil] at this
      simp at this

/-- the seeded pattern "tofile skips the check when the tensor is already mapped" is a sixth body
that does NOT have the property: from a mapped state it opens the path with no check event -/
example (e : Env) (i : Nat) :
    (runBody e { raw := some i, arr := true }
      [Stmt.ifNoRaw [Prim.check], Stmt.prim Prim.openCopy]).2.1 =
      [Ev.openEv (tensorPath e.base e.loc) ((openFile e.fs e.kfuel e.cwd (tensorPath e.base e.loc)).map Prod.fst)] := by
  unfold runBody
  simp only [execStmts, execStmt, execPrim]
  cases openFile e.fs e.kfuel e.cwd (tensorPath e.base e.loc) with
  | none => simp
  | some ir =>
    obtain ⟨j, reg⟩ := ir
    by_cases h : 0 < e.length ∧ (e.fs.data j).length < e.offset + e.length <;> simp [h]

/-- **C10_call_events**: whatever the cached state, the events of one call are either none at all
(only a non-`tofile` entry point of a tensor with cached state: it is served from the mapping and
opens nothing), or exactly the events of a read of an unmapped tensor (check, then open unless the
check rejects): the check is made on EVERY call that opens the path; `tofile` always is such a
call. -/
theorem C10_call_events (fs : FS) (kfuel fuel : Nat) (cwdS : Str) (cwd : Loc) (base loc : Str)
    (offset length : Nat) (ep : EntryPoint) (st : TState) :
    ((call fs kfuel fuel cwdS cwd base loc offset length ep st).2.1 = [] ∧
        ep ≠ EntryPoint.tofile ∧ st ≠ TState.fresh) ∨
    (call fs kfuel fuel cwdS cwd base loc offset length ep st).2.1 =
        (read fs kfuel fuel cwdS cwd base loc offset length ep).2 := by
  rw [read_events, call_eq_spec]
  exact callSpec_events _ _ _ _ _ _ _ _ _ _ _

/-- **C10_call_open_safe**: with a non-empty base directory, every file opened by ANY call of any
entry point, whatever the tensor's cached state (mapped or not), is a safe open. -/
theorem C10_call_open_safe (fs : FS) (kfuel fuel : Nat) (cwd : Loc) (hcwd : RealDir fs cwd)
    (hfuel : kfuel ≤ fuel) (base loc : Str) (offset length : Nat) (ep : EntryPoint) (st : TState)
    (hb : base ≠ []) (p : Str) (i : Nat)
    (h : Ev.openEv p (some i) ∈ (call fs kfuel fuel (render cwd) cwd base loc offset length ep st).2.1) :
    p = tensorPath base loc ∧ SafeOpen fs kfuel fuel cwd base loc i := by
  rw [call_eq_spec] at h
  rcases callSpec_events fs kfuel fuel (render cwd) cwd base loc offset length ep st with ⟨he, _, _⟩ | he
  · rw [he] at h; simp at h
  · rw [he] at h
    obtain ⟨hp, hrej, hoi⟩ := guardedEvents_open _ _ _ _ _ _ _ _ _ h
    refine ⟨hp, ?_⟩
    cases hg : guardedOpen fs kfuel fuel (render cwd) cwd base loc with
    | none => rw [hg] at hoi; simp at hoi
    | some ir =>
      obtain ⟨j, reg⟩ := ir
      rw [hg] at hoi
      simp only [Option.map_some, Option.some.injEq] at hoi
      subst hoi
      obtain ⟨_, _, ho⟩ := guardedOpen_event _ _ _ _ _ _ _ _ _ hg
      exact safeOpen_of_pass fs kfuel fuel cwd hcwd hfuel base loc i reg
        (pass_of_not_rejecting _ _ _ _ _ _ _ hb hrej) ho

/-- **C10_open_safe**: the same for a read of an unmapped tensor: every file a read opens (whatever
it returns afterwards, e.g. it may still raise because the file is too short) is a safe open: no
byte of a file outside the resolved base directory, of a file with several links or of a
non-regular file is ever read. -/
theorem C10_open_safe (fs : FS) (kfuel fuel : Nat) (cwd : Loc) (hcwd : RealDir fs cwd)
    (hfuel : kfuel ≤ fuel) (base loc : Str) (offset length : Nat) (ep : EntryPoint) (hb : base ≠ [])
    (p : Str) (i : Nat)
    (h : Ev.openEv p (some i) ∈ (read fs kfuel fuel (render cwd) cwd base loc offset length ep).2) :
    p = tensorPath base loc ∧ SafeOpen fs kfuel fuel cwd base loc i :=
  C10_call_open_safe fs kfuel fuel cwd hcwd hfuel base loc offset length ep TState.fresh hb p i h

/-- **C10_call_result**: bytes returned by a call are the requested slice of the inode this call
opened (after its own check), or, when the call performed no event, of the inode the tensor had
mapped before; and the inode mapped after the call is the one mapped before or the one this call
opened. -/
theorem C10_call_result (fs : FS) (kfuel fuel : Nat) (cwdS : Str) (cwd : Loc) (base loc : Str)
    (offset length : Nat) (ep : EntryPoint) (st : TState) :
    (∀ bytes, (call fs kfuel fuel cwdS cwd base loc offset length ep st).1 = ReadResult.ok bytes →
      ∃ i, bytes = sliceOf (fs.data i) offset length ∧
        (Ev.openEv (tensorPath base loc) (some i) ∈
            (call fs kfuel fuel cwdS cwd base loc offset length ep st).2.1 ∨
          ((call fs kfuel fuel cwdS cwd base loc offset length ep st).2.1 = [] ∧ st.raw = some i))) ∧
    (∀ i, (call fs kfuel fuel cwdS cwd base loc offset length ep st).2.2.raw = some i →
      st.raw = some i ∨ Ev.openEv (tensorPath base loc) (some i) ∈
        (call fs kfuel fuel cwdS cwd base loc offset length ep st).2.1) := by
  rw [call_eq_spec]
  obtain ⟨h1, h2⟩ := callSpec_result fs kfuel fuel cwdS cwd base loc offset length ep st
  refine ⟨?_, ?_⟩
  · intro bytes hb
    obtain ⟨i, hi, hor⟩ := h1 bytes hb
    refine ⟨i, hi, ?_⟩
    rcases hor with ⟨reg, hg, he⟩ | h
    · left; rw [he]; exact (guardedOpen_event _ _ _ _ _ _ _ _ _ hg).1
    · exact Or.inr h
  · intro i hi
    rcases h2 i hi with h | ⟨hg, he⟩
    · exact Or.inl h
    · right; rw [he]; exact (guardedOpen_event _ _ _ _ _ _ _ _ _ hg).1

/-- **C10_read_safe**: with a non-empty base directory, whenever a read through any entry point
returns bytes, they are the requested slice of the content of a regular file `i` that is a safe
open (`SafeOpen`: regular, at most one link, resolved location below the fully resolved base
directory, reached through real directories only, lexically inside as well).  Any other location
does not return bytes (`ReadResult` is `raised` otherwise; see C10_open_safe /
C10_all_entry_points for "before any byte is read").  Hypotheses: the working directory is a chain
of real directories and `os.getcwd()` is its rendering; the Python recursion bound is at least the
kernel's ELOOP bound. -/
theorem C10_read_safe (fs : FS) (kfuel fuel : Nat) (cwd : Loc) (hcwd : RealDir fs cwd)
    (hfuel : kfuel ≤ fuel) (base loc : Str) (offset length : Nat) (ep : EntryPoint)
    (bytes : List Nat) (hb : base ≠ [])
    (h : (read fs kfuel fuel (render cwd) cwd base loc offset length ep).1 = ReadResult.ok bytes) :
    ∃ i, bytes = ((fs.data i).drop offset).take length ∧ SafeOpen fs kfuel fuel cwd base loc i := by
  unfold read at h
  simp only at h
  obtain ⟨hres, _⟩ := C10_call_result fs kfuel fuel (render cwd) cwd base loc offset length ep TState.fresh
  obtain ⟨i, hi, hor⟩ := hres bytes h
  refine ⟨i, hi, ?_⟩
  rcases hor with hev | ⟨_, hraw⟩
  · exact (C10_call_open_safe fs kfuel fuel cwd hcwd hfuel base loc offset length ep TState.fresh hb _ i hev).2
  · simp [TState.fresh] at hraw

end IrVerif.Path

namespace IrVerif.Path

/-- **C10_load_base_is_model_dir**: for every spelling of the model path `p` whose last piece is a
file name (bare name, relative, absolute, "./x", repeated or leading separators, through symbolic
links, with ".." after a symbolic link), if the kernel opens `p` from the load-time directory `cwd`
(resolves it to `ml`), then the base directory `join(getcwd(), dirname(p) or ".")` resolves, from
ANY later working directory `cwd'`, to a directory `d`, and `d` is exactly the directory in which
the kernel looked up the file name at load time: the model's directory. -/
theorem C10_load_base_is_model_dir (fs : FS) (f : Nat) (cwd cwd' : Loc) (hcwd : RealDir fs cwd)
    (p : Str) (ml : Loc) (hn : Clean (tailPart p)) (h : kresolve fs f cwd p true = some ml) :
    ∃ d, kresolve fs f cwd' (loadBase (render cwd) p) true = some d ∧
      fs.get d = some Node.dir ∧ walk fs f d [tailPart p] true = some ml := by
  obtain ⟨d, h1, h2, h3⟩ := load_base_is_model_dir fs f cwd p ml hn h
  refine ⟨d, ?_, h2, h3⟩
  unfold loadBase
  rw [kresolve_join_cwd fs f cwd cwd' hcwd _ (loadDir_ne_nil p)]
  exact h1

/-- **C10_load_read_safe**: end to end, with a chdir between load and read.  A model opened from
`p` (any spelling) in the working directory `cwd` gets the base directory
`join(getcwd(), dirname(p) or ".")`; every later read of one of its external tensors, made from
any working directory `cwd'`, that returns bytes returns the requested slice of a regular file
with at most one link whose resolved location `l` lies below the model's directory `d`. -/
theorem C10_load_read_safe (fs : FS) (kfuel fuel : Nat) (cwd cwd' : Loc) (hcwd : RealDir fs cwd)
    (hcwd' : RealDir fs cwd') (hfuel : kfuel ≤ fuel) (p : Str) (ml : Loc) (hn : Clean (tailPart p))
    (hopen : kresolve fs kfuel cwd p true = some ml)
    (loc : Str) (offset length : Nat) (ep : EntryPoint) (bytes : List Nat)
    (h : (read fs kfuel fuel (render cwd') cwd' (loadBase (render cwd) p) loc offset length ep).1 =
      ReadResult.ok bytes) :
    ∃ d l i, kresolve fs kfuel cwd' (loadBase (render cwd) p) true = some d ∧
      fs.get d = some Node.dir ∧ walk fs kfuel d [tailPart p] true = some ml ∧
      kresolve fs kfuel cwd' (tensorPath (loadBase (render cwd) p) loc) true = some l ∧ d <+: l ∧
      fs.get l = some (Node.file i) ∧ fs.nlink i ≤ 1 ∧
      bytes = ((fs.data i).drop offset).take length := by
  obtain ⟨d, hd1, hd2, hd3⟩ := C10_load_base_is_model_dir fs kfuel cwd cwd' hcwd p ml hn hopen
  have hne : loadBase (render cwd) p ≠ [] := pjoin_ne_nil _ _ (loadDir_ne_nil p)
  obtain ⟨i, hbytes, l, hk, hg, hnl, _, hbl, _, _⟩ :=
    C10_read_safe fs kfuel fuel cwd' hcwd' hfuel (loadBase (render cwd) p) loc offset length ep bytes
      hne h
  exact ⟨d, l, i, hd1, hd2, hd3, hk, hbl d hd1, hg, hnl, hbytes⟩

example : tailPart "a//m.onnx".toList = "m.onnx".toList ∧ loadDir "a//m.onnx".toList = "a".toList := by
  decide
/-- D183: the join form keeps "x/.." for the kernel to resolve; `abspath` collapsed it lexically -/
example : loadBase "/w".toList "x/../m.onnx".toList = "/w/x/..".toList ∧
    loadBaseAbs "/w".toList "x/../m.onnx".toList = "/w".toList := by decide

end IrVerif.Path

/-! ### link counts and the base directory of a safe open -/
namespace IrVerif.Path

/-- link counts are sound: an inode reachable under two different names reports at least 2 links
(`st_nlink` counts the names of the inode; the harness checks this on every described tree) -/
def LinkCountSound (fs : FS) : Prop :=
  ∀ l1 l2 i, l1 ≠ l2 → fs.get l1 = some (Node.file i) → fs.get l2 = some (Node.file i) →
    2 ≤ fs.nlink i

/-- **C10_single_name**: with sound link counts, the regular file of a safe open has no other name
anywhere in the tree: its only location is the one inside the resolved base directory (this is
what the link-count layer is for: no hard link from outside). -/
theorem C10_single_name (fs : FS) (kfuel fuel : Nat) (cwd : Loc) (base loc : Str) (i : Nat)
    (hs : LinkCountSound fs) (h : SafeOpen fs kfuel fuel cwd base loc i) :
    ∃ l, kresolve fs kfuel cwd (tensorPath base loc) true = some l ∧
      fs.get l = some (Node.file i) ∧ ∀ l', fs.get l' = some (Node.file i) → l' = l := by
  obtain ⟨l, hk, hg, hn, _⟩ := h
  refine ⟨l, hk, hg, ?_⟩
  intro l' hg'
  apply Classical.byContradiction
  intro hne
  have := hs l' l i hne hg' hg
  omega

/-- **C10_base_resolves**: when the kernel resolves `join(base, loc)` for a relative location, it
resolves the base directory itself too, so the clause "below the kernel's own resolution of the
base" of `SafeOpen` is not vacuous for relative locations. -/
theorem C10_base_resolves (fs : FS) (f : Nat) (cwd : Loc) (base loc : Str) (l : Loc)
    (hb : base ≠ []) (hrel : isabs loc = false)
    (h : kresolve fs f cwd (tensorPath base loc) true = some l) :
    ∃ bl, kresolve fs f cwd base true = some bl := by
  unfold kresolve at h ⊢
  simp only [hb, if_false]
  have hlne : splitSep loc ≠ [] := splitSep_ne_nil loc
  unfold tensorPath pjoin at h
  simp only [hrel, Bool.false_eq_true, if_false, hb, false_or] at h
  by_cases he : endsWithSep base = true
  · simp only [he, if_true] at h
    obtain ⟨q, hq⟩ := (endsWithSep_iff base).mp he
    have hne : base ++ loc ≠ [] := by simp [hb]
    simp only [hne, if_false] at h
    have hab : isabs (base ++ loc) = isabs base := isabs_append _ _ hb
    have hsp : splitSep (base ++ loc) = splitSep q ++ splitSep loc := by
      rw [hq, List.append_assoc, List.singleton_append, splitSep_append_sep]
    have hsb : splitSep base = splitSep q ++ [[]] := by
      rw [hq, splitSep_append_sep]; simp [splitSep]
    simp only [startLoc, hab] at h
    rw [hsp] at h
    obtain ⟨d, hd, hrest⟩ := walk_append_some fs f _ _ _ l h
    simp only [startLoc]
    rw [hsb]
    cases hl : splitSep loc with
    | nil => exact absurd hl hlne
    | cons c rest =>
      rw [hl] at hrest
      obtain ⟨hdir, _⟩ := walk_cons_inv fs f d c rest l hrest
      have h0 : walk fs 0 d [[]] true = some d := by
        rw [walk_step_skip fs 0 d [] [] true hdir (Or.inl rfl), walk_nil]
      exact ⟨d, by simpa using walk_append_of fs f _ _ d 0 [[]] d hd h0⟩
  · have he' : endsWithSep base = false := by simpa using he
    simp only [he', Bool.false_eq_true, if_false] at h
    have hne : base ++ '/' :: loc ≠ [] := by simp
    simp only [hne, if_false] at h
    have hab : isabs (base ++ '/' :: loc) = isabs base := isabs_append _ _ hb
    simp only [startLoc, hab] at h
    rw [splitSep_append_sep] at h
    obtain ⟨d, hd, _⟩ := walk_append_some fs f _ _ _ l h
    exact ⟨d, hd⟩

end IrVerif.Path

/-! ### sequences of calls on one tensor -/
namespace IrVerif.Path

/-- every log entry of a session is the output of a `call` in the tree / base of that moment -/
theorem runSess_entries (kfuel fuel : Nat) (cwdS : Str) (cwd : Loc) (loc : Str) (offset length : Nat) :
    ∀ (steps : List Step) (s : Sess), ∀ e ∈ (runSess kfuel fuel cwdS cwd loc offset length s steps).2,
      ∃ st, e.events = (call e.fs kfuel fuel cwdS cwd e.base loc offset length e.ep st).2.1 ∧
        e.res = (call e.fs kfuel fuel cwdS cwd e.base loc offset length e.ep st).1 := by
  intro steps
  induction steps with
  | nil => intro s e he; simp [runSess] at he
  | cons x xs ih =>
    intro s e he
    cases x with
    | setFS fs => simp only [runSess, stepSess] at he; exact ih _ e he
    | setBase b => simp only [runSess, stepSess] at he; exact ih _ e he
    | release => simp only [runSess, stepSess] at he; exact ih _ e he
    | call ep =>
      simp only [runSess, stepSess, List.mem_cons] at he
      rcases he with rfl | he
      · exact ⟨s.st, rfl, rfl⟩
      · exact ih _ e he

theorem runSess_bytes (kfuel fuel : Nat) (cwdS : Str) (cwd : Loc) (loc : Str) (offset length : Nat) :
    ∀ (steps : List Step) (s : Sess) (P : Str → Nat → Prop), (∀ i, s.st.raw = some i → P s.base i) →
      ∀ (pre : List LogEntry) (e : LogEntry) (post : List LogEntry),
        (runSess kfuel fuel cwdS cwd loc offset length s steps).2 = pre ++ e :: post →
        ∀ bytes, e.res = ReadResult.ok bytes →
        ∃ i, bytes = sliceOf (e.fs.data i) offset length ∧
          (P e.base i ∨ ∃ e' ∈ pre ++ [e], e'.base = e.base ∧
            Ev.openEv (tensorPath e.base loc) (some i) ∈ e'.events) := by
  intro steps
  induction steps with
  | nil =>
    intro s P _ pre e post hlog
    simp [runSess] at hlog
  | cons x xs ih =>
    intro s P hP pre e post hlog bytes hb
    cases x with
    | setFS fs =>
      simp only [runSess, stepSess] at hlog
      exact ih { s with fs := fs } P hP pre e post hlog bytes hb
    | setBase b =>
      simp only [runSess, stepSess] at hlog
      refine ih { s with base := b, st := if b = s.base then s.st else TState.fresh } P ?_ pre e post hlog bytes hb
      intro i hi
      simp only at hi ⊢
      by_cases hbe : b = s.base
      · simp only [hbe, if_true] at hi
        rw [hbe]; exact hP i hi
      · simp [hbe, TState.fresh] at hi
    | release =>
      simp only [runSess, stepSess] at hlog
      exact ih { s with st := TState.fresh } P (by intro i h; simp [TState.fresh] at h) pre e post hlog bytes hb
    | call ep =>
      simp only [runSess, stepSess] at hlog
      obtain ⟨hres, hstate⟩ := C10_call_result s.fs kfuel fuel cwdS cwd s.base loc offset length ep s.st
      cases pre with
      | nil =>
        simp only [List.nil_append, List.cons.injEq] at hlog
        obtain ⟨he, _⟩ := hlog
        subst he
        obtain ⟨i, hi, hor⟩ := hres bytes hb
        refine ⟨i, hi, ?_⟩
        rcases hor with hev | ⟨_, hraw⟩
        · exact Or.inr ⟨_, by simp, rfl, hev⟩
        · exact Or.inl (hP i hraw)
      | cons e0 pre' =>
        simp only [List.cons_append, List.cons.injEq] at hlog
        obtain ⟨he0, hrest⟩ := hlog
        have := ih _ (fun b i => P b i ∨ (b = s.base ∧ Ev.openEv (tensorPath s.base loc) (some i) ∈
            (call s.fs kfuel fuel cwdS cwd s.base loc offset length ep s.st).2.1))
          (by
            intro i h
            rcases hstate i h with h' | h'
            · exact Or.inl (hP i h')
            · exact Or.inr ⟨rfl, h'⟩) pre' e post hrest bytes hb
        obtain ⟨i, hi, hor⟩ := this
        refine ⟨i, hi, ?_⟩
        rcases hor with (hp | ⟨hbase, hev⟩) | ⟨e', he', hb', hev⟩
        · exact Or.inl hp
        · refine Or.inr ⟨e0, by simp, ?_, ?_⟩
          · rw [← he0]; exact hbase.symm
          · rw [← he0, hbase]; exact hev
        · exact Or.inr ⟨e', by simp only [List.cons_append, List.mem_cons]; exact Or.inr he', hb', hev⟩

/-- **C10_session_safe**: for every sequence of steps in the life of an external tensor (calls of
any entry point, arbitrary changes of the tree between calls, re-assignments of `base_dir` (which
drop the mapping, D184), `release()`), starting unmapped, and for every call `e` of the sequence
(`pre` = the calls before it): (1) every file `e` opens is a safe open with respect to the tree
and the base directory at the time of `e`; (2) every byte sequence `e` returns is the slice of an
inode opened by `e` itself or by an EARLIER call `e'` of the sequence made under the SAME base
directory as `e`'s, and that open was a safe open with respect to `e`'s base directory (in the
tree of that moment): a mapped tensor is served from a mapping obtained through an open checked
against the base directory the tensor has now. -/
theorem C10_session_safe (kfuel fuel : Nat) (cwd : Loc) (hfuel : kfuel ≤ fuel) (loc : Str)
    (offset length : Nat) (s0 : Sess) (h0 : s0.st.raw = none) (steps : List Step)
    (pre : List LogEntry) (e : LogEntry) (post : List LogEntry)
    (hlog : (runSess kfuel fuel (render cwd) cwd loc offset length s0 steps).2 = pre ++ e :: post) :
    (∀ p i, e.base ≠ [] → RealDir e.fs cwd → Ev.openEv p (some i) ∈ e.events →
      p = tensorPath e.base loc ∧ SafeOpen e.fs kfuel fuel cwd e.base loc i) ∧
    (∀ bytes, e.res = ReadResult.ok bytes →
      ∃ i, bytes = sliceOf (e.fs.data i) offset length ∧
        ∃ e' ∈ pre ++ [e], e'.base = e.base ∧
          Ev.openEv (tensorPath e.base loc) (some i) ∈ e'.events ∧
          (e.base ≠ [] → RealDir e'.fs cwd → SafeOpen e'.fs kfuel fuel cwd e.base loc i)) := by
  have hsafe : ∀ x ∈ (runSess kfuel fuel (render cwd) cwd loc offset length s0 steps).2, ∀ p i,
      x.base ≠ [] → RealDir x.fs cwd → Ev.openEv p (some i) ∈ x.events →
      p = tensorPath x.base loc ∧ SafeOpen x.fs kfuel fuel cwd x.base loc i := by
    intro x hx p i hb hcwd hm
    obtain ⟨st, hev, _⟩ := runSess_entries kfuel fuel (render cwd) cwd loc offset length steps s0 x hx
    rw [hev] at hm
    exact C10_call_open_safe x.fs kfuel fuel cwd hcwd hfuel x.base loc offset length x.ep st hb p i hm
  refine ⟨hsafe e (by rw [hlog]; simp), ?_⟩
  intro bytes hb
  obtain ⟨i, hi, hor⟩ := runSess_bytes kfuel fuel (render cwd) cwd loc offset length steps s0
    (fun _ _ => False) (by intro i h; rw [h0] at h; exact absurd h (by simp)) pre e post hlog bytes hb
  rcases hor with hf | ⟨e', he', hbase, hev⟩
  · exact absurd hf id
  · refine ⟨i, hi, e', he', hbase, hev, ?_⟩
    intro hne hcwd
    have hmem : e' ∈ (runSess kfuel fuel (render cwd) cwd loc offset length s0 steps).2 := by
      rw [hlog]
      rcases List.mem_append.mp he' with h | h
      · exact List.mem_append.mpr (Or.inl h)
      · have : e' = e := by simpa using h
        subst this
        simp
    have := (hsafe e' hmem (tensorPath e.base loc) i (by rw [hbase]; exact hne) hcwd hev).2
    rwa [hbase] at this

end IrVerif.Path

/-! ### non-vacuity: a tree /b/f, /b/m on which reads return bytes -/
namespace IrVerif.Path

def exFS : FS where
  node := fun l => if l = [['b']] then some Node.dir
    else if l = [['b'], ['f']] then some (Node.file 1)
    else if l = [['b'], ['m']] then some (Node.file 2) else none
  dnlink := fun _ => 2
  nlink := fun _ => 1
  data := fun _ => [10, 20, 30]

theorem exFS_b : RealDir exFS [['b']] :=
  ⟨by simpa using Chain.snoc (RealDir.root exFS) (c := ['b']) ⟨by decide, by decide, by decide, by decide⟩,
   by decide⟩

theorem exFS_bf : Chain exFS [['b'], ['f']] := by
  simpa using Chain.snoc exFS_b (c := ['f']) ⟨by decide, by decide, by decide, by decide⟩

theorem exFS_bm : Chain exFS [['b'], ['m']] := by
  simpa using Chain.snoc exFS_b (c := ['m']) ⟨by decide, by decide, by decide, by decide⟩

/-- on exFS, with cwd "/", the base "/b" and the location "f": check passes, the file is opened -/
theorem ex_guarded : guardedOpen exFS 40 40 (render []) [] "/b".toList "f".toList = some (1, true) := by
  have hk : kresolve exFS 40 [] "/b/f".toList true = some [['b'], ['f']] :=
    kresolve_render exFS 40 [] _ exFS_bf (Node.file 1) (by decide) (by intro t; simp)
  have hkb : kresolve exFS 40 [] "/b".toList true = some [['b']] :=
    kresolve_render exFS 40 [] _ exFS_b.1 Node.dir (by decide) (by intro t; simp)
  have hp : tensorPath "/b".toList "f".toList = "/b/f".toList := by decide
  have r1 := (realpath_of_kresolve exFS 40 40 [] (RealDir.root exFS) _ 40 _ hk (Nat.le_refl _)).1
  have r2 := (realpath_of_kresolve exFS 40 40 [] (RealDir.root exFS) _ 40 _ hkb (Nat.le_refl _)).1
  have hv : checkContainment exFS 40 40 (render []) [] "/b".toList "f".toList = Verdict.pass := by
    have c1 : check1 (render []) "/b".toList "f".toList = true := by decide
    have c2 : check2 exFS 40 40 (render []) [] "/b".toList "f".toList = true := by
      unfold check2; rw [hp, r1, r2]; decide
    have c3 : check3 exFS 40 40 (render []) [] "/b".toList "f".toList = true := by
      have q1 := realpath_fixed_of_kresolve exFS 40 40 [] (RealDir.root exFS) _ _ hk (Nat.le_refl _)
      have q2 := realpath_fixed_of_kresolve exFS 40 40 [] (RealDir.root exFS) _ _ hkb (Nat.le_refl _)
      unfold check3 statFile statId
      rw [hp, r1, r2, q1, q2]
      have e1 : kresolve exFS 40 [] (render [['b'], ['f']]) true = some [['b'], ['f']] := hk
      have e2 : kresolve exFS 40 [] (render [['b']]) true = some [['b']] := hkb
      have n1 : noLinkOn (lstat exFS 40 []) (render [['b'], ['f']]) = true :=
        noLinkOn_complete exFS 40 [] _ ⟨exFS_bf, Node.file 1, by decide, by intro t; simp⟩
      have n2 : noLinkOn (lstat exFS 40 []) (render [['b']]) = true :=
        noLinkOn_complete exFS 40 [] _ ⟨exFS_b.1, Node.dir, by decide, by intro t; simp⟩
      rw [hk, hkb, e1, e2, n1, n2]
      decide
    unfold checkContainment
    rw [if_neg (by decide), if_neg (by rw [c1]; simp), if_neg (by rw [c2]; simp),
      if_neg (by rw [c3]; simp)]
  have ho : openFile exFS 40 [] "/b/f".toList = some (1, true) := by
    unfold openFile; rw [if_neg (by decide), hk]; decide
  unfold guardedOpen
  rw [hv, hp, ho]
  simp [rejecting]

theorem ex_read (ep : EntryPoint) :
    (read exFS 40 40 (render []) [] "/b".toList "f".toList 0 3 ep).1 = ReadResult.ok [10, 20, 30] := by
  unfold read
  simp only
  rw [call_eq_spec]
  have hl : loadSpec exFS 40 40 (render []) [] "/b".toList "f".toList 0 3 { raw := none, arr := false } =
      (true, { raw := some 1, arr := true }) := by
    unfold loadSpec
    rw [ex_guarded]
    decide
  unfold callSpec
  cases ep <;> simp only [TState.fresh, hl, ex_guarded] <;> decide

/-- C10_read_safe / C10_open_safe are not vacuous: all hypotheses hold on exFS and bytes come back -/
example : ∃ i, [10, 20, 30] = ((exFS.data i).drop 0).take 3 ∧
    SafeOpen exFS 40 40 [] "/b".toList "f".toList i :=
  C10_read_safe exFS 40 40 [] (RealDir.root exFS) (Nat.le_refl _) _ _ 0 3 EntryPoint.tofile _ (by decide)
    (ex_read EntryPoint.tofile)

example : Ev.openEv (tensorPath "/b".toList "f".toList) (some 1) ∈
    (read exFS 40 40 (render []) [] "/b".toList "f".toList 0 3 EntryPoint.numpy).2 := by
  rw [read_events]
  exact (guardedOpen_event _ _ _ _ _ _ _ _ _ ex_guarded).1

/-- C10_session_safe is not vacuous: a sequence whose log has an entry that returns bytes -/
example : ∃ pre e post,
    (runSess 40 40 (render []) [] "f".toList 0 3
      { fs := exFS, base := "/b".toList, st := TState.fresh }
      [Step.call EntryPoint.numpy, Step.call EntryPoint.tobytes]).2 = pre ++ e :: post ∧
    e.res = ReadResult.ok [10, 20, 30] := by
  refine ⟨[], _, _, rfl, ?_⟩
  have := ex_read EntryPoint.numpy
  unfold read at this
  exact this

/-- C10_load_read_safe is not vacuous: the model /b/m opened from cwd "/" gets the base "/b" -/
example : kresolve exFS 40 [] "/b/m".toList true = some [['b'], ['m']] ∧
    Clean (tailPart "/b/m".toList) ∧ loadBase (render []) "/b/m".toList = "/b".toList ∧
    (read exFS 40 40 (render []) [] (loadBase (render []) "/b/m".toList) "f".toList 0 3
      EntryPoint.tobytes).1 = ReadResult.ok [10, 20, 30] := by
  refine ⟨kresolve_render exFS 40 [] _ exFS_bm (Node.file 2) (by decide) (by intro t; simp),
    ⟨by decide, by decide, by decide, by decide⟩, by decide, ?_⟩
  have : loadBase (render []) "/b/m".toList = "/b".toList := by decide
  rw [this]
  exact ex_read EntryPoint.tobytes

end IrVerif.Path

/-! ### `load()` gives EVERY external tensor of the model the base directory -/
namespace IrVerif.Path

mutual
theorem reachGraph_sub : ∀ (g : GTree) (x : String), x ∈ reachGraph g → x ∈ g.inits ∨ x ∈ walkGraphNodes g
  | GTree.mk i nodes, x, h => by
    simp only [reachGraph, List.mem_append] at h
    rcases h with h | h
    · exact Or.inl h
    · exact Or.inr (by simpa [walkGraphNodes] using reachNodes_sub nodes x h)
theorem reachNodes_sub : ∀ (ns : List NTree) (x : String), x ∈ reachNodes ns → x ∈ walkNodes ns
  | [], x, h => by simp [reachNodes] at h
  | n :: ns, x, h => by
    simp only [reachNodes, List.mem_append] at h
    simp only [walkNodes, List.mem_append]
    rcases h with h | h
    · exact Or.inl (reachNode_sub n x h)
    · exact Or.inr (reachNodes_sub ns x h)
theorem reachNode_sub : ∀ (n : NTree) (x : String), x ∈ reachNode n → x ∈ walkNode n
  | NTree.mk ta gs, x, h => by
    simp only [reachNode, List.mem_append] at h
    simp only [walkNode, List.mem_append]
    rcases h with h | h
    · exact Or.inl (Or.inl h)
    · rcases reachGraphs_sub gs x h with h' | h'
      · exact Or.inl (Or.inr h')
      · exact Or.inr h'
theorem reachGraphs_sub : ∀ (gs : List GTree) (x : String), x ∈ reachGraphs gs →
    x ∈ initsOf gs ∨ x ∈ walkGraphs gs
  | [], x, h => by simp [reachGraphs] at h
  | g :: gs, x, h => by
    simp only [reachGraphs, List.mem_append] at h
    simp only [initsOf, walkGraphs, List.mem_append]
    rcases h with h | h
    · rcases reachGraph_sub g x h with h' | h'
      · exact Or.inl (Or.inl h')
      · exact Or.inr (Or.inl h')
    · rcases reachGraphs_sub gs x h with h' | h'
      · exact Or.inl (Or.inr h')
      · exact Or.inr (Or.inr h')
end

theorem reachFuncs_sub : ∀ (fs : List GTree) (x : String), x ∈ reachFuncs fs → x ∈ funcsTensors fs
  | [], x, h => by simp [reachFuncs] at h
  | f :: fs, x, h => by
    simp only [reachFuncs, List.mem_append] at h
    simp only [funcsTensors, List.mem_append]
    rcases h with h | h
    · left
      unfold allTensors
      rcases reachGraph_sub f x h with h' | h'
      · exact List.mem_append.mpr (Or.inl h')
      · exact List.mem_append.mpr (Or.inr h')
    · exact Or.inr (reachFuncs_sub fs x h)

/-- **C10_load_all_positions**: what `load()` assigns the base directory to (`set_base_dir` on the
main graph and on the body of every model-local function; the walker `_all_tensors` with
attributes over `RecursiveGraphIterator`) covers EVERY tensor position of the model: initializers
and TENSOR/TENSORS attribute tensors of the main graph, of every function body and of every graph
nested in them at any depth through GRAPH/GRAPHS attributes.  Hence after `load(p)` every external
tensor of the model has the base directory `loadBase cwd p`, which is never empty and absolute
(C10_load_base_nonempty). -/
theorem C10_load_all_positions (main : GTree) (funcs : List GTree) (p : Str) (x : String)
    (hx : x ∈ reachModel main funcs) :
    x ∈ loadTensors main funcs ∧
    (∀ (cwdS : Str), isabs cwdS = true → ∀ (baseOf : String → Str),
      (∀ y ∈ loadTensors main funcs, baseOf y = loadBase cwdS p) →
      baseOf x = loadBase cwdS p ∧ baseOf x ≠ []) := by
  have hmem : x ∈ loadTensors main funcs := by
    unfold loadTensors
    unfold reachModel at hx
    rcases List.mem_append.mp hx with h | h
    · apply List.mem_append.mpr; left
      unfold allTensors
      rcases reachGraph_sub main x h with h' | h'
      · exact List.mem_append.mpr (Or.inl h')
      · exact List.mem_append.mpr (Or.inr h')
    · exact List.mem_append.mpr (Or.inr (reachFuncs_sub funcs x h))
  refine ⟨hmem, ?_⟩
  intro cwdS hc baseOf hset
  have := hset x hmem
  exact ⟨this, by rw [this]; exact (C10_load_base_nonempty cwdS p hc).1⟩

/-- before D180 only the main graph was walked: a tensor attribute in a function body was missed -/
example : "f_attr" ∈ reachModel (GTree.mk [] []) [GTree.mk [] [NTree.mk ["f_attr"] []]] ∧
    "f_attr" ∉ allTensors (GTree.mk [] []) ∧
    "f_attr" ∈ loadTensors (GTree.mk [] []) [GTree.mk [] [NTree.mk ["f_attr"] []]] := by decide

/-- the seeded shallow walker (`for node in graph`) misses a tensor attribute of a node inside an
If branch and an initializer two levels down: the theorem is about the recursive walker -/
example :
    let inner := GTree.mk ["deep_init"] []
    let branch := GTree.mk ["d1_init"] [NTree.mk ["d1_attr"] [inner]]
    let g := GTree.mk ["main_init"] [NTree.mk ["main_attr"] [branch]]
    "d1_attr" ∈ reachGraph g ∧ "deep_init" ∈ reachGraph g ∧
    "d1_attr" ∉ allTensorsShallow g ∧ "deep_init" ∉ allTensorsShallow g ∧
    "d1_attr" ∈ allTensors g ∧ "deep_init" ∈ allTensors g := by
  decide

end IrVerif.Path

/-! ### NUL characters, ELOOP, and the recursion bound of `os.path.realpath` -/
namespace IrVerif.Path

/-- **C10_nul_rejected**: with a non-empty base directory, a NUL character anywhere in the base
directory or in the location makes the containment check raise (check 1 when the string is lexically
outside, otherwise check 2, whose `os.lstat` raises ValueError), for every tree; hence every call of
every entry point, from any cached state, opens nothing, and raises unless it is served from state
cached by an earlier call. -/
theorem C10_nul_rejected (fs : FS) (kfuel fuel : Nat) (cwdS : Str) (cwd : Loc) (base loc : Str)
    (offset length : Nat) (ep : EntryPoint) (st : TState) (hb : base ≠ [])
    (hn : hasNul base = true ∨ hasNul loc = true) :
    rejecting (checkContainment fs kfuel fuel cwdS cwd base loc) = true ∧
    (∀ p oi, Ev.openEv p oi ∉ (call fs kfuel fuel cwdS cwd base loc offset length ep st).2.1) ∧
    ((call fs kfuel fuel cwdS cwd base loc offset length ep st).2.1 ≠ [] →
      (call fs kfuel fuel cwdS cwd base loc offset length ep st).1 = ReadResult.raised) := by
  have h2 : check2 fs kfuel fuel cwdS cwd base loc = false := by
    unfold check2; rcases hn with h | h <;> simp [h]
  have hrej : rejecting (checkContainment fs kfuel fuel cwdS cwd base loc) = true := by
    unfold checkContainment
    simp only [hb, if_false]
    split
    · rfl
    · simp [h2, rejecting]
  exact ⟨hrej, (C10_all_entry_points fs kfuel fuel cwdS cwd base loc offset length ep st).2.2.1 hrej⟩

example : hasNul ['f', Char.ofNat 0] = true ∧ hasNul "d/f".toList = false := by decide

theorem openFile_none_of_kresolve (fs : FS) (kfuel : Nat) (cwd : Loc) (p : Str)
    (h : kresolve fs kfuel cwd p true = none) : openFile fs kfuel cwd p = none := by
  unfold openFile; rw [h]; simp

/-- **C10_eloop_no_open**: when the kernel does not resolve `join(base, loc)` within its symlink
bound `kfuel` (ELOOP: a symbolic-link loop, or more links to follow - nested or one after the other -
than the bound; also ENOENT /
ENOTDIR), then whatever `os.path.realpath` computed for it (it has no such bound) and whatever the
three checks concluded, a call of any entry point from any cached state opens no file, and unless
it is served from state cached earlier (no event at all) it raises and leaves the cached state
unchanged. -/
theorem C10_eloop_no_open (fs : FS) (kfuel fuel : Nat) (cwdS : Str) (cwd : Loc) (base loc : Str)
    (offset length : Nat) (ep : EntryPoint) (st : TState)
    (h : kresolve fs kfuel cwd (tensorPath base loc) true = none) :
    (∀ p i, Ev.openEv p (some i) ∉ (call fs kfuel fuel cwdS cwd base loc offset length ep st).2.1) ∧
    ((call fs kfuel fuel cwdS cwd base loc offset length ep st).2.1 ≠ [] →
      (call fs kfuel fuel cwdS cwd base loc offset length ep st).1 = ReadResult.raised ∧
      (call fs kfuel fuel cwdS cwd base loc offset length ep st).2.2 = st) := by
  have ho := openFile_none_of_kresolve fs kfuel cwd _ h
  have hg : guardedOpen fs kfuel fuel cwdS cwd base loc = none := by
    unfold guardedOpen; split <;> simp [ho]
  rw [call_eq_spec]
  cases hq : quiet ep st with
  | true =>
    have := (callSpec_quiet fs kfuel fuel fuel cwdS cwd base loc offset length ep st hq).2
    rw [this]
    exact ⟨by simp, fun hne => absurd rfl hne⟩
  | false =>
    obtain ⟨hev, hres⟩ := callSpec_loud fs kfuel fuel cwdS cwd base loc offset length ep st hq
    refine ⟨?_, fun _ => hres hg⟩
    intro p i hm
    rw [hev] at hm
    obtain ⟨_, _, hoi⟩ := guardedEvents_open _ _ _ _ _ _ _ _ _ hm
    rw [hg] at hoi
    simp at hoi

/-- a symbolic link met with an exhausted symlink bound: the kernel gives up (ELOOP) -/
example (fs : FS) (cur : Loc) (c t : Str) (hd : fs.get cur = some Node.dir)
    (h1 : ¬ (c = [] ∨ c = DOT)) (h2 : c ≠ DOTDOT) (hn : fs.get (cur ++ [c]) = some (Node.link t)) :
    walk fs 0 cur [c] true = none := walk_step_link_zero fs cur c [] t hd h1 h2 hn

/-- **C10_eloop_counts_all_links**: the kernel model counts EVERY symbolic link followed during one
resolution, not the depth of their nesting (Linux: `nd->total_link_count`, MAXSYMLINKS = 40): each
followed link costs one unit of the single budget of the resolution and the walk goes on, with what is
left, over the link's target followed by the remaining components; with nothing left it fails (ELOOP).
Consequence for links that are followed one after the other (nesting depth 1): for a directory `cur`
holding a link `s -> .`, the path `s/s/.../s/rest` with `n` times `s` is walked iff `n` does not
exceed the budget, and `rest` is then walked with `budget - n`. -/
theorem C10_eloop_counts_all_links (fs : FS) (cur : Loc) (c t : Str) (rest : List Str)
    (hd : fs.get cur = some Node.dir) (h1 : ¬ (c = [] ∨ c = DOT)) (h2 : c ≠ DOTDOT)
    (hl : fs.get (cur ++ [c]) = some (Node.link t)) :
    (∀ f, walk fs (f + 1) cur (c :: rest) true = walk fs f (startLoc cur t) (splitSep t ++ rest) true) ∧
    walk fs 0 cur (c :: rest) true = none ∧
    (t = DOT → ∀ n f, walk fs f cur (List.replicate n c ++ rest) true =
      if n ≤ f then walk fs (f - n) cur rest true else none) := by
  refine ⟨fun f => walk_step_link fs f cur c rest t hd h1 h2 hl,
    walk_step_link_zero fs cur c rest t hd h1 h2 hl, ?_⟩
  intro ht n
  subst ht
  induction n with
  | zero => intro f; simp
  | succ n ih =>
    intro f
    rw [List.replicate_succ, List.cons_append]
    cases f with
    | zero =>
      rw [walk_step_link_zero fs cur c _ DOT hd h1 h2 hl]
      simp
    | succ f =>
      rw [walk_step_link fs f cur c _ DOT hd h1 h2 hl]
      have hs : splitSep DOT = [DOT] := by decide
      have hst : startLoc cur DOT = cur := by simp [startLoc, isabs, DOT]
      rw [hs, hst, List.singleton_append, walk_step_skip fs f cur DOT _ true hd (Or.inr rfl), ih f]
      by_cases hnf : n ≤ f
      · have : n + 1 ≤ f + 1 := by omega
        simp only [hnf, this, if_true]
        congr 1
        omega
      · have : ¬ (n + 1 ≤ f + 1) := by omega
        simp only [hnf, this, if_false]

/-- sequential links are counted: on the tree /d with d/s -> . and the file d/f, forty `s` resolve
with the budget 40, forty-one do not (a bound on the nesting depth would accept any number) -/
example :
    let fs : FS := { node := fun l => if l = [['d']] then some Node.dir
                       else if l = [['d'], ['s']] then some (Node.link DOT)
                       else if l = [['d'], ['f']] then some (Node.file 1) else none,
                     dnlink := fun _ => 2, nlink := fun _ => 1, data := fun _ => [] }
    walk fs 40 [['d']] (List.replicate 40 ['s'] ++ [['f']]) true = some [['d'], ['f']] ∧
    walk fs 40 [['d']] (List.replicate 41 ['s'] ++ [['f']]) true = none := by
  intro fs
  have hd : fs.get [['d']] = some Node.dir := by decide
  have hl : fs.get ([['d']] ++ [['s']]) = some (Node.link DOT) := by decide
  have key := (C10_eloop_counts_all_links fs [['d']] ['s'] DOT [['f']] hd (by decide) (by decide) hl).2.2 rfl
  refine ⟨?_, ?_⟩
  · rw [key 40 40]
    have hf : fs.get ([['d']] ++ [['f']]) = some (Node.file 1) := by decide
    simp only [Nat.le_refl, if_true, Nat.sub_self]
    rw [walk_step_plain fs 0 [['d']] ['f'] [] true hd (by decide) (by decide) (Node.file 1) hf (by intro t; simp),
      walk_nil]
    rfl
  · rw [key 41 40]
    simp

/-- the verdict of the containment check is the same for every recursion bound at or above the
kernel's symlink bound, whenever the kernel resolves the path and (for an absolute location) the
base directory -/
theorem checkContainment_fuel (fs : FS) (kfuel fuel fuel' : Nat) (cwd : Loc) (hcwd : RealDir fs cwd)
    (hf : kfuel ≤ fuel) (hf' : kfuel ≤ fuel') (base loc : Str) (l : Loc)
    (hp : kresolve fs kfuel cwd (tensorPath base loc) true = some l)
    (hbase : isabs loc = true → base ≠ [] → ∃ bl, kresolve fs kfuel cwd base true = some bl) :
    checkContainment fs kfuel fuel (render cwd) cwd base loc =
      checkContainment fs kfuel fuel' (render cwd) cwd base loc := by
  by_cases hb : base = []
  · unfold checkContainment; simp [hb]
  · obtain ⟨bl, hbl⟩ : ∃ bl, kresolve fs kfuel cwd base true = some bl := by
      cases ha : isabs loc with
      | true => exact hbase ha hb
      | false => exact C10_base_resolves fs kfuel cwd base loc l hb ha hp
    have r1 := (realpath_of_kresolve fs kfuel fuel cwd hcwd _ kfuel l hp hf).1
    have r1' := (realpath_of_kresolve fs kfuel fuel' cwd hcwd _ kfuel l hp hf').1
    have r2 := (realpath_of_kresolve fs kfuel fuel cwd hcwd _ kfuel bl hbl hf).1
    have r2' := (realpath_of_kresolve fs kfuel fuel' cwd hcwd _ kfuel bl hbl hf').1
    have q1 := realpath_fixed_of_kresolve fs kfuel fuel cwd hcwd _ l hp hf
    have q1' := realpath_fixed_of_kresolve fs kfuel fuel' cwd hcwd _ l hp hf'
    have q2 := realpath_fixed_of_kresolve fs kfuel fuel cwd hcwd _ bl hbl hf
    have q2' := realpath_fixed_of_kresolve fs kfuel fuel' cwd hcwd _ bl hbl hf'
    unfold checkContainment check2 check3
    rw [r1, r1', r2, r2', q1, q1', q2, q2']

/-- **C10_fuel_discharged**: the recursion bound `fuel` of the transcribed `os.path.realpath` (a
model artefact standing for CPython's recursion limit) is discharged by the kernel's bound `kfuel` on
the number of links one resolution follows (the nesting depth never exceeds that number): for EVERY `fuel ≥ kfuel` a call of any entry point from any cached state has the same
result, leaves the same cached state and opens the same inodes as with `fuel = kfuel`, and performs
no event in the one case iff in the other.  Hypothesis: for an ABSOLUTE location the kernel resolves
the (non-empty) base directory; for relative locations nothing is assumed (`C10_base_resolves`).
So every statement of this file about `fuel ≥ kfuel` is a statement about the single bound
`kfuel`. -/
theorem C10_fuel_discharged (fs : FS) (kfuel fuel : Nat) (cwd : Loc) (hcwd : RealDir fs cwd)
    (hfuel : kfuel ≤ fuel) (base loc : Str) (offset length : Nat) (ep : EntryPoint) (st : TState)
    (hbase : isabs loc = true → base ≠ [] → ∃ bl, kresolve fs kfuel cwd base true = some bl) :
    (call fs kfuel fuel (render cwd) cwd base loc offset length ep st).1 =
      (call fs kfuel kfuel (render cwd) cwd base loc offset length ep st).1 ∧
    (call fs kfuel fuel (render cwd) cwd base loc offset length ep st).2.2 =
      (call fs kfuel kfuel (render cwd) cwd base loc offset length ep st).2.2 ∧
    (∀ p i, Ev.openEv p (some i) ∈ (call fs kfuel fuel (render cwd) cwd base loc offset length ep st).2.1 ↔
      Ev.openEv p (some i) ∈ (call fs kfuel kfuel (render cwd) cwd base loc offset length ep st).2.1) ∧
    ((call fs kfuel fuel (render cwd) cwd base loc offset length ep st).2.1 = [] ↔
      (call fs kfuel kfuel (render cwd) cwd base loc offset length ep st).2.1 = []) := by
  cases hp : kresolve fs kfuel cwd (tensorPath base loc) true with
  | some l =>
    have hv := checkContainment_fuel fs kfuel fuel kfuel cwd hcwd hfuel (Nat.le_refl _) base loc l hp hbase
    rw [call_eq_spec, call_eq_spec, callSpec_congr fs kfuel fuel kfuel _ _ _ _ _ _ _ _ hv]
    exact ⟨rfl, rfl, fun _ _ => Iff.rfl, Iff.rfl⟩
  | none =>
    obtain ⟨a1, a2⟩ := C10_eloop_no_open fs kfuel fuel (render cwd) cwd base loc offset length ep st hp
    obtain ⟨b1, b2⟩ := C10_eloop_no_open fs kfuel kfuel (render cwd) cwd base loc offset length ep st hp
    cases hq : quiet ep st with
    | true =>
      obtain ⟨heq, _⟩ := callSpec_quiet fs kfuel fuel kfuel (render cwd) cwd base loc offset length ep st hq
      rw [call_eq_spec, call_eq_spec, heq]
      exact ⟨rfl, rfl, fun _ _ => Iff.rfl, Iff.rfl⟩
    | false =>
      have e1 := (callSpec_loud fs kfuel fuel (render cwd) cwd base loc offset length ep st hq).1
      have e0 := (callSpec_loud fs kfuel kfuel (render cwd) cwd base loc offset length ep st hq).1
      have n1 : (call fs kfuel fuel (render cwd) cwd base loc offset length ep st).2.1 ≠ [] := by
        rw [call_eq_spec, e1]; intro h
        have := guardedEvents_head fs kfuel fuel (render cwd) cwd base loc
        rw [h] at this; simp at this
      have n0 : (call fs kfuel kfuel (render cwd) cwd base loc offset length ep st).2.1 ≠ [] := by
        rw [call_eq_spec, e0]; intro h
        have := guardedEvents_head fs kfuel kfuel (render cwd) cwd base loc
        rw [h] at this; simp at this
      obtain ⟨r1, s1⟩ := a2 n1
      obtain ⟨r0, s0⟩ := b2 n0
      refine ⟨by rw [r1, r0], by rw [s1, s0], ?_, ?_⟩
      · intro p i
        exact ⟨fun h => absurd h (a1 p i), fun h => absurd h (b1 p i)⟩
      · exact ⟨fun h => absurd h n1, fun h => absurd h n0⟩

end IrVerif.Path

/-! ### zero-size tensors, `base_dir` of any type, histories of the public re-basing operations -/
namespace IrVerif.Path

/-- every file a call of `callT` opens: the base directory is not a `bytes` object, a zero-size
tensor opens only through `tofile`, and with a non-empty base directory the open is a safe open -/
theorem callT_opens (fs : FS) (kfuel fuel : Nat) (cwd : Loc) (hfuel : kfuel ≤ fuel) (p : TensorP)
    (b : BaseVal) (ep : EntryPoint) (st : TState) (q : Str) (i : Nat)
    (h : Ev.openEv q (some i) ∈ (callT fs kfuel fuel (render cwd) cwd p b ep st).2.1) :
    b.kind ≠ BaseKind.bytes ∧ (p.zero = true → ep = EntryPoint.tofile) ∧
    (b.s ≠ [] → RealDir fs cwd → q = tensorPath b.s p.loc ∧ SafeOpen fs kfuel fuel cwd b.s p.loc i) := by
  unfold callT at h
  by_cases hk : b.kind = BaseKind.bytes
  · simp [hk] at h
  · simp only [hk, if_false] at h
    by_cases hz : p.zero = true
    · simp only [hz, if_true] at h
      by_cases hep : ep = EntryPoint.tofile
      · subst hep
        rw [zero_tofile] at h
        exact ⟨hk, fun _ => rfl, fun hb hcwd =>
          C10_call_open_safe fs kfuel fuel cwd hcwd hfuel b.s p.loc p.offset p.length _ st hb q i h⟩
      · exact absurd h ((zero_nontofile _ st ep hep).1 q (some i))
    · simp only [hz, if_false] at h
      exact ⟨hk, fun hz' => absurd hz' hz, fun hb hcwd =>
        C10_call_open_safe fs kfuel fuel cwd hcwd hfuel b.s p.loc p.offset p.length ep st hb q i h⟩

/-- the bytes a call of `callT` returns and the inode mapped afterwards -/
theorem callT_result (fs : FS) (kfuel fuel : Nat) (cwdS : Str) (cwd : Loc) (p : TensorP) (b : BaseVal)
    (ep : EntryPoint) (st : TState) :
    (∀ bytes, (callT fs kfuel fuel cwdS cwd p b ep st).1 = ReadResult.ok bytes →
      (bytes = [] ∧ p.zero = true ∧ ep ≠ EntryPoint.tofile) ∨
      ∃ i, bytes = sliceOf (fs.data i) p.offset p.length ∧
        (Ev.openEv (tensorPath b.s p.loc) (some i) ∈ (callT fs kfuel fuel cwdS cwd p b ep st).2.1 ∨
          ((callT fs kfuel fuel cwdS cwd p b ep st).2.1 = [] ∧ st.raw = some i))) ∧
    (∀ i, (callT fs kfuel fuel cwdS cwd p b ep st).2.2.raw = some i →
      st.raw = some i ∨
        Ev.openEv (tensorPath b.s p.loc) (some i) ∈ (callT fs kfuel fuel cwdS cwd p b ep st).2.1) := by
  unfold callT
  by_cases hk : b.kind = BaseKind.bytes
  · simp only [hk, if_true]
    refine ⟨?_, fun i h => Or.inl h⟩
    intro bytes h
    by_cases hc : p.zero = true ∧ ep = EntryPoint.tobytes
    · simp only [hc, and_self, if_true, ReadResult.ok.injEq] at h
      exact Or.inl ⟨h.symm, hc.1, by rw [hc.2]; simp⟩
    · simp [hc] at h
  · simp only [hk, if_false]
    by_cases hz : p.zero = true
    · simp only [hz, if_true]
      by_cases hep : ep = EntryPoint.tofile
      · subst hep
        rw [zero_tofile]
        obtain ⟨h1, h2⟩ := C10_call_result fs kfuel fuel cwdS cwd b.s p.loc p.offset p.length EntryPoint.tofile st
        exact ⟨fun bytes h => Or.inr (h1 bytes h), h2⟩
      · obtain ⟨_, hb, hr, _, _⟩ := zero_nontofile
          { fs := fs, kfuel := kfuel, fuel := fuel, cwdS := cwdS, cwd := cwd, base := b.s, loc := p.loc,
            offset := p.offset, length := p.length } st ep hep
        exact ⟨fun bytes h => Or.inl ⟨hb bytes h, (by first | exact hz | trivial), hep⟩, fun i h => Or.inl (hr i h)⟩
    · simp only [hz, if_false]
      obtain ⟨h1, h2⟩ := C10_call_result fs kfuel fuel cwdS cwd b.s p.loc p.offset p.length ep st
      exact ⟨fun bytes h => Or.inr (h1 bytes h), h2⟩

/-- **C10_zero_size**: a tensor with `size == 0`, any base directory value (str, os.PathLike, bytes),
any entry point, any cached state: (1) numpy / `__array__` / tobytes / serialisation open nothing and
return no byte (tobytes does not even run the check); (2) the only entry point that opens the file
is `tofile`, and then the open is preceded by a non-rejecting containment check and, with a
non-empty base directory, is a safe open; (3) when the check rejects, nothing is opened. -/
theorem C10_zero_size (fs : FS) (kfuel fuel : Nat) (cwd : Loc) (hfuel : kfuel ≤ fuel) (p : TensorP)
    (hz : p.zero = true) (b : BaseVal) (ep : EntryPoint) (st : TState) :
    (ep ≠ EntryPoint.tofile →
      (∀ q oi, Ev.openEv q oi ∉ (callT fs kfuel fuel (render cwd) cwd p b ep st).2.1) ∧
      (∀ bytes, (callT fs kfuel fuel (render cwd) cwd p b ep st).1 = ReadResult.ok bytes → bytes = [])) ∧
    (∀ q i, Ev.openEv q (some i) ∈ (callT fs kfuel fuel (render cwd) cwd p b ep st).2.1 →
      ep = EntryPoint.tofile ∧ b.kind ≠ BaseKind.bytes ∧
      (b.s ≠ [] → RealDir fs cwd → q = tensorPath b.s p.loc ∧ SafeOpen fs kfuel fuel cwd b.s p.loc i)) ∧
    CheckedOpens (checkContainment fs kfuel fuel (render cwd) cwd b.s p.loc)
      (callT fs kfuel fuel (render cwd) cwd p b ep st).2.1 := by
  refine ⟨?_, ?_, ?_⟩
  · intro hep
    unfold callT
    by_cases hk : b.kind = BaseKind.bytes
    · simp only [hk, if_true]
      refine ⟨by simp, ?_⟩
      intro bytes h
      by_cases hc : p.zero = true ∧ ep = EntryPoint.tobytes
      · simp only [hc, and_self, if_true, ReadResult.ok.injEq] at h; exact h.symm
      · simp [hc] at h
    · simp only [hk, if_false, hz, if_true]
      obtain ⟨h1, h2, _⟩ := zero_nontofile
        { fs := fs, kfuel := kfuel, fuel := fuel, cwdS := render cwd, cwd := cwd, base := b.s, loc := p.loc,
          offset := p.offset, length := p.length } st ep hep
      exact ⟨h1, h2⟩
  · intro q i h
    obtain ⟨h1, h2, h3⟩ := callT_opens fs kfuel fuel cwd hfuel p b ep st q i h
    exact ⟨h2 hz, h1, h3⟩
  · unfold callT
    by_cases hk : b.kind = BaseKind.bytes
    · simp only [hk, if_true]
      intro pre q oi post h
      cases pre <;> simp at h
    · simp only [hk, if_false, hz, if_true]
      by_cases hep : ep = EntryPoint.tofile
      · subst hep
        rw [zero_tofile]
        exact (C10_all_entry_points fs kfuel fuel (render cwd) cwd b.s p.loc p.offset p.length _ st).1
      · intro pre q oi post h
        have := (zero_nontofile
          { fs := fs, kfuel := kfuel, fuel := fuel, cwdS := render cwd, cwd := cwd, base := b.s, loc := p.loc,
            offset := p.offset, length := p.length } st ep hep).1 q oi
        rw [h] at this
        exact absurd (by simp) this

/-- C10_zero_size is about something: a zero-size numpy() on the tree /b/f runs the check and
returns no byte; a zero-size tofile() with a non-zero byte count opens the file -/
example : (callT exFS 40 40 (render []) [] { loc := "f".toList, offset := 0, length := 0, zero := true }
      { kind := BaseKind.str, s := "/b".toList } EntryPoint.tobytes TState.fresh) =
    (ReadResult.ok [], [], TState.fresh) := by
  simp [callT, runBody, bodyZ, execStmts, execStmt, execPrim, TState.fresh]

end IrVerif.Path

/-! ### histories over several tensors: setter, `set_base_dir`, `load_to_model`, `convert_tensors_from_external` -/
namespace IrVerif.Path

/-- every log entry of a history is the output of a `callT` in the tree / base of that moment -/
theorem runMicro_entries (kfuel fuel : Nat) (cwdS : Str) (cwd : Loc) (ps : Nat → TensorP) :
    ∀ (mops : List MOp) (w : World), ∀ e ∈ runMicro kfuel fuel cwdS cwd ps w mops,
      ∃ st, e.events = (callT e.fs kfuel fuel cwdS cwd (ps e.t) e.base e.ep st).2.1 ∧
        e.res = (callT e.fs kfuel fuel cwdS cwd (ps e.t) e.base e.ep st).1 := by
  intro mops
  induction mops with
  | nil => intro w e he; simp [runMicro] at he
  | cons x xs ih =>
    intro w e he
    cases x with
    | setFS fs => simp only [runMicro, stepWorld] at he; exact ih _ e he
    | rebase t b => simp only [runMicro, stepWorld] at he; exact ih _ e he
    | release t => simp only [runMicro, stepWorld] at he; exact ih _ e he
    | beginLoad => simp only [runMicro, stepWorld] at he; exact ih _ e he
    | call t ep =>
      simp only [runMicro, stepWorld, List.mem_cons] at he
      rcases he with rfl | he
      · exact ⟨(w.ts t).st, rfl, rfl⟩
      · exact ih _ e he
    | loadOne t =>
      by_cases hab : w.aborted = true
      · simp only [runMicro, stepWorld, hab, if_true] at he; exact ih _ e he
      · simp only [runMicro, stepWorld, hab, Bool.false_eq_true, if_false, List.mem_cons] at he
        rcases he with rfl | he
        · exact ⟨(w.ts t).st, rfl, rfl⟩
        · exact ih _ e he

/-- the step shared by `call` and a running `loadOne`: one entry `e0` is logged for tensor `t` and the
rest of the history continues from a world whose tensors are those of `w` with `t`'s cached state
replaced by the state after the call -/
theorem runMicro_bytes_step (kfuel fuel : Nat) (cwdS : Str) (cwd : Loc) (ps : Nat → TensorP)
    (Q : World → (Nat → BaseVal → Nat → Prop) → List WLog → Prop)
    (hQ : ∀ w P log, Q w P log ↔
      ((∀ t i, (w.ts t).st.raw = some i → P t (w.ts t).base i) →
        ∀ (pre : List WLog) (e : WLog) (post : List WLog), log = pre ++ e :: post →
        ∀ bytes, e.res = ReadResult.ok bytes →
          (bytes = [] ∧ (ps e.t).zero = true ∧ e.ep ≠ EntryPoint.tofile) ∨
          ∃ i, bytes = sliceOf (e.fs.data i) (ps e.t).offset (ps e.t).length ∧
            (P e.t e.base i ∨ ∃ e' ∈ pre ++ [e], e'.t = e.t ∧ e'.base = e.base ∧
              Ev.openEv (tensorPath e.base.s (ps e.t).loc) (some i) ∈ e'.events)))
    (w w' : World) (t : Nat) (ep : EntryPoint) (rest : List WLog)
    (hts : w'.ts = fun k => if k = t then { (w.ts t) with
      st := (callT w.fs kfuel fuel cwdS cwd (ps t) (w.ts t).base ep (w.ts t).st).2.2 } else w.ts k)
    (ih : ∀ P, Q w' P rest) (P : Nat → BaseVal → Nat → Prop) :
    Q w P ({ t := t, fs := w.fs, base := (w.ts t).base, ep := ep,
             res := (callT w.fs kfuel fuel cwdS cwd (ps t) (w.ts t).base ep (w.ts t).st).1,
             events := (callT w.fs kfuel fuel cwdS cwd (ps t) (w.ts t).base ep (w.ts t).st).2.1 } :: rest) := by
  rw [hQ]
  intro hP pre e post hlog bytes hb
  obtain ⟨hres, hstate⟩ := callT_result w.fs kfuel fuel cwdS cwd (ps t) (w.ts t).base ep (w.ts t).st
  cases pre with
  | nil =>
    simp only [List.nil_append, List.cons.injEq] at hlog
    obtain ⟨he, _⟩ := hlog
    subst he
    rcases hres bytes hb with hzero | ⟨i, hi, hor⟩
    · exact Or.inl hzero
    · refine Or.inr ⟨i, hi, ?_⟩
      rcases hor with hev | ⟨_, hraw⟩
      · exact Or.inr ⟨_, List.mem_append_right _ (List.mem_singleton_self _), rfl, rfl, hev⟩
      · exact Or.inl (hP t i hraw)
  | cons e0 pre' =>
    simp only [List.cons_append, List.cons.injEq] at hlog
    obtain ⟨he0, hrest⟩ := hlog
    have hih := (hQ w' (fun t' b' i => P t' b' i ∨ (t' = t ∧ b' = (w.ts t).base ∧
        Ev.openEv (tensorPath (w.ts t).base.s (ps t).loc) (some i) ∈
          (callT w.fs kfuel fuel cwdS cwd (ps t) (w.ts t).base ep (w.ts t).st).2.1)) rest).mp (ih _)
    have := hih (by
        intro t' i h
        rw [hts] at h ⊢
        by_cases htt : t' = t
        · subst htt
          simp only [if_true] at h ⊢
          rcases hstate i h with h' | h'
          · exact Or.inl (hP t' i h')
          · exact Or.inr ⟨(by first | rfl | trivial), (by first | rfl | trivial), h'⟩
        · simp only [htt, if_false] at h ⊢
          exact Or.inl (hP t' i h)) pre' e post hrest bytes hb
    rcases this with hzero | ⟨i, hi, hor⟩
    · exact Or.inl hzero
    · refine Or.inr ⟨i, hi, ?_⟩
      rcases hor with (hp | ⟨ht, hbase, hev⟩) | ⟨e', he', ht', hb', hev⟩
      · exact Or.inl hp
      · refine Or.inr ⟨e0, by simp, ?_, ?_, ?_⟩
        · rw [← he0]; exact ht.symm
        · rw [← he0]; exact hbase.symm
        · rw [← he0, ht, hbase]; exact hev
      · exact Or.inr ⟨e', by simp only [List.cons_append, List.mem_cons]; exact Or.inr he', ht', hb', hev⟩

theorem runMicro_bytes (kfuel fuel : Nat) (cwdS : Str) (cwd : Loc) (ps : Nat → TensorP) :
    ∀ (mops : List MOp) (w : World) (P : Nat → BaseVal → Nat → Prop),
      (∀ t i, (w.ts t).st.raw = some i → P t (w.ts t).base i) →
      ∀ (pre : List WLog) (e : WLog) (post : List WLog),
        runMicro kfuel fuel cwdS cwd ps w mops = pre ++ e :: post →
        ∀ bytes, e.res = ReadResult.ok bytes →
          (bytes = [] ∧ (ps e.t).zero = true ∧ e.ep ≠ EntryPoint.tofile) ∨
          ∃ i, bytes = sliceOf (e.fs.data i) (ps e.t).offset (ps e.t).length ∧
            (P e.t e.base i ∨ ∃ e' ∈ pre ++ [e], e'.t = e.t ∧ e'.base = e.base ∧
              Ev.openEv (tensorPath e.base.s (ps e.t).loc) (some i) ∈ e'.events) := by
  intro mops
  induction mops with
  | nil =>
    intro w P _ pre e post hlog
    simp [runMicro] at hlog
  | cons x xs ih =>
    intro w P hP pre e post hlog bytes hb
    cases x with
    | setFS fs =>
      simp only [runMicro, stepWorld] at hlog
      exact ih { w with fs := fs } P hP pre e post hlog bytes hb
    | beginLoad =>
      simp only [runMicro, stepWorld] at hlog
      exact ih { w with aborted := false } P hP pre e post hlog bytes hb
    | rebase t b =>
      simp only [runMicro, stepWorld] at hlog
      refine ih (w.set t ((w.ts t).rebase b)) P ?_ pre e post hlog bytes hb
      intro t' i hi
      simp only [World.set] at hi ⊢
      by_cases htt : t' = t
      · subst htt
        simp only [if_true, TSess.rebase] at hi ⊢
        by_cases hbe : b = (w.ts t').base
        · simp only [hbe, if_true] at hi
          rw [hbe]; exact hP t' i hi
        · simp [hbe, TState.fresh] at hi
      · simp only [htt, if_false] at hi ⊢
        exact hP t' i hi
    | release t =>
      simp only [runMicro, stepWorld] at hlog
      refine ih (w.set t { (w.ts t) with st := TState.fresh }) P ?_ pre e post hlog bytes hb
      intro t' i hi
      simp only [World.set] at hi ⊢
      by_cases htt : t' = t
      · subst htt
        simp [TState.fresh] at hi
      · simp only [htt, if_false] at hi ⊢
        exact hP t' i hi
    | call t ep =>
      simp only [runMicro, stepWorld] at hlog
      have := runMicro_bytes_step kfuel fuel cwdS cwd ps
        (fun w P log => (∀ t i, (w.ts t).st.raw = some i → P t (w.ts t).base i) →
          ∀ (pre : List WLog) (e : WLog) (post : List WLog), log = pre ++ e :: post →
          ∀ bytes, e.res = ReadResult.ok bytes →
            (bytes = [] ∧ (ps e.t).zero = true ∧ e.ep ≠ EntryPoint.tofile) ∨
            ∃ i, bytes = sliceOf (e.fs.data i) (ps e.t).offset (ps e.t).length ∧
              (P e.t e.base i ∨ ∃ e' ∈ pre ++ [e], e'.t = e.t ∧ e'.base = e.base ∧
                Ev.openEv (tensorPath e.base.s (ps e.t).loc) (some i) ∈ e'.events))
        (fun _ _ _ => Iff.rfl) w
        (w.set t { (w.ts t) with st := (callT w.fs kfuel fuel cwdS cwd (ps t) (w.ts t).base ep (w.ts t).st).2.2 })
        t ep _ rfl (fun P' hP' pre' e' post' hl' => ih _ P' hP' pre' e' post' hl') P
      exact this hP pre e post hlog bytes hb
    | loadOne t =>
      by_cases hab : w.aborted = true
      · simp only [runMicro, stepWorld, hab, if_true] at hlog
        exact ih w P hP pre e post hlog bytes hb
      · simp only [runMicro, stepWorld, hab, Bool.false_eq_true, if_false] at hlog
        have := runMicro_bytes_step kfuel fuel cwdS cwd ps
          (fun w P log => (∀ t i, (w.ts t).st.raw = some i → P t (w.ts t).base i) →
            ∀ (pre : List WLog) (e : WLog) (post : List WLog), log = pre ++ e :: post →
            ∀ bytes, e.res = ReadResult.ok bytes →
              (bytes = [] ∧ (ps e.t).zero = true ∧ e.ep ≠ EntryPoint.tofile) ∨
              ∃ i, bytes = sliceOf (e.fs.data i) (ps e.t).offset (ps e.t).length ∧
                (P e.t e.base i ∨ ∃ e' ∈ pre ++ [e], e'.t = e.t ∧ e'.base = e.base ∧
                  Ev.openEv (tensorPath e.base.s (ps e.t).loc) (some i) ∈ e'.events))
          (fun _ _ _ => Iff.rfl) w
          { (w.set t { (w.ts t) with st := (callT w.fs kfuel fuel cwdS cwd (ps t) (w.ts t).base
              EntryPoint.serializeRaw (w.ts t).st).2.2 }) with
            aborted := decide ((callT w.fs kfuel fuel cwdS cwd (ps t) (w.ts t).base
              EntryPoint.serializeRaw (w.ts t).st).1 = ReadResult.raised) }
          t EntryPoint.serializeRaw _ rfl
          (fun P' hP' pre' e' post' hl' => ih _ P' hP' pre' e' post' hl') P
        exact this hP pre e post hlog bytes hb

/-- **C10_world_safe** (supersedes C10_session_safe: several tensors, zero-size tensors, base
directory values of any type, and every public way of re-basing): for every history of public
operations on the external tensors of a model - arbitrary changes of the tree, `tensor.base_dir = v`,
`external_data.set_base_dir(graph, v)` (the setter on every tensor its walker reaches),
`release()`, calls of any entry point, `load_to_model` / `convert_tensors_from_external` (the
serialisation entry point on a list of tensors, stopping at the first raise); cloning a graph or
model shares the tensor objects and is no operation here - starting with nothing mapped, and for
every call `e` in the log (`pre` = the calls before it):
(1) every file `e` opens is opened under a base directory that is not a `bytes` object and, when that
    base directory is non-empty, is a safe open with respect to the tree and base directory at the
    time of `e`;
(2) the bytes `e` returns are either none at all (zero-size tensor, entry point other than
    `tofile`), or the slice of an inode opened by `e` itself or by an EARLIER call `e'` ON THE SAME
    TENSOR made under the SAME base directory value as `e`'s; that open was a safe open with respect
    to `e`'s base directory in the tree of that moment.  A mapping obtained under one base directory
    is never served under another. -/
theorem C10_world_safe (kfuel fuel : Nat) (cwd : Loc) (hfuel : kfuel ≤ fuel) (ps : Nat → TensorP)
    (w0 : World) (h0 : ∀ t, (w0.ts t).st.raw = none) (ops : List WOp)
    (pre : List WLog) (e : WLog) (post : List WLog)
    (hlog : runWorld kfuel fuel (render cwd) cwd ps w0 ops = pre ++ e :: post) :
    (∀ q i, Ev.openEv q (some i) ∈ e.events →
      e.base.kind ≠ BaseKind.bytes ∧ ((ps e.t).zero = true → e.ep = EntryPoint.tofile) ∧
      (e.base.s ≠ [] → RealDir e.fs cwd →
        q = tensorPath e.base.s (ps e.t).loc ∧ SafeOpen e.fs kfuel fuel cwd e.base.s (ps e.t).loc i)) ∧
    (∀ bytes, e.res = ReadResult.ok bytes →
      (bytes = [] ∧ (ps e.t).zero = true ∧ e.ep ≠ EntryPoint.tofile) ∨
      ∃ i, bytes = sliceOf (e.fs.data i) (ps e.t).offset (ps e.t).length ∧
        ∃ e' ∈ pre ++ [e], e'.t = e.t ∧ e'.base = e.base ∧
          Ev.openEv (tensorPath e.base.s (ps e.t).loc) (some i) ∈ e'.events ∧
          (e.base.s ≠ [] → RealDir e'.fs cwd → SafeOpen e'.fs kfuel fuel cwd e.base.s (ps e.t).loc i)) := by
  unfold runWorld at hlog
  have hsafe : ∀ x ∈ runMicro kfuel fuel (render cwd) cwd ps w0 (expandAll ops), ∀ q i,
      Ev.openEv q (some i) ∈ x.events →
      x.base.kind ≠ BaseKind.bytes ∧ ((ps x.t).zero = true → x.ep = EntryPoint.tofile) ∧
      (x.base.s ≠ [] → RealDir x.fs cwd →
        q = tensorPath x.base.s (ps x.t).loc ∧ SafeOpen x.fs kfuel fuel cwd x.base.s (ps x.t).loc i) := by
    intro x hx q i hm
    obtain ⟨st, hev, _⟩ := runMicro_entries kfuel fuel (render cwd) cwd ps _ w0 x hx
    rw [hev] at hm
    exact callT_opens x.fs kfuel fuel cwd hfuel (ps x.t) x.base x.ep st q i hm
  refine ⟨hsafe e (by rw [hlog]; simp), ?_⟩
  intro bytes hb
  rcases runMicro_bytes kfuel fuel (render cwd) cwd ps _ w0 (fun _ _ _ => False)
    (by intro t i h; rw [h0 t] at h; exact absurd h (by simp)) pre e post hlog bytes hb with hz | ⟨i, hi, hor⟩
  · exact Or.inl hz
  · refine Or.inr ⟨i, hi, ?_⟩
    rcases hor with hf | ⟨e', he', ht, hbase, hev⟩
    · exact absurd hf id
    · refine ⟨e', he', ht, hbase, hev, ?_⟩
      intro hne hcwd
      have hmem : e' ∈ runMicro kfuel fuel (render cwd) cwd ps w0 (expandAll ops) := by
        rw [hlog]
        rcases List.mem_append.mp he' with h | h
        · exact List.mem_append.mpr (Or.inl h)
        · have : e' = e := by simpa using h
          subst this
          simp
      have := (hsafe e' hmem (tensorPath e.base.s (ps e.t).loc) i hev).2.2
        (by rw [hbase]; exact hne) hcwd
      rw [ht, hbase] at this
      exact this.2

end IrVerif.Path

namespace IrVerif.Path

/-- C10_world_safe is not vacuous: `set_base_dir` with a pathlib value, then `load_to_model`, on the
tree /b/f: the log has an entry that returns bytes -/
example : ∃ pre e post,
    runWorld 40 40 (render []) [] (fun _ => { loc := "f".toList, offset := 0, length := 3, zero := false })
      { fs := exFS, ts := fun _ => { base := { kind := BaseKind.str, s := [] }, st := TState.fresh },
        aborted := false }
      [WOp.setBaseDir [0] { kind := BaseKind.pathlike, s := "/b".toList }, WOp.loadToModel [0]] =
        pre ++ e :: post ∧
    e.res = ReadResult.ok [10, 20, 30] := by
  refine ⟨[], _, _, rfl, ?_⟩
  have := ex_read EntryPoint.serializeRaw
  unfold read at this
  simpa [callT, stepWorld, World.set, TSess.rebase, TState.fresh] using this

end IrVerif.Path

/-! ### histories with `os.chdir` between the operations -/
namespace IrVerif.Path

theorem runMicroC_entries (kfuel fuel : Nat) (ps : Nat → TensorP) :
    ∀ (mops : List CMOp) (cwdS : Str) (w : World), ∀ ce ∈ runMicroC kfuel fuel ps cwdS w mops,
      ∃ st, ce.2.events = (callT ce.2.fs kfuel fuel ce.1 (comps ce.1) (ps ce.2.t) ce.2.base ce.2.ep st).2.1 ∧
        ce.2.res = (callT ce.2.fs kfuel fuel ce.1 (comps ce.1) (ps ce.2.t) ce.2.base ce.2.ep st).1 := by
  intro mops
  induction mops with
  | nil => intro cwdS w ce he; simp [runMicroC] at he
  | cons x xs ih =>
    intro cwdS w ce he
    cases x with
    | chdir c => simp only [runMicroC] at he; exact ih _ _ ce he
    | m y =>
      cases y with
      | setFS fs => simp only [runMicroC, stepWorld] at he; exact ih _ _ ce he
      | rebase t b => simp only [runMicroC, stepWorld] at he; exact ih _ _ ce he
      | release t => simp only [runMicroC, stepWorld] at he; exact ih _ _ ce he
      | beginLoad => simp only [runMicroC, stepWorld] at he; exact ih _ _ ce he
      | call t ep =>
        simp only [runMicroC, stepWorld, List.mem_cons] at he
        rcases he with rfl | he
        · exact ⟨(w.ts t).st, rfl, rfl⟩
        · exact ih _ _ ce he
      | loadOne t =>
        by_cases hab : w.aborted = true
        · simp only [runMicroC, stepWorld, hab, if_true] at he; exact ih _ _ ce he
        · simp only [runMicroC, stepWorld, hab, Bool.false_eq_true, if_false, List.mem_cons] at he
          rcases he with rfl | he
          · exact ⟨(w.ts t).st, rfl, rfl⟩
          · exact ih _ _ ce he

/-- **C10_world_chdir_opens**: histories of public operations (as in `C10_world_safe`) with `os.chdir`
between them: every file a call opens is opened under a base directory that is not a `bytes` object,
by `tofile` if the tensor has size zero, and - when the base directory is non-empty and the working
directory of THAT call is a chain of real directories named by its `os.getcwd()` string - is a safe
open with respect to the tree, the base directory value and the working directory at the time of the
call: a relative base directory is resolved anew, from the current working directory, by every call
that opens the file.  (What a call serves from a mapping made earlier is the subject of
`C10_world_safe`; a change of directory, like a change of the tree, does not drop a mapping.) -/
theorem C10_world_chdir_opens (kfuel fuel : Nat) (hfuel : kfuel ≤ fuel) (ps : Nat → TensorP)
    (cwd0 : Str) (w0 : World) (ops : List COp) (c : Str) (e : WLog)
    (he : (c, e) ∈ runWorldC kfuel fuel ps cwd0 w0 ops) (q : Str) (i : Nat)
    (hq : Ev.openEv q (some i) ∈ e.events) :
    e.base.kind ≠ BaseKind.bytes ∧ ((ps e.t).zero = true → e.ep = EntryPoint.tofile) ∧
    (e.base.s ≠ [] → RealDir e.fs (comps c) → render (comps c) = c →
      q = tensorPath e.base.s (ps e.t).loc ∧ SafeOpen e.fs kfuel fuel (comps c) e.base.s (ps e.t).loc i) := by
  obtain ⟨st, hev, _⟩ := runMicroC_entries kfuel fuel ps _ cwd0 w0 (c, e) he
  simp only at hev
  rw [hev] at hq
  by_cases hr : render (comps c) = c
  · have := callT_opens e.fs kfuel fuel (comps c) hfuel (ps e.t) e.base e.ep st q i
      (by rw [hr]; exact hq)
    exact ⟨this.1, this.2.1, fun hb hd _ => this.2.2 hb hd⟩
  · -- without the rendering hypothesis only the first two clauses are claimed
    unfold callT at hq
    by_cases hk : e.base.kind = BaseKind.bytes
    · simp [hk] at hq
    · refine ⟨hk, ?_, fun _ _ h => absurd h hr⟩
      intro hz
      simp only [hk, if_false, hz, if_true] at hq
      by_cases hep : e.ep = EntryPoint.tofile
      · exact hep
      · exact absurd hq ((zero_nontofile _ st e.ep hep).1 q (some i))

end IrVerif.Path

/-! ### a location given as a bytes object -/
namespace IrVerif.Path

/-- **C10_bytes_location**: a tensor whose `location` is a `bytes` object: with a NON-EMPTY base directory
of any type (str, os.PathLike, bytes) a call of any entry point from any cached state performs no
event at all - nothing is checked, nothing is opened - and raises, except `tobytes` of a zero-size
tensor (which returns no byte); a file is opened only with an EMPTY base directory (checks off by
design), and then only when that base directory is the empty `bytes` object. -/
theorem C10_bytes_location (fs : FS) (kfuel fuel : Nat) (cwdS : Str) (cwd : Loc) (p : TensorP) (b : BaseVal)
    (ep : EntryPoint) (st : TState) :
    (b.s ≠ [] →
      (callTB fs kfuel fuel cwdS cwd p b ep st).2.1 = [] ∧
      (callTB fs kfuel fuel cwdS cwd p b ep st).2.2 = st ∧
      ((callTB fs kfuel fuel cwdS cwd p b ep st).1 = ReadResult.raised ∨
        ((callTB fs kfuel fuel cwdS cwd p b ep st).1 = ReadResult.ok [] ∧ p.zero = true ∧ ep = EntryPoint.tobytes))) ∧
    (∀ q oi, Ev.openEv q oi ∈ (callTB fs kfuel fuel cwdS cwd p b ep st).2.1 →
      b.s = [] ∧ (b.kind = BaseKind.bytes ∨ (p.zero = true ∧ ep ≠ EntryPoint.tofile))) := by
  refine ⟨?_, ?_⟩
  · intro hb
    unfold callTB
    simp only [hb, if_false]
    refine ⟨trivial, trivial, ?_⟩
    by_cases hc : p.zero = true ∧ ep = EntryPoint.tobytes
    · exact Or.inr ⟨by simp [hc], hc.1, hc.2⟩
    · exact Or.inl (by simp [hc])
  · intro q oi h
    unfold callTB at h
    by_cases hb : b.s = []
    · simp only [hb, if_true] at h
      refine ⟨hb, ?_⟩
      by_cases hk : b.kind = BaseKind.bytes
      · exact Or.inl hk
      · simp only [hk, if_false] at h
        by_cases hz : p.zero = true ∧ ep ≠ EntryPoint.tofile
        · exact Or.inr hz
        · simp [hz] at h
    · simp [hb] at h

/-- the empty bytes base directory with a bytes location is the unchecked read of the empty str base -/
example (fs : FS) (kfuel fuel : Nat) (cwdS : Str) (cwd : Loc) (p : TensorP) (ep : EntryPoint) (st : TState) :
    callTB fs kfuel fuel cwdS cwd p { kind := BaseKind.bytes, s := [] } ep st =
      callT fs kfuel fuel cwdS cwd p { kind := BaseKind.str, s := [] } ep st := by
  simp [callTB]

end IrVerif.Path

/-! ### PATH_MAX at every path operation of the check (model `checkContainmentP`) -/
namespace IrVerif.Path

/-- **C10_pathmax_verified_partial**: the containment check with PATH_MAX at EVERY `os.lstat` / `os.stat`
(where `os.path.realpath` silently takes an entry it cannot lstat for a non-link, D451) after the repair:
when it passes and the open that follows reaches the inode `i`, then `i` is a regular file with at most
one link; the strings `os.path.realpath` returned for the path and for the base directory are shorter
than PATH_MAX and the kernel resolves them; the resolved path names the very inode `i` and the resolved
base directory names the very object the base directory does (the `samestat` cross-check); both answers
are fixed points of `realpath` (D453); and the resolved path is, as a string, inside the resolved base
directory.
PARTIAL: not proved here is that an answer which is a fixed point of this `realpath`, shorter than
PATH_MAX and resolved by the kernel contains no symbolic link (the second resolution lstat's exactly
the prefixes of the answer, all shorter than PATH_MAX), which is what turns the above into `SafeOpen`; for
trees without names of PATH_MAX bytes or more the model without PATH_MAX in lstat / stat is exact and
`C10_read_safe` / `C10_world_safe` apply.  The P model is compared with the real code on every run
(family pathmax). -/
theorem C10_pathmax_verified_partial (fs : FS) (kfuel fuel : Nat) (cwdS : Str) (cwd : Loc) (base loc : Str)
    (i : Nat) (reg : Bool)
    (hv : checkContainmentP fs kfuel fuel cwdS cwd base loc = Verdict.pass) (hb : base ≠ [])
    (ho : openFile fs kfuel cwd (tensorPath base loc) = some (i, reg)) :
    reg = true ∧ fs.nlink i ≤ 1 ∧
    (realpathP fs kfuel fuel cwdS cwd (tensorPath base loc)).length < PATH_MAX ∧
    (realpathP fs kfuel fuel cwdS cwd base).length < PATH_MAX ∧
    statId fs kfuel cwd (realpathP fs kfuel fuel cwdS cwd (tensorPath base loc)) = some (StatId.ino i) ∧
    (∃ c, statId fs kfuel cwd base = some c ∧
      statId fs kfuel cwd (realpathP fs kfuel fuel cwdS cwd base) = some c) ∧
    realpathP fs kfuel fuel cwdS cwd (realpathP fs kfuel fuel cwdS cwd (tensorPath base loc)) =
      realpathP fs kfuel fuel cwdS cwd (tensorPath base loc) ∧
    realpathP fs kfuel fuel cwdS cwd (realpathP fs kfuel fuel cwdS cwd base) =
      realpathP fs kfuel fuel cwdS cwd base ∧
    contained (realpathP fs kfuel fuel cwdS cwd base)
      (realpathP fs kfuel fuel cwdS cwd (tensorPath base loc)) = true := by
  obtain ⟨l, hk, hkind⟩ := openFile_some _ _ _ _ _ _ ho
  have hlen : ¬ PATH_MAX ≤ (tensorPath base loc).length := by
    intro h; unfold openFile at ho; simp [h] at ho
  unfold checkContainmentP at hv
  simp only [hb, if_false] at hv
  split at hv
  · exact absurd hv (by simp)
  split at hv
  · exact absurd hv (by simp)
  split at hv
  · exact absurd hv (by simp)
  rename_i hcont
  have hcont' : contained (realpathP fs kfuel fuel cwdS cwd base)
      (realpathP fs kfuel fuel cwdS cwd (tensorPath base loc)) = true := by
    simpa using hcont
  have hsf : statFileP fs kfuel cwd (tensorPath base loc) = some (fs.nlink i, reg) := by
    unfold statFileP statFile
    simp only [hlen, if_false, hk]
    rcases hkind with ⟨hr, hg⟩ | ⟨hr, hg⟩ <;> simp [hg, hr]
  have hreg : reg = true := by
    cases reg with
    | true => rfl
    | false =>
      exfalso
      rw [hsf] at hv
      simp only at hv
      split at hv
      · split at hv
        · rename_i hall; simp at hall
        · exact absurd hv (by simp)
      · exact absurd hv (by simp)
  subst hreg
  have hsi : statIdP fs kfuel cwd (tensorPath base loc) = some (StatId.ino i) := by
    unfold statIdP statId
    simp only [hlen, if_false, hk]
    rcases hkind with ⟨_, hg⟩ | ⟨hr, _⟩
    · simp [hg]
    · exact absurd hr (by simp)
  rw [hsf, hsi] at hv
  simp only at hv
  have P_some : ∀ p x, statIdP fs kfuel cwd p = some x → p.length < PATH_MAX ∧ statId fs kfuel cwd p = some x := by
    intro p x h
    unfold statIdP at h
    by_cases hl : PATH_MAX ≤ p.length
    · simp [hl] at h
    · simp only [hl, if_false] at h
      exact ⟨by omega, h⟩
  cases hb2 : statIdP fs kfuel cwd (realpathP fs kfuel fuel cwdS cwd (tensorPath base loc)) with
  | none => simp [hb2] at hv
  | some b =>
    cases hc2 : statIdP fs kfuel cwd base with
    | none => simp [hb2, hc2] at hv
    | some c =>
      cases hd2 : statIdP fs kfuel cwd (realpathP fs kfuel fuel cwdS cwd base) with
      | none => simp [hb2, hc2, hd2] at hv
      | some d =>
        simp only [hb2, hc2, hd2] at hv
        split at hv
        · rename_i hall
          simp only [Bool.and_eq_true, decide_eq_true_eq] at hall
          obtain ⟨⟨⟨⟨⟨⟨⟨hab, hcd⟩, hfp⟩, hfb⟩, _⟩, _⟩, hn⟩, hr⟩ := hall
          obtain ⟨lb, hbs⟩ := P_some _ _ hb2
          obtain ⟨_, hcs⟩ := P_some _ _ hc2
          obtain ⟨ld, hds⟩ := P_some _ _ hd2
          exact ⟨rfl, hn, lb, ld, by rw [hbs, ← hab], ⟨c, hcs, by rw [hds, hcd]⟩, hfp, hfb, hcont'⟩
        · exact absurd hv (by simp)

end IrVerif.Path

/-! ### from the cross-check to a safe open, under the hypothesis that the two answers are link-free -/
namespace IrVerif.Path

theorem cleanB_clean (c : Str) (h : cleanB c = true) : Clean c := by
  unfold cleanB at h
  simp only [Bool.and_eq_true, bne_iff_ne, ne_eq, Bool.not_eq_true', List.contains_eq_mem,
    decide_eq_false_iff_not] at h
  exact ⟨h.1.1.1, h.1.1.2, h.1.2, h.2⟩

/-- walking entry names none of which is a symbolic link just descends, through real directories -/
theorem walk_linkfree (fs : FS) (f : Nat) : ∀ (suf : List Str) (pre l : Loc), Chain fs pre →
    (∀ c ∈ suf, Clean c) →
    (∀ k, k < suf.length → ∀ t, fs.get (pre ++ suf.take (k + 1)) ≠ some (Node.link t)) →
    walk fs f pre suf true = some l → l = pre ++ suf ∧ Chain fs l := by
  intro suf
  induction suf with
  | nil =>
    intro pre l hc _ _ h
    rw [walk_nil] at h; cases h
    exact ⟨by simp, hc⟩
  | cons c rest ih =>
    intro pre l hc hcl hnl h
    obtain ⟨hd, st⟩ := walk_cons_inv fs f pre c rest l h
    have hcc : Clean c := hcl c (by simp)
    cases st with
    | skip h1 _ => exact absurd h1 (not_special_of_clean hcc).1
    | up h2 _ => exact absurd h2 (not_special_of_clean hcc).2
    | link t f' _ _ hn _ _ =>
      have := hnl 0 (by simp) t
      simp only [Nat.zero_add, List.take_succ_cons, List.take_zero] at this
      exact absurd hn this
    | plain n _ _ hn _ hw =>
      have := ih (pre ++ [c]) l (Chain.snoc ⟨hc, hd⟩ hcc) (fun x hx => hcl x (by simp [hx]))
        (by
          intro k hk t
          have := hnl (k + 1) (by simp; omega) t
          simpa [List.take_succ_cons] using this) hw
      exact ⟨by rw [this.1]; simp, this.2⟩

/-- the kernel resolves a link-free answer to exactly the location it spells -/
theorem kresolve_linkfree (fs : FS) (f : Nat) (cwd : Loc) (s : Str) (l : Loc)
    (hlf : linkFreeAnswer fs s = true) (h : kresolve fs f cwd s true = some l) :
    l = comps s ∧ Chain fs l := by
  unfold linkFreeAnswer at hlf
  simp only [Bool.and_eq_true, decide_eq_true_eq, List.all_eq_true, List.mem_range] at hlf
  obtain ⟨⟨hs, hclean⟩, hnl⟩ := hlf
  have hcl : ∀ c ∈ comps s, Clean c := fun c hc => cleanB_clean c (hclean c hc)
  have hs' : s = render (comps s) := hs
  generalize comps s = ls at *
  subst hs'
  have hnl' : ∀ k, k < ls.length → ∀ t, fs.get ([] ++ ls.take (k + 1)) ≠ some (Node.link t) := by
    intro k hk t hg
    have := hnl k hk
    simp only [List.nil_append] at hg
    rw [hg] at this
    exact absurd this (by simp)
  unfold kresolve at h
  simp only [render_ne_nil, if_false, startLoc, isabs_render, if_true] at h
  by_cases hne : ls = []
  · subst hne
    have e : render [] = ['/'] := by simp [render, joinSep]
    rw [e] at h
    have e2 : splitSep ['/'] = [[], []] := by decide
    rw [e2, walk_step_skip fs f [] [] _ true fs.get_root (Or.inl rfl),
      walk_step_skip fs f [] [] _ true fs.get_root (Or.inl rfl), walk_nil] at h
    cases h
    exact ⟨rfl, (RealDir.root fs).1⟩
  · rw [splitSep_render _ hcl hne, walk_step_skip fs f [] [] _ true fs.get_root (Or.inl rfl)] at h
    have := walk_linkfree fs f ls [] l (RealDir.root fs).1 hcl hnl' h
    simpa using this

theorem statId_ino (fs : FS) (f : Nat) (cwd : Loc) (p : Str) (i : Nat)
    (h : statId fs f cwd p = some (StatId.ino i)) :
    ∃ l, kresolve fs f cwd p true = some l ∧ fs.get l = some (Node.file i) := by
  unfold statId at h
  cases hk : kresolve fs f cwd p true with
  | none => simp [hk] at h
  | some l =>
    simp only [hk] at h
    cases hg : fs.get l with
    | none => simp [hg] at h
    | some n =>
      cases n with
      | file j => simp only [hg, Option.some.injEq, StatId.ino.injEq] at h; subst h; exact ⟨l, rfl, hg⟩
      | other j => simp [hg] at h
      | dir => simp [hg] at h
      | link t => simp [hg] at h

theorem statId_dir (fs : FS) (f : Nat) (cwd : Loc) (p : Str) (bl : Loc)
    (h : statId fs f cwd p = some (StatId.dir bl)) :
    kresolve fs f cwd p true = some bl ∧ fs.get bl = some Node.dir := by
  unfold statId at h
  cases hk : kresolve fs f cwd p true with
  | none => simp [hk] at h
  | some l =>
    simp only [hk] at h
    cases hg : fs.get l with
    | none => simp [hg] at h
    | some n =>
      cases n with
      | file j => simp [hg] at h
      | other j => simp [hg] at h
      | dir => simp only [hg, Option.some.injEq, StatId.dir.injEq] at h; subst h; exact ⟨rfl, hg⟩
      | link t => simp [hg] at h

/-- **C10_pathmax_safe**: the repaired check with PATH_MAX at every path operation (model
`checkContainmentP`: an entry `os.path.realpath` cannot lstat is a non-link).  When the check passes
and the open that follows reaches the inode `i`, and the two answers of `os.path.realpath` (for the
path and for the base directory) are link-free (`linkFreeAnswer`: canonical absolute strings of entry
names none of whose prefixes is a symbolic link in the tree - decidable, evaluated on every generated
case and published as pathmax_linkfree=*; it is what the fixed-point condition of D453 is there to
guarantee, and the one step not proved), then with sound link counts: `i` is a regular file with at
most one link, its location `l` is the one the kernel resolves `join(base, loc)` to and is spelled by
the resolved path; `l` is reached through real directories only; and `l` lies component-wise below the
directory the kernel resolves the base directory to.  No assumption on the working directory, on
lengths or on the recursion bound. -/
theorem C10_pathmax_safe (fs : FS) (kfuel fuel : Nat) (cwdS : Str) (cwd : Loc) (base loc : Str)
    (i : Nat) (reg : Bool) (hs : LinkCountSound fs)
    (hv : checkContainmentP fs kfuel fuel cwdS cwd base loc = Verdict.pass) (hb : base ≠ [])
    (ho : openFile fs kfuel cwd (tensorPath base loc) = some (i, reg))
    (hlp : linkFreeAnswer fs (realpathP fs kfuel fuel cwdS cwd (tensorPath base loc)) = true)
    (hlb : linkFreeAnswer fs (realpathP fs kfuel fuel cwdS cwd base) = true) :
    ∃ l, kresolve fs kfuel cwd (tensorPath base loc) true = some l ∧ fs.get l = some (Node.file i) ∧
      fs.nlink i ≤ 1 ∧ Chain fs l ∧
      l = comps (realpathP fs kfuel fuel cwdS cwd (tensorPath base loc)) ∧
      (∀ bl, kresolve fs kfuel cwd base true = some bl → fs.get bl = some Node.dir →
        bl <+: l ∧ Chain fs bl) := by
  obtain ⟨hreg, hn, _, _, hsid, ⟨c, hcb, hcbr⟩, _, _, hcont⟩ :=
    C10_pathmax_verified_partial fs kfuel fuel cwdS cwd base loc i reg hv hb ho
  obtain ⟨l, hk, hkind⟩ := openFile_some _ _ _ _ _ _ ho
  have hg : fs.get l = some (Node.file i) := by
    rcases hkind with ⟨_, hg⟩ | ⟨hr, _⟩
    · exact hg
    · rw [hreg] at hr; exact absurd hr (by simp)
  obtain ⟨lr, hkr, hgr⟩ := statId_ino fs kfuel cwd _ i hsid
  obtain ⟨hlr, hchain⟩ := kresolve_linkfree fs kfuel cwd _ lr hlp hkr
  have hll : l = lr := by
    apply Classical.byContradiction
    intro hne
    have := hs l lr i hne hg hgr
    omega
  subst hll
  refine ⟨l, hk, hg, hn, hchain, hlr, ?_⟩
  intro bl hkb hdir
  have hsb : statId fs kfuel cwd base = some (StatId.dir bl) := by
    unfold statId; simp [hkb, hdir]
  rw [hsb] at hcb
  cases hcb
  obtain ⟨hkbr, _⟩ := statId_dir fs kfuel cwd _ bl hcbr
  obtain ⟨hbl, hbchain⟩ := kresolve_linkfree fs kfuel cwd _ bl hlb hkbr
  refine ⟨?_, hbchain⟩
  have := contained_comps _ _ hcont
  rw [← hbl, ← hlr] at this
  exact this

end IrVerif.Path

/-! ### the repaired check establishes link-freeness itself (D454): no hypothesis on the answers -/
namespace IrVerif.Path

/-- a pass of the check (as repaired after D454) on an existing file includes the two prefix walks -/
theorem checkContainmentP_nolink (fs : FS) (kfuel fuel : Nat) (cwdS : Str) (cwd : Loc) (base loc : Str)
    (i : Nat) (reg : Bool)
    (hv : checkContainmentP fs kfuel fuel cwdS cwd base loc = Verdict.pass) (hb : base ≠ [])
    (ho : openFile fs kfuel cwd (tensorPath base loc) = some (i, reg)) :
    noLinkOn (lstatP fs kfuel cwd) (realpathP fs kfuel fuel cwdS cwd (tensorPath base loc)) = true ∧
    noLinkOn (lstatP fs kfuel cwd) (realpathP fs kfuel fuel cwdS cwd base) = true := by
  obtain ⟨l, hk, hkind⟩ := openFile_some _ _ _ _ _ _ ho
  have hlen : ¬ PATH_MAX ≤ (tensorPath base loc).length := by
    intro h; unfold openFile at ho; simp [h] at ho
  unfold checkContainmentP at hv
  simp only [hb, if_false] at hv
  split at hv
  · exact absurd hv (by simp)
  split at hv
  · exact absurd hv (by simp)
  split at hv
  · exact absurd hv (by simp)
  have hsf : statFileP fs kfuel cwd (tensorPath base loc) = some (fs.nlink i, reg) := by
    unfold statFileP statFile
    simp only [hlen, if_false, hk]
    rcases hkind with ⟨hr, hg⟩ | ⟨hr, hg⟩ <;> simp [hg, hr]
  rw [hsf] at hv
  simp only at hv
  split at hv
  · split at hv
    · rename_i hall
      simp only [Bool.and_eq_true, decide_eq_true_eq] at hall
      exact ⟨hall.1.1.1.2, hall.1.1.2⟩
    · exact absurd hv (by simp)
  · exact absurd hv (by simp)

/-- **C10_pathmax_safe_full** (supersedes `C10_pathmax_safe`: its hypothesis on the two answers of
`os.path.realpath` is gone).  The check as repaired after D451 / D452 / D453 / D454, in the model with
PATH_MAX at every `os.lstat` / `os.stat` (an entry `os.path.realpath` cannot lstat is taken for a
non-link, and a loop it believes to see makes it return its input unresolved).  When the check passes
and the open that follows reaches the inode `i`, then with sound link counts and an absolute
`os.getcwd()`: `i` is a regular file with at most one link; its location `l` is the one the kernel
resolves `join(base, loc)` to and is spelled by the resolved path; `l` is reached through real
directories only; and `l` lies component-wise below the directory the kernel resolves the base
directory to, which is reached through real directories only as well.  Why: the prefix walk of check 3
succeeded with an `os.lstat` that is a restriction of the kernel's (`noLinkPrefix_sound`), so the
answers - absolute normal forms - are resolved by the kernel to exactly the locations they spell;
samestat and the link count tie those to what `open(path)` and `stat(base_dir)` reach.
The statement "a fixed point of the blind realpath that the kernel resolves is link-free", which the
previous round left open, is FALSE (D454); this theorem is about the check that no longer relies on it.
No assumption on lengths, on the recursion bound, or on what the working directory names. -/
theorem C10_pathmax_safe_full (fs : FS) (kfuel fuel : Nat) (cwdS : Str) (cwd : Loc) (base loc : Str)
    (i : Nat) (reg : Bool) (hs : LinkCountSound fs) (hcwd : isabs cwdS = true)
    (hv : checkContainmentP fs kfuel fuel cwdS cwd base loc = Verdict.pass) (hb : base ≠ [])
    (ho : openFile fs kfuel cwd (tensorPath base loc) = some (i, reg)) :
    ∃ l, kresolve fs kfuel cwd (tensorPath base loc) true = some l ∧ fs.get l = some (Node.file i) ∧
      fs.nlink i ≤ 1 ∧ Chain fs l ∧
      l = comps (realpathP fs kfuel fuel cwdS cwd (tensorPath base loc)) ∧
      (∀ bl, kresolve fs kfuel cwd base true = some bl → fs.get bl = some Node.dir →
        bl <+: l ∧ Chain fs bl) := by
  obtain ⟨hreg, hn, _, _, hsid, ⟨c, hcb, hcbr⟩, _, _, hcont⟩ :=
    C10_pathmax_verified_partial fs kfuel fuel cwdS cwd base loc i reg hv hb ho
  obtain ⟨n1, n2⟩ := checkContainmentP_nolink fs kfuel fuel cwdS cwd base loc i reg hv hb ho
  obtain ⟨l, hk, hkind⟩ := openFile_some _ _ _ _ _ _ ho
  have hg : fs.get l = some (Node.file i) := by
    rcases hkind with ⟨_, hg⟩ | ⟨hr, _⟩
    · exact hg
    · rw [hreg] at hr; exact absurd hr (by simp)
  -- an answer of realpath is an absolute normal form; the walk shows the location it spells is real
  have key : ∀ x : Str, noLinkOn (lstatP fs kfuel cwd) (realpathP fs kfuel fuel cwdS cwd x) = true →
      RealLoc fs (comps (realpathP fs kfuel fuel cwdS cwd x)) ∧
      kresolve fs kfuel cwd (realpathP fs kfuel fuel cwdS cwd x) true =
        some (comps (realpathP fs kfuel fuel cwdS cwd x)) := by
    intro x hx
    obtain ⟨k, hk1, hform, hclean⟩ := abspath_absStr cwdS
      (joinRealP fs kfuel cwd fuel (if isabs x then ['/'] else [])
        (splitSep (if isabs x then x.tail else x)) []).1 hcwd
    have hrp : realpathP fs kfuel fuel cwdS cwd x = abspath cwdS
      (joinRealP fs kfuel cwd fuel (if isabs x then ['/'] else [])
        (splitSep (if isabs x then x.tail else x)) []).1 := rfl
    rw [← hrp] at hform hclean
    generalize realpathP fs kfuel fuel cwdS cwd x = s at *
    have hrl : RealLoc fs (comps s) := by
      refine noLinkPrefix_sound fs kfuel cwd _ (lstatRestr_P fs kfuel cwd) k hk1 _ (comps s) rfl hclean
        (s.length + 1) ?_
      rw [← hform]; exact hx
    refine ⟨hrl, ?_⟩
    have := kresolve_of_realLoc fs kfuel cwd k hk1 (comps s) hrl
    rwa [← hform] at this
  obtain ⟨hrl1, hk1⟩ := key _ n1
  obtain ⟨hrl2, hk2⟩ := key _ n2
  obtain ⟨lr, hkr, hgr⟩ := statId_ino fs kfuel cwd _ i hsid
  rw [hk1] at hkr
  cases hkr
  have hll : l = comps (realpathP fs kfuel fuel cwdS cwd (tensorPath base loc)) := by
    apply Classical.byContradiction
    intro hne
    have := hs l _ i hne hg hgr
    omega
  refine ⟨l, hk, hg, hn, by rw [hll]; exact hrl1.1, hll, ?_⟩
  intro bl hkb hdir
  have hsb : statId fs kfuel cwd base = some (StatId.dir bl) := by
    unfold statId; simp [hkb, hdir]
  rw [hsb] at hcb
  cases hcb
  obtain ⟨hkbr, _⟩ := statId_dir fs kfuel cwd _ bl hcbr
  rw [hk2] at hkbr
  cases hkbr
  refine ⟨?_, hrl2.1⟩
  rw [hll]
  exact contained_comps _ _ hcont

end IrVerif.Path

/-! ### whatever makes the system calls fail (ENAMETOOLONG, EACCES, ...): the repaired check fails closed -/
namespace IrVerif.Path

/-- what a pass of `checkContainmentV` followed by a successful open gives, before any reasoning about
the tree: the facts the conjunction of check 3 consists of, at kernel level -/
theorem checkContainmentV_pass (fs : FS) (kfuel : Nat) (cwd : Loc) (sys : Sys) (hsys : SysOK fs kfuel cwd sys)
    (fuel : Nat) (cwdS : Str) (base loc : Str) (i : Nat) (reg : Bool)
    (hv : checkContainmentV sys fuel cwdS base loc = Verdict.pass) (hb : base ≠ [])
    (ho : sys.openF (tensorPath base loc) = some (i, reg)) :
    reg = true ∧ fs.nlink i ≤ 1 ∧
    statId fs kfuel cwd (realpathV sys fuel cwdS (tensorPath base loc)) = some (StatId.ino i) ∧
    (∃ c, statId fs kfuel cwd base = some c ∧ statId fs kfuel cwd (realpathV sys fuel cwdS base) = some c) ∧
    noLinkOn sys.lstat (realpathV sys fuel cwdS (tensorPath base loc)) = true ∧
    noLinkOn sys.lstat (realpathV sys fuel cwdS base) = true ∧
    contained (realpathV sys fuel cwdS base) (realpathV sys fuel cwdS (tensorPath base loc)) = true := by
  have hoK := hsys.open_r _ _ ho
  obtain ⟨l, hk, hkind⟩ := openFile_some _ _ _ _ _ _ hoK
  obtain ⟨hsfn, hsin⟩ := hsys.open_stat _ _ ho
  -- what the kernel's stat of the opened string says
  have hsfK : statFile fs kfuel cwd (tensorPath base loc) = some (fs.nlink i, reg) := by
    unfold statFile
    simp only [hk]
    rcases hkind with ⟨hr, hg⟩ | ⟨hr, hg⟩ <;> simp [hg, hr]
  have hsf : sys.statFile (tensorPath base loc) = some (fs.nlink i, reg) := by
    cases hq : sys.statFile (tensorPath base loc) with
    | none => exact absurd hq hsfn
    | some x =>
      have := hsys.statFile_r _ _ hq
      rw [hsfK] at this
      cases this; rfl
  unfold checkContainmentV at hv
  simp only [hb, if_false] at hv
  split at hv
  · exact absurd hv (by simp)
  split at hv
  · exact absurd hv (by simp)
  split at hv
  · exact absurd hv (by simp)
  rename_i hcont
  have hcont' : contained (realpathV sys fuel cwdS base) (realpathV sys fuel cwdS (tensorPath base loc)) = true := by
    simpa using hcont
  rw [hsf] at hv
  simp only at hv
  cases ha2 : sys.statId (tensorPath base loc) with
  | none => exact absurd ha2 hsin
  | some a =>
    cases hb2 : sys.statId (realpathV sys fuel cwdS (tensorPath base loc)) with
    | none => simp [ha2, hb2] at hv
    | some b =>
      cases hc2 : sys.statId base with
      | none => simp [ha2, hb2, hc2] at hv
      | some c =>
        cases hd2 : sys.statId (realpathV sys fuel cwdS base) with
        | none => simp [ha2, hb2, hc2, hd2] at hv
        | some d =>
          simp only [ha2, hb2, hc2, hd2] at hv
          split at hv
          · rename_i hall
            simp only [Bool.and_eq_true, decide_eq_true_eq] at hall
            obtain ⟨⟨⟨⟨⟨⟨⟨hab, hcd⟩, _⟩, _⟩, hn1⟩, hn2⟩, hn⟩, hr⟩ := hall
            have haK := hsys.statId_r _ _ ha2
            have hbK := hsys.statId_r _ _ hb2
            have hcK := hsys.statId_r _ _ hc2
            have hdK := hsys.statId_r _ _ hd2
            subst hr
            have hai : a = StatId.ino i := by
              unfold statId at haK
              simp only [hk] at haK
              rcases hkind with ⟨_, hg⟩ | ⟨hr, _⟩
              · simp only [hg, Option.some.injEq] at haK; exact haK.symm
              · exact absurd hr (by simp)
            refine ⟨rfl, hn, ?_, ⟨c, hcK, by rw [hdK, hcd]⟩, hn1, hn2, hcont'⟩
            rw [hbK, ← hab, hai]
          · exact absurd hv (by simp)

/-- **C10_blind_safe**: the containment check as repaired after D451 - D454 fails closed WHATEVER makes
the process's system calls fail.  `sys` is any restriction of the kernel's `os.lstat` / `os.stat` / `open`
on the tree (`SysOK`: a call may fail where the kernel would resolve the path - ENAMETOOLONG, EACCES on an
unsearchable directory, any other errno - but what it returns is what the kernel returns; an `open` that
succeeds implies that `os.stat` of the same string does).  `os.path.realpath` runs over these calls and
takes every entry it cannot examine for a non-link (and a loop it believes to see makes it return its
input).  When the check passes and the open that follows reaches the inode `i`, then with sound link
counts and an absolute `os.getcwd()`: `i` is a regular file with at most one link, its location `l` is
the one the kernel resolves `join(base, loc)` to and is spelled by the resolved path, `l` is reached
through real directories only, and `l` lies component-wise below the directory the kernel resolves the
base directory to.  `C10_pathmax_safe_full` is the instance `sysP` (PATH_MAX only), `C10_eacces_safe`
the instance `sysA` (PATH_MAX and search permissions). -/
theorem C10_blind_safe (fs : FS) (kfuel : Nat) (cwd : Loc) (sys : Sys) (hsys : SysOK fs kfuel cwd sys)
    (fuel : Nat) (cwdS : Str) (base loc : Str) (i : Nat) (reg : Bool)
    (hs : LinkCountSound fs) (hcwd : isabs cwdS = true)
    (hv : checkContainmentV sys fuel cwdS base loc = Verdict.pass) (hb : base ≠ [])
    (ho : sys.openF (tensorPath base loc) = some (i, reg)) :
    ∃ l, kresolve fs kfuel cwd (tensorPath base loc) true = some l ∧ fs.get l = some (Node.file i) ∧
      fs.nlink i ≤ 1 ∧ Chain fs l ∧
      l = comps (realpathV sys fuel cwdS (tensorPath base loc)) ∧
      (∀ bl, kresolve fs kfuel cwd base true = some bl → fs.get bl = some Node.dir →
        bl <+: l ∧ Chain fs bl) := by
  obtain ⟨hreg, hn, hsid, ⟨c, hcb, hcbr⟩, n1, n2, hcont⟩ :=
    checkContainmentV_pass fs kfuel cwd sys hsys fuel cwdS base loc i reg hv hb ho
  obtain ⟨l, hk, hkind⟩ := openFile_some _ _ _ _ _ _ (hsys.open_r _ _ ho)
  have hg : fs.get l = some (Node.file i) := by
    rcases hkind with ⟨_, hg⟩ | ⟨hr, _⟩
    · exact hg
    · rw [hreg] at hr; exact absurd hr (by simp)
  have key : ∀ x : Str, noLinkOn sys.lstat (realpathV sys fuel cwdS x) = true →
      RealLoc fs (comps (realpathV sys fuel cwdS x)) ∧
      kresolve fs kfuel cwd (realpathV sys fuel cwdS x) true = some (comps (realpathV sys fuel cwdS x)) := by
    intro x hx
    obtain ⟨k, hk1, hform, hclean⟩ := abspath_absStr cwdS
      (joinRealV sys fuel (if isabs x then ['/'] else [])
        (splitSep (if isabs x then x.tail else x)) []).1 hcwd
    have hrp : realpathV sys fuel cwdS x = abspath cwdS
      (joinRealV sys fuel (if isabs x then ['/'] else [])
        (splitSep (if isabs x then x.tail else x)) []).1 := rfl
    rw [← hrp] at hform hclean
    generalize realpathV sys fuel cwdS x = s at *
    have hrl : RealLoc fs (comps s) := by
      refine noLinkPrefix_sound fs kfuel cwd _ hsys.lstat_r k hk1 _ (comps s) rfl hclean (s.length + 1) ?_
      rw [← hform]; exact hx
    refine ⟨hrl, ?_⟩
    have := kresolve_of_realLoc fs kfuel cwd k hk1 (comps s) hrl
    rwa [← hform] at this
  obtain ⟨hrl1, hk1⟩ := key _ n1
  obtain ⟨hrl2, hk2⟩ := key _ n2
  obtain ⟨lr, hkr, hgr⟩ := statId_ino fs kfuel cwd _ i hsid
  rw [hk1] at hkr
  cases hkr
  have hll : l = comps (realpathV sys fuel cwdS (tensorPath base loc)) := by
    apply Classical.byContradiction
    intro hne
    have := hs l _ i hne hg hgr
    omega
  refine ⟨l, hk, hg, hn, by rw [hll]; exact hrl1.1, hll, ?_⟩
  intro bl hkb hdir
  have hsb : statId fs kfuel cwd base = some (StatId.dir bl) := by
    unfold statId; simp [hkb, hdir]
  rw [hsb] at hcb
  cases hcb
  obtain ⟨hkbr, _⟩ := statId_dir fs kfuel cwd _ bl hcbr
  rw [hk2] at hkbr
  cases hkbr
  refine ⟨?_, hrl2.1⟩
  rw [hll]
  exact contained_comps _ _ hcont

/-- **C10_eacces_safe**: `C10_blind_safe` for an unprivileged process on a tree with unsearchable
directories (model `sysA`: PATH_MAX, and EACCES wherever a component is looked up in a directory the
current uid may not search - `chmod 000` / `0o600` directories on the way make `os.path.realpath` blind
exactly as ENAMETOOLONG does).  For every assignment `search` of search permissions to directories: when
the check passes and the open reaches the inode `i`, the open is safe.  The model `readV (sysA ..)` is
compared with the real code run by a process without privileges (harness family eacces). -/
theorem C10_eacces_safe (fs : FS) (search : Loc → Bool) (kfuel fuel : Nat) (cwdS : Str) (cwd : Loc)
    (base loc : Str) (i : Nat) (reg : Bool) (hs : LinkCountSound fs) (hcwd : isabs cwdS = true)
    (hv : checkContainmentV (sysA fs search kfuel cwd) fuel cwdS base loc = Verdict.pass) (hb : base ≠ [])
    (ho : (sysA fs search kfuel cwd).openF (tensorPath base loc) = some (i, reg)) :
    ∃ l, kresolve fs kfuel cwd (tensorPath base loc) true = some l ∧ fs.get l = some (Node.file i) ∧
      fs.nlink i ≤ 1 ∧ Chain fs l ∧
      l = comps (realpathV (sysA fs search kfuel cwd) fuel cwdS (tensorPath base loc)) ∧
      (∀ bl, kresolve fs kfuel cwd base true = some bl → fs.get bl = some Node.dir →
        bl <+: l ∧ Chain fs bl) :=
  C10_blind_safe fs kfuel cwd _ (sysA_ok fs search kfuel cwd) fuel cwdS base loc i reg hs hcwd hv hb ho

end IrVerif.Path

/-! ### bytes provenance in histories with `os.chdir` -/
namespace IrVerif.Path

/-- `runMicro_bytes` for histories with `os.chdir`: the provenance of returned bytes does not depend on
the working directories the calls were made in (stated on the log without them) -/
theorem runMicroC_bytes (kfuel fuel : Nat) (ps : Nat → TensorP) :
    ∀ (mops : List CMOp) (cwdS : Str) (w : World) (P : Nat → BaseVal → Nat → Prop),
      (∀ t i, (w.ts t).st.raw = some i → P t (w.ts t).base i) →
      ∀ (pre : List WLog) (e : WLog) (post : List WLog),
        (runMicroC kfuel fuel ps cwdS w mops).map Prod.snd = pre ++ e :: post →
        ∀ bytes, e.res = ReadResult.ok bytes →
          (bytes = [] ∧ (ps e.t).zero = true ∧ e.ep ≠ EntryPoint.tofile) ∨
          ∃ i, bytes = sliceOf (e.fs.data i) (ps e.t).offset (ps e.t).length ∧
            (P e.t e.base i ∨ ∃ e' ∈ pre ++ [e], e'.t = e.t ∧ e'.base = e.base ∧
              Ev.openEv (tensorPath e.base.s (ps e.t).loc) (some i) ∈ e'.events) := by
  intro mops
  induction mops with
  | nil =>
    intro cwdS w P _ pre e post hlog
    simp [runMicroC] at hlog
  | cons x xs ih =>
    intro cwdS w P hP pre e post hlog bytes hb
    cases x with
    | chdir c =>
      simp only [runMicroC] at hlog
      exact ih c w P hP pre e post hlog bytes hb
    | m y =>
      cases y with
      | setFS fs =>
        simp only [runMicroC, stepWorld] at hlog
        exact ih cwdS { w with fs := fs } P hP pre e post hlog bytes hb
      | beginLoad =>
        simp only [runMicroC, stepWorld] at hlog
        exact ih cwdS { w with aborted := false } P hP pre e post hlog bytes hb
      | rebase t b =>
        simp only [runMicroC, stepWorld] at hlog
        refine ih cwdS (w.set t ((w.ts t).rebase b)) P ?_ pre e post hlog bytes hb
        intro t' i hi
        simp only [World.set] at hi ⊢
        by_cases htt : t' = t
        · subst htt
          simp only [if_true, TSess.rebase] at hi ⊢
          by_cases hbe : b = (w.ts t').base
          · simp only [hbe, if_true] at hi
            rw [hbe]; exact hP t' i hi
          · simp [hbe, TState.fresh] at hi
        · simp only [htt, if_false] at hi ⊢
          exact hP t' i hi
      | release t =>
        simp only [runMicroC, stepWorld] at hlog
        refine ih cwdS (w.set t { (w.ts t) with st := TState.fresh }) P ?_ pre e post hlog bytes hb
        intro t' i hi
        simp only [World.set] at hi ⊢
        by_cases htt : t' = t
        · subst htt
          simp [TState.fresh] at hi
        · simp only [htt, if_false] at hi ⊢
          exact hP t' i hi
      | call t ep =>
        simp only [runMicroC, stepWorld, List.map_cons] at hlog
        have := runMicro_bytes_step kfuel fuel cwdS (comps cwdS) ps
          (fun w P log => (∀ t i, (w.ts t).st.raw = some i → P t (w.ts t).base i) →
            ∀ (pre : List WLog) (e : WLog) (post : List WLog), log = pre ++ e :: post →
            ∀ bytes, e.res = ReadResult.ok bytes →
              (bytes = [] ∧ (ps e.t).zero = true ∧ e.ep ≠ EntryPoint.tofile) ∨
              ∃ i, bytes = sliceOf (e.fs.data i) (ps e.t).offset (ps e.t).length ∧
                (P e.t e.base i ∨ ∃ e' ∈ pre ++ [e], e'.t = e.t ∧ e'.base = e.base ∧
                  Ev.openEv (tensorPath e.base.s (ps e.t).loc) (some i) ∈ e'.events))
          (fun _ _ _ => Iff.rfl) w
          (w.set t { (w.ts t) with st := (callT w.fs kfuel fuel cwdS (comps cwdS) (ps t) (w.ts t).base ep (w.ts t).st).2.2 })
          t ep _ rfl (fun P' hP' pre' e' post' hl' => ih cwdS _ P' hP' pre' e' post' hl') P
        exact this hP pre e post hlog bytes hb
      | loadOne t =>
        by_cases hab : w.aborted = true
        · simp only [runMicroC, stepWorld, hab, if_true] at hlog
          exact ih cwdS w P hP pre e post hlog bytes hb
        · simp only [runMicroC, stepWorld, hab, Bool.false_eq_true, if_false, List.map_cons] at hlog
          have := runMicro_bytes_step kfuel fuel cwdS (comps cwdS) ps
            (fun w P log => (∀ t i, (w.ts t).st.raw = some i → P t (w.ts t).base i) →
              ∀ (pre : List WLog) (e : WLog) (post : List WLog), log = pre ++ e :: post →
              ∀ bytes, e.res = ReadResult.ok bytes →
                (bytes = [] ∧ (ps e.t).zero = true ∧ e.ep ≠ EntryPoint.tofile) ∨
                ∃ i, bytes = sliceOf (e.fs.data i) (ps e.t).offset (ps e.t).length ∧
                  (P e.t e.base i ∨ ∃ e' ∈ pre ++ [e], e'.t = e.t ∧ e'.base = e.base ∧
                    Ev.openEv (tensorPath e.base.s (ps e.t).loc) (some i) ∈ e'.events))
            (fun _ _ _ => Iff.rfl) w
            { (w.set t { (w.ts t) with st := (callT w.fs kfuel fuel cwdS (comps cwdS) (ps t) (w.ts t).base
                EntryPoint.serializeRaw (w.ts t).st).2.2 }) with
              aborted := decide ((callT w.fs kfuel fuel cwdS (comps cwdS) (ps t) (w.ts t).base
                EntryPoint.serializeRaw (w.ts t).st).1 = ReadResult.raised) }
            t EntryPoint.serializeRaw _ rfl
            (fun P' hP' pre' e' post' hl' => ih cwdS _ P' hP' pre' e' post' hl') P
          exact this hP pre e post hlog bytes hb

/-- **C10_world_chdir_safe** (supersedes the bytes-provenance half of `C10_world_safe` for histories with
`os.chdir`, and contains `C10_world_chdir_opens`): for every history of public operations and changes of
the working directory, starting with nothing mapped, and for every call `e` in the log, made in the
working directory `c` (`pre` = the calls before it, each with the directory it was made in):
(1) every file `e` opens is opened under a base directory that is not a `bytes` object and, when the
    base directory is non-empty and `c` names a chain of real directories, is a safe open with respect
    to the tree, the base directory value and the working directory `c` of that call;
(2) the bytes `e` returns are either none at all (zero-size tensor, entry point other than `tofile`), or
    the slice of an inode opened by `e` itself or by an EARLIER call `e'` ON THE SAME TENSOR under the
    SAME base directory value; that open was a safe open with respect to that base directory value in
    the tree AND THE WORKING DIRECTORY `c'` OF THE CALL THAT MADE IT.  So with a relative base directory
    and a chdir between `e'` and `e` the bytes are those of a file inside what the base directory named
    when the mapping was made - by design a change of directory, like a change of the tree, does not
    drop a mapping - and never of a file that was outside the base directory as it resolved at the
    time of the open. -/
theorem C10_world_chdir_safe (kfuel fuel : Nat) (hfuel : kfuel ≤ fuel) (ps : Nat → TensorP)
    (cwd0 : Str) (w0 : World) (h0 : ∀ t, (w0.ts t).st.raw = none) (ops : List COp)
    (pre : List (Str × WLog)) (c : Str) (e : WLog) (post : List (Str × WLog))
    (hlog : runWorldC kfuel fuel ps cwd0 w0 ops = pre ++ (c, e) :: post) :
    (∀ q i, Ev.openEv q (some i) ∈ e.events →
      e.base.kind ≠ BaseKind.bytes ∧ ((ps e.t).zero = true → e.ep = EntryPoint.tofile) ∧
      (e.base.s ≠ [] → RealDir e.fs (comps c) → render (comps c) = c →
        q = tensorPath e.base.s (ps e.t).loc ∧ SafeOpen e.fs kfuel fuel (comps c) e.base.s (ps e.t).loc i)) ∧
    (∀ bytes, e.res = ReadResult.ok bytes →
      (bytes = [] ∧ (ps e.t).zero = true ∧ e.ep ≠ EntryPoint.tofile) ∨
      ∃ i, bytes = sliceOf (e.fs.data i) (ps e.t).offset (ps e.t).length ∧
        ∃ ce' ∈ pre ++ [(c, e)], ce'.2.t = e.t ∧ ce'.2.base = e.base ∧
          Ev.openEv (tensorPath e.base.s (ps e.t).loc) (some i) ∈ ce'.2.events ∧
          (e.base.s ≠ [] → RealDir ce'.2.fs (comps ce'.1) → render (comps ce'.1) = ce'.1 →
            SafeOpen ce'.2.fs kfuel fuel (comps ce'.1) e.base.s (ps e.t).loc i)) := by
  have hmemAll : ∀ x ∈ pre ++ [(c, e)], x ∈ runWorldC kfuel fuel ps cwd0 w0 ops := by
    intro x hx
    rw [hlog]
    rcases List.mem_append.mp hx with h | h
    · exact List.mem_append.mpr (Or.inl h)
    · have : x = (c, e) := by simpa using h
      subst this
      simp
  refine ⟨fun q i hq => C10_world_chdir_opens kfuel fuel hfuel ps cwd0 w0 ops c e
    (hmemAll _ (by simp)) q i hq, ?_⟩
  intro bytes hb
  have hmap : (runMicroC kfuel fuel ps cwd0 w0 (expandAllC ops)).map Prod.snd =
      pre.map Prod.snd ++ e :: post.map Prod.snd := by
    unfold runWorldC at hlog
    rw [hlog]; simp
  rcases runMicroC_bytes kfuel fuel ps _ cwd0 w0 (fun _ _ _ => False)
    (by intro t i h; rw [h0 t] at h; exact absurd h (by simp)) _ e _ hmap bytes hb with hz | ⟨i, hi, hor⟩
  · exact Or.inl hz
  · refine Or.inr ⟨i, hi, ?_⟩
    rcases hor with hf | ⟨e', he', ht, hbase, hev⟩
    · exact absurd hf id
    · -- lift e' back to the entry with its working directory
      obtain ⟨ce', hce', hsnd⟩ : ∃ ce' ∈ pre ++ [(c, e)], ce'.2 = e' := by
        rcases List.mem_append.mp he' with h | h
        · obtain ⟨x, hx, hxe⟩ := List.mem_map.mp h
          exact ⟨x, List.mem_append.mpr (Or.inl hx), hxe⟩
        · have : e' = e := by simpa using h
          exact ⟨(c, e), by simp, this.symm⟩
      subst hsnd
      refine ⟨ce', hce', ht, hbase, hev, ?_⟩
      intro hne hrd hrender
      have := (C10_world_chdir_opens kfuel fuel hfuel ps cwd0 w0 ops ce'.1 ce'.2
        (hmemAll ce' hce') (tensorPath e.base.s (ps e.t).loc) i hev).2.2
        (by rw [hbase]; exact hne) hrd hrender
      rw [ht, hbase] at this
      exact this.2

end IrVerif.Path

/-! ### non-vacuity of the fail-closed theorems: on exFS the repaired check passes and the file is opened -/
namespace IrVerif.Path

theorem exFS_short (l : Loc) (h : (render l).length < PATH_MAX) (p : Str) (hp : p = render l) :
    lstatP exFS 40 [] p = lstat exFS 40 [] p := by
  subst hp
  unfold lstatP
  rw [if_neg (by omega)]

/-- on exFS (cwd "/", base "/b", location "f") the check over the PATH_MAX system calls passes and the
open reaches inode 1: hypotheses `hv`, `ho` of `C10_blind_safe` / `C10_pathmax_safe_full` hold together -/
theorem exV_pass :
    checkContainmentV (sysP exFS 40 []) 40 (render []) "/b".toList "f".toList = Verdict.pass ∧
    (sysP exFS 40 []).openF (tensorPath "/b".toList "f".toList) = some (1, true) := by
  have hk : kresolve exFS 40 [] "/b/f".toList true = some [['b'], ['f']] :=
    kresolve_render exFS 40 [] _ exFS_bf (Node.file 1) (by decide) (by intro t; simp)
  have hkb : kresolve exFS 40 [] "/b".toList true = some [['b']] :=
    kresolve_render exFS 40 [] _ exFS_b.1 Node.dir (by decide) (by intro t; simp)
  have hp : tensorPath "/b".toList "f".toList = render [['b'], ['f']] := by decide
  have hbs : "/b".toList = render [['b']] := by decide
  have l1 : (sysP exFS 40 []).lstat (render [['b']]) = some Node.dir := by
    rw [sysP_lstat, exFS_short [['b']] (by decide) _ rfl]
    have := lstat_render_snoc exFS 40 [] [] ['b'] (RealDir.root exFS) ⟨by decide, by decide, by decide, by decide⟩
    simp only [List.nil_append] at this
    rw [this]; decide
  have l2 : (sysP exFS 40 []).lstat (render [['b'], ['f']]) = some (Node.file 1) := by
    rw [sysP_lstat, exFS_short [['b'], ['f']] (by decide) _ rfl]
    have := lstat_render_snoc exFS 40 [] [['b']] ['f'] exFS_b ⟨by decide, by decide, by decide, by decide⟩
    simp only [List.cons_append, List.nil_append] at this
    rw [this]; decide
  have r1 : realpathV (sysP exFS 40 []) 40 (render []) (render [['b'], ['f']]) = render [['b'], ['f']] := by
    refine realpathV_render _ 40 _ exFS_bf.1 ?_
    intro k hk t
    have : k = 0 ∨ k = 1 := by simp at hk; omega
    rcases this with rfl | rfl
    · simp only [Nat.zero_add, List.take_succ_cons, List.take_zero]; rw [l1]; simp
    · simp only [List.take_succ_cons, List.take_zero]; rw [l2]; simp
  have r2 : realpathV (sysP exFS 40 []) 40 (render []) (render [['b']]) = render [['b']] := by
    refine realpathV_render _ 40 _ exFS_b.1.1 ?_
    intro k hk t
    have : k = 0 := by simp at hk; omega
    subst this
    simp only [Nat.zero_add, List.take_succ_cons, List.take_zero]; rw [l1]; simp
  have n1 : noLinkOn (sysP exFS 40 []).lstat (render [['b'], ['f']]) = true :=
    noLinkOn_complete' exFS 40 [] _ _ ⟨exFS_bf, Node.file 1, by decide, by intro t; simp⟩
      (by
        intro j hj
        have hle : (render (List.take j [['b'], ['f']])).length < PATH_MAX := by
          have : j = 0 ∨ j = 1 ∨ j = 2 := by simp at hj; omega
          rcases this with rfl | rfl | rfl <;> decide
        rw [sysP_lstat, exFS_short _ hle _ rfl])
  have n2 : noLinkOn (sysP exFS 40 []).lstat (render [['b']]) = true :=
    noLinkOn_complete' exFS 40 [] _ _ ⟨exFS_b.1, Node.dir, by decide, by intro t; simp⟩
      (by
        intro j hj
        have hle : (render (List.take j [['b']])).length < PATH_MAX := by
          have : j = 0 ∨ j = 1 := by simp at hj; omega
          rcases this with rfl | rfl <;> decide
        rw [sysP_lstat, exFS_short _ hle _ rfl])
  have e1 : kresolve exFS 40 [] (render [['b'], ['f']]) true = some [['b'], ['f']] := hk
  have e2 : kresolve exFS 40 [] (render [['b']]) true = some [['b']] := hkb
  have s1 : (sysP exFS 40 []).statFile (render [['b'], ['f']]) = some (1, true) := by
    simp only [sysP, statFileP, statFile]
    rw [if_neg (by decide), e1]; decide
  have i1 : (sysP exFS 40 []).statId (render [['b'], ['f']]) = some (StatId.ino 1) := by
    simp only [sysP, statIdP, statId]
    rw [if_neg (by decide), e1]; decide
  have i2 : (sysP exFS 40 []).statId (render [['b']]) = some (StatId.dir [['b']]) := by
    simp only [sysP, statIdP, statId]
    rw [if_neg (by decide), e2]; decide
  refine ⟨?_, ?_⟩
  · unfold checkContainmentV
    rw [hp, hbs, r1, r2, r1, r2, s1, i1, i2, n1, n2]
    have c1 : check1 (render []) (render [['b']]) "f".toList = true := by decide
    have cn : contained (render [['b']]) (render [['b'], ['f']]) = true := by decide
    have hn : (hasNul (render [['b']]) || hasNul "f".toList) = false := by decide
    rw [if_neg (by decide), if_neg (by rw [c1]; simp), if_neg (by rw [hn]; simp), if_neg (by rw [cn]; simp)]
    decide
  · rw [hp]
    simp only [sysP, openFile]
    rw [if_neg (by decide), e1]; decide

/-- `C10_blind_safe`, `C10_pathmax_safe_full` are not vacuous: every hypothesis holds on exFS (sound link
counts for the inode that is opened, an absolute working directory, a passing check, a successful open) -/
example : isabs (render []) = true ∧
    checkContainmentP exFS 40 40 (render []) [] "/b".toList "f".toList = Verdict.pass ∧
    openFile exFS 40 [] (tensorPath "/b".toList "f".toList) = some (1, true) ∧
    SysOK exFS 40 [] (sysP exFS 40 []) ∧ "/b".toList ≠ [] := by
  refine ⟨by decide, ?_, exV_pass.2, sysP_ok exFS 40 [], by decide⟩
  rw [checkContainmentP_eq_V]; exact exV_pass.1

/-- `C10_eacces_safe` is not vacuous in its permission argument: with every directory searchable the
unprivileged system calls agree with the PATH_MAX ones on the strings of the example, and with the base
directory unsearchable the open of the tensor's path fails (EACCES) -/
example : (sysA exFS (fun l => l != [['b']]) 40 []).openF "/b/f".toList = none := by
  simp only [sysA, kresolveA]
  have e : splitSep "/b/f".toList = [[], ['b'], ['f']] := by decide
  have e3 : startLoc [] "/b/f".toList = [] := by decide
  rw [if_neg (by decide), e, e3]
  rw [walkA]; simp only [exFS.get_root, if_true]
  rw [walkA]
  have hb : exFS.get [] = some Node.dir := exFS.get_root
  have h1 : (['b'] : Str) ≠ [] := by decide
  have h2 : (['b'] : Str) ≠ DOT := by decide
  have h3 : (['b'] : Str) ≠ DOTDOT := by decide
  have hg : exFS.get ([] ++ [['b']]) = some Node.dir := exFS_b.2
  simp only [hb, h1, h2, h3, if_false, hg]
  have hs : ((fun l : Loc => l != [['b']]) [] = false) = False := by decide
  simp only [hs, if_false]
  rw [walkA]
  simp only [hg]
  have h1' : (['f'] : Str) ≠ [] := by decide
  simp only [h1', if_false]
  have hs2 : ((fun l : Loc => l != [['b']]) ([] ++ [['b']]) = false) = True := by decide
  simp only [hs2, if_true]

/-- `C10_world_chdir_safe` is not vacuous: a history with an `os.chdir` whose log has an entry that
returns bytes -/
example : ∃ pre c e post,
    runWorldC 40 40 (fun _ => { loc := "f".toList, offset := 0, length := 3, zero := false }) "/nowhere".toList
      { fs := exFS, ts := fun _ => { base := { kind := BaseKind.str, s := [] }, st := TState.fresh },
        aborted := false }
      [COp.op (WOp.setBaseDir [0] { kind := BaseKind.pathlike, s := "/b".toList }), COp.chdir (render []),
       COp.op (WOp.loadToModel [0])] = pre ++ (c, e) :: post ∧
    e.res = ReadResult.ok [10, 20, 30] := by
  refine ⟨[], _, _, _, rfl, ?_⟩
  have := ex_read EntryPoint.serializeRaw
  unfold read at this
  have hc : comps (render []) = [] := by decide
  simpa [callT, stepWorld, World.set, TSess.rebase, TState.fresh, hc] using this

end IrVerif.Path

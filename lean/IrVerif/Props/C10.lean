/-
C10 — external tensor reads never escape the model directory: property theorems.
Model: `IrVerif/Model/Path.lean`; helper lemmas: `IrVerif/Lemmas/Path.lean`.
-/
import IrVerif.Lemmas.Path
namespace IrVerif.Path

/-- **C10_lexical**: when check 1 (_core.py:779-789) passes, the components of
`normpath(abspath(join(base, loc)))` extend those of `normpath(abspath(base))` *component-wise*
(so a sibling such as /a/bc of the base /a/b is excluded, and a root base is handled), and both
are made only of entry names (no "", ".", ".." and no separator inside a component): the path
stays lexically inside the base.  For every cwd, base spelling and location. -/
theorem C10_lexical (cwd base loc : Str) (hcwd : isabs cwd = true)
    (h : check1 cwd base loc = true) :
    comps (abspath cwd base) <+: comps (abspath cwd (tensorPath base loc)) ∧
    (∀ c ∈ comps (abspath cwd (tensorPath base loc)), Clean c) ∧
    (∀ c ∈ comps (abspath cwd base), Clean c) := by
  refine ⟨contained_comps _ _ h, ?_, ?_⟩
  · unfold abspath
    rw [comps_normpath_abs _ (isabs_abspath_arg cwd _ hcwd)]
    exact normStack_clean _
  · unfold abspath
    rw [comps_normpath_abs _ (isabs_abspath_arg cwd _ hcwd)]
    exact normStack_clean _

/- non-vacuity and the named corner cases of C10_lexical -/
example : check1 "/w".toList "/a/b".toList "d/f".toList = true := by decide
example : check1 "/w".toList "/a/b".toList "../bc/f".toList = false := by decide   -- prefix sibling
example : check1 "/w".toList "/a/b".toList "../b/f".toList = true := by decide
example : check1 "/w".toList "/".toList "etc/passwd".toList = true := by decide     -- root base
example : check1 "/w".toList "sub/".toList "/w/sub/f".toList = true := by decide   -- relative base
example : check1 "/w".toList "sub".toList "../f".toList = false := by decide
example : ¬ (comps "/a/b".toList <+: comps "/a/bc/f".toList) := by decide

/-- **C10_load_base_nonempty**: for every spelling of the model path (absolute, relative, "./x",
bare name, trailing separators, empty) `load` (as fixed for D23, _io.py:34-37) assigns a non-empty
base directory, so the containment checks are never disabled for a loaded model. -/
theorem C10_load_base_nonempty (modelPath : Str) : loadBase modelPath ≠ [] := by
  unfold loadBase
  simp only
  split
  · simp [DOT]
  · assumption

/-- D23 on the unfixed derivation: a bare file name gives the empty base directory. -/
example : loadBaseUnfixed "model.onnx".toList = [] := by decide
example : loadBase "model.onnx".toList = DOT := by decide
example : loadBase "dir/model.onnx".toList = "dir".toList := by decide

end IrVerif.Path

/-
C18 — region extraction and capture analysis are exact: property theorems about the model
`IrVerif.Extract` (Model/Extract.lean).  Helper development: Lemmas/Extract*.lean, Lemmas/Implicit.lean.

Round 3 additions (nothing older was changed or removed):
* by-name boundary values: `C18_by_name_resolves` (documented precedence = first pair in the order initializer
  dict, graph inputs, node inputs then outputs; unique names resolve to THE value), `C18_by_name_missing`
  (which error, decided by the first failing argument);
* every kind of source (Graph, Function, GraphView with any node list: subset, other order, repeats — a dict
  comprehension indexes a repeated node by its LAST position): `C18_order_view`, `C18_nodes_exact_source`,
  `C18_order_source`, `C18_inits_source` (stated on the whole `extract` call);
* hypotheses of the evaluation theorems: `C18_eval_strong` / `C18_extract_eval_strong` drop "no initializer is
  produced" and "distinct initializer names"; `C18_source_of_C01` derives the pointer hypotheses from the C01
  kernel invariant for graphs without subgraph attributes; `C18_eval_needs_sorted`, `C18_eval_needs_closed`,
  `C18_extract_eval_needs_scope` show the remaining ones necessary (counterexamples, replayed on the real code);
* capture analysis: `C18_captures_exact` (entry = free variables, any depth), `C18_captures_any_root` (Graph or
  Function object), `C18_attrs_bodies` (GRAPH / GRAPHS / reference attributes read branch by branch).
Still hypotheses without a necessity theorem: consistent `.graph` back pointers on nested graphs, scoping of
uses by owner (`scopedGB`).

Follow-up round (nothing older changed): `C18_clone_succeeds` (the clone stage returns on a covered region of a
sorted, well scoped source: the converse of `C18_raises_of_uncovered`), `C18_extract_succeeds_iff` (`extract`
returns EXACTLY when the arguments pass, the first output has a graph, every required value is covered and every
required node is listed), `C18_extract_owned` (`extractO`, the pipeline with the ownership checks of the clone's
`Graph(...)` constructors — boundary values of a view that a nested graph lists — against `extract`),
`C18_clone_stage_C13` / `C18_extract_clone_C13` (acceptance by this model's clone stage implies acceptance by C13's
scope walker on every regular heap representing the view, hence C13's heap-level clone returns a fresh graph),
`C18_source_of_C01_nested` (C01 kernel worlds WITH the graphs their node attributes hold: consistent back pointers
and closed trees follow from `Kernel.WF` + closed kernel graphs), `C18_captures_needs_scoped` (scoping of uses by
owner is necessary), `C18_extract_D460` (the pipeline after the proposed fix D460 against the pipeline as it is),
`C18_own_pass` / `C18_extractO_succeeds_iff` (the ownership checks pass when no value is listed by two graphs of the
view's tree; outcome table of the pipeline as the code runs it), `C18_clone_stage_C13_exact` (this model's clone
stage returns exactly when C13's heap-level clone returns, and where it raises C13's clone ends with a clear error).
-/
import IrVerif.Lemmas.Extract
import IrVerif.Lemmas.Implicit
import IrVerif.Lemmas.ExtractEval
import IrVerif.Lemmas.ExtractClone
import IrVerif.Lemmas.ExtractHyp
import IrVerif.Lemmas.ExtractView
import IrVerif.Lemmas.ExtractNames
import IrVerif.Lemmas.ExtractAttrs
import IrVerif.Lemmas.ExtractKernel
import IrVerif.Lemmas.ExtractSucceeds
import IrVerif.Lemmas.ExtractC13
import IrVerif.Lemmas.ExtractKernelN
import IrVerif.Lemmas.ExtractOwn
import IrVerif.Props.C13
set_option linter.unusedSimpArgs false
namespace IrVerif.Extract

/-- the state in which the `while value_stack:` loop ends -/
def walkFinal (W : World) (fn : Bool) (I O : List VId) (p : GId) : WS :=
  walk W p (walkInit W fn I O)

theorem walkFinal_inv (W : World) (fn : Bool) (I O : List VId) (p : GId) :
    Inv W p fn I O (walkFinal W fn I O p) :=
  walk_inv _ (walkInit_inv W p fn I O)

/-- **C18_external_free**: when the `.graph` back pointers are consistent with the structure on the subtree of
    the nested graph `b` and the region's graph is not nested in `b`, `_collect_all_external_values(parent, b)`
    (with the D47 fix) is exactly the set of free variables of `b` in the structural sense: read by a node of
    `b` or of a graph nested in `b`, and defined (graph input, initializer, node output) neither in `b` nor in
    a graph nested in `b`.  The right-hand side consults no back pointer. -/
theorem C18_external_free (W : World) (p : GId) (b : GraphT) (v : VId)
    (hb : BackPtrOK W b) (hp : ¬ NestedIn b p) :
    v ∈ externalValues W p b ↔ FreeOf b v := by
  rw [mem_externalValues]
  unfold FreeOf
  constructor
  · rintro ⟨h1, h2⟩; exact ⟨h1, (outside_iff_not_def hb hp).mp h2⟩
  · rintro ⟨h1, h2⟩; exact ⟨h1, (outside_iff_not_def hb hp).mpr h2⟩

/-- **C18_values_exact**: the walk visits exactly the boundary inputs and the required values (the least
    set containing the uncut outputs and closed under "needed by the producer of a required value, unless
    cut by a boundary input"; needed = direct input, or value used at any depth inside a graph attribute of
    the node and owned by none of the graphs nested there, see `Needs`). -/
theorem C18_values_exact (W : World) (fn : Bool) (I O : List VId) (p : GId) (v : VId) :
    v ∈ (walkFinal W fn I O p).valsV ↔ v ∈ I ∨ Reach W p I O v := by
  have h := walkFinal_inv W fn I O p
  constructor
  · exact h.sVals v
  · rintro (hv | hv)
    · exact h.cIns v hv
    · exact reach_visited h (walk_stack _ _ _) hv

theorem walkFinal_nodes (W : World) (fn : Bool) (I O : List VId) (p : GId) (n : NId) :
    n ∈ (walkFinal W fn I O p).nodesV ↔ NeedN W p I O n := by
  have h := walkFinal_inv W fn I O p
  constructor
  · exact h.sNodes n
  · rintro ⟨v, hr, hp⟩
    exact (h.cVals v (reach_visited h (walk_stack _ _ _) hr) hr.not_mem).2 n hp

theorem walkFinal_inited (W : World) (fn : Bool) (I O : List VId) (p : GId) (v : VId) :
    v ∈ (walkFinal W fn I O p).inited ↔
      W.isInit v = true ∧ ((v ∈ I ∧ fn = false) ∨ Reach W p I O v) := by
  have h := walkFinal_inv W fn I O p
  constructor
  · exact h.sInited v
  · rintro ⟨hi, (⟨hv, hfn⟩ | hr)⟩
    · exact h.cInsInit hfn v hv hi
    · exact (h.cVals v (reach_visited h (walk_stack _ _ _) hr) hr.not_mem).1 hi

theorem findSubgraph_ok {W : World} {fn : Bool} {g I O : List VId} {p : GId} {ns : List NId}
    {ws : List VId} (h : findSubgraph W fn g I O p = .ok (ns, ws)) :
    (unspecified W I (walkFinal W fn I O p).nodesV).isEmpty = true ∧
    (walkFinal W fn I O p).nodesV.all (fun n => g.contains n) = true ∧
    ns = sortByKey (fun n => lastIdx g n) (walkFinal W fn I O p).nodesV ∧
    ws = (walkFinal W fn I O p).inited := by
  unfold findSubgraph at h
  simp only [] at h
  change (if (unspecified W I (walkFinal W fn I O p).nodesV).isEmpty = true then _ else _) = _ at h
  split at h
  · rename_i h1
    split at h
    · rename_i h2
      injection h with h
      injection h with h3 h4
      exact ⟨h1, h2, h3.symm, h4.symm⟩
    · cases h
  · cases h

/-- **C18_nodes_exact**: when `_find_subgraph_bounded_by_values` returns, its node list contains exactly the
    required nodes: the producers of required values (see `Reach`); in particular no unneeded node is kept
    and no producer of a value captured by a nested body at any depth is missed. -/
theorem C18_nodes_exact {W : World} {fn : Bool} {g I O : List VId} {p : GId} {ns : List NId}
    {ws : List VId} (h : findSubgraph W fn g I O p = .ok (ns, ws)) (n : NId) :
    n ∈ ns ↔ NeedN W p I O n := by
  obtain ⟨_, _, h3, _⟩ := findSubgraph_ok h
  rw [h3, mem_sortByKey, walkFinal_nodes]

/-- **C18_nodes_exact_free**: the same with the required set defined from the structure alone (`ReachS`:
    a node needs its inputs and the free variables of its graph attributes; no `.graph` back pointer), when
    the back pointers of the graph attributes of the table's nodes are consistent (`BodiesPtrOK`, decidable:
    `backPtrB`) — so a wrong owner filter in the code would make this theorem fail for the model. -/
theorem C18_nodes_exact_free {W : World} {fn : Bool} {g I O : List VId} {p : GId} {ns : List NId}
    {ws : List VId} (h : findSubgraph W fn g I O p = .ok (ns, ws)) (hptr : ∀ n, BodiesPtrOK W p n)
    (n : NId) : n ∈ ns ↔ NeedNS W I O n := by
  rw [C18_nodes_exact h n, needN_iff_struct hptr n]

/-- **C18_order**: the extracted nodes are the nodes of the graph-like object restricted to the required
    ones, in their original order (so the result is a sublist of the source's node list). -/
theorem C18_order {W : World} {fn : Bool} {g I O : List VId} {p : GId} {ns : List NId}
    {ws : List VId} (h : findSubgraph W fn g I O p = .ok (ns, ws)) (hg : g.Nodup) :
    ns = g.filter (fun n => decide (n ∈ ns)) ∧ ns.Sublist g := by
  obtain ⟨_, h2, h3, _⟩ := findSubgraph_ok h
  have hsub : ∀ x, x ∈ (walkFinal W fn I O p).nodesV → x ∈ g := by
    intro x hx
    have := List.all_eq_true.mp h2 x hx
    simpa using this
  have hnd : (walkFinal W fn I O p).nodesV.Nodup := walk_nodup _ (by simp [walkInit])
  have e := sortByKey_lastIdx_eq_filter (g := g) hnd hsub
  rw [dedupLast_of_nodup hg] at e
  have hmem : ∀ n, decide (n ∈ ns) = decide (n ∈ (walkFinal W fn I O p).nodesV) := by
    intro n
    rw [h3, decide_eq_decide, mem_sortByKey]
  have e' : ns = g.filter (fun n => decide (n ∈ ns)) := by
    rw [show (fun n => decide (n ∈ ns)) = (fun n => decide (n ∈ (walkFinal W fn I O p).nodesV)) from
      funext hmem]
    rw [h3]; exact e
  exact ⟨e', by rw [e']; exact List.filter_sublist⟩

/-- **C18_inits**: the initializers handed to the result are exactly the required values that are
    initializers, plus (unless extracting from a `Function`) the boundary inputs that are initializers. -/
theorem C18_inits {W : World} {fn : Bool} {g I O : List VId} {p : GId} {ns : List NId}
    {ws : List VId} (h : findSubgraph W fn g I O p = .ok (ns, ws)) (v : VId) :
    v ∈ ws ↔ W.isInit v = true ∧ ((v ∈ I ∧ fn = false) ∨ Reach W p I O v) := by
  obtain ⟨_, _, _, h4⟩ := findSubgraph_ok h
  rw [h4, walkFinal_inited]

/-- an input of a required node that no boundary input covers: not a boundary input, not an initializer,
    not produced by any node -/
def Uncovered (W : World) (p : GId) (I O : List VId) : Prop :=
  ∃ n u, NeedN W p I O n ∧ some u ∈ (W.nodeD n).inputs ∧ ¬ u ∈ I ∧ W.isInit u = false ∧ W.prod u = none

theorem unspecified_iff (W : World) (fn : Bool) (I O : List VId) (p : GId) :
    (unspecified W I (walkFinal W fn I O p).nodesV).isEmpty = false ↔ Uncovered W p I O := by
  rw [List.isEmpty_eq_false_iff_exists_mem]
  unfold unspecified Uncovered
  constructor
  · rintro ⟨u, hu⟩
    rw [List.mem_filter, List.mem_flatMap] at hu
    obtain ⟨⟨n, hn, hun⟩, hc⟩ := hu
    simp only [Bool.and_eq_true, Bool.not_eq_eq_eq_not, Bool.not_true, List.contains_eq_mem,
      decide_eq_false_iff_not] at hc
    obtain ⟨⟨hp, hI⟩, hinit⟩ := hc
    have hN := (walkFinal_nodes W fn I O p n).mp hn
    refine ⟨n, u, hN, mem_ins.mp hun, hI, hinit, ?_⟩
    cases hpu : W.prod u with
    | none => rfl
    | some m =>
      exfalso
      rw [hpu] at hp
      simp only [Bool.not_eq_eq_eq_not, Bool.not_true, List.contains_eq_mem,
        decide_eq_false_iff_not] at hp
      obtain ⟨v, hr, hpv⟩ := hN
      have hru : Reach W p I O u := Reach.step hr hpv (Or.inl (mem_ins.mp hun)) hI
      exact hp ((walkFinal_nodes W fn I O p m).mpr ⟨u, hru, hpu⟩)
  · rintro ⟨n, u, hN, hun, hI, hinit, hp⟩
    refine ⟨u, ?_⟩
    rw [List.mem_filter, List.mem_flatMap]
    refine ⟨⟨n, (walkFinal_nodes W fn I O p n).mpr hN, mem_ins.mpr hun⟩, ?_⟩
    simp [hp, hI, hinit]

/-- **C18_raises_iff**: `_find_subgraph_bounded_by_values` raises "not properly bounded" exactly when some
    input of a required node is neither a boundary input, nor an initializer, nor produced by a node;
    otherwise it raises (KeyError) exactly when a required node is not a node of the graph-like object;
    otherwise it returns. -/
theorem C18_raises_iff (W : World) (fn : Bool) (g I O : List VId) (p : GId) :
    (findSubgraph W fn g I O p = .error .unbounded ↔ Uncovered W p I O) ∧
    (findSubgraph W fn g I O p = .error .sortKey ↔
      ¬ Uncovered W p I O ∧ ∃ n, NeedN W p I O n ∧ ¬ n ∈ g) ∧
    ((∃ r, findSubgraph W fn g I O p = .ok r) ↔
      ¬ Uncovered W p I O ∧ ∀ n, NeedN W p I O n → n ∈ g) := by
  have hU := unspecified_iff W fn I O p
  have hall : (walkFinal W fn I O p).nodesV.all (fun n => g.contains n) = true ↔
      ∀ n, NeedN W p I O n → n ∈ g := by
    rw [List.all_eq_true]
    constructor
    · intro h n hn
      simpa using h n ((walkFinal_nodes W fn I O p n).mpr hn)
    · intro h n hn
      simpa using h n ((walkFinal_nodes W fn I O p n).mp hn)
  unfold findSubgraph
  simp only []
  change
    ((if (unspecified W I (walkFinal W fn I O p).nodesV).isEmpty = true then
        (if (walkFinal W fn I O p).nodesV.all (fun n => g.contains n) = true then _ else _)
      else _) = _ ↔ _) ∧
    ((if (unspecified W I (walkFinal W fn I O p).nodesV).isEmpty = true then
        (if (walkFinal W fn I O p).nodesV.all (fun n => g.contains n) = true then _ else _)
      else _) = _ ↔ _) ∧
    ((∃ r, (if (unspecified W I (walkFinal W fn I O p).nodesV).isEmpty = true then
        (if (walkFinal W fn I O p).nodesV.all (fun n => g.contains n) = true then _ else _)
      else _) = _) ↔ _)
  by_cases h1 : (unspecified W I (walkFinal W fn I O p).nodesV).isEmpty = true
  · have hnU : ¬ Uncovered W p I O := by
      intro hu
      have := hU.mpr hu
      rw [h1] at this
      cases this
    rw [if_pos h1]
    by_cases h2 : (walkFinal W fn I O p).nodesV.all (fun n => g.contains n) = true
    · have h2' := hall.mp h2
      rw [if_pos h2]
      refine ⟨⟨fun h => (by cases h), fun h => absurd h hnU⟩, ⟨fun h => (by cases h), ?_⟩,
        ⟨fun _ => ⟨hnU, h2'⟩, fun _ => ⟨_, rfl⟩⟩⟩
      rintro ⟨_, n, hn, hng⟩
      exact absurd (h2' n hn) hng
    · have h2' : ¬ ∀ n, NeedN W p I O n → n ∈ g := fun h => h2 (hall.mpr h)
      rw [if_neg h2]
      refine ⟨⟨fun h => (by cases h), fun h => absurd h hnU⟩, ⟨fun _ => ⟨hnU, ?_⟩, fun _ => rfl⟩,
        ⟨fun ⟨r, h⟩ => (by cases h), fun h => absurd h.2 h2'⟩⟩
      apply Classical.byContradiction
      intro hne
      apply h2'
      intro n hn
      apply Classical.byContradiction
      intro hng
      exact hne ⟨n, hn, hng⟩
  · have hUn : Uncovered W p I O := hU.mp (by simpa using h1)
    rw [if_neg h1]
    exact ⟨⟨fun _ => hUn, fun _ => rfl⟩, ⟨fun h => (by cases h), fun h => absurd hUn h.1⟩,
      ⟨fun ⟨r, h⟩ => (by cases h), fun h => absurd hUn h.1⟩⟩

/-- **C18_eval**: for every type of values and every semantics `S` (an arbitrary function per node of the
    denotations of its graph attributes and of its input values, plus the constants of the initializers; a
    nested graph is evaluated under the environment of its enclosing scopes), every initial environment `env0`
    of the source in which initializers hold their constants, and every environment `env1` of the extracted
    graph that holds the source's values at the boundary inputs and the constants at the initializers handed
    to the result (and anything elsewhere): running the extracted node list — never overwriting the rewired
    boundary inputs `fz ⊆ I` — gives at every requested output the value the source computes there.
    Hypotheses: the source list is single-assignment, topologically sorted, with consistent `producer()`
    pointers, and produces no initializer (`SourceOK`, `hInit`; decidable: `sourceOKB`); what the lexical
    scoping of the semantics lets a node read is covered by what the code collects (`CapturesCover`; follows
    from closed, well-scoped bodies with consistent back pointers: `capturesCover_of_bodiesOK`, decidable:
    `bodiesOKB`) — a capture missed by the code falsifies this hypothesis-free part of the statement; and
    every required value without a producer is an initializer (`hcov`, discharged from the success of
    validation + clone by `C18_cover_of_clone`, composed in `C18_extract_eval`). -/
theorem C18_eval {α : Type} {W : World} {fn : Bool} {g I O : List VId} {p : GId} {ns : List NId}
    {ws : List VId} (S : Sem α) (env0 env1 : Env α) (fz : List VId)
    (h : findSubgraph W fn g I O p = .ok (ns, ws))
    (hS : SourceOK W p g) (hInit : ∀ u, W.isInit u = true → NotProducedIn W g u)
    (hcap : ∀ n, n ∈ g → CapturesCover W p n)
    (hcov : ∀ u, Reach W p I O u → W.prod u = none → W.isInit u = true)
    (hK : ∀ u, W.isInit u = true → env0 u = S.const u)
    (hfz : ∀ u, u ∈ fz → u ∈ I)
    (hI : ∀ u, u ∈ I → env1 u = evalTop S W g env0 u)
    (hW : ∀ u, u ∈ ws → env1 u = S.const u) :
    ∀ o, o ∈ O → evalRegion S W fz ns env1 o = evalTop S W g env0 o := by
  intro o ho
  rw [evalRegion_eq, evalTop_eq]
  have hI' : ∀ u, u ∈ I → env1 u = evalNodes W (S.interp W) g env0 u := by
    intro u hu; rw [← evalTop_eq]; exact hI u hu
  have hord := (C18_order h hS.nodup).1
  have hkeep : ∀ n, n ∈ g → (decide (n ∈ ns) = true ↔ NeedN W p I O n) := by
    intro n _
    rw [decide_eq_true_eq]
    exact C18_nodes_exact h n
  have hgood : o ∈ I ∨ Reach W p I O o := by
    by_cases hoI : o ∈ I
    · exact Or.inl hoI
    · exact Or.inr (Reach.out ho hoI)
  rw [hord]
  refine eval_agree_aux (fun n => decide (n ∈ ns)) fz env0 env1
    (fun n hn => interp_localAt S (hcap n hn)) hS hkeep hfz hI' g [] rfl ?_ o hgood
  intro u hu hnp
  simp only [List.filter_nil, evalNodesFz, List.foldl_nil]
  rcases hu with hu | hu
  · exact hI' u hu
  · cases hp : W.prod u with
    | none =>
      have hinit : W.isInit u = true := hcov u hu hp
      rw [hW u ((C18_inits h u).mpr ⟨hinit, Or.inr hu⟩)]
      rw [evalNodes_not_produced _ _ (hInit u hinit)]
      exact (hK u hinit).symm
    | some m =>
      exfalso
      have hm : m ∈ ns := (C18_nodes_exact h m).mpr ⟨u, hu, hp⟩
      have hmg : m ∈ g := (C18_order h hS.nodup).2.subset hm
      exact hnp m hmg (hS.outProd u m hp)

/-- what a successful `extract` went through: the region search succeeded for the resolved boundary and the
    graph of the first output, the initializers of the view are among the recorded ones, and the clone of
    the view did not raise -/
theorem extract_ok {W : World} {T : Target} {ins outs : List Arg} {view : View}
    (h : extract W T ins outs = .ok view) :
    ∃ p inited m', (∃ o rest, view.outputs = o :: rest ∧ W.graphOf o = some p) ∧
      findSubgraph W (T.kind == Kind.function) T.nodes view.inputs view.outputs p = .ok (view.nodes, inited) ∧
      (∀ v, v ∈ view.inits → v ∈ inited) ∧
      cloneG [] (.mk 0 view.inputs view.inits view.outputs (view.nodes.map W.nodeD)) = .ok m' ∧
      (∃ im, viewInits W inited [] = .ok im ∧ view.inits = im.map (·.2)) := by
  unfold extract at h
  simp only [] at h
  split at h
  · cases h
  · split at h
    · cases h
    · rename_i o0 rest hout
      split at h
      · cases h
      · rename_i parent hpar
        split at h
        · cases h
        · rename_i nodes inited hfind
          split at h
          · cases h
          · rename_i im him
            split at h
            · cases h
            · rename_i m' hclone
              cases h
              refine ⟨parent, inited, m', ⟨o0, rest, hout, hpar⟩, ?_, ?_, hclone, ⟨im, him, rfl⟩⟩
              · exact hfind
              · intro v hv
                rcases viewInits_mem inited [] im him v hv with h' | h'
                · exact h'
                · simp at h'

/-- **C18_cover_of_clone**: if the region search succeeded and the clone of the view did not raise, then
    every required value that no node produces is an initializer — also the values captured by nested
    graphs and the requested outputs, which the frontier validation does not look at.  (Equivalently: if a
    required non-initializer value is covered neither by a boundary input nor by a producer, then either the
    validation or the clone raises.)  Hypotheses: `producer()` of an output of a kept node is that node, the
    view's initializers are initializers, and no required value is defined inside a graph nested in a kept
    node (scoping). -/
theorem C18_cover_of_clone {W : World} {fn : Bool} {g I O : List VId} {p : GId} {ns : List NId}
    {ws inits m' : List VId} (h : findSubgraph W fn g I O p = .ok (ns, ws))
    (hinits : ∀ v, v ∈ inits → W.isInit v = true)
    (hc : cloneG [] (.mk 0 I inits O (ns.map W.nodeD)) = .ok m')
    (hprod : ∀ n, n ∈ ns → ∀ o, o ∈ (W.nodeD n).outputs → W.prod o = some n)
    (hscope : ∀ u, Reach W p I O u → ∀ n, n ∈ ns → ∀ b, b ∈ (W.nodeD n).bodies → ¬ DefInG b u) :
    ∀ u, Reach W p I O u → W.prod u = none → W.isInit u = true := by
  intro u hu hp
  have hspec := cloneG_spec _ _ _ hc
  -- every required value ends up in the value map ...
  have hmem : u ∈ m' := by
    cases hu with
    | out ho _ => exact hspec.2.2.2 u ho
    | @step v _ n hr hpv hn _ =>
      have hnn : n ∈ ns := (C18_nodes_exact h n).mpr ⟨v, hr, hpv⟩
      have hnode : W.nodeD n ∈ (GraphT.mk 0 I inits O (ns.map W.nodeD)).nodes := by
        simp only [GraphT.nodes_mk, List.mem_map]; exact ⟨n, hnn, rfl⟩
      apply hspec.2.2.1 u
      rcases hn with hd | ⟨b, hb, hub, _⟩
      · exact UsedInG.node hnode (UsedInN.direct hd)
      · exact UsedInG.node hnode (UsedInN.nested hb hub)
  -- ... and what is in the map was put there as input, initializer, output of a kept node or nested value
  rcases hspec.2.1 u hmem with h0 | hd
  · cases h0
  · cases hd with
    | input hi => exact absurd (by simpa using hi) hu.not_mem
    | init hi => exact hinits u (by simpa using hi)
    | node hn hdn =>
      simp only [GraphT.nodes_mk, List.mem_map] at hn
      obtain ⟨n, hnn, rfl⟩ := hn
      cases hdn with
      | out ho => have := hprod n hnn u ho; rw [hp] at this; cases this
      | nested hb hdb => exact absurd hdb (hscope u hu n hnn _ hb)

/-- **C18_raises_of_uncovered**: for the whole `extract` pipeline — if some required value (an uncut output,
    an input of a required node, or a value captured from outside at any depth by a nested graph of a
    required node) is neither a boundary input, nor an initializer, nor produced by a node, then `extract`
    raises (in the argument checks, the frontier validation, or the clone). -/
theorem C18_raises_of_uncovered {W : World} {T : Target} {ins outs : List Arg} {view : View}
    (h : extract W T ins outs = .ok view)
    (hinit : ∀ v, v ∈ view.inits → W.isInit v = true)
    (hprod : ∀ n, n ∈ view.nodes → ∀ o, o ∈ (W.nodeD n).outputs → W.prod o = some n) :
    ∃ p, (∃ o rest, view.outputs = o :: rest ∧ W.graphOf o = some p) ∧
      ((∀ u, Reach W p view.inputs view.outputs u → ∀ n, n ∈ view.nodes →
          ∀ b, b ∈ (W.nodeD n).bodies → ¬ DefInG b u) →
        ∀ u, Reach W p view.inputs view.outputs u → W.prod u = none → W.isInit u = true) := by
  obtain ⟨p, inited, m', hp, hfind, _, hclone, _⟩ := extract_ok h
  exact ⟨p, hp, fun hscope => C18_cover_of_clone hfind hinit hclone hprod hscope⟩

theorem scope_of_B {W : World} {fn : Bool} {I O : List VId} {p : GId} {ns : List NId}
    (h : scopeB W fn I O p ns = true) :
    ∀ u, Reach W p I O u → ∀ n, n ∈ ns → ∀ b, b ∈ (W.nodeD n).bodies → ¬ DefInG b u := by
  intro u hu n hn b hb hd
  have hv := (C18_values_exact W fn I O p u).mpr (Or.inr hu)
  have := List.all_eq_true.mp h u hv
  simp only [Bool.or_eq_true, List.contains_eq_mem, decide_eq_true_eq] at this
  rcases this with h1 | h1
  · exact hu.not_mem h1
  · have := List.all_eq_true.mp (List.all_eq_true.mp h1 n hn) b hb
    simp only [List.contains_eq_mem, Bool.not_eq_eq_eq_not, Bool.not_true, decide_eq_false_iff_not] at this
    exact this ((mem_defsG b u).mpr hd)

theorem initNames_of_B {W : World} (h : initNamesB W = true) :
    ∀ u u', W.isInit u = true → W.isInit u' = true → (W.val u).name = (W.val u').name → u = u' := by
  intro u u' hu hu' hn
  have hr : u < W.vals.length := by
    apply Classical.byContradiction; intro hlt
    rw [isInit_out_of_range (Nat.le_of_not_lt hlt)] at hu; cases hu
  have hr' : u' < W.vals.length := by
    apply Classical.byContradiction; intro hlt
    rw [isInit_out_of_range (Nat.le_of_not_lt hlt)] at hu'; cases hu'
  have := List.all_eq_true.mp (List.all_eq_true.mp h u (List.mem_range.mpr hr)) u' (List.mem_range.mpr hr')
  simp only [hu, hu', hn, Bool.and_self, BEq.rfl, Bool.not_true, Bool.false_or, beq_iff_eq] at this
  exact this

/-- **C18_extract_eval** (composition): whenever the whole `extract` pipeline returns — argument checks,
    region search, frontier validation, view construction, clone — the extracted graph computes the source's
    values at the requested outputs, for every semantics `S` (nested graphs evaluated under the environment
    of their enclosing scopes) and every environment of the extracted graph that holds the source's values
    at its inputs and the constants at its initializers.  The extracted graph is run with its rewired
    boundary inputs (`rewired`, D153) never overwritten.  `p` is the graph of the first requested output.
    Hypotheses (all decidable, reported per generated case by the driver): `SourceOK`/`hInit` (`sourceOKB`),
    `CapturesCover` (`bodiesOKB`), no required value is defined inside a graph nested in a kept node
    (`hscope`), initializer names are pairwise distinct (`hnames`). -/
theorem C18_extract_eval {α : Type} {W : World} {T : Target} {ins outs : List Arg} {view : View}
    (S : Sem α) (env0 env1 : Env α) (h : extract W T ins outs = .ok view) :
    ∃ p, (∃ o rest, view.outputs = o :: rest ∧ W.graphOf o = some p) ∧
      (SourceOK W p T.nodes → (∀ u, W.isInit u = true → NotProducedIn W T.nodes u) →
       (∀ n, n ∈ T.nodes → CapturesCover W p n) →
       (∀ u, Reach W p view.inputs view.outputs u → ∀ n, n ∈ view.nodes →
          ∀ b, b ∈ (W.nodeD n).bodies → ¬ DefInG b u) →
       (∀ u u', W.isInit u = true → W.isInit u' = true → (W.val u).name = (W.val u').name → u = u') →
       (∀ u, W.isInit u = true → env0 u = S.const u) →
       (∀ u, u ∈ view.inputs → env1 u = evalTop S W T.nodes env0 u) →
       (∀ u, u ∈ view.inits → env1 u = S.const u) →
       ∀ o, o ∈ view.outputs →
         evalRegion S W (rewired W view) view.nodes env1 o = evalTop S W T.nodes env0 o) := by
  obtain ⟨p, inited, m', hp, hfind, hsub, hclone, im, him, hinits⟩ := extract_ok h
  refine ⟨p, hp, ?_⟩
  intro hS hInit hcap hscope hnames hK hI hW
  have hinitOK : ∀ v, v ∈ inited → W.isInit v = true := fun v hv => ((C18_inits hfind v).mp hv).1
  have hnodes : ∀ n, n ∈ view.nodes → n ∈ T.nodes := fun n hn => (C18_order hfind hS.nodup).2.subset hn
  have hcov := C18_cover_of_clone hfind (fun v hv => hinitOK v (hsub v hv)) hclone
    (fun n hn => hS.prodOut n (hnodes n hn)) hscope
  have hcomplete := (viewInits_complete inited [] im him (by intro kv hkv; cases hkv)
    (by
      intro u u' hu hu' hn
      have h1 : u ∈ inited := hu.resolve_right (by simp)
      have h2 : u' ∈ inited := hu'.resolve_right (by simp)
      exact hnames u u' (hinitOK u h1) (hinitOK u' h2) hn)).2
  refine C18_eval S env0 env1 (rewired W view) hfind hS hInit hcap hcov hK ?_ hI ?_
  · intro u hu; exact (List.mem_filter.mp hu).1
  · intro u hu
    apply hW u
    rw [hinits]
    exact hcomplete u hu

/-- **C18_extract_unbounded_iff** (composition of the argument checks with `C18_raises_iff`): `extract` raises
    "not properly bounded" exactly when the arguments pass the checks, there is a first output with an owning
    graph `p`, and some input of a required node is neither a boundary input, nor an initializer, nor produced
    by a node. -/
theorem C18_extract_unbounded_iff (W : World) (T : Target) (ins outs : List Arg) :
    extract W T ins outs = .error .unbounded ↔
      checkArgs W T (valueMapping W T) (ins ++ outs) = .ok () ∧
      ∃ o rest p, outs.map (resolveArg (valueMapping W T)) = o :: rest ∧ W.graphOf o = some p ∧
        Uncovered W p (ins.map (resolveArg (valueMapping W T))) (outs.map (resolveArg (valueMapping W T))) := by
  have hargs : ∀ (l : List Arg) e, checkArgs W T (valueMapping W T) l = .error e →
      e = .notOwned ∨ e = .nameNotFound := by
    intro l
    induction l with
    | nil => intro e h; simp [checkArgs] at h
    | cons a t ih =>
      intro e h
      rw [checkArgs] at h
      split at h
      · rename_i e' he
        cases h
        cases a with
        | obj v => simp only [checkArg] at he; split at he <;> simp_all
        | name s => simp only [checkArg] at he; split at he <;> simp_all
      · exact ih e h
  unfold extract
  simp only []
  constructor
  · intro h
    split at h
    · rename_i e he
      cases h
      rcases hargs _ _ he with h' | h' <;> cases h'
    · rename_i hok
      refine ⟨hok, ?_⟩
      split at h
      · cases h
      · rename_i o0 rest hout
        split at h
        · cases h
        · rename_i parent hpar
          refine ⟨o0, rest, parent, hout, hpar, ?_⟩
          split at h
          · rename_i e he
            cases h
            exact (C18_raises_iff W _ T.nodes _ _ parent).1.mp he
          · split at h
            · rename_i e he
              cases h
              -- viewInits only raises initNoName
              exfalso
              have : ∀ (vs : List VId) (m : NameMap) e, viewInits W vs m = .error e → e = .initNoName := by
                intro vs
                induction vs with
                | nil => intro m e h; simp [viewInits] at h
                | cons v t ih =>
                  intro m e h
                  rw [viewInits] at h
                  split at h
                  · cases h; rfl
                  · exact ih _ e h
              cases this _ _ _ he
            · split at h
              · rename_i e he
                cases h
                exfalso
                rcases cloneG_err _ _ _ he with h' | h' <;> cases h'
              · cases h
  · rintro ⟨hok, o0, rest, parent, hout, hpar, hunc⟩
    rw [hok]
    simp only []
    rw [hout]
    simp only [hpar]
    rw [← hout]
    rw [(C18_raises_iff W _ T.nodes _ _ parent).1.mpr hunc]

/-! ## by-name resolution (round 3) -/

/-- a value of the source as `create_value_mapping(graph, include_subgraphs=False)` sees it: a graph input, or
    an input or output of a node of the graph-like object (values defined only inside nested graphs are not
    seen; a value of an enclosing graph that a node of the source reads directly is) -/
def SourceVal (W : World) (T : Target) (v : VId) : Prop :=
  v ∈ T.inputs ∨ ∃ n, n ∈ T.nodes ∧ (some v ∈ (W.nodeD n).inputs ∨ v ∈ (W.nodeD n).outputs)

/-- `s` names `v` in the source: `s` is the key of `v` in the initializer dict, or `v` is a source value whose
    name is the non-empty string `s` -/
def NamedBy (W : World) (T : Target) (s : String) (v : VId) : Prop :=
  (s, v) ∈ T.inits ∨ (SourceVal W T v ∧ (W.val v).name = s ∧ s ≠ "")

theorem mem_nameCandidates {W : World} {T : Target} {s : String} {v : VId} :
    (s, v) ∈ nameCandidates W T ↔ NamedBy W T s v := by
  unfold nameCandidates NamedBy SourceVal
  rw [List.mem_append, mem_named, List.mem_append, List.mem_flatMap]
  constructor
  · rintro (h | ⟨(h | ⟨n, hn, h⟩), h2⟩)
    · exact Or.inl h
    · exact Or.inr ⟨Or.inl h, h2⟩
    · refine Or.inr ⟨Or.inr ⟨n, hn, ?_⟩, h2⟩
      rcases List.mem_append.mp h with h | h
      · exact Or.inl (mem_ins.mp h)
      · exact Or.inr h
  · rintro (h | ⟨(h | ⟨n, hn, h⟩), h2⟩)
    · exact Or.inl h
    · exact Or.inr ⟨Or.inl h, h2⟩
    · refine Or.inr ⟨Or.inr ⟨n, hn, ?_⟩, h2⟩
      rcases h with h | h
      · exact List.mem_append_left _ (mem_ins.mpr h)
      · exact List.mem_append_right _ h

/-- **C18_by_name_resolves**: how `extract` resolves a boundary value given as the name `s`
    (`create_value_mapping(graph, include_subgraphs=False)`, then `values[s]`), for every source (graph,
    function graph, view), with duplicate, empty and missing names:
    1. *documented precedence* ("the first value with that name is returned"): the lookup is the lookup in
       the flat list of (name, value) pairs in the order initializer dict, graph inputs, then node by node
       inputs before outputs — an initializer key beats a graph input of that name, which beats any node value;
       among node values the earliest node wins, an input of a node before an output of the same node;
    2. the name is accepted exactly when something in the source is named `s`, and is otherwise rejected with
       `ValueError` "not found" (values defined only in nested graphs do not count; `""` names nothing but a
       possible initializer key);
    3. *unique names*: when a name denotes at most one value among the candidates (decidable:
       `namesUniqueB`), `s` resolves to THE value of the source named `s`. -/
theorem C18_by_name_resolves (W : World) (T : Target) (s : String) :
    ((valueMapping W T).lookup s = (nameCandidates W T).lookup s ∧
     (nameCandidates W T).lookup s =
       (T.inits.lookup s).or (((named W T.inputs).lookup s).or
         ((named W (T.nodes.flatMap (fun n => (W.nodeD n).ins ++ (W.nodeD n).outputs))).lookup s))) ∧
    ((checkArg W T (valueMapping W T) (.name s) = .ok () ↔ ∃ v, NamedBy W T s v) ∧
     (checkArg W T (valueMapping W T) (.name s) = .error .nameNotFound ↔ ¬ ∃ v, NamedBy W T s v)) ∧
    ((∀ k v v', NamedBy W T k v → NamedBy W T k v' → v = v') →
      ∀ v, NamedBy W T s v → resolveArg (valueMapping W T) (.name s) = v) := by
  have hl := lookup_valueMapping W T s
  have hsome : ((valueMapping W T).lookup s).isSome ↔ ∃ v, NamedBy W T s v := by
    rw [hl, lookup_isSome_iff]
    exact ⟨fun ⟨v, hv⟩ => ⟨v, mem_nameCandidates.mp hv⟩, fun ⟨v, hv⟩ => ⟨v, mem_nameCandidates.mpr hv⟩⟩
  refine ⟨⟨hl, ?_⟩, ⟨?_, ?_⟩, ?_⟩
  · unfold nameCandidates
    rw [named_append, List.lookup_append, List.lookup_append]
  · rw [← hsome]
    unfold checkArg
    by_cases h : ((valueMapping W T).lookup s).isSome = true <;> simp [h]
  · rw [← hsome]
    unfold checkArg
    by_cases h : ((valueMapping W T).lookup s).isSome = true <;> simp [h]
  · intro huniq v hv
    have hf : ∀ k v v', (k, v) ∈ nameCandidates W T → (k, v') ∈ nameCandidates W T → v = v' :=
      fun k v v' h h' => huniq k v v' (mem_nameCandidates.mp h) (mem_nameCandidates.mp h')
    have := (lookup_eq_some_iff_of_functional hf s v).mpr (mem_nameCandidates.mpr hv)
    show ((valueMapping W T).lookup s).getD 0 = v
    rw [hl, this]
    rfl

theorem checkArgs_error_iff (W : World) (T : Target) (m : NameMap) (e : Err) : ∀ (l : List Arg),
    checkArgs W T m l = .error e ↔
      ∃ pre a post, l = pre ++ a :: post ∧ (∀ b, b ∈ pre → checkArg W T m b = .ok ()) ∧
        checkArg W T m a = .error e
  | [] => by simp [checkArgs]
  | a :: t => by
    rw [checkArgs]
    cases hc : checkArg W T m a with
    | error e' =>
      simp only []
      constructor
      · intro h
        cases h
        exact ⟨[], a, t, rfl, by simp, hc⟩
      · rintro ⟨pre, a', post, hl, hpre, ha'⟩
        cases pre with
        | nil =>
          simp only [List.nil_append, List.cons.injEq] at hl
          obtain ⟨rfl, _⟩ := hl
          rw [hc] at ha'; exact ha'
        | cons b pre' =>
          simp only [List.cons_append, List.cons.injEq] at hl
          obtain ⟨rfl, _⟩ := hl
          have := hpre a List.mem_cons_self
          rw [hc] at this; cases this
    | ok u =>
      cases u
      simp only []
      rw [checkArgs_error_iff W T m e t]
      constructor
      · rintro ⟨pre, a', post, hl, hpre, ha'⟩
        refine ⟨a :: pre, a', post, by simp [hl], ?_, ha'⟩
        intro b hb
        rcases List.mem_cons.mp hb with rfl | hb
        · exact hc
        · exact hpre b hb
      · rintro ⟨pre, a', post, hl, hpre, ha'⟩
        cases pre with
        | nil =>
          simp only [List.nil_append, List.cons.injEq] at hl
          obtain ⟨rfl, _⟩ := hl
          rw [hc] at ha'; cases ha'
        | cons b pre' =>
          simp only [List.cons_append, List.cons.injEq] at hl
          obtain ⟨rfl, rfl⟩ := hl
          exact ⟨pre', a', post, rfl, fun b hb => hpre b (List.mem_cons_of_mem _ hb), ha'⟩

theorem findSubgraph_err {W : World} {fn : Bool} {g I O : List VId} {p : GId} {e : Err}
    (h : findSubgraph W fn g I O p = .error e) : e = .unbounded ∨ e = .sortKey := by
  unfold findSubgraph at h
  simp only [] at h
  split at h
  · split at h
    · cases h
    · cases h; exact Or.inr rfl
  · cases h; exact Or.inl rfl

theorem viewInits_err {W : World} : ∀ (vs : List VId) (m : NameMap) (e : Err),
    viewInits W vs m = .error e → e = .initNoName := by
  intro vs
  induction vs with
  | nil => intro m e h; simp [viewInits] at h
  | cons v t ih =>
    intro m e h
    rw [viewInits] at h
    split at h
    · cases h; rfl
    · exact ih _ e h

/-- the argument checks come first: an argument error of `extract` is the error of the first failing
    argument in `itertools.chain(inputs, outputs)` -/
theorem extract_arg_error (W : World) (T : Target) (ins outs : List Arg) (e : Err)
    (he : e = .nameNotFound ∨ e = .notOwned) :
    extract W T ins outs = .error e ↔ checkArgs W T (valueMapping W T) (ins ++ outs) = .error e := by
  unfold extract
  simp only []
  constructor
  · intro h
    split at h
    · rename_i e' he'; cases h; exact he'
    · exfalso
      split at h
      · cases h; rcases he with h' | h' <;> cases h'
      · split at h
        · cases h; rcases he with h' | h' <;> cases h'
        · split at h
          · rename_i e' he'
            cases h
            rcases findSubgraph_err he' with h' | h' <;> subst h' <;> rcases he with h' | h' <;> cases h'
          · split at h
            · rename_i e' he'
              cases h
              have := viewInits_err _ _ _ he'
              subst this
              rcases he with h' | h' <;> cases h'
            · split at h
              · rename_i e' he'
                cases h
                rcases cloneG_err _ _ _ he' with h' | h' <;> subst h' <;> rcases he with h' | h' <;> cases h'
              · cases h
  · intro h
    rw [h]

/-- **C18_by_name_missing**: which error a missing name gives, and when.  `extract` raises "Value with name
    ... not found" exactly when the FIRST argument of `inputs` followed by `outputs` that fails its check is
    a name that nothing in the source carries (every argument before it is a known name or a value owned by
    the source); it raises "does not belong" exactly when that first failing argument is a value object that
    the source (not a view) does not own.  Both errors precede every other failure of `extract`. -/
theorem C18_by_name_missing (W : World) (T : Target) (ins outs : List Arg) :
    (extract W T ins outs = .error .nameNotFound ↔
      ∃ pre s post, ins ++ outs = pre ++ Arg.name s :: post ∧
        (∀ b, b ∈ pre → checkArg W T (valueMapping W T) b = .ok ()) ∧ ¬ ∃ v, NamedBy W T s v) ∧
    (extract W T ins outs = .error .notOwned ↔
      ∃ pre v post, ins ++ outs = pre ++ Arg.obj v :: post ∧
        (∀ b, b ∈ pre → checkArg W T (valueMapping W T) b = .ok ()) ∧
        T.kind ≠ Kind.view ∧ W.graphOf v ≠ T.gid) := by
  constructor
  · rw [extract_arg_error W T ins outs _ (Or.inl rfl), checkArgs_error_iff]
    constructor
    · rintro ⟨pre, a, post, hl, hpre, ha⟩
      cases a with
      | obj v => simp only [checkArg] at ha; split at ha <;> cases ha
      | name s => exact ⟨pre, s, post, hl, hpre, (C18_by_name_resolves W T s).2.1.2.mp ha⟩
    · rintro ⟨pre, s, post, hl, hpre, hs⟩
      exact ⟨pre, .name s, post, hl, hpre, (C18_by_name_resolves W T s).2.1.2.mpr hs⟩
  · rw [extract_arg_error W T ins outs _ (Or.inr rfl), checkArgs_error_iff]
    constructor
    · rintro ⟨pre, a, post, hl, hpre, ha⟩
      cases a with
      | obj v =>
        refine ⟨pre, v, post, hl, hpre, ?_⟩
        simp only [checkArg] at ha
        split at ha
        · rename_i hc
          simp only [Bool.and_eq_true, bne_iff_ne, ne_eq] at hc
          exact hc
        · cases ha
      | name s => simp only [checkArg] at ha; split at ha <;> cases ha
    · rintro ⟨pre, v, post, hl, hpre, hk, hg⟩
      refine ⟨pre, .obj v, post, hl, hpre, ?_⟩
      simp only [checkArg]
      have : (T.kind != Kind.view && W.graphOf v != T.gid) = true := by
        simp only [Bool.and_eq_true, bne_iff_ne, ne_eq]
        exact ⟨hk, hg⟩
      rw [if_pos this]

/-! ## every kind of source: graph, function, view (round 3) -/

/-- **C18_order_view**: `C18_order` without the hypothesis that the node list is duplicate free — the node
    list of a `GraphView` may be any list (a strict subset of the nodes of the graph the values live in,
    another order, repeats).  The extracted nodes are duplicate free and are the LAST occurrences of the
    listed nodes (`node_index` is a dict comprehension: a node listed twice is ordered by its last position),
    restricted to the required ones; in particular a sublist of the source's node list. -/
theorem C18_order_view {W : World} {fn : Bool} {g I O : List VId} {p : GId} {ns : List NId}
    {ws : List VId} (h : findSubgraph W fn g I O p = .ok (ns, ws)) :
    ns = (dedupLast g).filter (fun n => decide (n ∈ ns)) ∧ ns.Sublist g ∧ ns.Nodup := by
  obtain ⟨_, h2, h3, _⟩ := findSubgraph_ok h
  have hsub : ∀ x, x ∈ (walkFinal W fn I O p).nodesV → x ∈ g := by
    intro x hx
    have := List.all_eq_true.mp h2 x hx
    simpa using this
  have hnd : (walkFinal W fn I O p).nodesV.Nodup := walk_nodup _ (by simp [walkInit])
  have e := sortByKey_lastIdx_eq_filter (g := g) hnd hsub
  have hmem : ∀ n, decide (n ∈ ns) = decide (n ∈ (walkFinal W fn I O p).nodesV) := by
    intro n
    rw [h3, decide_eq_decide, mem_sortByKey]
  have e' : ns = (dedupLast g).filter (fun n => decide (n ∈ ns)) := by
    rw [show (fun n => decide (n ∈ ns)) = (fun n => decide (n ∈ (walkFinal W fn I O p).nodesV)) from
      funext hmem]
    rw [h3]; exact e
  refine ⟨e', ?_, ?_⟩
  · rw [e']; exact List.filter_sublist.trans (dedupLast_sublist g)
  · rw [h3]; exact sortByKey_nodup hnd

/-- what a successful `extract` returned, in terms of its arguments -/
theorem extract_ok_io {W : World} {T : Target} {ins outs : List Arg} {view : View}
    (h : extract W T ins outs = .ok view) :
    view.inputs = ins.map (resolveArg (valueMapping W T)) ∧
    view.outputs = outs.map (resolveArg (valueMapping W T)) ∧
    checkArgs W T (valueMapping W T) (ins ++ outs) = .ok () := by
  unfold extract at h
  simp only [] at h
  split at h
  · cases h
  · rename_i hok
    split at h
    · cases h
    · split at h
      · cases h
      · split at h
        · cases h
        · split at h
          · cases h
          · split at h
            · cases h
            · cases h
              exact ⟨rfl, rfl, hok⟩

/-- **C18_nodes_exact_source**: `C18_nodes_exact` for the whole `extract` call on every kind of source — a
    `Graph`, a `Function` (fields of `function.graph`) or a `GraphView` whose node list is any list.  Whenever
    `extract` returns, its boundary is the resolved arguments and its node set is exactly the set of required
    nodes for that boundary, relative to the graph `p` that owns the first requested output. -/
theorem C18_nodes_exact_source {W : World} (S : Source) {ins outs : List Arg} {view : View}
    (h : extract W S.target ins outs = .ok view) :
    view.inputs = ins.map (resolveArg (valueMapping W S.target)) ∧
    view.outputs = outs.map (resolveArg (valueMapping W S.target)) ∧
    ∃ p, (∃ o rest, view.outputs = o :: rest ∧ W.graphOf o = some p) ∧
      ∀ n, n ∈ view.nodes ↔ NeedN W p view.inputs view.outputs n := by
  obtain ⟨p, inited, m', hp, hfind, _, _, _⟩ := extract_ok h
  obtain ⟨hi, ho, _⟩ := extract_ok_io h
  exact ⟨hi, ho, p, hp, fun n => C18_nodes_exact hfind n⟩

/-- **C18_order_source**: `C18_order` for the whole `extract` call on every kind of source, with no
    hypothesis on the node list: the extracted nodes are duplicate free, a sublist of the source's node list,
    and ordered as the last occurrences of the listed nodes (for a `Graph` or `Function`, whose node list is
    duplicate free: the original order).  A view that lists a node twice therefore contributes the node once,
    at its last position — if that puts it after a consumer, the clone stage raises (`Err.cloneOuter`). -/
theorem C18_order_source {W : World} (S : Source) {ins outs : List Arg} {view : View}
    (h : extract W S.target ins outs = .ok view) :
    view.nodes = (dedupLast S.nodes).filter (fun n => decide (n ∈ view.nodes)) ∧
    view.nodes.Sublist S.nodes ∧ view.nodes.Nodup ∧
    (S.nodes.Nodup → view.nodes = S.nodes.filter (fun n => decide (n ∈ view.nodes))) := by
  obtain ⟨p, inited, m', hp, hfind, _, _, _⟩ := extract_ok h
  obtain ⟨h1, h2, h3⟩ := C18_order_view hfind
  refine ⟨h1, h2, h3, fun hnd => ?_⟩
  have := h1
  unfold Source.nodes at this hnd
  rw [dedupLast_of_nodup hnd] at this
  exact this

/-- **C18_inits_source**: `C18_inits` for the whole `extract` call on every kind of source: every initializer
    of the result is an initializer that is required or (source not a `Function`) a boundary input; and when
    the recorded initializers have pairwise distinct names (`GraphView` keys its initializers by name), every
    such value is an initializer of the result. -/
theorem C18_inits_source {W : World} (S : Source) {ins outs : List Arg} {view : View}
    (h : extract W S.target ins outs = .ok view) :
    ∃ p, (∃ o rest, view.outputs = o :: rest ∧ W.graphOf o = some p) ∧
      (∀ v, v ∈ view.inits → W.isInit v = true ∧
        ((v ∈ view.inputs ∧ S.isFunction = false) ∨ Reach W p view.inputs view.outputs v)) ∧
      ((∀ u u', W.isInit u = true → W.isInit u' = true → (W.val u).name = (W.val u').name → u = u') →
        ∀ v, W.isInit v = true →
          ((v ∈ view.inputs ∧ S.isFunction = false) ∨ Reach W p view.inputs view.outputs v) →
          v ∈ view.inits) := by
  obtain ⟨p, inited, m', hp, hfind, hsub, _, im, him, hinits⟩ := extract_ok h
  refine ⟨p, hp, ?_, ?_⟩
  · intro v hv
    exact (C18_inits hfind v).mp (hsub v hv)
  · intro hnames v hv hreq
    have hinitOK : ∀ v, v ∈ inited → W.isInit v = true := fun v hv => ((C18_inits hfind v).mp hv).1
    have hcomplete := (viewInits_complete inited [] im him (by intro kv hkv; cases hkv)
      (by
        intro u u' hu hu' hn
        have h1 : u ∈ inited := hu.resolve_right (by simp)
        have h2 : u' ∈ inited := hu'.resolve_right (by simp)
        exact hnames u u' (hinitOK u h1) (hinitOK u' h2) hn)).2
    rw [hinits]
    exact hcomplete v ((C18_inits hfind v).mpr ⟨hv, hreq⟩)

/-- **C18_independent** (from C13): the last statement of `extract` is `graph_view.clone()`, i.e. C13's
    `graphClone` with a fresh value map and `allow_outer_scope_values=False` applied to a `GraphView`.  For
    every heap `w` of C13's model (objects = cells: values, nodes, graphs, type / shape objects, metadata
    containers, attributes), every view cell `gv` in it — in particular the view `extract` builds, whatever
    its inputs, outputs, nodes and initializers — and every run of that clone that returns `g'`:
    every object the result owns at any depth is new (`C13_fresh`), every node input of the result is a new
    value (`C13_closed`), and no pre-existing cell changed (`C13_clone_pure`).  The D153 post-processing then
    only edits objects of the result (it moves uses from one new value to another and renames a new value;
    `C13_frame` is the statement that such edits leave the original's cells unchanged).  Tensors are shared
    by design and are not cells.  The C18 harness additionally compares the identity sets on the real objects. -/
theorem C18_independent {w w' : Clone.World} {fuel gv g' : Nat} {gs : Clone.GraphS}
    (_hview : w[gv]? = some (Clone.Cell.graph gs) ∧ gs.view = true)
    (h : Clone.run (Clone.graphClone fuel false gv) w = (.ok g', w')) :
    (∀ i, Clone.Owned w' g' i → w.length ≤ i ∧ i < w'.length) ∧
    (∀ i, Clone.Owned w' g' i → ∀ n, w'[i]? = some (Clone.Cell.node n) →
        ∀ v, some v ∈ n.inputs → w.length ≤ v ∧ v < w'.length) ∧
    (∀ (i : Nat) (c : Clone.Cell), w[i]? = some c → w'[i]? = some c) := by
  refine ⟨Clone.C13_fresh h, ?_, (Clone.C13_clone_pure h).1 rfl⟩
  intro i hi n hn v hv
  exact ((Clone.C13_closed h i hi).1 n hn).1 rfl v hv

/-- path form of what `analyze_implicit_usage` records (helper; the property theorems below are stated against
    the structural free variables) -/
theorem captures_path (W : World) (g : GraphT) (k : GId) :
    (∀ v, v ∈ (analyze W g).get k ↔ ∃ n, n ∈ g.nodes ∧ ∃ b, b ∈ n.bodies ∧ CapG W [] b k v) ∧
    ((analyze W g).HasKey k ↔ ∃ n, n ∈ g.nodes ∧ ∃ b, b ∈ n.bodies ∧ NestedIn b k) := by
  unfold analyze
  constructor
  · intro v
    rw [mem_get, (foldl_procN_spec W g.gid k v g.nodes []).1]
    simp [Usages.Has]
  · rw [(foldl_procN_spec W g.gid k 0 g.nodes []).2 k]
    simp [Usages.HasKey]

/-- **C18_captures_keys**: `analyze_implicit_usage(g)` (with the D34 fix) has an entry exactly for the graphs
    nested in `g` at any depth (and none for `g` itself unless its id repeats below). -/
theorem C18_captures_keys (W : World) (g : GraphT) (k : GId) :
    (analyze W g).HasKey k ↔ ∃ n, n ∈ g.nodes ∧ ∃ b, b ∈ n.bodies ∧ NestedIn b k :=
  (captures_path W g k).2

/-- **C18_captures_complete**: every free variable of a nested graph is reported.  If `s` is nested in `g` (at
    any depth), `v` is a free variable of `s` in the structural sense (`FreeOf`: read by a node of `s` or of a
    graph nested in `s`; defined neither in `s` nor in a graph nested in `s`), and the back pointers are
    consistent on the subtree of `s`, then `v` is in the entry of `s`. -/
theorem C18_captures_complete (W : World) (g : GraphT) {n : NodeT} {b s : GraphT} {v : VId}
    (hn : n ∈ g.nodes) (hb : b ∈ n.bodies) (hs : SubG b s) (hptr : BackPtrOK W s) (hfree : FreeOf s v) :
    v ∈ (analyze W g).get s.gid := by
  have hno : ∀ j, NestedIn s j → W.graphOf v ≠ some j :=
    fun j hj e => hfree.2 ((hptr v).mpr ⟨j, hj, e⟩)
  rw [(captures_path W g s.gid).1 v]
  obtain ⟨path, hp⟩ := capG_lift (W := W) hs
  refine ⟨n, hn, b, hb, hp [] s.gid v ?_⟩
  exact capG_of_used W v s.gid s (path ++ []) hfree.1 hno (addsTo_self (hno s.gid NestedIn.self))

/-- **C18_captures_sound**: everything reported is a free variable.  If uses are scoped by owner and graph ids
    do not repeat along a path (`scopedGB`, decidable: every value a node reads is owned by the node's graph,
    one of its ancestors, or a graph outside `g`) and the back pointers are consistent, then a value in the
    entry `k` is a free variable (`FreeOf`, structural) of a graph `s` nested in `g` whose id is `k`. -/
theorem C18_captures_sound (W : World) (g : GraphT) (all : List GId) {k : GId} {v : VId}
    (hscoped : ∀ n b, n ∈ g.nodes → b ∈ n.bodies → scopedGB W all [] b = true)
    (hptr : ∀ n b s, n ∈ g.nodes → b ∈ n.bodies → SubG b s → BackPtrOK W s)
    (h : v ∈ (analyze W g).get k) :
    ∃ n b s, n ∈ g.nodes ∧ b ∈ n.bodies ∧ SubG b s ∧ s.gid = k ∧ FreeOf s v := by
  obtain ⟨n, hn, b, hb, hcap⟩ := ((captures_path W g k).1 v).mp h
  obtain ⟨_, hrec⟩ := capG_free hcap (hscoped n b hn hb)
  rcases hrec with ⟨hk, _⟩ | ⟨s, hs, hk, hu, hno⟩
  · cases hk
  · refine ⟨n, b, s, hn, hb, hs, hk, hu, ?_⟩
    intro hd
    obtain ⟨j, hj, e⟩ := (hptr n b s hn hb hs v).mp hd
    exact hno j ((mem_gidsG s j).mpr hj) e

/-! ## the hypotheses of the evaluation theorems: discharged, or necessary (round 3) -/

/-- with consistent producer pointers a value without producer is produced by no node of the list: the
    hypothesis `hInit` of `C18_eval` ("the source produces no initializer") follows from `SourceOK` wherever
    the proof uses it -/
theorem notProduced_of_prod_none {W : World} {p : GId} {g : List NId} (hS : SourceOK W p g) {u : VId}
    (hp : W.prod u = none) : NotProducedIn W g u := by
  intro m hm ho
  have := hS.prodOut m hm u ho
  rw [hp] at this
  cases this

/-- **C18_eval_strong**: `C18_eval` without its hypothesis `hInit` (the source produces no initializer): that
    hypothesis is redundant — it is only used for required values without producer, and for those it follows
    from the consistency of the producer pointers (`SourceOK.prodOut`) — and with the hypothesis on the
    initializers of the extracted graph asked only where it is used: at the required values that no node
    produces (`hW`; implied by the `hW` of `C18_eval` through `C18_inits`).  Supersedes `C18_eval`. -/
theorem C18_eval_strong {α : Type} {W : World} {fn : Bool} {g I O : List VId} {p : GId} {ns : List NId}
    {ws : List VId} (S : Sem α) (env0 env1 : Env α) (fz : List VId)
    (h : findSubgraph W fn g I O p = .ok (ns, ws))
    (hS : SourceOK W p g)
    (hcap : ∀ n, n ∈ g → CapturesCover W p n)
    (hcov : ∀ u, Reach W p I O u → W.prod u = none → W.isInit u = true)
    (hK : ∀ u, W.isInit u = true → env0 u = S.const u)
    (hfz : ∀ u, u ∈ fz → u ∈ I)
    (hI : ∀ u, u ∈ I → env1 u = evalTop S W g env0 u)
    (hW : ∀ u, Reach W p I O u → W.prod u = none → env1 u = S.const u) :
    ∀ o, o ∈ O → evalRegion S W fz ns env1 o = evalTop S W g env0 o := by
  intro o ho
  rw [evalRegion_eq, evalTop_eq]
  have hI' : ∀ u, u ∈ I → env1 u = evalNodes W (S.interp W) g env0 u := by
    intro u hu; rw [← evalTop_eq]; exact hI u hu
  have hord := (C18_order h hS.nodup).1
  have hkeep : ∀ n, n ∈ g → (decide (n ∈ ns) = true ↔ NeedN W p I O n) := by
    intro n _
    rw [decide_eq_true_eq]
    exact C18_nodes_exact h n
  have hgood : o ∈ I ∨ Reach W p I O o := by
    by_cases hoI : o ∈ I
    · exact Or.inl hoI
    · exact Or.inr (Reach.out ho hoI)
  rw [hord]
  refine eval_agree_aux (fun n => decide (n ∈ ns)) fz env0 env1
    (fun n hn => interp_localAt S (hcap n hn)) hS hkeep hfz hI' g [] rfl ?_ o hgood
  intro u hu hnp
  simp only [List.filter_nil, evalNodesFz, List.foldl_nil]
  rcases hu with hu | hu
  · exact hI' u hu
  · cases hp : W.prod u with
    | none =>
      have hinit : W.isInit u = true := hcov u hu hp
      rw [hW u hu hp]
      rw [evalNodes_not_produced _ _ (notProduced_of_prod_none hS hp)]
      exact (hK u hinit).symm
    | some m =>
      exfalso
      have hm : m ∈ ns := (C18_nodes_exact h m).mpr ⟨u, hu, hp⟩
      have hmg : m ∈ g := (C18_order h hS.nodup).2.subset hm
      exact hnp m hmg (hS.outProd u m hp)

/-- a required value that no node produces is, after a successful clone of the view, one of the view's
    initializers (scoping hypothesis as in `C18_cover_of_clone`) -/
theorem reach_unproduced_in_inits {W : World} {fn : Bool} {g I O : List VId} {p : GId} {ns : List NId}
    {ws inits m' : List VId} (h : findSubgraph W fn g I O p = .ok (ns, ws))
    (hc : cloneG [] (.mk 0 I inits O (ns.map W.nodeD)) = .ok m')
    (hprod : ∀ n, n ∈ ns → ∀ o, o ∈ (W.nodeD n).outputs → W.prod o = some n)
    (hscope : ∀ u, Reach W p I O u → ∀ n, n ∈ ns → ∀ b, b ∈ (W.nodeD n).bodies → ¬ DefInG b u) :
    ∀ u, Reach W p I O u → W.prod u = none → u ∈ inits := by
  intro u hu hp
  have hspec := cloneG_spec _ _ _ hc
  have hmem : u ∈ m' := by
    cases hu with
    | out ho _ => exact hspec.2.2.2 u ho
    | @step v _ n hr hpv hn _ =>
      have hnn : n ∈ ns := (C18_nodes_exact h n).mpr ⟨v, hr, hpv⟩
      have hnode : W.nodeD n ∈ (GraphT.mk 0 I inits O (ns.map W.nodeD)).nodes := by
        simp only [GraphT.nodes_mk, List.mem_map]; exact ⟨n, hnn, rfl⟩
      apply hspec.2.2.1 u
      rcases hn with hd | ⟨b, hb, hub, _⟩
      · exact UsedInG.node hnode (UsedInN.direct hd)
      · exact UsedInG.node hnode (UsedInN.nested hb hub)
  rcases hspec.2.1 u hmem with h0 | hd
  · cases h0
  · cases hd with
    | input hi => exact absurd (by simpa using hi) hu.not_mem
    | init hi => simpa using hi
    | node hn hdn =>
      simp only [GraphT.nodes_mk, List.mem_map] at hn
      obtain ⟨n, hnn, rfl⟩ := hn
      cases hdn with
      | out ho => have := hprod n hnn u ho; rw [hp] at this; cases this
      | nested hb hdb => exact absurd hdb (hscope u hu n hnn _ hb)

/-- **C18_extract_eval_strong**: `C18_extract_eval` with two of its hypotheses discharged: "the source produces
    no initializer" (`hInit`, redundant: `C18_eval_strong`) and "initializer names are pairwise distinct"
    (`hnames`): if two required initializers shared a name the `GraphView` would keep one of them, and the
    clone of the view — which succeeded — would have rejected the other; so every required initializer is an
    initializer of the result.  Remaining hypotheses: `SourceOK` (sorted single-assignment source with
    consistent producer pointers; all but order follow from C01, `C18_source_of_C01`; order is necessary,
    `C18_eval_needs_sorted`), `CapturesCover` (necessary: `C18_eval_needs_closed`) and the scoping
    hypothesis `hscope` (necessary: `C18_extract_eval_needs_scope`).  Supersedes `C18_extract_eval`. -/
theorem C18_extract_eval_strong {α : Type} {W : World} {T : Target} {ins outs : List Arg} {view : View}
    (S : Sem α) (env0 env1 : Env α) (h : extract W T ins outs = .ok view) :
    ∃ p, (∃ o rest, view.outputs = o :: rest ∧ W.graphOf o = some p) ∧
      (SourceOK W p T.nodes →
       (∀ n, n ∈ T.nodes → CapturesCover W p n) →
       (∀ u, Reach W p view.inputs view.outputs u → ∀ n, n ∈ view.nodes →
          ∀ b, b ∈ (W.nodeD n).bodies → ¬ DefInG b u) →
       (∀ u, W.isInit u = true → env0 u = S.const u) →
       (∀ u, u ∈ view.inputs → env1 u = evalTop S W T.nodes env0 u) →
       (∀ u, u ∈ view.inits → env1 u = S.const u) →
       ∀ o, o ∈ view.outputs →
         evalRegion S W (rewired W view) view.nodes env1 o = evalTop S W T.nodes env0 o) := by
  obtain ⟨p, inited, m', hp, hfind, hsub, hclone, im, him, hinits⟩ := extract_ok h
  refine ⟨p, hp, ?_⟩
  intro hS hcap hscope hK hI hW
  have hinitOK : ∀ v, v ∈ inited → W.isInit v = true := fun v hv => ((C18_inits hfind v).mp hv).1
  have hnodes : ∀ n, n ∈ view.nodes → n ∈ T.nodes := fun n hn => (C18_order hfind hS.nodup).2.subset hn
  have hprod := fun n hn => hS.prodOut n (hnodes n hn)
  have hcov := C18_cover_of_clone hfind (fun v hv => hinitOK v (hsub v hv)) hclone hprod hscope
  have hin := reach_unproduced_in_inits hfind hclone hprod hscope
  refine C18_eval_strong S env0 env1 (rewired W view) hfind hS hcap hcov hK ?_ hI ?_
  · intro u hu; exact (List.mem_filter.mp hu).1
  · intro u hu hpu
    exact hW u (hin u hu hpu)

/-- **C18_source_of_C01**: for a graph built by ANY history of the C01 editing alphabet (`C01_history`: the
    kernel invariant `Kernel.WF` holds), read as a world of this model (`ofKernel`: same creation indices; graph
    attributes of kernel nodes are dropped, so this speaks about graphs whose nodes hold no subgraph), every hypothesis of
    `C18_eval` / `C18_extract_eval` about the source is discharged except topological order: the node list is
    duplicate free, `producer()` pointers and node outputs agree in both directions, no initializer is
    produced, captures are covered and no required value is defined in a nested graph (vacuously).  Order is
    not implied by `WF` (a `Graph` may hold its nodes in any order) and is necessary: `C18_eval_needs_sorted`. -/
theorem C18_source_of_C01 (w : Kernel.World) (h : Kernel.WF w) (gid p : Nat) :
    (w.gr gid).nodes.Nodup ∧
    (∀ n, n ∈ (w.gr gid).nodes → ∀ o, o ∈ ((ofKernel w).nodeD n).outputs → (ofKernel w).prod o = some n) ∧
    (∀ v n, (ofKernel w).prod v = some n → v ∈ ((ofKernel w).nodeD n).outputs) ∧
    (∀ u, (ofKernel w).isInit u = true → NotProducedIn (ofKernel w) (w.gr gid).nodes u) ∧
    (∀ n, CapturesCover (ofKernel w) p n) ∧
    (∀ u n b, b ∈ ((ofKernel w).nodeD n).bodies → ¬ DefInG b u) ∧
    (TopoSorted (ofKernel w) p (w.gr gid).nodes → SourceOK (ofKernel w) p (w.gr gid).nodes) := by
  have hprodOut : ∀ n o, o ∈ ((ofKernel w).nodeD n).outputs → (ofKernel w).prod o = some n := by
    intro n o ho
    rw [ofKernel_nodeD] at ho
    simp only [NodeT.outputs_mk] at ho
    obtain ⟨i, hi⟩ := List.mem_iff_getElem?.mp ho
    rw [ofKernel_prod h]
    exact ((h.prod.1 n i o).mp hi).1
  have houtProd : ∀ v n, (ofKernel w).prod v = some n → v ∈ ((ofKernel w).nodeD n).outputs := by
    intro v n hp
    rw [ofKernel_prod h] at hp
    obtain ⟨i, hi⟩ := h.prod.2 v n hp
    have := (h.prod.1 n i v).mpr ⟨hp, hi⟩
    rw [ofKernel_nodeD]
    simp only [NodeT.outputs_mk]
    exact List.mem_iff_getElem?.mpr ⟨i, this⟩
  refine ⟨h.node.nodup gid, fun n _ o ho => hprodOut n o ho, houtProd, ?_, ?_, ?_, ?_⟩
  · intro u hu m _ ho
    have hp := hprodOut m u ho
    rw [ofKernel_prod h] at hp
    have hinit : (w.val u).isInit = true := by
      unfold World.isInit at hu
      rw [ofKernel_val] at hu
      exact hu
    rw [h.root u (Or.inr hinit)] at hp
    cases hp
  · intro n u hu
    rw [ofKernel_nodeD] at hu
    simp only [freeN, freeGs, List.append_nil] at hu
    left
    rw [ofKernel_nodeD]
    simpa [List.mem_filterMap] using hu
  · intro u n b hb
    rw [ofKernel_nodeD] at hb
    simp at hb
  · intro hsorted
    exact ⟨h.node.nodup gid, fun n _ o ho => hprodOut n o ho, houtProd, hsorted⟩

/-! ## capture analysis: exact, for every root and every attribute kind, at any depth (round 3) -/

/-- **C18_captures_exact**: the entry of a nested graph is EXACTLY its set of free variables.  For every graph
    `s` nested at any depth (no bound) in the analysed root — reached through `GRAPH` attributes, through any
    member of a `GRAPHS` attribute, never through a reference attribute (`C18_attrs_bodies`) — the entry
    `analyze_implicit_usage(root)[s]` contains `v` iff `v` is read by a node of `s` or of a graph nested in
    `s` and defined (input, initializer, node output) neither in `s` nor in a graph nested in `s`.
    Hypotheses (decidable, evaluated on every generated case): uses are scoped by owner (`scopedGB`), the
    `.graph` back pointers are consistent on the nested graphs (`backPtrB`), and distinct nested graphs have
    distinct identities (`uniqueGidsB`).  Combines `C18_captures_complete` and `C18_captures_sound`. -/
theorem C18_captures_exact (W : World) (g : GraphT) (all : List GId)
    (hscoped : ∀ n b, n ∈ g.nodes → b ∈ n.bodies → scopedGB W all [] b = true)
    (hptr : ∀ n b s, n ∈ g.nodes → b ∈ n.bodies → SubG b s → BackPtrOK W s)
    (huniq : uniqueGidsB g.nodes = true)
    {n : NodeT} {b s : GraphT} (hn : n ∈ g.nodes) (hb : b ∈ n.bodies) (hs : SubG b s) (v : VId) :
    v ∈ (analyze W g).get s.gid ↔ FreeOf s v := by
  constructor
  · intro h
    obtain ⟨n', b', s', hn', hb', hs', hk, hfree⟩ := C18_captures_sound W g all hscoped hptr h
    have : s' = s := uniqueGids_of_B huniq hn' hb' hs' hn hb hs hk
    rw [← this]; exact hfree
  · intro h
    exact C18_captures_complete W g hn hb hs (hptr n b s hn hb hs) h

/-- **C18_captures_any_root**: `analyze_implicit_usage` only iterates its argument and never looks at
    `graph_stack[0]`, so the result is the same for every root that has these nodes: a `Graph`, the graph of a
    `Function`, or the `Function` object itself (`root` is the identity of whatever was passed).  Hence all
    `C18_captures_*` theorems hold verbatim for function bodies. -/
theorem C18_captures_any_root (W : World) (root : GId) (g : GraphT) (k : GId) :
    (∀ v, v ∈ (analyzeNodes W root g.nodes).get k ↔ v ∈ (analyze W g).get k) ∧
    ((analyzeNodes W root g.nodes).HasKey k ↔ (analyze W g).HasKey k) := by
  unfold analyzeNodes analyze
  constructor
  · intro v
    rw [mem_get, mem_get, (foldl_procN_spec W root k v g.nodes []).1,
      (foldl_procN_spec W g.gid k v g.nodes []).1]
  · rw [(foldl_procN_spec W root k 0 g.nodes []).2 k, (foldl_procN_spec W g.gid k 0 g.nodes []).2 k]

/-- **C18_attrs_bodies**: how the two traversals read graph-valued attributes (extractor 88-102, analysis
    58-79; after D152): branch by branch over `node.attributes.values()` — a reference attribute (also one
    declared GRAPH / GRAPHS) is skipped, a `GRAPH` attribute contributes its graph, a `GRAPHS` attribute each
    of its graphs in order, anything else nothing — they do exactly what the model does on the flattened list
    `attrBodies`, which is what `NodeT.bodies` holds.  So every theorem stated on `bodies` covers `GRAPHS`
    members and excludes reference attributes. -/
theorem C18_attrs_bodies (W : World) (p : GId) (stack : List GId) (u : Usages)
    (ins : List (Option VId)) (outs : List VId) (as : List AttrT) :
    procAttrs W stack u as = procN W stack u (.mk ins outs (attrBodies as)) ∧
    capturedAttrs W p as = captured W p (.mk ins outs (attrBodies as)) :=
  ⟨by rw [procAttrs_eq]; rfl, capturedAttrs_eq W p ins outs as⟩

/-! ## non-vacuity: a concrete world on which every hypothesis and every branch is realised

graph 0: input `x` (0), initializer `w` (1); node 0: `a (2) = f(x, w)`; node 1: `b (3) = g(a, None)` with a
nested graph (id 1) whose node reads `x`. -/

deriving instance DecidableEq for Except

def exW : World :=
  { vals := [ { name := "x", graph := some 0 }, { name := "w", graph := some 0, isInit := true },
              { name := "a", producer := some 0, graph := some 0 },
              { name := "b", producer := some 1, graph := some 0 },
              { name := "i", producer := some 2, graph := some 1 } ],
    nodes := [ .mk [some 0, some 1] [2] [],
               .mk [some 2, none] [3] [.mk 1 [] [] [4] [.mk [some 0] [4] []]],
               .mk [some 0] [4] [] ] }

/-- hypothesis of C18_nodes_exact / C18_order / C18_inits: a successful run with both nodes and the initializer -/
example : findSubgraph exW false [0, 1] [0] [3] 0 = .ok ([0, 1], [1]) := by decide +kernel
/-- a cut in the middle: only node 1 is needed; `x` is needed only through the nested graph -/
example : findSubgraph exW false [0, 1] [2, 0] [3] 0 = .ok ([1], []) := by decide +kernel
example : ([0, 1] : List Nat).Nodup := by decide
/-- every branch of C18_raises_iff is realised -/
example : findSubgraph exW false [0, 1] [] [3] 0 = .error .unbounded := by decide +kernel
example : findSubgraph exW false [1] [0] [3] 0 = .error .sortKey := by decide +kernel
example : Uncovered exW 0 [] [3] := (C18_raises_iff exW false [0, 1] [] [3] 0).1.mp (by decide +kernel)
example : ¬ Uncovered exW 0 [0] [3] := by
  have h : ∃ r, findSubgraph exW false [0, 1] [0] [3] 0 = .ok r := ⟨([0, 1], [1]), by decide +kernel⟩
  exact ((C18_raises_iff exW false [0, 1] [0] [3] 0).2.2.mp h).1
/-- a value captured by the nested graph is required although it is no direct input of a kept node -/
example : Reach exW 0 [2] [3] 0 :=
  ((C18_values_exact exW false [2] [3] 0 0).mp (by decide +kernel)).resolve_left (by decide)
/-- the nested graph of node 1 -/
def exBody : GraphT := .mk 1 [] [] [4] [.mk [some 0] [4] []]

/-- the decidable hypothesis checkers hold on the example (so `BodiesOK`, `SourceOK`, `BackPtrOK` are
    satisfiable together) -/
example : bodiesOKB exW 0 0 = true ∧ bodiesOKB exW 0 1 = true ∧ bodiesOKB exW 0 2 = true := by decide
example : sourceOKB exW 0 [0, 1] = true := by decide
theorem exBody_ptr : BackPtrOK exW exBody :=
  backPtrB_sound (by decide) (fun _ hv => graphOf_out_of_range hv)
theorem exBody_notNested : ¬ NestedIn exBody 0 := fun h => by
  have := (mem_gidsG exBody 0).mpr h
  revert this; decide
/-- C18_external_free: `x` (0) is a free variable of the nested graph, and that is what the code collects -/
example : FreeOf exBody 0 :=
  (C18_external_free exW 0 exBody 0 exBody_ptr exBody_notNested).mp (by decide)
theorem exW_ptrs : ∀ n, BodiesPtrOK exW 0 n := by
  intro n
  match n with
  | 0 => exact (bodiesOK_of_B (by decide)).ptr
  | 1 => exact (bodiesOK_of_B (by decide)).ptr
  | 2 => exact (bodiesOK_of_B (by decide)).ptr
  | n + 3 =>
    intro b hb
    have : exW.nodeD (n + 3) = .mk [] [] [] := by
      simp [World.nodeD, exW]
    rw [this] at hb
    simp at hb
/-- C18_nodes_exact_free: node 0 is required for `b` from `x` by the structural definition -/
example : NeedNS exW [0] [3] 0 :=
  (C18_nodes_exact_free (W := exW) (fn := false) (g := [0, 1]) (I := [0]) (O := [3]) (p := 0)
    (ns := [0, 1]) (ws := [1]) (by decide +kernel) exW_ptrs 0).mp (by decide)

/-- a semantics that really uses its arguments and the denotations of its graph attributes -/
def exS : Sem Nat :=
  { op := fun _ bodies args _ => (args.map (fun a => a.getD 0)).sum + ((bodies.map (fun f => (f []).sum)).sum),
    const := fun _ => 7 }

theorem exW_sourceOK : SourceOK exW 0 [0, 1] ∧ (∀ u, exW.isInit u = true → NotProducedIn exW [0, 1] u) :=
  sourceOK_of_B (by decide)

theorem exW_cover : ∀ n, n ∈ [0, 1] → CapturesCover exW 0 n := by
  intro n hn
  have : n = 0 ∨ n = 1 := by simpa using hn
  rcases this with rfl | rfl
  · exact capturesCover_of_bodiesOK (bodiesOK_of_B (by decide))
  · exact capturesCover_of_bodiesOK (bodiesOK_of_B (by decide))

theorem exW_init_eq : ∀ u, exW.isInit u = true → u = 1 := by
  intro u hu
  match u, hu with
  | 0, hu | 2, hu | 3, hu | 4, hu => revert hu; decide
  | 1, _ => rfl
  | u + 5, hu => rw [isInit_out_of_range (by simp [exW])] at hu; cases hu

/-- C18_eval with all its hypotheses met at once (boundary input `x`, output `b`); the source environment
    holds the constant at the initializer -/
example (env0 : Env Nat) (h0 : env0 1 = 7) : ∀ o, o ∈ [3] →
    evalRegion exS exW [] [0, 1] (evalTop exS exW [0, 1] env0) o = evalTop exS exW [0, 1] env0 o :=
  C18_eval (W := exW) (fn := false) (g := [0, 1]) (I := [0]) (O := [3]) (p := 0) (ns := [0, 1]) (ws := [1])
    exS env0 _ [] (by decide +kernel) exW_sourceOK.1 exW_sourceOK.2 exW_cover
    (by
      intro u hu hp
      have hv := (C18_values_exact exW false [0] [3] 0 u).mpr (Or.inr hu)
      have hfin : (walkFinal exW false [0] [3] 0).valsV = [0, 3, 2, 1] := by decide +kernel
      rw [hfin] at hv
      have : u = 0 ∨ u = 3 ∨ u = 2 ∨ u = 1 := by simpa using hv
      rcases this with rfl | rfl | rfl | rfl
      · exact absurd (List.mem_singleton.mpr rfl) hu.not_mem
      · exact absurd hp (by decide)
      · exact absurd hp (by decide)
      · decide)
    (by intro u hu; rw [exW_init_eq u hu]; exact h0)
    (by intro u hu; cases hu)
    (fun _ _ => rfl)
    (by
      intro u hu
      have : u = 1 := by simpa using hu
      subst this
      have hnp : NotProducedIn exW [0, 1] 1 := exW_sourceOK.2 1 (by decide)
      rw [evalTop_eq, evalNodes_not_produced _ _ hnp]
      exact h0)

def exT : Target := { kind := .graph, gid := some 0, inputs := [0], inits := [("w", 1)], nodes := [0, 1] }

/-- hypothesis of C18_raises_of_uncovered: a successful `extract` (cut at `a`, `x` given by name) -/
example : extract exW exT [.obj 2, .name "x"] [.name "b"]
    = .ok { inputs := [2, 0], outputs := [3], nodes := [1], inits := [] } := by decide +kernel
/-- the clone stage is what rejects a captured value that the boundary does not cover -/
example : extract exW exT [.obj 2] [.name "b"] = .error .cloneOuter := by decide +kernel
example : extract exW exT [] [.name "x"] = .error .cloneOutput := by decide +kernel
example : extract exW exT [] [.name "b"] = .error .unbounded := by decide +kernel
example : extract exW exT [.obj 4] [.name "b"] = .error .notOwned := by decide +kernel
example : extract exW exT [] [.name "zz"] = .error .nameNotFound := by decide +kernel
example : extract exW exT [.name "x"] [] = .error .noOutputs := by decide +kernel
/-- C18_cover_of_clone with all its hypotheses met (the scoping hypothesis included) -/
example : ∀ u, Reach exW 0 [2, 0] [3] u → exW.prod u = none → exW.isInit u = true :=
  C18_cover_of_clone (W := exW) (fn := false) (g := [0, 1]) (ns := [1]) (ws := []) (inits := [])
    (m' := [2, 0, 4, 3]) (by decide +kernel) (by intro v hv; cases hv) (by decide)
    (by
      intro n hn o ho
      have : n = 1 := by simpa using hn
      subst this
      have : o = 3 := by simpa [World.nodeD, exW] using ho
      subst this; decide)
    (scope_of_B (fn := false) (by decide +kernel))

/-- C18_extract_eval with all its hypotheses met: region cut at `a`, `x` given by name, output `b` -/
example (env0 : Env Nat) (h0 : env0 1 = 7) : ∀ o, o ∈ [3] →
    evalRegion exS exW [] [1] (evalTop exS exW [0, 1] env0) o = evalTop exS exW [0, 1] env0 o := by
  have hx : extract exW exT [.obj 2, .name "x"] [.name "b"]
      = .ok { inputs := [2, 0], outputs := [3], nodes := [1], inits := [] } := by decide +kernel
  obtain ⟨p, ⟨o, rest, ho, hp⟩, himp⟩ := C18_extract_eval exS env0 (evalTop exS exW [0, 1] env0) hx
  have hp0 : p = 0 := by
    simp only [List.cons.injEq] at ho
    obtain ⟨rfl, _⟩ := ho
    have : exW.graphOf 3 = some 0 := by decide
    rw [this] at hp; exact (Option.some.inj hp).symm
  subst hp0
  have hrw : rewired exW { inputs := [2, 0], outputs := [3], nodes := [1], inits := [] } = [] := by decide
  rw [hrw] at himp
  exact himp exW_sourceOK.1 exW_sourceOK.2 exW_cover (scope_of_B (fn := false) (by decide +kernel))
    (initNames_of_B (by decide)) (by intro u hu; rw [exW_init_eq u hu]; exact h0) (fun _ _ => rfl)
    (by intro u hu; cases hu)

/-- C18_extract_unbounded_iff: nothing given as boundary -/
example : Uncovered exW 0 [] [3] :=
  (((C18_extract_unbounded_iff exW exT [] [.name "b"]).mp (by decide +kernel)).2).elim
    (fun o h => by
      obtain ⟨rest, p, ho, hp, hu⟩ := h
      have ho' : o = 3 := by
        have : List.map (resolveArg (valueMapping exW exT)) [Arg.name "b"] = [3] := by decide
        rw [this] at ho; simp only [List.cons.injEq] at ho; exact ho.1.symm
      subst ho'
      have : exW.graphOf 3 = some 0 := by decide
      rw [this] at hp
      cases hp
      have h1 : List.map (resolveArg (valueMapping exW exT)) [] = [] := rfl
      have h2 : List.map (resolveArg (valueMapping exW exT)) [Arg.name "b"] = [3] := by decide
      rw [h1, h2] at hu
      exact hu)

/-- the nested graph 1 of node 1 captures `x` (value 0), and nothing else -/
example : (analyze exW (.mk 0 [0] [1] [3] exW.nodes)).get 1 = [0] := by decide
def exRoot : GraphT := .mk 0 [0] [1] [3] exW.nodes
/-- hypotheses of C18_captures_complete are met by the nested graph of node 1 and the value `x` -/
example : 0 ∈ (analyze exW exRoot).get 1 :=
  C18_captures_complete exW exRoot (n := .mk [some 2, none] [3] [exBody]) (b := exBody) (s := exBody)
    (by simp [exRoot, exW, exBody]) (by simp) SubG.self exBody_ptr
    ((C18_external_free exW 0 exBody 0 exBody_ptr exBody_notNested).mp (by decide))
theorem exRoot_scoped : ∀ n b, n ∈ exRoot.nodes → b ∈ n.bodies → scopedGB exW [1] [] b = true := by
  intro n b hn hb
  have hn' : n = .mk [some 0, some 1] [2] [] ∨ n = .mk [some 2, none] [3] [exBody] ∨
      n = .mk [some 0] [4] [] := by simpa [exRoot, exW, exBody] using hn
  rcases hn' with rfl | rfl | rfl
  · simp at hb
  · have : b = exBody := by simpa using hb
    subst this; decide
  · simp at hb

theorem exRoot_ptr : ∀ n b s, n ∈ exRoot.nodes → b ∈ n.bodies → SubG b s → BackPtrOK exW s := by
  intro n b s hn hb hs
  have hn' : n = .mk [some 0, some 1] [2] [] ∨ n = .mk [some 2, none] [3] [exBody] ∨
      n = .mk [some 0] [4] [] := by simpa [exRoot, exW, exBody] using hn
  have hbe : b = exBody := by
    rcases hn' with rfl | rfl | rfl
    · simp at hb
    · simpa using hb
    · simp at hb
  subst hbe
  cases hs with
  | self => exact exBody_ptr
  | @deeper _ c _ nd hn2 hc2 _ =>
    have : nd = NodeT.mk [some 0] [4] [] := by simpa [exBody] using hn2
    subst this
    simp at hc2

/-- hypotheses of C18_captures_sound are met on the example (scoping by owner + consistent back pointers) -/
example : ∃ n b s, n ∈ exRoot.nodes ∧ b ∈ n.bodies ∧ SubG b s ∧ s.gid = 1 ∧ FreeOf s 0 :=
  C18_captures_sound exW exRoot [1] (k := 1) (v := 0) exRoot_scoped exRoot_ptr (by decide)
/-- C18_captures_exact with all its hypotheses met: the entry of the nested graph is `{x}` exactly -/
example : ∀ v, v ∈ (analyze exW exRoot).get exBody.gid ↔ FreeOf exBody v :=
  C18_captures_exact exW exRoot [1] exRoot_scoped exRoot_ptr (by decide)
    (n := .mk [some 2, none] [3] [exBody]) (b := exBody) (s := exBody)
    (by simp [exRoot, exW, exBody]) (by simp) SubG.self
/-- C18_captures_any_root: analysing the same nodes under another root identity (a Function object) -/
example : 0 ∈ (analyzeNodes exW 99 exRoot.nodes).get 1 :=
  ((C18_captures_any_root exW 99 exRoot 1).1 0).mpr (by decide)
/-- C18_attrs_bodies: a reference attribute and a non-graph attribute contribute nothing, a GRAPHS attribute
    its members -/
example : attrBodies [.ref, .graphs [exBody, exBody], .other, .graph exBody] = [exBody, exBody, exBody] := rfl
example : (analyze exW exRoot).HasKey 1 :=
  (C18_captures_keys exW exRoot 1).mpr ⟨.mk [some 2, none] [3] [exBody], by simp [exRoot, exW, exBody],
    exBody, by simp, NestedIn.self⟩

/-! ### non-vacuity of the round-3 theorems -/

/-- C18_by_name_resolves, uniqueness clause: names are unique on the example and `"a"` resolves to value 2 -/
example : resolveArg (valueMapping exW exT) (.name "a") = 2 :=
  (C18_by_name_resolves exW exT "a").2.2
    (fun k v v' h h' => namesUnique_of_B (W := exW) (T := exT) (by decide) k v v'
      (mem_nameCandidates.mpr h) (mem_nameCandidates.mpr h'))
    2 (mem_nameCandidates.mp (by decide))
/-- duplicate names: an initializer key wins over a graph input and a node output of the same name -/
def exDup : World :=
  { vals := [ { name := "a", graph := some 0 }, { name := "a", graph := some 0, isInit := true },
              { name := "a", producer := some 0, graph := some 0 } ],
    nodes := [ .mk [some 0, some 1] [2] [] ] }
def exDupT : Target := { kind := .graph, gid := some 0, inputs := [0], inits := [("a", 1)], nodes := [0] }
example : namesUniqueB exDup exDupT = false := by decide
example : resolveArg (valueMapping exDup exDupT) (.name "a") = 1 := by decide
/-- without the initializer the graph input wins over the node output -/
example : resolveArg (valueMapping exDup { exDupT with inits := [] }) (.name "a") = 0 := by decide
/-- C18_by_name_missing: both sides of both equivalences are realised -/
example : extract exW exT [.name "x"] [.name "zz", .obj 4] = .error .nameNotFound := by decide +kernel
example : extract exW exT [.name "x"] [.obj 4, .name "zz"] = .error .notOwned := by decide +kernel
example : ∃ pre s post, [Arg.name "x"] ++ [Arg.name "zz", Arg.obj 4] = pre ++ Arg.name s :: post ∧
    (∀ b, b ∈ pre → checkArg exW exT (valueMapping exW exT) b = .ok ()) ∧ ¬ ∃ v, NamedBy exW exT s v :=
  (C18_by_name_missing exW exT [.name "x"] [.name "zz", .obj 4]).1.mp (by decide +kernel)
/-- C18_order_view: a view that lists node 1 twice and node 0 in between: node 1 counts at its last position -/
example : findSubgraph exW false [1, 0, 1] [0] [3] 0 = .ok ([0, 1], [1]) := by decide +kernel
/-- ... and a view that lists the consumer last-but-first: the order follows the view, not the graph -/
example : findSubgraph exW false [1, 0] [0] [3] 0 = .ok ([1, 0], [1]) := by decide +kernel
example : dedupLast [1, 0, 1] = [0, 1] := by decide
/-- hypothesis of the `_source` theorems for each kind of source -/
example : extract exW (Source.view [0] [("w", 1)] [1, 0, 1]).target [.name "x"] [.name "b"]
    = .ok { inputs := [0], outputs := [3], nodes := [0, 1], inits := [1] } := by decide +kernel
example : extract exW (Source.function 0 [0] [("w", 1)] [0, 1]).target [.obj 0] [.obj 3]
    = .ok { inputs := [0], outputs := [3], nodes := [0, 1], inits := [1] } := by decide +kernel
example : extract exW (Source.graph 0 [0] [("w", 1)] [0, 1]).target [.obj 0] [.obj 3]
    = .ok { inputs := [0], outputs := [3], nodes := [0, 1], inits := [1] } := by decide +kernel
/-- a view in consumer-first order passes the region search but not the clone -/
example : extract exW (Source.view [0] [("w", 1)] [1, 0]).target [.name "x"] [.name "b"]
    = .error .cloneOuter := by decide +kernel
/-- C18_source_of_C01: the hypothesis is the C01 invariant, which holds initially and after every history
    (`C01_init`, `C01_history`) -/
example : ([] : List Nat).Nodup := (C18_source_of_C01 Kernel.World.empty Kernel.WF_empty 0 0).1
/-- C18_extract_eval_strong with all its hypotheses met (same cut as for C18_extract_eval) -/
example (env0 : Env Nat) (h0 : env0 1 = 7) : ∀ o, o ∈ [3] →
    evalRegion exS exW [] [1] (evalTop exS exW [0, 1] env0) o = evalTop exS exW [0, 1] env0 o := by
  have hx : extract exW exT [.obj 2, .name "x"] [.name "b"]
      = .ok { inputs := [2, 0], outputs := [3], nodes := [1], inits := [] } := by decide +kernel
  obtain ⟨p, ⟨o, rest, ho, hp⟩, himp⟩ := C18_extract_eval_strong exS env0 (evalTop exS exW [0, 1] env0) hx
  have hp0 : p = 0 := by
    simp only [List.cons.injEq] at ho
    obtain ⟨rfl, _⟩ := ho
    have : exW.graphOf 3 = some 0 := by decide
    rw [this] at hp; exact (Option.some.inj hp).symm
  subst hp0
  have hrw : rewired exW { inputs := [2, 0], outputs := [3], nodes := [1], inits := [] } = [] := by decide
  rw [hrw] at himp
  exact himp exW_sourceOK.1 exW_cover (scope_of_B (fn := false) (by decide +kernel))
    (by intro u hu; rw [exW_init_eq u hu]; exact h0) (fun _ _ => rfl)
    (by intro u hu; cases hu)

/-! ## necessity of the remaining hypotheses (round 3): counterexamples in the model

Each theorem exhibits a concrete world in which every OTHER hypothesis of the named theorem holds, the region
search (or `extract`) returns, and the conclusion fails.  The same shapes are replayed on the real code on
every run (`corpus/C18/necessity.jsonl`, stream `necessity`), where they must raise or be reported. -/

/-- decidable form of the two producer-pointer clauses of `SourceOK` -/
def ptrOKB (W : World) (g : List NId) : Bool :=
  g.all (fun n => (W.nodeD n).outputs.all (fun o => W.prod o == some n)) &&
  (List.range W.vals.length).all (fun v => match W.prod v with
    | some n => (W.nodeD n).outputs.contains v
    | none => true)

theorem ptrOK_of_B {W : World} {g : List NId} (h : ptrOKB W g = true) :
    (∀ n, n ∈ g → ∀ o, o ∈ (W.nodeD n).outputs → W.prod o = some n) ∧
    (∀ v n, W.prod v = some n → v ∈ (W.nodeD n).outputs) := by
  unfold ptrOKB at h
  rw [Bool.and_eq_true] at h
  obtain ⟨h2, h3⟩ := h
  constructor
  · intro n hn o ho
    have := List.all_eq_true.mp (List.all_eq_true.mp h2 n hn) o ho
    simpa using this
  · intro v n hp
    by_cases hv : v < W.vals.length
    · have := List.all_eq_true.mp h3 v (List.mem_range.mpr hv)
      rw [hp] at this
      simpa using this
    · rw [prod_out_of_range (Nat.le_of_not_lt hv)] at hp; cases hp

/-- unsorted source: node 0 computes `b` from `a`, node 1 computes `a` from `x` -/
def necW1 : World :=
  { vals := [ { name := "x", graph := some 0 }, { name := "a", producer := some 1, graph := some 0 },
              { name := "b", producer := some 0, graph := some 0 } ],
    nodes := [ .mk [some 1] [2] [], .mk [some 0] [1] [] ] }

/-- **C18_eval_needs_sorted**: topological order of the source (the `sorted` clause of `SourceOK`) is necessary
    for `C18_eval` / `C18_eval_strong`.  In `necW1` every other hypothesis holds (duplicate-free list,
    consistent producer pointers, covered captures, no uncovered value, environments as required), the region
    search returns both nodes in their original (unsorted) order, and the extracted list computes a value that
    depends on what its environment holds at `a` — not the source's value.  (On the real code the clone stage
    raises for such a region: stream `necessity`.) -/
theorem C18_eval_needs_sorted :
    ∃ (W : World) (g I O : List VId) (p : GId) (ns : List NId) (env0 env1 : Env Nat),
      findSubgraph W false g I O p = .ok (ns, []) ∧
      g.Nodup ∧ (∀ n, n ∈ g → ∀ o, o ∈ (W.nodeD n).outputs → W.prod o = some n) ∧
      (∀ v n, W.prod v = some n → v ∈ (W.nodeD n).outputs) ∧
      (∀ n, n ∈ g → CapturesCover W p n) ∧
      (∀ u, Reach W p I O u → W.prod u = none → W.isInit u = true) ∧
      (∀ u, W.isInit u = true → env0 u = exS.const u) ∧
      (∀ u, u ∈ I → env1 u = evalTop exS W g env0 u) ∧
      ¬ TopoSorted W p g ∧
      ¬ (∀ o, o ∈ O → evalRegion exS W [] ns env1 o = evalTop exS W g env0 o) := by
  refine ⟨necW1, [0, 1], [0], [2], 0, [0, 1], fun _ => 0, fun u => if u = 1 then 5 else 0,
    by decide +kernel, by decide, (ptrOK_of_B (g := [0, 1]) (by decide)).1, (ptrOK_of_B (g := [0, 1]) (by decide)).2, ?_, ?_, ?_, ?_, ?_, ?_⟩
  · intro n hn
    have : n = 0 ∨ n = 1 := by simpa using hn
    rcases this with rfl | rfl
    · exact capturesCover_of_bodiesOK (bodiesOK_of_B (by decide))
    · exact capturesCover_of_bodiesOK (bodiesOK_of_B (by decide))
  · intro u hu hp
    have hv := (C18_values_exact necW1 false [0] [2] 0 u).mpr (Or.inr hu)
    have hfin : (walkFinal necW1 false [0] [2] 0).valsV = [0, 2, 1] := by decide +kernel
    rw [hfin] at hv
    have : u = 0 ∨ u = 2 ∨ u = 1 := by simpa using hv
    rcases this with rfl | rfl | rfl
    · exact absurd (List.mem_singleton.mpr rfl) hu.not_mem
    · exact absurd hp (by decide)
    · exact absurd hp (by decide)
  · intro u hu
    exfalso
    match u, hu with
    | 0, hu | 1, hu | 2, hu => revert hu; decide
    | u + 3, hu => rw [isInit_out_of_range (by simp [necW1])] at hu; cases hu
  · intro u hu
    have : u = 0 := by simpa using hu
    subst this
    decide
  · intro h
    exact h.1 1 (Or.inl (by decide)) 1 (by decide) (by decide)
  · intro h
    have := h 2 (by decide)
    revert this
    decide

/-- a nested graph whose output is a value of the enclosing graph, returned directly: node 0 computes `c`
    from `x`; node 1 holds a graph (id 1) without nodes whose output is `c` -/
def necW2 : World :=
  { vals := [ { name := "x", graph := some 0 }, { name := "c", producer := some 0, graph := some 0 },
              { name := "y", producer := some 1, graph := some 0 } ],
    nodes := [ .mk [some 0] [1] [], .mk [] [2] [.mk 1 [] [] [1] []] ] }

/-- **C18_eval_needs_closed**: `CapturesCover` — and with it the `closedG` clause of `bodiesOKB` (every output
    of a nested graph is bound inside that graph) — is necessary for `C18_eval` / `C18_eval_strong`.  The code
    collects the captured values of a nested graph from the INPUTS of its nodes only; a nested graph that
    returns an outer value directly reads that value without any node reading it.  In `necW2` the source is
    sorted, single-assignment, with consistent pointers, the nested graph is well scoped with consistent back
    pointers, the region search returns node 1 alone, and the extracted list computes `y` from whatever its
    environment holds at `c`.  (On the real code the clone stage raises: stream `necessity`.  Such a source is
    not valid ONNX — onnx.checker: "Graph output is not an output of any node in graph" — so that
    `analyze_implicit_usage` does not list `c` for the nested graph is recorded, not reported as a defect.) -/
theorem C18_eval_needs_closed :
    ∃ (W : World) (g I O : List VId) (p : GId) (ns : List NId) (env0 env1 : Env Nat),
      findSubgraph W false g I O p = .ok (ns, []) ∧
      SourceOK W p g ∧
      (∀ n, n ∈ g → ∀ b, b ∈ (W.nodeD n).bodies →
        wellScopedB b = true ∧ backPtrB W b = true ∧ (gidsG b).contains p = false) ∧
      (∀ u, Reach W p I O u → W.prod u = none → W.isInit u = true) ∧
      (∀ u, W.isInit u = true → env0 u = exS.const u) ∧
      (∀ u, u ∈ I → env1 u = evalTop exS W g env0 u) ∧
      ¬ (∀ n, n ∈ g → CapturesCover W p n) ∧
      ¬ (∀ o, o ∈ O → evalRegion exS W [] ns env1 o = evalTop exS W g env0 o) := by
  refine ⟨necW2, [0, 1], [0], [2], 0, [1], fun _ => 0, fun u => if u = 1 then 5 else 0,
    by decide +kernel, (sourceOK_of_B (by decide)).1, by decide, ?_, ?_, ?_, ?_, ?_⟩
  · intro u hu hp
    have hv := (C18_values_exact necW2 false [0] [2] 0 u).mpr (Or.inr hu)
    have hfin : (walkFinal necW2 false [0] [2] 0).valsV = [0, 2] := by decide +kernel
    rw [hfin] at hv
    have : u = 0 ∨ u = 2 := by simpa using hv
    rcases this with rfl | rfl
    · exact absurd (List.mem_singleton.mpr rfl) hu.not_mem
    · exact absurd hp (by decide)
  · intro u hu
    exfalso
    match u, hu with
    | 0, hu | 1, hu | 2, hu => revert hu; decide
    | u + 3, hu => rw [isInit_out_of_range (by simp [necW2])] at hu; cases hu
  · intro u hu
    have : u = 0 := by simpa using hu
    subst this
    decide
  · intro h
    have h1 := h 1 (by decide) 1 (by decide)
    rcases h1 with h1 | ⟨b, hb, hu, _⟩
    · revert h1; decide
    · have hb' : b = .mk 1 [] [] [1] [] := by simpa [necW2, World.nodeD] using hb
      subst hb'
      have := (mem_usedG _ 1).mpr hu
      revert this; decide
  · intro h
    have := h 2 (by decide)
    revert this
    decide

/-- a graph nested in node 1 reads the INPUT `u` of a sibling graph nested in node 0 (ill scoped) -/
def necW3 : World :=
  { vals := [ { name := "x", graph := some 0 }, { name := "u", graph := some 1 },
              { name := "y0", producer := some 0, graph := some 0 },
              { name := "t", producer := some 2, graph := some 2 },
              { name := "y1", producer := some 1, graph := some 0 } ],
    nodes := [ .mk [some 0] [2] [.mk 1 [1] [] [1] []],
               .mk [some 2] [4] [.mk 2 [] [] [3] [.mk [some 1] [3] []]],
               .mk [some 1] [3] [] ] }

def necT3 : Target := { kind := .graph, gid := some 0, inputs := [0], inits := [], nodes := [0, 1] }

/-- **C18_extract_eval_needs_scope**: the scoping hypothesis of `C18_cover_of_clone` / `C18_extract_eval`
    (`hscope`, decidable `scopeB`: no required value is defined inside a graph nested in a kept node) is
    necessary.  In `necW3` a nested graph of node 1 reads the input of a nested graph of node 0.  The whole
    `extract` pipeline returns (the clone's value map is global, so the sibling's input is already mapped),
    the source is sorted with consistent pointers, every nested graph is closed, well scoped with consistent
    back pointers — and the extracted graph computes `y1` from whatever its environment holds at `u`.  (The
    source is not valid ONNX; the real code also returns: stream `necessity`.) -/
theorem C18_extract_eval_needs_scope :
    ∃ (W : World) (T : Target) (ins outs : List Arg) (view : View) (env0 env1 : Env Nat),
      extract W T ins outs = .ok view ∧
      (∃ o rest, view.outputs = o :: rest ∧ W.graphOf o = some 0) ∧
      SourceOK W 0 T.nodes ∧
      (∀ n, n ∈ T.nodes → CapturesCover W 0 n) ∧
      (∀ u, W.isInit u = true → env0 u = exS.const u) ∧
      (∀ u, u ∈ view.inputs → env1 u = evalTop exS W T.nodes env0 u) ∧
      (∀ u, u ∈ view.inits → env1 u = exS.const u) ∧
      ¬ (∀ u, Reach W 0 view.inputs view.outputs u → ∀ n, n ∈ view.nodes →
          ∀ b, b ∈ (W.nodeD n).bodies → ¬ DefInG b u) ∧
      ¬ (∀ o, o ∈ view.outputs →
          evalRegion exS W (rewired W view) view.nodes env1 o = evalTop exS W T.nodes env0 o) := by
  refine ⟨necW3, necT3, [.obj 0], [.obj 4], { inputs := [0], outputs := [4], nodes := [0, 1], inits := [] },
    fun _ => 0, fun u => if u = 1 then 5 else 0, by decide +kernel, ⟨4, [], rfl, by decide⟩,
    (sourceOK_of_B (by decide)).1, ?_, ?_, ?_, ?_, ?_, ?_⟩
  · intro n hn
    have : n = 0 ∨ n = 1 := by simpa [necT3] using hn
    rcases this with rfl | rfl
    · exact capturesCover_of_bodiesOK (bodiesOK_of_B (by decide))
    · exact capturesCover_of_bodiesOK (bodiesOK_of_B (by decide))
  · intro u hu
    exfalso
    match u, hu with
    | 0, hu | 1, hu | 2, hu | 3, hu | 4, hu => revert hu; decide
    | u + 5, hu => rw [isInit_out_of_range (by simp [necW3])] at hu; cases hu
  · intro u hu
    have : u = 0 := by simpa using hu
    subst this
    decide
  · intro u hu; cases hu
  · intro h
    have hr : Reach necW3 0 [0] [4] 1 :=
      ((C18_values_exact necW3 false [0] [4] 0 1).mp (by decide +kernel)).resolve_left (by decide)
    exact h 1 hr 0 (by decide) (.mk 1 [1] [] [1] []) (by simp [necW3, World.nodeD])
      ((mem_defsG _ 1).mp (by decide))
  · intro h
    have := h 4 (by decide)
    revert this
    decide

/-! ## the clone stage succeeds: the converse of `C18_raises_of_uncovered` (follow-up round) -/

/-- **C18_clone_succeeds**: the clone of the view built from a successful region search returns as soon as every
    required value that no node produces is one of the view's initializers.  Hypotheses: the source list is
    single assignment, topologically sorted with consistent `producer()` pointers (`SourceOK`), and what the
    lexical scoping lets a kept node read is what the code collects for it (`CapturesCover`: closed, well scoped
    nested graphs with consistent back pointers; this also says that every nested graph is sorted, a use
    before its definition being a free variable that the graph defines). -/
theorem C18_clone_succeeds {W : World} {fn : Bool} {g I O : List VId} {p : GId} {ns : List NId}
    {ws inits : List VId} (h : findSubgraph W fn g I O p = .ok (ns, ws))
    (hS : SourceOK W p g)
    (hcap : ∀ n, n ∈ ns → CapturesCover W p n)
    (hcov : ∀ u, Reach W p I O u → W.prod u = none → u ∈ inits) :
    ∃ m', cloneG [] (.mk 0 I inits O (ns.map W.nodeD)) = .ok m' := by
  have hord := C18_order h hS.nodup
  have hkeep : ∀ n, decide (n ∈ ns) = true ↔ NeedN W p I O n := by
    intro n; rw [decide_eq_true_eq]; exact C18_nodes_exact h n
  have hgoodI : ∀ u, (u ∈ I ∨ Reach W p I O u) →
      u ∈ [] ++ I ++ inits ∨ ∃ k, decide (k ∈ ns) = true ∧ k ∈ g ∧ u ∈ (W.nodeD k).outputs := by
    intro u hu
    rcases hu with hu | hu
    · left; simp [hu]
    · cases hp : W.prod u with
      | none => left; have := hcov u hu hp; simp [this]
      | some k =>
        right
        have hk : k ∈ ns := (C18_nodes_exact h k).mpr ⟨u, hu, hp⟩
        exact ⟨k, by simpa using hk, hord.2.subset hk, hS.outProd u k hp⟩
  obtain ⟨m1, h1, hsub, hout⟩ := cloneNs_filter_ok (W := W) (p := p) (fun n => decide (n ∈ ns))
    (fun u => u ∈ I ∨ Reach W p I O u) g ([] ++ I ++ inits) hS.sorted
    (fun n _ hk => hcap n (by simpa using hk))
    (by
      intro n _ hk u hN
      obtain ⟨v, hr, hpv⟩ := (hkeep n).mp hk
      by_cases hI : u ∈ I
      · exact Or.inl hI
      · exact Or.inr (Reach.step hr hpv hN hI))
    hgoodI
  rw [← hord.1] at h1
  rw [cloneG, h1]
  simp only []
  have hall : O.all (fun v => m1.contains v) = true := by
    rw [List.all_eq_true]
    intro o ho
    simp only [List.contains_eq_mem, decide_eq_true_eq]
    have hgo : o ∈ I ∨ Reach W p I O o := by
      by_cases hoI : o ∈ I
      · exact Or.inl hoI
      · exact Or.inr (Reach.out ho hoI)
    rcases hgoodI o hgo with h' | ⟨k, hkk, hkg, hko⟩
    · exact hsub o h'
    · exact hout k hkg hkk o hko
  rw [if_pos hall]
  exact ⟨m1, rfl⟩

/-- every required value is covered: a required value (an uncut output, an input of a required node, a value
    captured at any depth by a nested graph of a required node; boundary inputs cut the search) that no node
    produces is an initializer -/
def Covered (W : World) (p : GId) (I O : List VId) : Prop :=
  ∀ u, Reach W p I O u → W.prod u = none → W.isInit u = true

/-- the hypotheses of `C18_extract_succeeds_iff` for a region of graph `p` (all decidable: `sourceOKB`,
    `bodiesOKB`, `scopeB`, `initNamedB`, `initNamesB`; evaluated by the driver on every generated cut) -/
structure RegionHyp (W : World) (T : Target) (p : GId) (I O : List VId) : Prop where
  source : SourceOK W p T.nodes
  cap : ∀ n, n ∈ T.nodes → CapturesCover W p n
  scope : ∀ u, Reach W p I O u → ∀ n, NeedN W p I O n → ∀ b, b ∈ (W.nodeD n).bodies → ¬ DefInG b u
  named : ∀ u, W.isInit u = true → (W.val u).name ≠ ""
  names : ∀ u u', W.isInit u = true → W.isInit u' = true → (W.val u).name = (W.val u').name → u = u'

theorem extract_ok_args {W : World} {T : Target} {ins outs : List Arg} {view : View}
    (h : extract W T ins outs = .ok view) :
    checkArgs W T (valueMapping W T) (ins ++ outs) = .ok () ∧
    view.inputs = ins.map (resolveArg (valueMapping W T)) ∧
    view.outputs = outs.map (resolveArg (valueMapping W T)) := by
  unfold extract at h
  simp only [] at h
  split at h
  · cases h
  · rename_i hok
    split at h
    · cases h
    · split at h
      · cases h
      · split at h
        · cases h
        · split at h
          · cases h
          · split at h
            · cases h
            · cases h
              exact ⟨hok, rfl, rfl⟩

/-- **C18_extract_succeeds_iff**: `extract` returns a graph EXACTLY when the arguments pass the checks, there is
    a first output with an owning graph `p`, every required value is covered (`Covered`: what no boundary
    input cuts off and no node produces is an initializer) and every required node is a node of the
    graph-like object.  Together with `C18_by_name_missing` (argument errors) and `C18_raises_iff` (which of
    "not bounded" / KeyError the region search raises) this is the full outcome table of `extract`; in
    particular a bounded, well scoped, sorted region makes the clone stage succeed (`C18_clone_succeeds`),
    which was differential only before.  Hypotheses: `RegionHyp` for the graph of the first output. -/
theorem C18_extract_succeeds_iff (W : World) (T : Target) (ins outs : List Arg)
    (hyp : ∀ o rest p, outs.map (resolveArg (valueMapping W T)) = o :: rest → W.graphOf o = some p →
      RegionHyp W T p (ins.map (resolveArg (valueMapping W T))) (outs.map (resolveArg (valueMapping W T)))) :
    (∃ view, extract W T ins outs = .ok view) ↔
      checkArgs W T (valueMapping W T) (ins ++ outs) = .ok () ∧
      ∃ o rest p, outs.map (resolveArg (valueMapping W T)) = o :: rest ∧ W.graphOf o = some p ∧
        Covered W p (ins.map (resolveArg (valueMapping W T))) (outs.map (resolveArg (valueMapping W T))) ∧
        ∀ n, NeedN W p (ins.map (resolveArg (valueMapping W T))) (outs.map (resolveArg (valueMapping W T))) n →
          n ∈ T.nodes := by
  constructor
  · rintro ⟨view, h⟩
    obtain ⟨hargs, hI, hO⟩ := extract_ok_args h
    obtain ⟨p, inited, m', ⟨o, rest, hout, hp⟩, hfind, hsub, hclone, im, him, hinits⟩ := extract_ok h
    refine ⟨hargs, o, rest, p, by rw [← hO]; exact hout, hp, ?_, ?_⟩
    · have H := hyp o rest p (by rw [← hO]; exact hout) hp
      rw [← hI, ← hO] at H ⊢
      have hnodes : ∀ n, n ∈ view.nodes → n ∈ T.nodes :=
        fun n hn => (C18_order hfind H.source.nodup).2.subset hn
      exact C18_cover_of_clone hfind
        (fun v hv => ((C18_inits hfind v).mp (hsub v hv)).1) hclone
        (fun n hn => H.source.prodOut n (hnodes n hn))
        (fun u hu n hn => H.scope u hu n ((C18_nodes_exact hfind n).mp hn))
    · rw [← hI, ← hO]
      exact ((C18_raises_iff W _ T.nodes _ _ p).2.2.mp ⟨_, hfind⟩).2
  · rintro ⟨hargs, o, rest, p, hout, hp, hcov, hneed⟩
    have H := hyp o rest p hout hp
    have hnU : ¬ Uncovered W p (ins.map (resolveArg (valueMapping W T)))
        (outs.map (resolveArg (valueMapping W T))) := by
      rintro ⟨n, u, ⟨v, hr, hpv⟩, hun, hI, hinit, hpu⟩
      have := hcov u (Reach.step hr hpv (Or.inl hun) hI) hpu
      rw [hinit] at this
      cases this
    obtain ⟨⟨ns, ws⟩, hfind⟩ := (C18_raises_iff W (T.kind == Kind.function) T.nodes _ _ p).2.2.mpr ⟨hnU, hneed⟩
    have hinitOK : ∀ v, v ∈ ws → W.isInit v = true := fun v hv => ((C18_inits hfind v).mp hv).1
    obtain ⟨im, him⟩ := viewInits_ok (W := W) ws [] (fun v hv => H.named v (hinitOK v hv))
    have hcomplete := (viewInits_complete ws [] im him (by intro kv hkv; cases hkv)
      (by
        intro u u' hu hu' hn
        have h1 : u ∈ ws := hu.resolve_right (by simp)
        have h2 : u' ∈ ws := hu'.resolve_right (by simp)
        exact H.names u u' (hinitOK u h1) (hinitOK u' h2) hn)).2
    have hnodes : ∀ n, n ∈ ns → n ∈ T.nodes := fun n hn => (C18_order hfind H.source.nodup).2.subset hn
    obtain ⟨m', hclone⟩ := C18_clone_succeeds (inits := im.map (·.2)) hfind H.source
      (fun n hn => H.cap n (hnodes n hn))
      (fun u hu hpu => hcomplete u ((C18_inits hfind u).mpr ⟨hcov u hu hpu, Or.inr hu⟩))
    refine ⟨{ inputs := ins.map (resolveArg (valueMapping W T)),
              outputs := outs.map (resolveArg (valueMapping W T)), nodes := ns, inits := im.map (·.2) }, ?_⟩
    unfold extract
    simp only []
    rw [hargs]
    simp only []
    rw [hout]
    simp only [hp]
    rw [← hout, hfind]
    simp only []
    rw [him]
    simp only []
    rw [hclone]


/-! ## the ownership checks of the `Graph(...)` constructors in the clone stage (follow-up round) -/

theorem extractO_rel (W : World) (T : Target) (ins outs : List Arg) :
    match extractO W T ins outs with
    | .ok v => extract W T ins outs = .ok v ∧
        ∃ s, cloneGO {} (.mk 0 v.inputs v.inits v.outputs (v.nodes.map W.nodeD)) = .ok s
    | .error e => (e = .cloneOwned ∧ ∀ view, extract W T ins outs = .ok view →
          ¬ ∃ s, cloneGO {} (.mk 0 view.inputs view.inits view.outputs (view.nodes.map W.nodeD)) = .ok s) ∨
        extract W T ins outs = .error e := by
  unfold extractO extract
  simp only []
  cases hc : checkArgs W T (valueMapping W T) (ins ++ outs) with
  | error e => simp
  | ok u =>
    cases u
    simp only []
    cases ho : outs.map (resolveArg (valueMapping W T)) with
    | nil => simp
    | cons o0 rest =>
      simp only []
      cases hg : W.graphOf o0 with
      | none => simp
      | some parent =>
        simp only []
        cases hf : findSubgraph W (T.kind == Kind.function) T.nodes (ins.map (resolveArg (valueMapping W T)))
            (o0 :: rest) parent with
        | error e => simp
        | ok r =>
          obtain ⟨nodes, inited⟩ := r
          simp only []
          cases hv : viewInits W inited [] with
          | error e => simp
          | ok im =>
            simp only []
            have hrel := cloneGO_rel (.mk 0 (ins.map (resolveArg (valueMapping W T))) (im.map (·.2)) (o0 :: rest)
              (nodes.map W.nodeD)) {}
            cases hcl : cloneGO {} (.mk 0 (ins.map (resolveArg (valueMapping W T))) (im.map (·.2)) (o0 :: rest)
                (nodes.map W.nodeD)) with
            | error e =>
              rw [hcl] at hrel
              simp only [OwnRel] at hrel
              simp only []
              rcases hrel with hrel | hrel
              · left
                refine ⟨hrel, ?_⟩
                intro view hview
                rintro ⟨s, hs⟩
                split at hview
                · cases hview
                · cases hview
                  simp only [] at hs
                  rw [hcl] at hs
                  cases hs
              · right
                simp only [hrel]
            | ok s =>
              rw [hcl] at hrel
              simp only [OwnRel] at hrel
              simp only [hrel]
              exact ⟨trivial, s, hcl⟩

/-- the ownership checks of the clone's `Graph(...)` constructors pass on the view `extract` builds -/
def OwnPass (W : World) (T : Target) (ins outs : List Arg) : Prop :=
  ∀ view, extract W T ins outs = .ok view →
    ∃ s, cloneGO {} (.mk 0 view.inputs view.inits view.outputs (view.nodes.map W.nodeD)) = .ok s

/-- **C18_extract_owned**: `extractO` — the pipeline with the ownership checks that the `Graph(...)` constructor
    performs on the clones (a value listed by two graphs of the clone, e.g. the input of a nested graph given
    as boundary input of a view; an input or initializer of a nested graph that an earlier node produces) —
    against `extract`, the pipeline every other theorem is about: whenever `extractO` returns, `extract` returns
    the same view (so every `C18_*` theorem about a returned view holds for `extractO`); `extractO` returns
    exactly when `extract` returns and the ownership checks pass; and when `extractO` raises anything but the
    ownership error, `extract` raises the same error. -/
theorem C18_extract_owned (W : World) (T : Target) (ins outs : List Arg) :
    (∀ view, extractO W T ins outs = .ok view ↔ (extract W T ins outs = .ok view ∧ OwnPass W T ins outs)) ∧
    (∀ e, extractO W T ins outs = .error e → e = .cloneOwned ∨ extract W T ins outs = .error e) := by
  have h := extractO_rel W T ins outs
  constructor
  · intro view
    constructor
    · intro hv
      rw [hv] at h
      simp only [] at h
      refine ⟨h.1, ?_⟩
      intro view' hv'
      rw [h.1] at hv'
      cases hv'
      exact h.2
    · rintro ⟨hv, hown⟩
      obtain ⟨s, hs⟩ := hown view hv
      cases hO : extractO W T ins outs with
      | ok v' =>
        rw [hO] at h
        simp only [] at h
        rw [hv] at h
        cases h.1
        rfl
      | error e =>
        exfalso
        rw [hO] at h
        simp only [] at h
        rcases h with ⟨_, h⟩ | h
        · exact h view hv ⟨s, hs⟩
        · rw [hv] at h; cases h
  · intro e he
    rw [he] at h
    simp only [] at h
    rcases h with ⟨h, _⟩ | h
    · exact Or.inl h
    · exact Or.inr h


/-! decidable forms (what the driver evaluates on every generated cut) -/

theorem covered_iff_B {W : World} {fn : Bool} {I O : List VId} {p : GId} :
    coveredB W fn I O p = true ↔ Covered W p I O := by
  unfold coveredB Covered
  rw [List.all_eq_true]
  constructor
  · intro h u hu hp
    have := h u ((C18_values_exact W fn I O p u).mpr (Or.inr hu))
    simp only [Bool.or_eq_true, List.contains_eq_mem, decide_eq_true_eq, hp, Option.isSome_none,
      Bool.false_eq_true, or_false] at this
    rcases this with h' | h'
    · exact absurd h' hu.not_mem
    · exact h'
  · intro h u hu
    simp only [Bool.or_eq_true, List.contains_eq_mem, decide_eq_true_eq]
    rcases (C18_values_exact W fn I O p u).mp hu with h' | h'
    · exact Or.inl (Or.inl h')
    · cases hp : W.prod u with
      | none => exact Or.inr (h u h' hp)
      | some k => exact Or.inl (Or.inr rfl)

theorem neededIn_iff_B {W : World} {fn : Bool} {g I O : List VId} {p : GId} :
    neededInB W fn g I O p = true ↔ ∀ n, NeedN W p I O n → n ∈ g := by
  unfold neededInB
  rw [List.all_eq_true]
  constructor
  · intro h n hn
    simpa using h n ((walkFinal_nodes W fn I O p n).mpr hn)
  · intro h n hn
    simpa using h n ((walkFinal_nodes W fn I O p n).mp hn)

theorem regionHyp_of_B {W : World} {T : Target} {p : GId} {I O : List VId}
    (h : regionHypB W T p I O = true) : RegionHyp W T p I O := by
  unfold regionHypB at h
  simp only [Bool.and_eq_true] at h
  obtain ⟨⟨⟨⟨h1, h2⟩, h3⟩, h4⟩, h5⟩ := h
  refine ⟨(sourceOK_of_B h1).1, ?_, ?_, ?_, initNames_of_B h5⟩
  · intro n hn
    exact capturesCover_of_bodiesOK
      (bodiesOKB_sound (List.all_eq_true.mp h2 n hn) (fun v hv => graphOf_out_of_range hv))
  · intro u hu n hn
    exact scope_of_B h3 u hu n ((walkFinal_nodes W _ I O p n).mpr hn)
  · intro u hu hn
    have hr : u < W.vals.length := by
      apply Classical.byContradiction; intro hlt
      rw [isInit_out_of_range (Nat.le_of_not_lt hlt)] at hu; cases hu
    have := List.all_eq_true.mp h4 u (List.mem_range.mpr hr)
    simp [hu, hn] at this


/-! non-vacuity of the follow-up theorems -/

/-- the hypotheses of `C18_extract_succeeds_iff` hold on the example world, and both outcomes occur: with the
    boundary input `x` the region is covered and `extract` returns, without it `x` is uncovered and it raises -/
example : regionHypB exW exT 0 [0] [3] = true ∧ coveredB exW false [0] [3] 0 = true ∧
    neededInB exW false exT.nodes [0] [3] 0 = true ∧
    extract exW exT [.obj 0] [.obj 3] = .ok { inputs := [0], outputs := [3], nodes := [0, 1], inits := [1] } := by
  decide +kernel
example : regionHypB exW exT 0 [] [3] = true ∧ coveredB exW false [] [3] 0 = false ∧
    extract exW exT [] [.obj 3] = .error .unbounded := by decide +kernel
example : RegionHyp exW exT 0 [0] [3] := regionHyp_of_B (by decide +kernel)
example : ∃ view, extract exW exT [.obj 0] [.obj 3] = .ok view :=
  (C18_extract_succeeds_iff exW exT [.obj 0] [.obj 3] (by
    intro o rest p ho hp
    have : o = 3 ∧ p = 0 := by
      have h1 : [Arg.obj 3].map (resolveArg (valueMapping exW exT)) = [3] := rfl
      rw [h1] at ho
      cases ho
      have h2 : exW.graphOf 3 = some 0 := by decide
      rw [h2] at hp
      cases hp
      exact ⟨rfl, rfl⟩
    obtain ⟨rfl, rfl⟩ := this
    exact regionHyp_of_B (by decide +kernel))).mpr
    ⟨by decide +kernel, 3, [], 0, rfl, by decide, covered_iff_B.mp (by decide +kernel : coveredB exW false _ _ 0 = true),
      neededIn_iff_B.mp (by decide +kernel : neededInB exW false _ _ _ 0 = true)⟩

/-- a view whose boundary contains the INPUT `i` of a graph nested in the kept node: the pipeline without the
    constructor checks returns, the real pipeline raises the ownership error (the nested clone graph already
    owns the clone of `i` when the outer `Graph(...)` is built); a nested NODE OUTPUT given as input is
    harmless (the node makes a new clone); the nested input given as OUTPUT raises too -/
def exOwnW : World :=
  { vals := [ { name := "x", graph := some 0 }, { name := "i", graph := some 1 },
              { name := "y", producer := some 1, graph := some 1 },
              { name := "z", producer := some 0, graph := some 0 } ],
    nodes := [ .mk [some 0] [3] [.mk 1 [1] [] [2] [.mk [some 0, some 1] [2] []]],
               .mk [some 0, some 1] [2] [] ] }
def exOwnT : Target := { kind := .view, gid := none, inputs := [0], inits := [], nodes := [0] }

example : extract exOwnW exOwnT [.obj 0, .obj 1] [.obj 3] =
      .ok { inputs := [0, 1], outputs := [3], nodes := [0], inits := [] } ∧
    extractO exOwnW exOwnT [.obj 0, .obj 1] [.obj 3] = .error .cloneOwned ∧
    extractO exOwnW exOwnT [.obj 0, .obj 2] [.obj 3] =
      .ok { inputs := [0, 2], outputs := [3], nodes := [0], inits := [] } ∧
    extractO exOwnW exOwnT [.obj 0] [.obj 3, .obj 1] = .error .cloneOwned ∧
    extractO exOwnW exOwnT [.obj 0] [.obj 3] = .ok { inputs := [0], outputs := [3], nodes := [0], inits := [] } := by
  decide +kernel
example : ¬ OwnPass exOwnW exOwnT [.obj 0, .obj 1] [.obj 3] := by
  intro h
  have := ((C18_extract_owned exOwnW exOwnT [.obj 0, .obj 1] [.obj 3]).1
    { inputs := [0, 1], outputs := [3], nodes := [0], inits := [] }).mpr ⟨by decide +kernel, h⟩
  rw [show extractO exOwnW exOwnT [.obj 0, .obj 1] [.obj 3] = .error .cloneOwned from by decide +kernel] at this
  cases this

/-! ## the clone stage against C13's heap-level cloner (follow-up round) -/

/-- **C18_clone_stage_C13** (from C13, `C13_clone_succeeds`): the clone stage of `extract` as this model has it
    (`cloneGO`: keys of the value map, generations of the clones, ownership) against C13's model of the cloner
    (heap of cells, `graphClone`) — for EVERY C13 heap `w` and graph cell `gv` that represents the tree `t`
    (`RepG`: same value ids in the input / initializer / output lists, node cells in order, the graph-valued
    attributes GRAPH / GRAPHS of a node cell are in order the cells of its bodies, other attributes ignored),
    that is regular (`RegG`: inputs, initializers and node outputs are value cells with their metadata
    containers and a non-empty name; initializer names of a graph distinct) and in which no node output is
    already a key of the value map when its node is cloned (`nrG`; C13's walker makes no claim there: the D153
    shape), with enough fuel for the nesting depth: if `cloneGO` accepts, C13's scope walker accepts, hence
    (`C13_clone_succeeds`) the heap-level `GraphView.clone()` RETURNS a graph `g'`, every object `g'` owns is
    new, every node input of `g'` is a new value and no pre-existing cell changed (`C13_fresh`, `C13_closed`,
    `C13_clone_pure`).  C13's correspondence ties `graphClone` / `cloneVerdict` to the real cloner. -/
theorem C18_clone_stage_C13 {w : Clone.World} {t : GraphT} {gv fuel : Nat} {s : CSt}
    (hrep : RepG w t gv) (hreg : RegG w t) (hfuel : depthG t ≤ fuel) (hnr : nrG [] t)
    (h : cloneGO {} t = .ok s) :
    (∃ A, Clone.cloneVerdict fuel false w gv = .ok A) ∧
    ∃ g' w', Clone.run (Clone.graphClone fuel false gv) w = (.ok g', w') ∧
      (∀ i, Clone.Owned w' g' i → w.length ≤ i ∧ i < w'.length) ∧
      (∀ i, Clone.Owned w' g' i → ∀ n, w'[i]? = some (Clone.Cell.node n) →
          ∀ v, some v ∈ n.inputs → w.length ≤ v ∧ v < w'.length) ∧
      (∀ (i : Nat) (c : Clone.Cell), w[i]? = some c → w'[i]? = some c) := by
  have hsim0 : SimSt {} {} := by
    refine ⟨?_, ?_, ?_, ?_, ?_⟩
    · intro v; constructor <;> (intro hv; cases hv)
    · intro v; constructor <;> (intro hv; cases hv)
    · intro c hc; cases hc
    · intro v; constructor <;> (intro hv; cases hv)
    · intro v hv; cases hv
  obtain ⟨A, hA, _, _⟩ := simG w t fuel gv {} s {} hrep hreg hfuel hnr hsim0 h
  have hv : Clone.cloneVerdict fuel false w gv = .ok A := hA
  obtain ⟨g', w', hrun⟩ := Clone.C13_clone_succeeds hv
  refine ⟨⟨A, hv⟩, g', w', hrun, Clone.C13_fresh hrun, ?_, (Clone.C13_clone_pure hrun).1 rfl⟩
  intro i hi n hn v hvn
  exact ((Clone.C13_closed hrun i hi).1 n hn).1 rfl v hvn

/-- **C18_extract_clone_C13**: whenever the pipeline returns a view, on every regular C13 heap that represents
    that view the heap-level clone returns an independent graph (composition of `C18_extract_owned` with
    `C18_clone_stage_C13`; with `C18_extract_succeeds_iff`: a covered region of a sorted, well scoped source
    whose boundary no nested graph lists is cloned). -/
theorem C18_extract_clone_C13 {W : World} {T : Target} {ins outs : List Arg} {view : View}
    (hx : extractO W T ins outs = .ok view)
    {w : Clone.World} {gv fuel : Nat}
    (hrep : RepG w (.mk 0 view.inputs view.inits view.outputs (view.nodes.map W.nodeD)) gv)
    (hreg : RegG w (.mk 0 view.inputs view.inits view.outputs (view.nodes.map W.nodeD)))
    (hfuel : depthG (.mk 0 view.inputs view.inits view.outputs (view.nodes.map W.nodeD)) ≤ fuel)
    (hnr : nrG [] (.mk 0 view.inputs view.inits view.outputs (view.nodes.map W.nodeD))) :
    ∃ g' w', Clone.run (Clone.graphClone fuel false gv) w = (.ok g', w') ∧
      (∀ i, Clone.Owned w' g' i → w.length ≤ i ∧ i < w'.length) ∧
      (∀ (i : Nat) (c : Clone.Cell), w[i]? = some c → w'[i]? = some c) := by
  have hrel := extractO_rel W T ins outs
  rw [hx] at hrel
  obtain ⟨_, s, hs⟩ := hrel
  obtain ⟨_, g', w', hrun, h1, _, h3⟩ := C18_clone_stage_C13 hrep hreg hfuel hnr hs
  exact ⟨g', w', hrun, h1, h3⟩

/-! non-vacuity: a C13 heap representing a view with one node that holds a nested graph -/

def exHeap : Clone.World := [
  .graph { name := some "v", inputs := [3], outputs := [6], nodes := [9], props := 1, mstore := 2, view := true },
  .dict {}, .dict {},
  .val { name := some "x", graph := some 0, isIn := true, props := 4, mstore := 5 }, .dict {}, .dict {},
  .val { name := some "y", producer := some 9, index := some 0, props := 7, mstore := 8 }, .dict {}, .dict {},
  .node { name := some "n", opType := "Loopy", inputs := [some 3], outputs := [6], attrs := [("body", 12)],
          props := 10, mstore := 11 }, .dict {}, .dict {},
  .attr { name := "body", v := .graph 13 },
  .graph { name := some "b", inputs := [16], outputs := [19], nodes := [22], props := 14, mstore := 15 },
  .dict {}, .dict {},
  .val { name := some "i", graph := some 13, isIn := true, props := 17, mstore := 18 }, .dict {}, .dict {},
  .val { name := some "j", producer := some 22, index := some 0, graph := some 13, isOut := true,
         props := 20, mstore := 21 }, .dict {}, .dict {},
  .node { name := some "m", opType := "Add", inputs := [some 3, some 16], outputs := [19], graph := some 13,
          props := 23, mstore := 24 }, .dict {}, .dict {} ]

def exTree : GraphT :=
  .mk 0 [3] [] [6] [.mk [some 3] [6] [.mk 1 [16] [] [19] [.mk [some 3, some 16] [19] []]]]

theorem exHeap_rep : RepG exHeap exTree 0 := by
  simp [RepG, RepNs, RepN, RepGs, exTree, exHeap, attrGraphs, Clone.wDict, Clone.wCell, Clone.WRes.bind]


theorem exHeap_reg : RegG exHeap exTree := by
  simp [RegG, RegNs, RegN, RegGs, exTree, RegVal, exHeap, Clone.wOptShape, Clone.wOptType, Clone.wDict, Clone.wCell,
    Clone.WRes.bind, Clone.distinct]

theorem exHeap_nr : nrG [] exTree := by
  simp [nrG, nrNs, nrN, nrGs, exTree, cloneG, cloneGs, cloneN, cloneNs]

theorem exHeap_clone : ∃ s, cloneGO {} exTree = .ok s := by
  cases h : cloneGO {} exTree with
  | ok s => exact ⟨s, rfl⟩
  | error e =>
    exfalso
    have hrel := cloneGO_rel exTree {}
    rw [h] at hrel
    have hk : cloneG [] exTree = .ok [3, 16, 19, 6] := by decide +kernel
    have hm : ({} : CSt).m = [] := rfl
    rw [hm, hk] at hrel
    rcases hrel with rfl | hrel
    · revert h; simp [cloneGO, cloneNsO, cloneNO, cloneGsO, exTree, CSt.cur]
    · cases hrel

/-- the instance: C13's walker accepts the heap and the heap-level clone returns -/
example : ∃ g' w', Clone.run (Clone.graphClone 4 false 0) exHeap = (.ok g', w') := by
  obtain ⟨s, hs⟩ := exHeap_clone
  obtain ⟨_, g', w', h, _⟩ := C18_clone_stage_C13 (fuel := 4) exHeap_rep exHeap_reg (by decide) exHeap_nr hs
  exact ⟨g', w', h⟩

/-! ## C01 -> C18 for nodes holding subgraphs; necessity of scoping by owner (follow-up round) -/

/-- **C18_source_of_C01_nested** (extends `C18_source_of_C01` to nodes holding subgraphs): a graph built by ANY
    history of the C01 editing alphabet (`Kernel.WF`; the kernel now carries `NodeS.attrs`), read as a world of
    this model WITH the graphs its node attributes hold (`ofKernelN` / `kGraph`: unfolded to any depth `fuel`,
    the `.graph` back pointer being the `Value.graph` property: `_graph` when set, else the producer's graph),
    and whose graphs are closed (`KClosed`: every graph output is defined at the top level of its graph — what
    onnx.checker demands; necessary, see the example below): the `.graph` back pointers are CONSISTENT with the
    structure on every subtree (`BackPtrOK`, the hypothesis `backPtrB` of `C18_external_free`,
    `C18_nodes_exact_free`, `C18_captures_*`), every unfolded tree is closed (`closedG`), also for the bodies of
    every node of the embedded table; and the facts of `C18_source_of_C01` about the source list hold for the
    embedding with subgraphs.  Not implied by `WF` (a `Graph` lets a node read any value): topological order,
    well-scopedness of the nested graphs, scoping of uses by owner (`scopedGB`: necessary,
    `C18_captures_needs_scoped`), distinct identities of nested graphs. -/
theorem C18_source_of_C01_nested (w : Kernel.World) (h : Kernel.WF w) (hc : KClosed w) (F fuel gid : Nat) :
    BackPtrOK (ofKernelN w F) (kGraph w fuel gid) ∧ closedG (kGraph w fuel gid) = true ∧
    (∀ n b, b ∈ ((ofKernelN w F).nodeD n).bodies → BackPtrOK (ofKernelN w F) b ∧ closedG b = true) ∧
    (w.gr gid).nodes.Nodup ∧
    (∀ n o, o ∈ ((ofKernelN w F).nodeD n).outputs → (ofKernelN w F).prod o = some n) ∧
    (∀ v n, (ofKernelN w F).prod v = some n → v ∈ ((ofKernelN w F).nodeD n).outputs) ∧
    (∀ u, (ofKernelN w F).isInit u = true → (ofKernelN w F).prod u = none) := by
  refine ⟨backPtrOK_kGraph h hc F fuel gid, closedG_kGraph hc fuel gid, ?_, h.node.nodup gid, ?_, ?_, ?_⟩
  · intro n b hb
    rw [ofKernelN_nodeD] at hb
    obtain ⟨f, g, _, rfl⟩ := kNode_bodies w F n b hb
    exact ⟨backPtrOK_kGraph h hc F f g, closedG_kGraph hc f g⟩
  · intro n o ho
    rw [ofKernelN_nodeD, kNode_outputs] at ho
    rw [ofKernelN_prod h]
    exact producer_of_mem_outputs h ho
  · intro v n hp
    rw [ofKernelN_prod h] at hp
    rw [ofKernelN_nodeD, kNode_outputs]
    exact mem_outputs_of_producer h hp
  · intro u hu
    rw [ofKernelN_prod h]
    have hinit : (w.val u).isInit = true := by
      unfold World.isInit at hu
      rw [ofKernelN_val] at hu
      exact hu
    exact h.root u (Or.inr hinit)

/-- the kernel hypothesis `KClosed` is needed for the back pointers: a nested graph (id 1) that returns the
    value `c` computed by a node of the enclosing graph — `c._graph` is then the NESTED graph (the output list
    owns it), although the enclosing graph defines it: `backPtrB` fails on the nested graph -/
example : backPtrB
    { vals := [ { name := "x", graph := some 0 }, { name := "c", producer := some 0, graph := some 1 },
                { name := "y", producer := some 1, graph := some 0 } ],
      nodes := [ .mk [some 0] [1] [], .mk [] [2] [.mk 1 [] [] [1] []] ] }
    (.mk 1 [] [] [1] []) = false := by decide

/-- a node of graph 1 (nested in node 0 of the root) reads the INPUT `c` of its own nested graph 2: the use is
    not scoped by owner (the owner of `c` is below the reader, not above) -/
def scW : World :=
  { vals := [ { name := "x", graph := some 0 }, { name := "c", graph := some 2 },
              { name := "d", producer := some 1, graph := some 1 },
              { name := "z", producer := some 0, graph := some 0 } ],
    nodes := [ .mk [some 0] [3] [.mk 1 [] [] [2] [.mk [some 1] [2] [.mk 2 [1] [] [1] []]]],
               .mk [some 1] [2] [.mk 2 [1] [] [1] []] ] }

def scC : GraphT := .mk 2 [1] [] [1] []
def scA : GraphT := .mk 1 [] [] [2] [.mk [some 1] [2] [scC]]
def scRoot : GraphT := .mk 0 [0] [] [3] [.mk [some 0] [3] [scA]]

/-- **C18_captures_needs_scoped**: scoping of uses by owner (`scopedGB`) is necessary for
    `C18_captures_sound` / `C18_captures_exact`.  In `scW` the back pointers are consistent on every nested graph,
    nested graphs have distinct identities, every graph is closed — only the scoping hypothesis fails: a node of
    graph 1 reads a value that a graph nested in that very node defines.  `analyze_implicit_usage` then puts
    the value in the entry of graph 1 (it walks up from the reader and never meets the owner), although graph 1
    defines it below: it is no free variable of any nested graph with that identity.  (The real analysis does the
    same: harness stream `necessity`, shape `reader-above-owner`.) -/
theorem C18_captures_needs_scoped :
    ∃ (W : World) (g : GraphT) (k : GId) (v : VId),
      (∀ n b s, n ∈ g.nodes → b ∈ n.bodies → SubG b s → BackPtrOK W s) ∧
      uniqueGidsB g.nodes = true ∧ closedG g = true ∧
      (∃ n b, n ∈ g.nodes ∧ b ∈ n.bodies ∧ scopedGB W (g.nodes.flatMap (fun n => n.bodies.flatMap gidsG)) [] b = false) ∧
      v ∈ (analyze W g).get k ∧
      ¬ ∃ n b s, n ∈ g.nodes ∧ b ∈ n.bodies ∧ SubG b s ∧ s.gid = k ∧ FreeOf s v := by
  have hsubA : ∀ s, SubG scA s → s = scA ∨ s = scC := by
    intro s hs
    cases hs with
    | self => exact Or.inl rfl
    | deeper hn hc hs' =>
      simp only [scA, GraphT.nodes_mk, List.mem_singleton] at hn
      subst hn
      simp only [NodeT.bodies_mk, List.mem_singleton] at hc
      subst hc
      cases hs' with
      | self => exact Or.inr rfl
      | deeper hn' _ _ => simp [scC] at hn'
  have hrange : ∀ v, scW.vals.length ≤ v → scW.graphOf v = none := fun v hv => graphOf_out_of_range hv
  refine ⟨scW, scRoot, 1, 1, ?_, by decide, by decide, ?_, by decide +kernel, ?_⟩
  · intro n b s hn hb hs
    simp only [scRoot, GraphT.nodes_mk, List.mem_singleton] at hn
    subst hn
    simp only [NodeT.bodies_mk, List.mem_singleton] at hb
    subst hb
    rcases hsubA s hs with rfl | rfl
    · exact backPtrB_sound (by decide) hrange
    · exact backPtrB_sound (by decide) hrange
  · exact ⟨.mk [some 0] [3] [scA], scA, by simp [scRoot], by simp, by decide⟩
  · rintro ⟨n, b, s, hn, hb, hs, hk, hfree⟩
    simp only [scRoot, GraphT.nodes_mk, List.mem_singleton] at hn
    subst hn
    simp only [NodeT.bodies_mk, List.mem_singleton] at hb
    subst hb
    rcases hsubA s hs with rfl | rfl
    · exact hfree.2 ((mem_defsG scA 1).mp (by decide))
    · revert hk; decide


/-! ## D460: the pipeline after the proposed fix against the pipeline as it is -/

theorem extractO_eq_rest (W : World) (T : Target) (ins outs : List Arg) :
    extractO W T ins outs =
      match checkArgs W T (valueMapping W T) (ins ++ outs) with
      | .error e => .error e
      | .ok () => extractRest W T ins outs := by
  unfold extractO extractRest
  rfl

theorem checkArgF_of_checkArg {W : World} {T : Target} {m : NameMap} (isIn : Bool) {a : Arg}
    (h : checkArg W T m a = .ok ()) : checkArgF W T m isIn a = .ok () := by
  cases a with
  | obj v =>
    simp only [checkArg] at h
    simp only [checkArgF]
    split at h
    · cases h
    · rename_i hc
      rw [if_neg]
      intro hc'
      apply hc
      simp only [Bool.and_eq_true] at hc' ⊢
      exact hc'.1
  | name s => simpa [checkArg, checkArgF] using h

theorem checkArgs_append_ok {W : World} {T : Target} {m : NameMap} : ∀ {l1 l2 : List Arg},
    checkArgs W T m (l1 ++ l2) = .ok () → checkArgs W T m l1 = .ok () ∧ checkArgs W T m l2 = .ok ()
  | [], l2, h => ⟨rfl, h⟩
  | a :: l1, l2, h => by
    simp only [List.cons_append, checkArgs] at h ⊢
    cases ha : checkArg W T m a with
    | error e => rw [ha] at h; cases h
    | ok u =>
      cases u
      rw [ha] at h
      simp only [] at h ⊢
      exact checkArgs_append_ok h

theorem checkArgsF_of_checkArgs {W : World} {T : Target} {m : NameMap} (isIn : Bool) : ∀ {l : List Arg},
    checkArgs W T m l = .ok () → checkArgsF W T m isIn l = .ok ()
  | [], _ => rfl
  | a :: l, h => by
    simp only [checkArgs] at h
    cases ha : checkArg W T m a with
    | error e => rw [ha] at h; cases h
    | ok u =>
      cases u
      rw [ha] at h
      simp only [] at h
      simp only [checkArgsF, checkArgF_of_checkArg isIn ha]
      exact checkArgsF_of_checkArgs isIn h

/-- **C18_extract_D460**: `extractOF` — the pipeline with the argument check of the proposed fix D460 (a
    boundary INPUT given by object is also accepted when a node of the graph-like object reads it directly) —
    agrees with the pipeline as it is on every call that passes the current argument checks: the fix only turns
    `notOwned` refusals into the result of the rest of the pipeline (`extractRest`), so every theorem about
    `extractO` / `extract` holds for the fixed code on those calls, and on a call the fix newly accepts the
    result is what `extractRest` computes — the same region search, view and clone. -/
theorem C18_extract_D460 (W : World) (T : Target) (ins outs : List Arg) :
    (checkArgs W T (valueMapping W T) (ins ++ outs) = .ok () →
      extractOF W T ins outs = extractO W T ins outs) ∧
    (∀ view, extractOF W T ins outs = .ok view → extractRest W T ins outs = .ok view) := by
  constructor
  · intro h
    obtain ⟨h1, h2⟩ := checkArgs_append_ok h
    rw [extractO_eq_rest, h]
    unfold extractOF
    simp only [checkArgsF_of_checkArgs true h1, checkArgsF_of_checkArgs false h2]
  · intro view h
    unfold extractOF at h
    simp only [] at h
    split at h
    · cases h
    · split at h
      · cases h
      · exact h

/-- non-vacuity (the failing input of D460 in the model): graph 1 nested in node 0 reads the outer value `x`;
    by object the repository's check refuses it, the fixed check accepts it and returns the region -/
def d460W : World :=
  { vals := [ { name := "x", graph := some 0 }, { name := "i", graph := some 1 },
              { name := "y", producer := some 1, graph := some 1 },
              { name := "z", producer := some 0, graph := some 0 } ],
    nodes := [ .mk [some 0] [3] [.mk 1 [1] [] [2] [.mk [some 0, some 1] [2] []]],
               .mk [some 0, some 1] [2] [] ] }
def d460T : Target := { kind := .graph, gid := some 1, inputs := [1], inits := [], nodes := [1] }

example : extractO d460W d460T [.obj 0, .obj 1] [.obj 2] = .error .notOwned ∧
    extractO d460W d460T [.name "x", .name "i"] [.name "y"] =
      .ok { inputs := [0, 1], outputs := [2], nodes := [1], inits := [] } ∧
    extractOF d460W d460T [.obj 0, .obj 1] [.obj 2] =
      .ok { inputs := [0, 1], outputs := [2], nodes := [1], inits := [] } ∧
    extractOF d460W d460T [.obj 1] [.obj 2, .obj 0] = .error .notOwned := by decide +kernel

/-! ## when the ownership checks pass; the outcome table of the real pipeline (follow-up round) -/

/-- **C18_own_pass**: the ownership checks of the clone's `Graph(...)` constructors pass whenever no value is
    listed (as input, initializer or output) by two graphs of the view's tree and no graph input / initializer
    of the tree is a node output of the tree (`ownStaticB`, decidable, evaluated on every generated cut).  For
    the graphs nested in the kept nodes both facts follow from C01 for every source built through the public
    API (a value is owned by at most one graph; inputs and initializers have no producer), so what the
    hypothesis asks of a call is: no boundary value is listed by a graph nested in a kept node, and no boundary
    input is an output of a kept node (the D153 shape passes too, but is outside this sufficient condition). -/
theorem C18_own_pass {W : World} {T : Target} {ins outs : List Arg}
    (hst : ∀ view, extract W T ins outs = .ok view →
      ownStaticB (.mk 0 view.inputs view.inits view.outputs (view.nodes.map W.nodeD)) = true) :
    OwnPass W T ins outs := by
  intro view hv
  obtain ⟨_, _, m', _, _, _, hclone, _⟩ := extract_ok hv
  exact cloneGO_of_static (hst view hv) hclone

/-- **C18_extractO_succeeds_iff**: the outcome of the pipeline AS THE CODE RUNS IT (`extractO`, with the ownership
    checks of the clone): under `RegionHyp` and `ownStaticB` it returns a graph exactly when the arguments pass
    the checks, the first output has an owning graph, every required value is covered and every required node
    is listed — `C18_extract_succeeds_iff` + `C18_extract_owned` + `C18_own_pass`. -/
theorem C18_extractO_succeeds_iff (W : World) (T : Target) (ins outs : List Arg)
    (hyp : ∀ o rest p, outs.map (resolveArg (valueMapping W T)) = o :: rest → W.graphOf o = some p →
      RegionHyp W T p (ins.map (resolveArg (valueMapping W T))) (outs.map (resolveArg (valueMapping W T))))
    (hst : ∀ view, extract W T ins outs = .ok view →
      ownStaticB (.mk 0 view.inputs view.inits view.outputs (view.nodes.map W.nodeD)) = true) :
    (∃ view, extractO W T ins outs = .ok view) ↔
      checkArgs W T (valueMapping W T) (ins ++ outs) = .ok () ∧
      ∃ o rest p, outs.map (resolveArg (valueMapping W T)) = o :: rest ∧ W.graphOf o = some p ∧
        Covered W p (ins.map (resolveArg (valueMapping W T))) (outs.map (resolveArg (valueMapping W T))) ∧
        ∀ n, NeedN W p (ins.map (resolveArg (valueMapping W T))) (outs.map (resolveArg (valueMapping W T))) n →
          n ∈ T.nodes := by
  rw [← C18_extract_succeeds_iff W T ins outs hyp]
  constructor
  · rintro ⟨view, h⟩
    exact ⟨view, (((C18_extract_owned W T ins outs).1 view).mp h).1⟩
  · rintro ⟨view, h⟩
    exact ⟨view, ((C18_extract_owned W T ins outs).1 view).mpr ⟨h, C18_own_pass hst⟩⟩

/-- non-vacuity: the static hypothesis holds on the example view and fails on the view whose boundary contains
    the input of a nested graph -/
example : ownStaticB (.mk 0 [0] [1] [3] ([0, 1].map exW.nodeD)) = true := by decide +kernel
example : ownStaticB (.mk 0 [0, 1] [] [3] ([0].map exOwnW.nodeD)) = false := by decide +kernel

/-! ## the clone stage and C13's cloner agree on the outcome (both directions, with the errors) -/

/-- **C18_clone_stage_C13_exact** (from C13, `C13_clone_succeeds` + `C13_clone_error_exact`): on every C13 heap
    that represents the tree, is regular and has no re-bound node output (hypotheses of `C18_clone_stage_C13`),
    this model's clone stage and C13's heap-level cloner agree on the OUTCOME: `cloneGO` returns exactly when
    `GraphView.clone()` of the heap model returns, and when `cloneGO` raises (`cloneOuter`: a node input that is
    no key of the value map; `cloneOutput`: a graph output that is no key; `cloneOwned`: the `Graph(...)`
    constructor refuses a clone) C13's scope walker answers a clear error and the heap-level clone ends with
    exactly that error.  So the "raises" half of the property is tied to C13's model of the cloner by proof as
    well, not only the "returns" half. -/
theorem C18_clone_stage_C13_exact {w : Clone.World} {t : GraphT} {gv fuel : Nat}
    (hrep : RepG w t gv) (hreg : RegG w t) (hfuel : depthG t ≤ fuel) (hnr : nrG [] t) :
    ((∃ s, cloneGO {} t = .ok s) ↔
      ∃ g' w', Clone.run (Clone.graphClone fuel false gv) w = (.ok g', w')) ∧
    (∀ e, cloneGO {} t = .error e →
      ∃ why, Clone.cloneVerdict fuel false w gv = .err (.raised why) ∧
        (Clone.run (Clone.graphClone fuel false gv) w).1 = .error (.raised why)) := by
  have hsim0 : SimSt {} {} := by
    refine ⟨?_, ?_, ?_, ?_, ?_⟩
    · intro v; constructor <;> (intro hv; cases hv)
    · intro v; constructor <;> (intro hv; cases hv)
    · intro c hc; cases hc
    · intro v; constructor <;> (intro hv; cases hv)
    · intro v hv; cases hv
  have herr : ∀ e, cloneGO {} t = .error e →
      ∃ why, Clone.cloneVerdict fuel false w gv = .err (.raised why) ∧
        (Clone.run (Clone.graphClone fuel false gv) w).1 = .error (.raised why) := by
    intro e he
    obtain ⟨why, hw⟩ := errG w t fuel gv {} {} e hrep hreg hfuel hnr hsim0 he
    have hv : Clone.cloneVerdict fuel false w gv = .err (.raised why) := hw
    exact ⟨why, hv, Clone.C13_clone_error_exact hv⟩
  refine ⟨⟨?_, ?_⟩, herr⟩
  · rintro ⟨s, hs⟩
    obtain ⟨_, g', w', hrun, _⟩ := C18_clone_stage_C13 hrep hreg hfuel hnr hs
    exact ⟨g', w', hrun⟩
  · rintro ⟨g', w', hrun⟩
    cases hc : cloneGO {} t with
    | ok s => exact ⟨s, rfl⟩
    | error e =>
      exfalso
      obtain ⟨why, _, hr⟩ := herr e hc
      rw [hrun] at hr
      cases hr

/-- non-vacuity of the error half: the view of `exOwnW` whose boundary contains the input `i` of the nested
    graph, as a C13 heap: `cloneGO` raises the ownership error and C13's heap-level clone raises the
    constructor's error -/
def exOwnHeap : Clone.World := [
  .graph { name := some "v", inputs := [3, 16], outputs := [6], nodes := [9], props := 1, mstore := 2, view := true },
  .dict {}, .dict {},
  .val { name := some "x", graph := some 0, isIn := true, props := 4, mstore := 5 }, .dict {}, .dict {},
  .val { name := some "y", producer := some 9, index := some 0, props := 7, mstore := 8 }, .dict {}, .dict {},
  .node { name := some "n", opType := "Loopy", inputs := [some 3], outputs := [6], attrs := [("body", 12)],
          props := 10, mstore := 11 }, .dict {}, .dict {},
  .attr { name := "body", v := .graph 13 },
  .graph { name := some "b", inputs := [16], outputs := [19], nodes := [22], props := 14, mstore := 15 },
  .dict {}, .dict {},
  .val { name := some "i", graph := some 13, isIn := true, props := 17, mstore := 18 }, .dict {}, .dict {},
  .val { name := some "j", producer := some 22, index := some 0, graph := some 13, isOut := true,
         props := 20, mstore := 21 }, .dict {}, .dict {},
  .node { name := some "m", opType := "Add", inputs := [some 3, some 16], outputs := [19], graph := some 13,
          props := 23, mstore := 24 }, .dict {}, .dict {} ]

def exOwnTree : GraphT :=
  .mk 0 [3, 16] [] [6] [.mk [some 3] [6] [.mk 1 [16] [] [19] [.mk [some 3, some 16] [19] []]]]

example : ∃ why, (Clone.run (Clone.graphClone 4 false 0) exOwnHeap).1 = .error (.raised why) := by
  have hrep : RepG exOwnHeap exOwnTree 0 := by
    simp [RepG, RepNs, RepN, RepGs, exOwnTree, exOwnHeap, attrGraphs, Clone.wDict, Clone.wCell, Clone.WRes.bind]
  have hreg : RegG exOwnHeap exOwnTree := by
    simp [RegG, RegNs, RegN, RegGs, exOwnTree, RegVal, exOwnHeap, Clone.wOptShape, Clone.wOptType, Clone.wDict,
      Clone.wCell, Clone.WRes.bind, Clone.distinct]
  have hnr : nrG [] exOwnTree := nrG_of_B exOwnTree [] (by decide +kernel)
  have herr : cloneGO {} exOwnTree = .error .cloneOwned := by
    simp [cloneGO, cloneNsO, cloneNO, cloneGsO, exOwnTree, CSt.cur]
  obtain ⟨why, _, h⟩ := (C18_clone_stage_C13_exact (fuel := 4) hrep hreg (by decide) hnr).2 _ herr
  exact ⟨why, h⟩

end IrVerif.Extract

/-
C18 — region extraction and capture analysis are exact: property theorems about the model
`IrVerif.Extract` (Model/Extract.lean).  Helper development: Lemmas/Extract.lean.
-/
import IrVerif.Lemmas.Extract
import IrVerif.Lemmas.Implicit
import IrVerif.Lemmas.ExtractEval
import IrVerif.Lemmas.ExtractClone
set_option linter.unusedSimpArgs false
namespace IrVerif.Extract

/-- the state in which the `while value_stack:` loop ends -/
def walkFinal (W : World) (fn : Bool) (I O : List VId) (p : GId) : WS :=
  walk W p (walkInit W fn I O)

theorem walkFinal_inv (W : World) (fn : Bool) (I O : List VId) (p : GId) :
    Inv W p fn I O (walkFinal W fn I O p) :=
  walk_inv _ (walkInit_inv W p fn I O)

/-- **C18_external_exact**: `_collect_all_external_values(parent, g)` (with the D47 fix) is exactly the set of
    values that are used by a node of `g` or of a graph nested in `g` at any depth and that come from outside
    `g`: their owning graph is `parent`, or it is neither `g` nor a graph nested in `g`. -/
theorem C18_external_exact (W : World) (p : GId) (g : GraphT) (v : VId) :
    v ∈ externalValues W p g ↔
      UsedInG g v ∧ (W.graphOf v = some p ∨ ∀ k, NestedIn g k → W.graphOf v ≠ some k) :=
  mem_externalValues

/-- **C18_values_exact**: the walk visits exactly the boundary inputs and the required values (the least
    set containing the uncut outputs and closed under "needed by the producer of a required value, unless
    cut by a boundary input"; needed = direct input, or value used at any depth inside a graph attribute of
    the node and owned by none of the graphs nested there, see `Needs`). -/
theorem C18_values_exact (W : World) (fn : Bool) (I O : List VId) (p : GId) (v : VId) :
    v ∈ (walkFinal W fn I O p).valsV ↔ v ∈ I ∨ Reach W p I O v := by
  have h := walkFinal_inv W fn I O p
  constructor
  · exact h.sVals v
  · rintro (hv | hv)
    · exact h.cIns v hv
    · exact reach_visited h (walk_stack _ _ _) hv

theorem walkFinal_nodes (W : World) (fn : Bool) (I O : List VId) (p : GId) (n : NId) :
    n ∈ (walkFinal W fn I O p).nodesV ↔ NeedN W p I O n := by
  have h := walkFinal_inv W fn I O p
  constructor
  · exact h.sNodes n
  · rintro ⟨v, hr, hp⟩
    exact (h.cVals v (reach_visited h (walk_stack _ _ _) hr) hr.not_mem).2 n hp

theorem walkFinal_inited (W : World) (fn : Bool) (I O : List VId) (p : GId) (v : VId) :
    v ∈ (walkFinal W fn I O p).inited ↔
      W.isInit v = true ∧ ((v ∈ I ∧ fn = false) ∨ Reach W p I O v) := by
  have h := walkFinal_inv W fn I O p
  constructor
  · exact h.sInited v
  · rintro ⟨hi, (⟨hv, hfn⟩ | hr)⟩
    · exact h.cInsInit hfn v hv hi
    · exact (h.cVals v (reach_visited h (walk_stack _ _ _) hr) hr.not_mem).1 hi

theorem findSubgraph_ok {W : World} {fn : Bool} {g I O : List VId} {p : GId} {ns : List NId}
    {ws : List VId} (h : findSubgraph W fn g I O p = .ok (ns, ws)) :
    (unspecified W I (walkFinal W fn I O p).nodesV).isEmpty = true ∧
    (walkFinal W fn I O p).nodesV.all (fun n => g.contains n) = true ∧
    ns = sortByKey (fun n => g.idxOf n) (walkFinal W fn I O p).nodesV ∧
    ws = (walkFinal W fn I O p).inited := by
  unfold findSubgraph at h
  simp only [] at h
  change (if (unspecified W I (walkFinal W fn I O p).nodesV).isEmpty = true then _ else _) = _ at h
  split at h
  · rename_i h1
    split at h
    · rename_i h2
      injection h with h
      injection h with h3 h4
      exact ⟨h1, h2, h3.symm, h4.symm⟩
    · cases h
  · cases h

/-- **C18_nodes_exact**: when `_find_subgraph_bounded_by_values` returns, its node list contains exactly the
    required nodes: the producers of required values (see `Reach`); in particular no unneeded node is kept
    and no producer of a value captured by a nested body at any depth is missed. -/
theorem C18_nodes_exact {W : World} {fn : Bool} {g I O : List VId} {p : GId} {ns : List NId}
    {ws : List VId} (h : findSubgraph W fn g I O p = .ok (ns, ws)) (n : NId) :
    n ∈ ns ↔ NeedN W p I O n := by
  obtain ⟨_, _, h3, _⟩ := findSubgraph_ok h
  rw [h3, mem_sortByKey, walkFinal_nodes]

/-- **C18_order**: the extracted nodes are the nodes of the graph-like object restricted to the required
    ones, in their original order (so the result is a sublist of the source's node list). -/
theorem C18_order {W : World} {fn : Bool} {g I O : List VId} {p : GId} {ns : List NId}
    {ws : List VId} (h : findSubgraph W fn g I O p = .ok (ns, ws)) (hg : g.Nodup) :
    ns = g.filter (fun n => decide (n ∈ ns)) ∧ ns.Sublist g := by
  obtain ⟨_, h2, h3, _⟩ := findSubgraph_ok h
  have hsub : ∀ x, x ∈ (walkFinal W fn I O p).nodesV → x ∈ g := by
    intro x hx
    have := List.all_eq_true.mp h2 x hx
    simpa using this
  have hnd : (walkFinal W fn I O p).nodesV.Nodup := walk_nodup _ (by simp [walkInit])
  have e := sortByKey_idxOf_eq_filter hg hnd hsub
  have hmem : ∀ n, decide (n ∈ ns) = decide (n ∈ (walkFinal W fn I O p).nodesV) := by
    intro n
    rw [h3, decide_eq_decide, mem_sortByKey]
  have e' : ns = g.filter (fun n => decide (n ∈ ns)) := by
    rw [show (fun n => decide (n ∈ ns)) = (fun n => decide (n ∈ (walkFinal W fn I O p).nodesV)) from
      funext hmem]
    rw [h3]; exact e
  exact ⟨e', by rw [e']; exact List.filter_sublist⟩

/-- **C18_inits**: the initializers handed to the result are exactly the required values that are
    initializers, plus (unless extracting from a `Function`) the boundary inputs that are initializers. -/
theorem C18_inits {W : World} {fn : Bool} {g I O : List VId} {p : GId} {ns : List NId}
    {ws : List VId} (h : findSubgraph W fn g I O p = .ok (ns, ws)) (v : VId) :
    v ∈ ws ↔ W.isInit v = true ∧ ((v ∈ I ∧ fn = false) ∨ Reach W p I O v) := by
  obtain ⟨_, _, _, h4⟩ := findSubgraph_ok h
  rw [h4, walkFinal_inited]

/-- an input of a required node that no boundary input covers: not a boundary input, not an initializer,
    not produced by any node -/
def Uncovered (W : World) (p : GId) (I O : List VId) : Prop :=
  ∃ n u, NeedN W p I O n ∧ some u ∈ (W.nodeD n).inputs ∧ ¬ u ∈ I ∧ W.isInit u = false ∧ W.prod u = none

theorem unspecified_iff (W : World) (fn : Bool) (I O : List VId) (p : GId) :
    (unspecified W I (walkFinal W fn I O p).nodesV).isEmpty = false ↔ Uncovered W p I O := by
  rw [List.isEmpty_eq_false_iff_exists_mem]
  unfold unspecified Uncovered
  constructor
  · rintro ⟨u, hu⟩
    rw [List.mem_filter, List.mem_flatMap] at hu
    obtain ⟨⟨n, hn, hun⟩, hc⟩ := hu
    simp only [Bool.and_eq_true, Bool.not_eq_eq_eq_not, Bool.not_true, List.contains_eq_mem,
      decide_eq_false_iff_not] at hc
    obtain ⟨⟨hp, hI⟩, hinit⟩ := hc
    have hN := (walkFinal_nodes W fn I O p n).mp hn
    refine ⟨n, u, hN, mem_ins.mp hun, hI, hinit, ?_⟩
    cases hpu : W.prod u with
    | none => rfl
    | some m =>
      exfalso
      rw [hpu] at hp
      simp only [Bool.not_eq_eq_eq_not, Bool.not_true, List.contains_eq_mem,
        decide_eq_false_iff_not] at hp
      obtain ⟨v, hr, hpv⟩ := hN
      have hru : Reach W p I O u := Reach.step hr hpv (Or.inl (mem_ins.mp hun)) hI
      exact hp ((walkFinal_nodes W fn I O p m).mpr ⟨u, hru, hpu⟩)
  · rintro ⟨n, u, hN, hun, hI, hinit, hp⟩
    refine ⟨u, ?_⟩
    rw [List.mem_filter, List.mem_flatMap]
    refine ⟨⟨n, (walkFinal_nodes W fn I O p n).mpr hN, mem_ins.mpr hun⟩, ?_⟩
    simp [hp, hI, hinit]

/-- **C18_raises_iff**: `_find_subgraph_bounded_by_values` raises "not properly bounded" exactly when some
    input of a required node is neither a boundary input, nor an initializer, nor produced by a node;
    otherwise it raises (KeyError) exactly when a required node is not a node of the graph-like object;
    otherwise it returns. -/
theorem C18_raises_iff (W : World) (fn : Bool) (g I O : List VId) (p : GId) :
    (findSubgraph W fn g I O p = .error .unbounded ↔ Uncovered W p I O) ∧
    (findSubgraph W fn g I O p = .error .sortKey ↔
      ¬ Uncovered W p I O ∧ ∃ n, NeedN W p I O n ∧ ¬ n ∈ g) ∧
    ((∃ r, findSubgraph W fn g I O p = .ok r) ↔
      ¬ Uncovered W p I O ∧ ∀ n, NeedN W p I O n → n ∈ g) := by
  have hU := unspecified_iff W fn I O p
  have hall : (walkFinal W fn I O p).nodesV.all (fun n => g.contains n) = true ↔
      ∀ n, NeedN W p I O n → n ∈ g := by
    rw [List.all_eq_true]
    constructor
    · intro h n hn
      simpa using h n ((walkFinal_nodes W fn I O p n).mpr hn)
    · intro h n hn
      simpa using h n ((walkFinal_nodes W fn I O p n).mp hn)
  unfold findSubgraph
  simp only []
  change
    ((if (unspecified W I (walkFinal W fn I O p).nodesV).isEmpty = true then
        (if (walkFinal W fn I O p).nodesV.all (fun n => g.contains n) = true then _ else _)
      else _) = _ ↔ _) ∧
    ((if (unspecified W I (walkFinal W fn I O p).nodesV).isEmpty = true then
        (if (walkFinal W fn I O p).nodesV.all (fun n => g.contains n) = true then _ else _)
      else _) = _ ↔ _) ∧
    ((∃ r, (if (unspecified W I (walkFinal W fn I O p).nodesV).isEmpty = true then
        (if (walkFinal W fn I O p).nodesV.all (fun n => g.contains n) = true then _ else _)
      else _) = _) ↔ _)
  by_cases h1 : (unspecified W I (walkFinal W fn I O p).nodesV).isEmpty = true
  · have hnU : ¬ Uncovered W p I O := by
      intro hu
      have := hU.mpr hu
      rw [h1] at this
      cases this
    rw [if_pos h1]
    by_cases h2 : (walkFinal W fn I O p).nodesV.all (fun n => g.contains n) = true
    · have h2' := hall.mp h2
      rw [if_pos h2]
      refine ⟨⟨fun h => (by cases h), fun h => absurd h hnU⟩, ⟨fun h => (by cases h), ?_⟩,
        ⟨fun _ => ⟨hnU, h2'⟩, fun _ => ⟨_, rfl⟩⟩⟩
      rintro ⟨_, n, hn, hng⟩
      exact absurd (h2' n hn) hng
    · have h2' : ¬ ∀ n, NeedN W p I O n → n ∈ g := fun h => h2 (hall.mpr h)
      rw [if_neg h2]
      refine ⟨⟨fun h => (by cases h), fun h => absurd h hnU⟩, ⟨fun _ => ⟨hnU, ?_⟩, fun _ => rfl⟩,
        ⟨fun ⟨r, h⟩ => (by cases h), fun h => absurd h.2 h2'⟩⟩
      apply Classical.byContradiction
      intro hne
      apply h2'
      intro n hn
      apply Classical.byContradiction
      intro hng
      exact hne ⟨n, hn, hng⟩
  · have hUn : Uncovered W p I O := hU.mp (by simpa using h1)
    rw [if_neg h1]
    exact ⟨⟨fun _ => hUn, fun _ => rfl⟩, ⟨fun h => (by cases h), fun h => absurd hUn h.1⟩,
      ⟨fun ⟨r, h⟩ => (by cases h), fun h => absurd hUn h.1⟩⟩

/-- **C18_eval**: for every type of values, every interpretation `F` of the operators that reads only what a
    node needs (`Local`: its inputs and the values its nested graphs capture), every initial environment
    `env0` of the source and every environment `env1` of the extracted graph that agrees with the source's
    values on the boundary inputs and on the initializers handed to the result: running the extracted node
    list gives, at every requested output, the value the source computes there.  The source list must be
    single-assignment and topologically sorted with consistent `producer()` pointers (`SourceOK`), and every
    required value without a producer must be an initializer (`hcov`; for direct inputs of kept nodes this is
    what the frontier validation enforces, for values captured by nested graphs and for outputs it is what
    the clone of the view enforces, see `C18_cover_of_clone`). -/
theorem C18_eval {α : Type} {W : World} {fn : Bool} {g I O : List VId} {p : GId} {ns : List NId}
    {ws : List VId} (F : Interp α) (env0 env1 : Env α)
    (h : findSubgraph W fn g I O p = .ok (ns, ws))
    (hS : SourceOK W p g) (hF : Local W p F)
    (hcov : ∀ u, Reach W p I O u → W.prod u = none → W.isInit u = true)
    (hI : ∀ u, u ∈ I → env1 u = evalNodes W F g env0 u)
    (hW : ∀ u, u ∈ ws → env1 u = evalNodes W F g env0 u) :
    ∀ o, o ∈ O → evalNodes W F ns env1 o = evalNodes W F g env0 o := by
  intro o ho
  have hord := (C18_order h hS.nodup).1
  have hkeep : ∀ n, n ∈ g → (decide (n ∈ ns) = true ↔ NeedN W p I O n) := by
    intro n _
    rw [decide_eq_true_eq]
    exact C18_nodes_exact h n
  have hgood : o ∈ I ∨ Reach W p I O o := by
    by_cases hoI : o ∈ I
    · exact Or.inl hoI
    · exact Or.inr (Reach.out ho hoI)
  rw [hord]
  refine eval_agree_aux (fun n => decide (n ∈ ns)) env0 env1 hF hS hkeep hI g [] rfl ?_ o hgood
  intro u hu hnp
  simp only [List.filter_nil, evalNodes, List.foldl_nil]
  rcases hu with hu | hu
  · exact hI u hu
  · cases hp : W.prod u with
    | none =>
      exact hW u ((C18_inits h u).mpr ⟨hcov u hu hp, Or.inr hu⟩)
    | some m =>
      exfalso
      have hm : m ∈ ns := (C18_nodes_exact h m).mpr ⟨u, hu, hp⟩
      have hmg : m ∈ g := (C18_order h hS.nodup).2.subset hm
      exact hnp m hmg (hS.outProd u m hp)

/-- what a successful `extract` went through: the region search succeeded for the resolved boundary and the
    graph of the first output, the initializers of the view are among the recorded ones, and the clone of
    the view did not raise -/
theorem extract_ok {W : World} {T : Target} {ins outs : List Arg} {view : View}
    (h : extract W T ins outs = .ok view) :
    ∃ p inited m', (∃ o rest, view.outputs = o :: rest ∧ W.graphOf o = some p) ∧
      findSubgraph W (T.kind == Kind.function) T.nodes view.inputs view.outputs p = .ok (view.nodes, inited) ∧
      (∀ v, v ∈ view.inits → v ∈ inited) ∧
      cloneG [] (.mk 0 view.inputs view.inits view.outputs (view.nodes.map W.nodeD)) = .ok m' := by
  unfold extract at h
  simp only [] at h
  split at h
  · cases h
  · split at h
    · cases h
    · rename_i o0 rest hout
      split at h
      · cases h
      · rename_i parent hpar
        split at h
        · cases h
        · rename_i nodes inited hfind
          split at h
          · cases h
          · rename_i im him
            split at h
            · cases h
            · rename_i m' hclone
              cases h
              refine ⟨parent, inited, m', ⟨o0, rest, hout, hpar⟩, ?_, ?_, hclone⟩
              · exact hfind
              · intro v hv
                rcases viewInits_mem inited [] im him v hv with h' | h'
                · exact h'
                · simp at h'

/-- **C18_cover_of_clone**: if the region search succeeded and the clone of the view did not raise, then
    every required value that no node produces is an initializer — also the values captured by nested
    graphs and the requested outputs, which the frontier validation does not look at.  (Equivalently: if a
    required non-initializer value is covered neither by a boundary input nor by a producer, then either the
    validation or the clone raises.)  Hypotheses: `producer()` of an output of a kept node is that node, the
    view's initializers are initializers, and no required value is defined inside a graph nested in a kept
    node (scoping). -/
theorem C18_cover_of_clone {W : World} {fn : Bool} {g I O : List VId} {p : GId} {ns : List NId}
    {ws inits m' : List VId} (h : findSubgraph W fn g I O p = .ok (ns, ws))
    (hinits : ∀ v, v ∈ inits → W.isInit v = true)
    (hc : cloneG [] (.mk 0 I inits O (ns.map W.nodeD)) = .ok m')
    (hprod : ∀ n, n ∈ ns → ∀ o, o ∈ (W.nodeD n).outputs → W.prod o = some n)
    (hscope : ∀ u, Reach W p I O u → ∀ n, n ∈ ns → ∀ b, b ∈ (W.nodeD n).bodies → ¬ DefInG b u) :
    ∀ u, Reach W p I O u → W.prod u = none → W.isInit u = true := by
  intro u hu hp
  have hspec := cloneG_spec _ _ _ hc
  -- every required value ends up in the value map ...
  have hmem : u ∈ m' := by
    cases hu with
    | out ho _ => exact hspec.2.2.2 u ho
    | @step v _ n hr hpv hn _ =>
      have hnn : n ∈ ns := (C18_nodes_exact h n).mpr ⟨v, hr, hpv⟩
      have hnode : W.nodeD n ∈ (GraphT.mk 0 I inits O (ns.map W.nodeD)).nodes := by
        simp only [GraphT.nodes_mk, List.mem_map]; exact ⟨n, hnn, rfl⟩
      apply hspec.2.2.1 u
      rcases hn with hd | ⟨b, hb, hub, _⟩
      · exact UsedInG.node hnode (UsedInN.direct hd)
      · exact UsedInG.node hnode (UsedInN.nested hb hub)
  -- ... and what is in the map was put there as input, initializer, output of a kept node or nested value
  rcases hspec.2.1 u hmem with h0 | hd
  · cases h0
  · cases hd with
    | input hi => exact absurd (by simpa using hi) hu.not_mem
    | init hi => exact hinits u (by simpa using hi)
    | node hn hdn =>
      simp only [GraphT.nodes_mk, List.mem_map] at hn
      obtain ⟨n, hnn, rfl⟩ := hn
      cases hdn with
      | out ho => have := hprod n hnn u ho; rw [hp] at this; cases this
      | nested hb hdb => exact absurd hdb (hscope u hu n hnn _ hb)

/-- **C18_raises_of_uncovered**: for the whole `extract` pipeline — if some required value (an uncut output,
    an input of a required node, or a value captured from outside at any depth by a nested graph of a
    required node) is neither a boundary input, nor an initializer, nor produced by a node, then `extract`
    raises (in the argument checks, the frontier validation, or the clone). -/
theorem C18_raises_of_uncovered {W : World} {T : Target} {ins outs : List Arg} {view : View}
    (h : extract W T ins outs = .ok view)
    (hinit : ∀ v, v ∈ view.inits → W.isInit v = true)
    (hprod : ∀ n, n ∈ view.nodes → ∀ o, o ∈ (W.nodeD n).outputs → W.prod o = some n) :
    ∃ p, (∃ o rest, view.outputs = o :: rest ∧ W.graphOf o = some p) ∧
      ((∀ u, Reach W p view.inputs view.outputs u → ∀ n, n ∈ view.nodes →
          ∀ b, b ∈ (W.nodeD n).bodies → ¬ DefInG b u) →
        ∀ u, Reach W p view.inputs view.outputs u → W.prod u = none → W.isInit u = true) := by
  obtain ⟨p, inited, m', hp, hfind, _, hclone⟩ := extract_ok h
  exact ⟨p, hp, fun hscope => C18_cover_of_clone hfind hinit hclone hprod hscope⟩

/-- **C18_captures_exact**: `analyze_implicit_usage(g)` (with the D34 fix) has an entry exactly for the graphs
    nested in `g` at any depth, and the entry of graph `k` holds exactly the values `v` for which there is a
    node, in `k` itself or in a graph nested in `k`, that has `v` as an input while `v` belongs to none of the
    graphs on the path from that node's graph out to `k` (`CapG`: used in `k` or deeper, defined outside). -/
theorem C18_captures_exact (W : World) (g : GraphT) (k : GId) :
    (∀ v, v ∈ (analyze W g).get k ↔ ∃ n, n ∈ g.nodes ∧ ∃ b, b ∈ n.bodies ∧ CapG W [] b k v) ∧
    ((analyze W g).HasKey k ↔ ∃ n, n ∈ g.nodes ∧ ∃ b, b ∈ n.bodies ∧ NestedIn b k) := by
  unfold analyze
  constructor
  · intro v
    rw [mem_get, (foldl_procN_spec W g.gid k v g.nodes []).1]
    simp [Usages.Has]
  · rw [(foldl_procN_spec W g.gid k 0 g.nodes []).2 k]
    simp [Usages.HasKey]

/-- **C18_captures_complete**: every free variable of a nested graph is reported — if `s` is nested in `g` (at
    any depth), `v` is an input of a node of `s` or of a graph nested in `s`, and neither `s` nor a graph
    nested in `s` owns `v`, then `v` is in the entry of `s`. -/
theorem C18_captures_complete (W : World) (g : GraphT) {n : NodeT} {b s : GraphT} {v : VId}
    (hn : n ∈ g.nodes) (hb : b ∈ n.bodies) (hs : SubG b s) (hu : UsedInG s v)
    (hfree : ∀ j, NestedIn s j → W.graphOf v ≠ some j) :
    v ∈ (analyze W g).get s.gid := by
  rw [(C18_captures_exact W g s.gid).1 v]
  obtain ⟨path, hp⟩ := capG_lift (W := W) hs
  refine ⟨n, hn, b, hb, hp [] s.gid v ?_⟩
  exact capG_of_used W v s.gid s (path ++ []) hu hfree (addsTo_self (hfree s.gid NestedIn.self))

/-- **C18_captures_sound**: everything reported for `k` is used in or below a graph nested in `g` whose id is
    `k`, and that graph does not own it.  (With pairwise distinct graph ids this graph is *the* graph `k`.
    That no graph nested deeper in it owns the value either — the full "defined outside" — needs the scoping
    assumption that a value is only used inside the graph that owns it; that part is checked by the oracle
    only, see harness/c18.py.) -/
theorem C18_captures_sound (W : World) (g : GraphT) {k : GId} {v : VId}
    (h : v ∈ (analyze W g).get k) :
    ∃ n b s, n ∈ g.nodes ∧ b ∈ n.bodies ∧ SubG b s ∧ s.gid = k ∧ UsedInG s v ∧ W.graphOf v ≠ some k := by
  obtain ⟨n, hn, b, hb, hcap⟩ := ((C18_captures_exact W g k).1 v).mp h
  obtain ⟨h1, h2⟩ := capG_sound hcap
  rcases h1 with h1 | ⟨s, hs, hk, hu⟩
  · cases h1
  · exact ⟨n, b, s, hn, hb, hs, hk, hu, h2⟩

/-! ## non-vacuity: a concrete world on which every hypothesis and every branch is realised

graph 0: input `x` (0), initializer `w` (1); node 0: `a (2) = f(x, w)`; node 1: `b (3) = g(a, None)` with a
nested graph (id 1) whose node reads `x`. -/

deriving instance DecidableEq for Except

def exW : World :=
  { vals := [ { name := "x", graph := some 0 }, { name := "w", graph := some 0, isInit := true },
              { name := "a", producer := some 0, graph := some 0 },
              { name := "b", producer := some 1, graph := some 0 },
              { name := "i", producer := some 2, graph := some 1 } ],
    nodes := [ .mk [some 0, some 1] [2] [],
               .mk [some 2, none] [3] [.mk 1 [] [] [4] [.mk [some 0] [4] []]],
               .mk [some 0] [4] [] ] }

/-- hypothesis of C18_nodes_exact / C18_order / C18_inits: a successful run with both nodes and the initializer -/
example : findSubgraph exW false [0, 1] [0] [3] 0 = .ok ([0, 1], [1]) := by decide +kernel
/-- a cut in the middle: only node 1 is needed; `x` is needed only through the nested graph -/
example : findSubgraph exW false [0, 1] [2, 0] [3] 0 = .ok ([1], []) := by decide +kernel
example : ([0, 1] : List Nat).Nodup := by decide
/-- every branch of C18_raises_iff is realised -/
example : findSubgraph exW false [0, 1] [] [3] 0 = .error .unbounded := by decide +kernel
example : findSubgraph exW false [1] [0] [3] 0 = .error .sortKey := by decide +kernel
example : Uncovered exW 0 [] [3] := (C18_raises_iff exW false [0, 1] [] [3] 0).1.mp (by decide +kernel)
example : ¬ Uncovered exW 0 [0] [3] := by
  have h : ∃ r, findSubgraph exW false [0, 1] [0] [3] 0 = .ok r := ⟨([0, 1], [1]), by decide +kernel⟩
  exact ((C18_raises_iff exW false [0, 1] [0] [3] 0).2.2.mp h).1
/-- a value captured by the nested graph is required although it is no direct input of a kept node -/
example : Reach exW 0 [2] [3] 0 :=
  ((C18_values_exact exW false [2] [3] 0 0).mp (by decide +kernel)).resolve_left (by decide)
example : UsedInG (.mk 1 [] [] [4] [.mk [some 0] [4] []]) 0 :=
  ((C18_external_exact exW 0 _ 0).mp (by decide +kernel)).1

/-- an interpretation that really reads its inputs and captured values: sum of what the node needs -/
def exF : Interp Nat := fun n e _ =>
  (((exW.nodeD n).ins ++ captured exW 0 (exW.nodeD n)).map e).sum

theorem exF_local : Local exW 0 exF := by
  intro n e e' h o
  unfold exF
  congr 1
  apply List.map_congr_left
  intro u hu
  exact h u (needs_iff.mpr (List.mem_append.mp hu))

theorem exW_sourceOK : SourceOK exW 0 [0, 1] := by
  refine ⟨by decide, ?_, ?_, ?_⟩
  · intro n hn o ho
    have : n = 0 ∨ n = 1 := by simpa using hn
    rcases this with rfl | rfl
    · have : o = 2 := by simpa [World.nodeD, exW] using ho
      subst this; decide
    · have : o = 3 := by simpa [World.nodeD, exW] using ho
      subst this; decide
  · intro v n h
    match v, h with
    | 0, h | 1, h => simp [World.prod, World.val, exW] at h
    | 2, h =>
      have : n = 0 := by simpa [World.prod, World.val, exW] using h.symm
      subst this; decide
    | 3, h =>
      have : n = 1 := by simpa [World.prod, World.val, exW] using h.symm
      subst this; decide
    | 4, h =>
      have : n = 2 := by simpa [World.prod, World.val, exW] using h.symm
      subst this; decide
    | v + 5, h => simp [World.prod, World.val, exW] at h
  · refine ⟨?_, ?_, trivial⟩
    · intro u hu
      have := needs_iff.mp hu
      have : u ∈ [0, 1] := by
        rcases this with h | h
        · exact h
        · have hc : captured exW 0 (exW.nodeD 0) = [] := by decide
          rw [hc] at h; cases h
      have : u = 0 ∨ u = 1 := by simpa using this
      rcases this with rfl | rfl <;> (intro m hm; have : m = 0 ∨ m = 1 := by simpa using hm
                                      rcases this with rfl | rfl <;> decide)
    · intro u hu
      have := needs_iff.mp hu
      have : u = 2 ∨ u = 0 := by
        rcases this with h | h
        · left; simpa [World.nodeD, exW, NodeT.ins] using h
        · right
          have hc : captured exW 0 (exW.nodeD 1) = [0] := by decide
          rw [hc] at h
          simpa using h
      rcases this with rfl | rfl <;> (intro m hm; have : m = 1 := by simpa using hm
                                      subst this; decide)

/-- C18_eval with all its hypotheses met at once (boundary input `x`, output `b`) -/
example (env0 : Env Nat) : ∀ o, o ∈ [3] →
    evalNodes exW exF [0, 1] (evalNodes exW exF [0, 1] env0) o = evalNodes exW exF [0, 1] env0 o :=
  C18_eval (W := exW) (fn := false) (g := [0, 1]) (I := [0]) (O := [3]) (p := 0) (ns := [0, 1]) (ws := [1])
    exF env0 _ (by decide +kernel) exW_sourceOK exF_local
    (by
      intro u hu hp
      have hv := (C18_values_exact exW false [0] [3] 0 u).mpr (Or.inr hu)
      have hfin : (walkFinal exW false [0] [3] 0).valsV = [0, 3, 2, 1] := by decide +kernel
      rw [hfin] at hv
      have : u = 0 ∨ u = 3 ∨ u = 2 ∨ u = 1 := by simpa using hv
      rcases this with rfl | rfl | rfl | rfl
      · exact absurd (List.mem_singleton.mpr rfl) hu.not_mem
      · exact absurd hp (by decide)
      · exact absurd hp (by decide)
      · decide)
    (fun _ _ => rfl) (fun _ _ => rfl)

def exT : Target := { kind := .graph, gid := some 0, inputs := [0], inits := [("w", 1)], nodes := [0, 1] }

/-- hypothesis of C18_raises_of_uncovered: a successful `extract` (cut at `a`, `x` given by name) -/
example : extract exW exT [.obj 2, .name "x"] [.name "b"]
    = .ok { inputs := [2, 0], outputs := [3], nodes := [1], inits := [] } := by decide +kernel
/-- the clone stage is what rejects a captured value that the boundary does not cover -/
example : extract exW exT [.obj 2] [.name "b"] = .error .cloneOuter := by decide +kernel
example : extract exW exT [] [.name "x"] = .error .cloneOutput := by decide +kernel
example : extract exW exT [] [.name "b"] = .error .unbounded := by decide +kernel
example : extract exW exT [.obj 4] [.name "b"] = .error .notOwned := by decide +kernel
example : extract exW exT [] [.name "zz"] = .error .nameNotFound := by decide +kernel
example : extract exW exT [.name "x"] [] = .error .noOutputs := by decide +kernel
/-- C18_cover_of_clone with all its hypotheses met (the scoping hypothesis included) -/
example : ∀ u, Reach exW 0 [2, 0] [3] u → exW.prod u = none → exW.isInit u = true :=
  C18_cover_of_clone (W := exW) (fn := false) (g := [0, 1]) (ns := [1]) (ws := []) (inits := [])
    (m' := [2, 0, 4, 3]) (by decide +kernel) (by intro v hv; cases hv) (by decide)
    (by
      intro n hn o ho
      have : n = 1 := by simpa using hn
      subst this
      have : o = 3 := by simpa [World.nodeD, exW] using ho
      subst this; decide)
    (by
      intro u hu n hn b hb hd
      have hv := (C18_values_exact exW false [2, 0] [3] 0 u).mpr (Or.inr hu)
      have hfin : (walkFinal exW false [2, 0] [3] 0).valsV = [2, 0, 3] := by decide +kernel
      rw [hfin] at hv
      have hu3 : u = 3 := by
        have : u = 2 ∨ u = 0 ∨ u = 3 := by simpa using hv
        rcases this with rfl | rfl | rfl
        · exact absurd (by simp) hu.not_mem
        · exact absurd (by simp) hu.not_mem
        · rfl
      subst hu3
      have : n = 1 := by simpa using hn
      subst this
      have hb' : b = .mk 1 [] [] [4] [.mk [some 0] [4] []] := by simpa [World.nodeD, exW] using hb
      subst hb'
      cases hd with
      | input h => simp at h
      | init h => simp at h
      | @node _ nd _ hn' hdn =>
        have : nd = NodeT.mk [some 0] [4] [] := by simpa using hn'
        subst this
        cases hdn with
        | out h => simp at h
        | nested h _ => simp at h)

/-- C18_captures_exact: the nested graph 1 of node 1 captures `x` (value 0), and nothing else -/
example : (analyze exW (.mk 0 [0] [1] [3] exW.nodes)).get 1 = [0] := by decide
/-- hypotheses of C18_captures_complete are met by the nested graph of node 1 and the value `x` -/
example : 0 ∈ (analyze exW (.mk 0 [0] [1] [3] exW.nodes)).get 1 :=
  C18_captures_complete exW (.mk 0 [0] [1] [3] exW.nodes) (n := .mk [some 2, none] [3] [.mk 1 [] [] [4] [.mk [some 0] [4] []]])
    (b := .mk 1 [] [] [4] [.mk [some 0] [4] []]) (s := .mk 1 [] [] [4] [.mk [some 0] [4] []])
    (by simp [exW]) (by simp) SubG.self
    (UsedInG.node (n := .mk [some 0] [4] []) (by simp) (UsedInN.direct (by simp)))
    (by
      intro j hj
      cases hj with
      | self => decide
      | @deeper _ c nd _ hn' hc' _ =>
        have : nd = NodeT.mk [some 0] [4] [] := by simpa using hn'
        subst this
        simp at hc')
example : CapG exW [] (.mk 1 [] [] [4] [.mk [some 0] [4] []]) 1 0 :=
  CapG.here (n := .mk [some 0] [4] []) (by simp) (by simp) (by unfold AddsTo; decide)

end IrVerif.Extract

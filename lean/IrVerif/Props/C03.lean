/-
C03 — IR -> proto -> IR preserves the model; serialization has no side effects (model `IrVerif.Scope`).
-/
import IrVerif.Lemmas.ScopeIdem
import IrVerif.Lemmas.ScopeReplDeser
import IrVerif.Lemmas.ScopeModel
import IrVerif.Props.C17
import IrVerif.Model.ScopeExt
import IrVerif.Lemmas.ScopeEff
import IrVerif.Lemmas.ScopeExtTop
import IrVerif.Lemmas.ScopeExtSerOk
import IrVerif.Lemmas.ScopeExtDevCert
import IrVerif.Lemmas.ScopeCert
import IrVerif.Lemmas.ScopeExtModelTop
import IrVerif.Props.C03Ext9
import IrVerif.Lemmas.ScopeSerdeBridgeOK
import IrVerif.Lemmas.ScopeSerdeBridgeSub7
import IrVerif.Lemmas.ScopeSerdeBridgeModel3
import IrVerif.Lemmas.ScopeSerdeBridgeModel9f
namespace IrVerif.Scope

/-! ### the write log only changes tensor names -/

theorem applyWrites_data (ws : Writes) (f : Nat → TensorS) (t : Nat) :
    (applyWrites ws f t).data = (f t).data ∧ (applyWrites ws f t).ty = (f t).ty ∧
    (applyWrites ws f t).sh = (f t).sh := by
  induction ws generalizing f with
  | nil => simp [applyWrites]
  | cons w ws ih =>
    obtain ⟨t', n⟩ := w
    simp only [applyWrites]
    have := ih (fun i => if i = t' then { f i with name := n } else f i)
    by_cases h : t = t' <;> simp_all

theorem tdata_writes (st : Store) (ws : Writes) : (st.writes ws).tdata = st.tdata := by
  funext t
  have := applyWrites_data ws st.tens t
  simp [Store.tdata, Store.writes, this]

/-- the name of tensor `t` after replaying a log: the last write to `t`, else unchanged -/
theorem applyWrites_name (ws : Writes) (f : Nat → TensorS) (t : Nat) :
    ((applyWrites ws f t).name = (f t).name ∧ ∀ n, (t, n) ∉ ws) ∨
    ∃ n, (t, n) ∈ ws ∧ (applyWrites ws f t).name = n := by
  induction ws generalizing f with
  | nil => simp [applyWrites]
  | cons w ws ih =>
    obtain ⟨t', n⟩ := w
    simp only [applyWrites]
    rcases ih (fun i => if i = t' then { f i with name := n } else f i) with ⟨h1, h2⟩ | ⟨m, hm, h⟩
    · by_cases h : t = t'
      · subst h
        right
        exact ⟨n, by simp, by simp [h1]⟩
      · left
        refine ⟨by simp [h1, h], ?_⟩
        intro m hm
        simp only [List.mem_cons, Prod.mk.injEq] at hm
        rcases hm with ⟨rfl, _⟩ | hm
        · exact h rfl
        · exact h2 m hm
    · right
      exact ⟨m, by simp [hm], h⟩

/-- replaying the same log twice is the same as replaying it once -/
theorem applyWrites_idem (ws : Writes) (f : Nat → TensorS) :
    applyWrites ws (applyWrites ws f) = applyWrites ws f := by
  funext t
  have hd1 := applyWrites_data ws f t
  have hd2 := applyWrites_data ws (applyWrites ws f) t
  have hn : (applyWrites ws (applyWrites ws f) t).name = (applyWrites ws f t).name := by
    rcases applyWrites_name ws (applyWrites ws f) t with ⟨h, _⟩ | ⟨n, hn, h⟩
    · exact h
    · -- the last write to `t` is the same in both replays
      have key : ∀ (ws : Writes) (f g : Nat → TensorS), (∃ n, (t, n) ∈ ws) →
          (applyWrites ws f t).name = (applyWrites ws g t).name := by
        intro ws
        induction ws with
        | nil => intro f g h; simp at h
        | cons w ws ih =>
          intro f g hx
          obtain ⟨t', n'⟩ := w
          simp only [applyWrites]
          by_cases hex : ∃ n, (t, n) ∈ ws
          · exact ih _ _ hex
          · have hno : ∀ n, (t, n) ∉ ws := fun n hn => hex ⟨n, hn⟩
            rcases applyWrites_name ws (fun i => if i = t' then { f i with name := n' } else f i) t with
              ⟨h1, _⟩ | ⟨m, hm, _⟩
            · rcases applyWrites_name ws (fun i => if i = t' then { g i with name := n' } else g i) t with
                ⟨h2, _⟩ | ⟨m, hm, _⟩
              · rw [h1, h2]
                have : t = t' := by
                  obtain ⟨n, hn⟩ := hx
                  simp only [List.mem_cons, Prod.mk.injEq] at hn
                  rcases hn with ⟨h, _⟩ | hn
                  · exact h
                  · exact absurd hn (hno n)
                simp [this]
              · exact absurd hm (hno m)
            · exact absurd hm (hno m)
      exact key ws (applyWrites ws f) f ⟨n, hn⟩
  cases h1 : applyWrites ws (applyWrites ws f) t
  cases h2 : applyWrites ws f t
  simp_all

theorem writes_idem (st : Store) (ws : Writes) : (st.writes ws).writes ws = st.writes ws := by
  simp [Store.writes, applyWrites_idem]

/-- **C03_twice**: serializing the model left by a serialization returns the same proto and changes
    nothing any more (the tensor names are already aligned). -/
theorem C03_twice (w w1 : World) (p : GraphP) (h : serialize w = .ok (w1, p)) :
    serialize w1 = .ok (w1, p) := by
  unfold serialize at h ⊢
  split at h
  · simp at h
  · rename_i p' ws hs
    simp only [Except.ok.injEq, Prod.mk.injEq] at h
    obtain ⟨rfl, rfl⟩ := h
    have e1 : (w.st.writes ws).vals = w.st.vals := rfl
    simp only [e1, tdata_writes, hs, writes_idem]

/-! ### every write aligns an initializer tensor with the name of its value -/

/-- a write `(t, n)` is justified by an initializer value whose tensor is `t` and whose name is `n` -/
def Justified (vals : Nat → ValueS) (is : List (Name × Nat)) (w : Nat × Option Name) : Prop :=
  ∃ kv ∈ is, (vals kv.2).const = some w.1 ∧ (vals kv.2).name = w.2

theorem serInits_writes (vals : Nat → ValueS) (td : TData) (inames : List (Option Name))
    (is : List (Name × Nat)) :
    ∀ w ∈ (serInits vals td inames is).2.2, Justified vals is w := by
  induction is with
  | nil => simp [serInits]
  | cons kv is ih =>
    obtain ⟨k, v⟩ := kv
    intro w hw
    simp only [serInits] at hw
    split at hw
    · obtain ⟨kv', hkv, h⟩ := ih w hw
      exact ⟨kv', by simp [hkv], h⟩
    · rename_i t ht
      simp only [List.mem_cons] at hw
      rcases hw with rfl | hw
      · exact ⟨(k, v), by simp, by simp [ht]⟩
      · obtain ⟨kv', hkv, h⟩ := ih w hw
        exact ⟨kv', by simp [hkv], h⟩

theorem Justified.mono {vals : Nat → ValueS} {is js : List (Name × Nat)} {w : Nat × Option Name}
    (h : Justified vals is w) (hsub : ∀ x ∈ is, x ∈ js) : Justified vals js w := by
  obtain ⟨kv, hkv, h⟩ := h
  exact ⟨kv, hsub kv hkv, h⟩

mutual
theorem serGraph_writes (vals : Nat → ValueS) (td : TData) :
    ∀ (g : GraphT) (p : GraphP) (ws : Writes), serGraph vals td g = .ok (p, ws) →
      ∀ w ∈ ws, Justified vals (allInitsG g) w
  | .mk id inputs inits nodes outputs, p, ws, h => by
    simp only [serGraph] at h
    split at h
    · simp at h
    · split at h
      · simp at h
      · rename_i nps vis2 ws2 hn
        split at h
        · simp at h
        · simp only [Except.ok.injEq, Prod.mk.injEq] at h
          obtain ⟨_, rfl⟩ := h
          intro w hw
          simp only [List.mem_append] at hw
          rcases hw with hw | hw
          · exact (serInits_writes vals td _ inits w hw).mono (fun x hx => by simp only [allInitsG, List.mem_append]; first | exact .inl hx | exact .inr hx)
          · exact (serNodes_writes vals td outputs nodes _ _ _ hn w hw).mono (fun x hx => by simp only [allInitsG, List.mem_append]; first | exact .inl hx | exact .inr hx)
theorem serNodes_writes (vals : Nat → ValueS) (td : TData) (gouts : List Nat) :
    ∀ (ns : List NodeT) (nps : List NodeP) (vis : List VInfoP) (ws : Writes),
      serNodes vals td gouts ns = .ok (nps, vis, ws) → ∀ w ∈ ws, Justified vals (allInitsNs ns) w
  | [], nps, vis, ws, h => by
    simp only [serNodes, Except.ok.injEq, Prod.mk.injEq] at h
    obtain ⟨_, _, rfl⟩ := h
    simp
  | n :: ns, nps, vis, ws, h => by
    simp only [serNodes] at h
    split at h
    · simp at h
    · rename_i np vi ws1 h1
      split at h
      · simp at h
      · rename_i nps' vis' ws2 h2
        simp only [Except.ok.injEq, Prod.mk.injEq] at h
        obtain ⟨_, _, rfl⟩ := h
        intro w hw
        simp only [List.mem_append] at hw
        rcases hw with hw | hw
        · exact (serNode_writes vals td gouts n _ _ _ h1 w hw).mono (fun x hx => by simp only [allInitsNs, List.mem_append]; first | exact .inl hx | exact .inr hx)
        · exact (serNodes_writes vals td gouts ns _ _ _ h2 w hw).mono (fun x hx => by simp only [allInitsNs, List.mem_append]; first | exact .inl hx | exact .inr hx)
theorem serNode_writes (vals : Nat → ValueS) (td : TData) (gouts : List Nat) :
    ∀ (n : NodeT) (np : NodeP) (vi : List VInfoP) (ws : Writes),
      serNode vals td gouts n = .ok (np, vi, ws) → ∀ w ∈ ws, Justified vals (allInitsN n) w
  | .mk id gr inputs outputs subs, np, vi, ws, h => by
    simp only [serNode] at h
    split at h
    · simp at h
    · split at h
      · simp at h
      · split at h
        · simp at h
        · rename_i gps ws' hs
          simp only [Except.ok.injEq, Prod.mk.injEq] at h
          obtain ⟨_, _, rfl⟩ := h
          intro w hw
          exact (serSubs_writes vals td subs _ _ hs w hw).mono (fun x hx => by simpa only [allInitsN] using hx)
theorem serSubs_writes (vals : Nat → ValueS) (td : TData) :
    ∀ (gs : List GraphT) (gps : List GraphP) (ws : Writes),
      serSubs vals td gs = .ok (gps, ws) → ∀ w ∈ ws, Justified vals (allInitsGs gs) w
  | [], gps, ws, h => by
    simp only [serSubs, Except.ok.injEq, Prod.mk.injEq] at h
    obtain ⟨_, rfl⟩ := h
    simp
  | g :: gs, gps, ws, h => by
    simp only [serSubs] at h
    split at h
    · simp at h
    · rename_i gp ws1 h1
      split at h
      · simp at h
      · rename_i gps' ws2 h2
        simp only [Except.ok.injEq, Prod.mk.injEq] at h
        obtain ⟨_, rfl⟩ := h
        intro w hw
        simp only [List.mem_append] at hw
        rcases hw with hw | hw
        · exact (serGraph_writes vals td g _ _ h1 w hw).mono (fun x hx => by simp only [allInitsGs, List.mem_append]; first | exact .inl hx | exact .inr hx)
        · exact (serSubs_writes vals td gs _ _ h2 w hw).mono (fun x hx => by simp only [allInitsGs, List.mem_append]; first | exact .inl hx | exact .inr hx)
end

/-- **C03_pure**: serialization leaves the whole IR model as it was — same graph tree, same value
    cells (names, infos, constants, producers, uses, ownership), same counters, same tensor payloads —
    except that a tensor's own name may have been overwritten, and then only with the name of an
    initializer value (of some graph of the model) whose `const_value` is that tensor.
    WHAT THIS THEOREM DOES AND DOES NOT SAY.  The model's serializer is a pure function of the stores that
    returns the proto and a LOG of effects, and the only kind of effect the model has is the tensor-name
    write of `serialize_graph_into` (`value.const_value.name = value.name`); `serialize` replays the log.
    The first six conjuncts (tree, value cells, counters unchanged) therefore hold by construction of the
    model — they restate that the model has no other effect and are not evidence about the real code.  The
    content of the theorem is in the last two conjuncts: along every path of `serGraph` (nested graphs
    included) the logged writes touch tensor names only, leave payload / dtype / shape alone, and every
    write is justified by an initializer whose tensor it renames.  That the REAL `to_proto` performs no
    other mutation (no renamed node, no changed value, no allocated object) rests entirely on the
    deep-snapshot oracle of `harness/c03.py` (before / after comparison of every value, node, graph,
    tensor and metadata field on every generated case). -/
theorem C03_pure (w w1 : World) (p : GraphP) (h : serialize w = .ok (w1, p)) :
    w1.root = w.root ∧ w1.st.vals = w.st.vals ∧ w1.st.nv = w.st.nv ∧ w1.st.nt = w.st.nt ∧
    w1.st.nn = w.st.nn ∧ w1.st.ng = w.st.ng ∧
    (∀ t, (w1.st.tens t).data = (w.st.tens t).data ∧ (w1.st.tens t).ty = (w.st.tens t).ty ∧
      (w1.st.tens t).sh = (w.st.tens t).sh) ∧
    (∀ t, (w1.st.tens t).name = (w.st.tens t).name ∨
      ∃ kv ∈ allInitsG w.root, (w.st.vals kv.2).const = some t ∧
        (w1.st.tens t).name = (w.st.vals kv.2).name) := by
  unfold serialize at h
  split at h
  · simp at h
  · rename_i p' ws hs
    simp only [Except.ok.injEq, Prod.mk.injEq] at h
    obtain ⟨rfl, rfl⟩ := h
    refine ⟨rfl, rfl, rfl, rfl, rfl, rfl, fun t => applyWrites_data ws w.st.tens t, fun t => ?_⟩
    rcases applyWrites_name ws w.st.tens t with ⟨h, _⟩ | ⟨n, hn, h⟩
    · exact .inl h
    · right
      obtain ⟨kv, hkv, hc, hname⟩ := serGraph_writes _ _ _ _ _ hs (t, n) hn
      exact ⟨kv, hkv, hc, by simp [Store.writes, h, hname]⟩

/-! ### round trip -/

/-- **C03_roundtrip**: a serializable IR model can be serialized, the proto can be deserialized, and
    the result is the same model up to a renaming `σ` of the value objects: same graph tree (node
    order, inputs with optional `None` slots, outputs up to trailing empty-named ones, nested graphs,
    initializer keys, graph inputs and outputs), `σ` injective on the defined values (a value used
    in several places, in a nested graph or captured from an outer scope stays one value; distinct
    values stay distinct), every value keeps its name — whatever the order of the nodes (the model
    need not be topologically sorted).  The result is moreover consistent (`C17_consistent`). -/
theorem C03_roundtrip (w : World) (h : Serializable w) :
    ∃ (w1 : World) (p : GraphP) (D : World) (σ : Nat → Nat),
      serialize w = .ok (w1, p) ∧ deserialize p = .ok D ∧ Iso w D σ ∧ Consistent D := by
  obtain ⟨p, ws, D, σ, hp, hdes, hiso⟩ := roundtrip_core w h
  exact ⟨⟨w.st.writes ws, w.root⟩, p, D, σ, by simp only [serialize, hp], hdes, hiso, C17_consistent p _ hdes⟩

/-- the round trip relation for reloadable models: `D` is `w` up to the renaming `σ` of the values the
    model introduces (`(replG …).new`: graph inputs, initializers, named and live empty-named node outputs,
    placeholders, unproduced graph outputs, of every nested graph): same tree, `σ` injective, names kept;
    the values the proto carries information for (`emitG`: inputs, initializers, named node outputs, graph
    outputs) keep their serializable type / shape / documentation, initializers their tensor payload. -/
structure IsoR (w D : World) (σ : Nat → Nat) : Prop where
  tree : TreeIsoG w.st.vals σ w.root D.root
  inj : ∀ a ∈ (replG w.st.vals [] w.root).new, ∀ b ∈ (replG w.st.vals [] w.root).new, σ a = σ b → a = b
  names : ∀ v ∈ (replG w.st.vals [] w.root).new, (D.st.vals (σ v)).name = (w.st.vals v).name
  infos : ∀ v ∈ emitG w.st.vals w.root, (D.st.vals (σ v)).info = (w.st.vals v).info.emit
  consts : ∀ kv ∈ allInitsG w.root, ∀ t, (w.st.vals kv.2).const = some t →
    ∃ t', (D.st.vals (σ kv.2)).const = some t' ∧ (D.st.tens t').name = some kv.1 ∧ D.st.tdata t' = w.st.tdata t

/-- **C03_roundtrip_reloadable**: the round trip for every `Reloadable` model — the hypothesis is the
    certificate `replG` (every reference resolves, innermost scope first, to the value it refers to, or
    refers to a value introduced at that point; every value is introduced once).  It accepts what
    `Serializable` excludes: names shadowed in nested scopes, duplicate graph-input names, values that are
    used but defined nowhere (they come back as placeholder values), graph outputs nothing produces.
    Every model the deserializer returns is `Reloadable` (`deserialize_reloadable`). -/
theorem C03_roundtrip_reloadable (w : World) (h : Reloadable w) :
    ∃ (w1 : World) (p : GraphP) (D : World) (σ : Nat → Nat),
      serialize w = .ok (w1, p) ∧ deserialize p = .ok D ∧ IsoR w D σ ∧ Consistent D := by
  obtain ⟨p, ws, D, B, hp, hD, hrs, hk, ht, hio, hco⟩ := reloadable_roundtrip w h
  refine ⟨⟨w.st.writes ws, w.root⟩, p, D, sig B, by simp only [serialize, hp], hD, ?_, C17_consistent p _ hD⟩
  exact ⟨TreeRelG.iso _ B _ _ ht,
    fun a ha b hb he => hrs.sig_inj (hk ▸ ha) (hk ▸ hb) he,
    fun v hv => hrs.sig_name (hk ▸ hv),
    fun v hv => (hio v hv).2,
    fun kv hkv t htc => by
      obtain ⟨_, _, hc⟩ := hco kv hkv
      obtain ⟨t', h1, _, h3, h4⟩ := hc t htc
      exact ⟨t', h1, h3, h4⟩⟩

/-- the round trip relation for models with functions: main graph and functions (same identifiers, same
    order) are the same trees up to `σ`; `σ` is injective on, and keeps the names of, every value the
    model introduces; the values the proto carries information for (`emitM`: for a function its named
    inputs and named node outputs) keep their serializable type / shape / documentation; initializers (of
    graphs nested anywhere) keep their tensor payload. -/
structure IsoM (w D : MWorld) (σ : Nat → Nat) : Prop where
  tree : TreeIsoG w.st.vals σ w.root D.root
  funcs : TreeIsoFs w.st.vals σ w.funcs D.funcs
  inj : ∀ a ∈ domM w, ∀ b ∈ domM w, σ a = σ b → a = b
  names : ∀ v ∈ domM w, (D.st.vals (σ v)).name = (w.st.vals v).name
  infos : ∀ v ∈ emitM w, (D.st.vals (σ v)).info = (w.st.vals v).info.emit
  consts : ∀ kv ∈ allInitsM w, ∀ t, (w.st.vals kv.2).const = some t →
    ∃ t', (D.st.vals (σ kv.2)).const = some t' ∧ (D.st.tens t').name = some kv.1 ∧ D.st.tdata t' = w.st.tdata t

/-- **C03_roundtrip_model**: the round trip for models WITH FUNCTIONS (`MWorld`: main graph + functions keyed
    by (domain, name, overload); `serializeM` / `deserializeM` model `serialize_model` / `deserialize_model`
    for IR version >= 10, where a function's value_info lives in the FunctionProto).  Hypothesis
    `ReloadableM`: main graph and every function satisfy their resolution certificate (`replG` / `replF`:
    a function is a graph without initializers, without enclosing scope, whose outputs are bound in its
    scope and whose equally named inputs carry the same information), every value is introduced once in the
    whole model, function identifiers are distinct. -/
theorem C03_roundtrip_model (w : MWorld) (h : ReloadableM w) :
    ∃ (w1 : MWorld) (P : ModelP) (D : MWorld) (σ : Nat → Nat),
      serializeM w = .ok (w1, P) ∧ deserializeM P = .ok D ∧ IsoM w D σ := by
  obtain ⟨w1, P, D, B, hP, hD, hrs, hk, ht, htf, hio, hco⟩ := reloadableM_roundtrip w h
  have hkeys : ∀ v ∈ domM w, v ∈ B.map (·.1) := fun v hv => hk ▸ hv
  exact ⟨w1, P, D, sig B, hP, hD, ⟨TreeRelG.iso _ B _ _ ht, TreeRelFs.iso _ B _ _ htf,
    fun a ha b hb he => hrs.sig_inj (hkeys a ha) (hkeys b hb) he,
    fun v hv => hrs.sig_name (hkeys v hv),
    fun v hv => (hio v hv).2,
    fun kv hkv t htc => by
      obtain ⟨_, _, hc⟩ := hco kv hkv
      obtain ⟨t', h1, _, h3, h4⟩ := hc t htc
      exact ⟨t', h1, h3, h4⟩⟩⟩

/-! ### the decoration layer (`Model/ScopeMeta.lean`) -/

/-- **C03_meta_roundtrip**: IR -> proto -> IR on the decorations (metadata_props of model / graph / node /
    function, opset imports, doc strings and the other `_get_field` fields, model and node device
    configurations, function attributes).  Hypothesis `wfModelDB W`: the dicts of the IR side have distinct
    keys (a representation invariant: they are Python dicts; decidable, evaluated by the driver on every
    generated model).  If serialization does not raise (it raises for a node device configuration without
    configuration / a sharding spec without value at IR version >= 11), deserializing the proto gives
    `canonModelD W` — explicitly: every metadata dict sorted by key (equal as a finite map), opset imports
    and their order kept, a falsy doc string / name / producer field absent, model and node device
    configurations kept from IR version 11 and dropped below, function attributes with a value first and the
    valueless ones reduced to their name, functions under the same identifiers in the same order — and that
    model serializes to the same proto. -/
theorem C03_meta_roundtrip (W : ModelDS) (Q : ModelDP) (hw : wfModelDB W = true) (h : serModelD W = .ok Q) :
    deserModelD Q = canonModelD W ∧ serModelD (deserModelD Q) = .ok Q :=
  rtModelD W Q hw h

/-- **C03_roundtrip_decorated**: `C03_roundtrip_model` and `C03_meta_roundtrip` together, for a decorated IR
    model: serialization raises in the decorations, or the reloaded model is isomorphic to the original
    in its core (`IsoM`) and carries the canonical form of its decorations. -/
theorem C03_roundtrip_decorated (w : XWorld) (h : ReloadableM w.core) (hw : wfModelDB w.deco = true) :
    (∃ e, serializeX w = .error (.deco e)) ∨
    ∃ (w1 : XWorld) (P : XModelP) (D : XWorld) (σ : Nat → Nat),
      serializeX w = .ok (w1, P) ∧ deserializeX P = .ok D ∧ IsoM w.core D.core σ ∧
      D.deco = canonModelD w.deco := by
  obtain ⟨m1, Pc, Dc, σ, h1, h2, h3⟩ := C03_roundtrip_model w.core h
  cases hq : serModelD w.deco with
  | error e => exact .inl ⟨e, by simp only [serializeX, h1, hq]⟩
  | ok Qd =>
    exact .inr ⟨⟨m1, w.deco⟩, ⟨Pc, Qd⟩, ⟨Dc, deserModelD Qd⟩, σ, by simp only [serializeX, h1, hq],
      by simp only [deserializeX, h2], h3, (C03_meta_roundtrip w.deco Qd hw hq).1⟩

/-- **C03_pure_decorated**: `C03_pure` for decorated models with functions.  The decorations and the trees
    are returned unchanged BY CONSTRUCTION of the model (`serModelD` is a function of the decorations that
    returns a proto; it has no effect to log) — as for the first conjuncts of `C03_pure`, this restates that
    the model has no such effect and is not evidence about the real code; that `to_proto` leaves metadata,
    opset imports, attributes and device configurations of the real objects alone rests on the deep-snapshot
    oracle.  The value store is unchanged, tensors keep payload / dtype / shape. -/
theorem C03_pure_decorated (w w1 : XWorld) (P : XModelP) (h : serializeX w = .ok (w1, P)) :
    w1.deco = w.deco ∧ w1.core.root = w.core.root ∧ w1.core.funcs = w.core.funcs ∧
    w1.core.st.vals = w.core.st.vals ∧
    (∀ t, (w1.core.st.tens t).data = (w.core.st.tens t).data ∧ (w1.core.st.tens t).ty = (w.core.st.tens t).ty ∧
      (w1.core.st.tens t).sh = (w.core.st.tens t).sh) := by
  simp only [serializeX] at h
  split at h
  · simp at h
  · rename_i m1 q hm
    split at h
    · simp at h
    · simp only [Except.ok.injEq, Prod.mk.injEq] at h
      obtain ⟨rfl, _⟩ := h
      simp only [serializeM] at hm
      split at hm
      · simp at hm
      · split at hm
        · simp at hm
        · rename_i ws1 _ _ ws2 _
          simp only [Except.ok.injEq, Prod.mk.injEq] at hm
          obtain ⟨rfl, _⟩ := hm
          exact ⟨rfl, rfl, rfl, rfl, fun t => applyWrites_data _ w.core.st.tens t⟩

/-- **C03_pure_ext**: `C03_pure` for the extended model (`Model/ScopeExt.lean`: merged value metadata,
    quantization annotations, resolved sharding values): the extension state, the tree and the value cells are
    returned unchanged BY CONSTRUCTION of the model (`serGraphE` is a function of them that returns the proto and
    the log of tensor-name writes); tensors keep payload / dtype / shape.  As for `C03_pure`, that the REAL
    `to_proto` does not touch `Value.metadata_props`, `Value.meta` or the device configurations rests on the
    deep-snapshot oracle of `harness/c03.py`. -/
theorem C03_pure_ext (ver : Option Int) (w w1 : WorldE) (p : GraphE) (h : serializeE ver w = .ok (w1, p)) :
    w1.ext = w.ext ∧ w1.root = w.root ∧ w1.st.vals = w.st.vals ∧
    (∀ t, (w1.st.tens t).data = (w.st.tens t).data ∧ (w1.st.tens t).ty = (w.st.tens t).ty ∧
      (w1.st.tens t).sh = (w.st.tens t).sh) := by
  simp only [serializeE] at h
  split at h
  · simp at h
  · rename_i q ws _
    simp only [Except.ok.injEq, Prod.mk.injEq] at h
    obtain ⟨rfl, _⟩ := h
    exact ⟨rfl, rfl, rfl, fun t => applyWrites_data ws w.st.tens t⟩

/-! ### round trip of the extended model (`Model/ScopeExt.lean`) -/

/-- the round trip relation for extended models: the core relation `IsoR`, and on the values the proto carries
    metadata / annotations for, the reloaded extension state is the source one in canonical form: merged
    `metadata_props` sorted by key (equal as a finite map), a quantization annotation sorted by key -/
structure IsoE (w D : WorldE) (σ : Nat → Nat) : Prop where
  core : IsoR w.core D.core σ
  vmeta : ∀ v ∈ emitG w.st.vals w.root, D.ext.vmeta (σ v) = ssSorted (w.ext.vmeta v)
  quant : ∀ v ∈ emitQG w.st.vals w.root, D.ext.quant (σ v) = (w.ext.quant v).map ssSorted

/-- **C03_roundtrip_ext_graph** (deepening round 5): IR -> proto -> IR for the EXTENDED model of graphs (main
    graph with nested graphs): value-level `metadata_props`, quantization annotations, node device configurations.
    Hypothesis `ReloadableE w`: the resolution certificate of the core (`Reloadable`), the representation invariant
    of the extension state (`ExtWF`: dicts with distinct keys, no empty annotation) and the certificate `extG`
    (equally named inputs / initializers / node outputs / outputs of one graph carry the same annotation; a graph
    output that nothing of the graph binds, and a node output without a name, carry none) — every model the extended
    deserializer returns satisfies it (`deserializeE_reloadableE`).  Then serialization raises (only in a device
    configuration: `reloadableE_ser`), or: the proto
    deserializes to a model `D` isomorphic to `w` (`IsoR`: same tree up to the renaming `σ`, names, emitted type /
    shape / doc, initializer payloads), in which every emitted value carries the source metadata sorted by key and
    every value whose annotation is written carries the source annotation sorted by key (`IsoE`); `D` is
    consistent; and `D` serializes to the SAME proto — in particular the device configurations of every node are
    written again as they were (sharding values are preserved BY NAME: the reloaded spec refers to the value the
    name resolves to at the node).
    Sharding values BY IDENTITY: `C03_roundtrip_ext_devices`; models with FUNCTIONS: `C03_roundtrip_ext_model`;
    function ATTRIBUTES are covered by `C03_meta_roundtrip`. -/
theorem C03_roundtrip_ext_graph (ver : Option Int) (w : WorldE) (h : ReloadableE w) :
    (∃ e, serializeE ver w = .error (.dev e)) ∨
    ∃ (w1 : WorldE) (q : GraphE) (D : WorldE) (σ : Nat → Nat) (w2 : WorldE),
      serializeE ver w = .ok (w1, q) ∧ deserializeE q = .ok D ∧ IsoE w D σ ∧ Consistent D.core ∧
      serializeE ver D = .ok (w2, q) := by
  rcases reloadableE_ser ver w h with ⟨q, ws, hs⟩ | ⟨e, hs⟩
  · obtain ⟨D, B, hD, hrs, hk, ht, hio, hco, hm, hq⟩ := reloadableE_roundtrip ver w h q ws hs
    obtain ⟨D', ws', hD', hq'⟩ := reloadableE_fixpoint ver w h q ws hs
    have hDD : D' = D := by
      rw [hD] at hD'
      exact (Except.ok.inj hD').symm
    subst hDD
    obtain ⟨_, _, hwf⟩ := h
    refine .inr ⟨⟨w.st.writes ws, w.ext, w.root⟩, q, D', sig B, ⟨D'.st.writes ws', D'.ext, D'.root⟩,
      by simp only [serializeE, hs], hD, ⟨?_, ?_, ?_⟩, (C17_consistent_ext q D' hD).1, by simp only [serializeE, hq']⟩
    · exact ⟨TreeRelG.iso _ B _ _ ht,
        fun a ha b hb he => hrs.sig_inj (hk ▸ ha) (hk ▸ hb) he,
        fun v hv => hrs.sig_name (hk ▸ hv),
        fun v hv => (hio v hv).2,
        fun kv hkv t htc => by
          obtain ⟨_, _, hc⟩ := hco kv hkv
          obtain ⟨t', h1, _, h3, h4⟩ := hc t htc
          exact ⟨t', h1, h3, h4⟩⟩
    · intro v hv
      rw [(hm v hv).2]
      exact normM_eq _ (hwf v).1
    · intro v hv
      rw [(hq v hv).2]
      cases hqv : w.ext.quant v with
      | none => rfl
      | some ps =>
        simp only [normQ, Option.map_some]
        rw [ss_rt ps ((hwf v).2 ps hqv).1]
  · exact .inl ⟨e, by simp only [serializeE, hs]⟩

/-- **C03_roundtrip_ext_devices** (deepening round 5): `C03_roundtrip_ext_graph` with the node device configurations
    BY IDENTITY.  Additional hypotheses: the IR-version gate is open (`ver = none` or `>= 11`: below 11 the
    configurations are not written at all) and `DevCertG`: every value a sharding spec refers to carries a
    non-empty name and is the value that name resolves to in the scopes visible at its node (innermost first, the
    node's own placeholders included), a spec without value object (`ShardV.fresh n`) names nothing visible — every
    deserialized model satisfies it (`deserializeE_devCert`).  Then, if serialization does not raise, every node of
    the reloaded model carries the source configurations with each sharding value replaced by its image under the
    renaming `σ` (`DevIsoG`): a value shared between a node input, an outer scope and a sharding spec stays one
    value.  Proof: the lock-step induction exports the scopes in which the reloaded names are resolved (`DevTrG`:
    the certificate's tables renamed by `σ`), `resolve_mapT` commutes resolution with the renaming. -/
theorem C03_roundtrip_ext_devices (ver : Option Int) (hgate : ver = none ∨ ∃ v, ver = some v ∧ ¬ v < 11) (w : WorldE)
    (h : ReloadableE w) (hdc : DevCertG w.st.vals w.ext [] w.root) :
    (∃ e, serializeE ver w = .error (.dev e)) ∨
    ∃ (w1 : WorldE) (q : GraphE) (D : WorldE) (σ : Nat → Nat) (w2 : WorldE),
      serializeE ver w = .ok (w1, q) ∧ deserializeE q = .ok D ∧ IsoE w D σ ∧
      DevIsoG w.ext D.ext σ w.root D.root ∧ Consistent D.core ∧ serializeE ver D = .ok (w2, q) := by
  rcases reloadableE_ser ver w h with ⟨q, ws, hs⟩ | ⟨e, hs⟩
  · obtain ⟨D, B, hD, hrs, hk, ht, hio, hco, hm, hq, hdi⟩ := reloadableE_roundtrip_devs ver hgate w h hdc q ws hs
    obtain ⟨D', ws', hD', hq'⟩ := reloadableE_fixpoint ver w h q ws hs
    have hDD : D' = D := by
      rw [hD] at hD'
      exact (Except.ok.inj hD').symm
    subst hDD
    obtain ⟨_, _, hwf⟩ := h
    refine .inr ⟨⟨w.st.writes ws, w.ext, w.root⟩, q, D', sig B, ⟨D'.st.writes ws', D'.ext, D'.root⟩,
      by simp only [serializeE, hs], hD, ⟨?_, ?_, ?_⟩, hdi, (C17_consistent_ext q D' hD).1,
      by simp only [serializeE, hq']⟩
    · exact ⟨TreeRelG.iso _ B _ _ ht,
        fun a ha b hb he => hrs.sig_inj (hk ▸ ha) (hk ▸ hb) he,
        fun v hv => hrs.sig_name (hk ▸ hv),
        fun v hv => (hio v hv).2,
        fun kv hkv t htc => by
          obtain ⟨_, _, hc⟩ := hco kv hkv
          obtain ⟨t', h1, _, h3, h4⟩ := hc t htc
          exact ⟨t', h1, h3, h4⟩⟩
    · intro v hv
      rw [(hm v hv).2]
      exact normM_eq _ (hwf v).1
    · intro v hv
      rw [(hq v hv).2]
      cases hqv : w.ext.quant v with
      | none => rfl
      | some ps =>
        simp only [normQ, Option.map_some]
        rw [ss_rt ps ((hwf v).2 ps hqv).1]
  · exact .inl ⟨e, by simp only [serializeE, hs]⟩

/-- the round trip relation for extended models WITH FUNCTIONS: `IsoM` on the core, and the extension state of the
    emitted values (main graph `emitG` / `emitQG`; function bodies `emitF` / `emitQF`) in canonical form -/
structure IsoME (w D : MWorldE) (σ : Nat → Nat) : Prop where
  core : IsoM w.core D.core σ
  vmeta : ∀ v ∈ emitM w.core, D.ext.vmeta (σ v) = ssSorted (w.ext.vmeta v)
  quant : ∀ v ∈ emitQM w, D.ext.quant (σ v) = (w.ext.quant v).map ssSorted

/-- **C03_roundtrip_ext_model** (deepening round 5): IR -> proto -> IR for extended models WITH FUNCTIONS
    (`MWorldE`; `serializeME` / `deserializeME`, IR version >= 10 format): main graph, nested graphs and function
    bodies.  Hypothesis `ReloadableME`: `ReloadableM` of the core, `extG` of the main graph, `extF` of every function
    (equally truthy-named function inputs carry the same merged metadata - they share ONE value_info entry; the node
    clause of `extG` for the body) and `ExtWF`; every model `deserializeME` returns satisfies it
    (`deserializeME_reloadableME`, duplicate function identifiers included).  Then serialization raises (only in a
    device configuration), or the proto deserializes to a model `D` with `IsoME w D σ` - same main graph and functions
    up to `σ` (`IsoM`), merged metadata of every emitted value (function inputs and node outputs included) sorted by
    key, annotations sorted by key - and `D` serializes to the SAME proto (so the device configurations of every
    node, in function bodies too, are written again as they were: sharding values BY NAME).
    Sharding values BY IDENTITY, function bodies included: `C03_roundtrip_ext`.  Function attributes: `C03_meta_roundtrip`. -/
theorem C03_roundtrip_ext_model (ver : Option Int) (w : MWorldE) (h : ReloadableME w) :
    (∃ e, serializeME ver w = .error (.dev e)) ∨
    ∃ (w1 : MWorldE) (Q : ModelE) (D : MWorldE) (σ : Nat → Nat) (w2 : MWorldE),
      serializeME ver w = .ok (w1, Q) ∧ deserializeME Q = .ok D ∧ IsoME w D σ ∧ serializeME ver D = .ok (w2, Q) := by
  rcases reloadableME_ser ver w h with ⟨w1, Q, hs⟩ | ⟨e, he⟩
  · obtain ⟨D, σ, hD, a1, a2, a3, a4, a5, a6, a7, a8⟩ := reloadableME_roundtrip_iso ver w h w1 Q hs
    obtain ⟨D', w2, hD', hq'⟩ := reloadableME_fixpoint ver w h w1 Q hs
    have hDD : D' = D := by
      rw [hD] at hD'
      exact (Except.ok.inj hD').symm
    subst hDD
    obtain ⟨_, _, _, hwf⟩ := h
    refine .inr ⟨w1, Q, D', σ, w2, hs, hD, ⟨⟨a1, a2, a3, a4, a5, a6⟩, ?_, ?_⟩, hq'⟩
    · intro v hv
      rw [a7 v hv]
      exact normM_eq _ (hwf v).1
    · intro v hv
      rw [a8 v hv]
      cases hqv : w.ext.quant v with
      | none => rfl
      | some ps =>
        simp only [normQ, Option.map_some]
        rw [ss_rt ps ((hwf v).2 ps hqv).1]
  · exact .inl ⟨e, he⟩

/-- **C03_roundtrip_ext** (deepening round 5; the full statement for the extended model): IR -> proto -> IR for
    models with functions preserves value metadata, quantization annotations AND the sharding values of node device
    configurations BY IDENTITY, in the main graph, nested graphs and function bodies.  Hypotheses: the IR-version
    gate is open (`ver = none` or `>= 11`; below, device configurations are not written and `C03_roundtrip_ext_model`
    is the statement), `ReloadableME w` and `DevCertM w` (every sharding value carries a non-empty name and is what
    that name resolves to in the scopes visible at its node; in a function body the function's own scope) — both
    hold of every model `deserializeME` returns (`deserializeME_reloadableME`, `deserializeME_devCert`).  Then
    serialization raises in a device configuration (no configuration id / a spec without value), or the reloaded
    model `D` satisfies `IsoME w D σ` and `DevIsoM`: every node of `D` carries the configurations of its source
    node with each sharding value `v` replaced by `σ v`; and `D` serializes to the same proto. -/
theorem C03_roundtrip_ext (ver : Option Int) (hgate : ver = none ∨ ∃ v, ver = some v ∧ ¬ v < 11) (w : MWorldE)
    (h : ReloadableME w) (hdc : DevCertM w) :
    (∃ e, serializeME ver w = .error (.dev e)) ∨
    ∃ (w1 : MWorldE) (Q : ModelE) (D : MWorldE) (σ : Nat → Nat) (w2 : MWorldE),
      serializeME ver w = .ok (w1, Q) ∧ deserializeME Q = .ok D ∧ IsoME w D σ ∧ DevIsoM w.ext D.ext σ w D ∧
      serializeME ver D = .ok (w2, Q) := by
  rcases reloadableME_ser ver w h with ⟨w1, Q, hs⟩ | ⟨e, he⟩
  · obtain ⟨D, B, hD, hrs, hk, ht, htf, hio, hco, hm, hq, hdi⟩ := reloadableME_roundtrip_devs ver hgate w h hdc w1 Q hs
    obtain ⟨D', w2, hD', hq'⟩ := reloadableME_fixpoint ver w h w1 Q hs
    have hDD : D' = D := by
      rw [hD] at hD'
      exact (Except.ok.inj hD').symm
    subst hDD
    obtain ⟨_, _, _, hwf⟩ := h
    have hkeys : ∀ v ∈ domM w.core, v ∈ B.map (·.1) := fun v hv => hk ▸ hv
    refine .inr ⟨w1, Q, D', sig B, w2, hs, hD, ⟨⟨TreeRelG.iso _ B _ _ ht, TreeRelFs.iso _ B _ _ htf,
      fun a ha b hb he => hrs.sig_inj (hkeys a ha) (hkeys b hb) he,
      fun v hv => hrs.sig_name (hkeys v hv), fun v hv => (hio v hv).2,
      fun kv hkv t htc => by
        obtain ⟨_, _, hc⟩ := hco kv hkv
        obtain ⟨t', h1, _, h3, h4⟩ := hc t htc
        exact ⟨t', h1, h3, h4⟩⟩, ?_, ?_⟩, hdi, hq'⟩
    · intro v hv
      rw [(hm v hv).2]
      exact normM_eq _ (hwf v).1
    · intro v hv
      rw [(hq v hv).2]
      cases hqv : w.ext.quant v with
      | none => rfl
      | some ps =>
        simp only [normQ, Option.map_some]
        rw [ss_rt ps ((hwf v).2 ps hqv).1]
  · exact .inl ⟨e, he⟩

/-- **C03_ext_certificate_decidable**: the hypothesis `ReloadableE` of `C03_roundtrip_ext_graph` (and with it the
    hypothesis `Reloadable` of `C03_roundtrip_reloadable` for the core) has a decision procedure: `reloadableEB`
    (`Model/ScopeCert.lean`: the scope discipline re-run with Boolean checks) is sound for every extended model whose
    extension state is blank above the allocation counter — which holds by construction of the worlds the driver builds
    from the real IR.  The driver evaluates `reloadableEB` on every generated IR model (scope.eser: counter
    hyp_reloadable_ext) and on every deserialized model (scope.edeser: counter ext_certificate_holds, where
    `deserializeE_reloadableE` says it must hold). -/
theorem C03_ext_certificate_decidable (w : WorldE) (h : reloadableEB w = true) (hf : ExtFresh w.st w.ext) :
    ReloadableE w ∧ Reloadable w.core := by
  have := reloadableEB_sound w h hf
  exact ⟨this, this.1⟩

/-! ### purity over the write sites of serde.py (`Model/ScopeEff.lean`) -/

/-- **C03_pure_sites**: `to_proto` modelled at the granularity of the attribute assignments that serde.py's
    `serialize_*` functions perform on IR objects.  `Effect` is a vocabulary in which EVERY observable slot of the
    extended IR model can be written (value name / info / const_value / metadata_props / quantization annotation,
    tensor name / payload, node device configurations) and `Effect.apply` implements all of them, so an impure
    serializer is expressible; `writeSites` is the list of (object kind, attribute) pairs at which the code assigns
    (one: `value.const_value.name = value.name`), recomputed from the AST of the imported `onnx_ir.serde` by
    `harness/c03.py` on every run and compared with this list.
    Statement: the effects that the extended serializer logs (nested graphs included), replayed on the heap,
    give exactly the heap `serializeE` returns; every one of them is at a site of `writeSites`; and every one is
    the assignment `tensor.name := value.name` for an initializer `value` (of some graph of the model) whose
    `const_value` is that tensor.  What is NOT by construction here: the log is a list of generic effects, and
    that none of them is a write to a value, a node or the extension state is proved from the serializer
    (`serGraphE_writes`), not read off a type.  What still rests on the deep-snapshot oracle: that the real
    functions have no effect through calls the AST scan does not see (it sees assignments, augmented assignments,
    `del` and calls of mutating container methods on objects that are not protos or locals). -/
theorem C03_pure_sites (ver : Option Int) (w w1 : WorldE) (p : GraphE) (h : serializeE ver w = .ok (w1, p)) :
    ∃ es : List Effect, serializeEff ver w = .ok (es, p) ∧ runEffects es w = w1 ∧
      (∀ e ∈ es, e.site ∈ writeSites) ∧
      (∀ e ∈ es, ∃ kv ∈ allInitsG w.root, (w.st.vals kv.2).const = some e.id ∧
        e.val = Payload.optName (w.st.vals kv.2).name) := by
  simp only [serializeE] at h
  split at h
  · simp at h
  · rename_i q ws hs
    simp only [Except.ok.injEq, Prod.mk.injEq] at h
    obtain ⟨rfl, rfl⟩ := h
    refine ⟨ws.map nameWrite, by simp only [serializeEff, hs], ?_, ?_, ?_⟩
    · obtain ⟨st, x, g⟩ := w
      exact runEffects_nameWrites ws st x g
    · intro e he
      simp only [List.mem_map] at he
      obtain ⟨tn, _, rfl⟩ := he
      simp [nameWrite, Effect.site, writeSites]
    · intro e he
      simp only [List.mem_map] at he
      obtain ⟨tn, htn, rfl⟩ := he
      obtain ⟨kv, hkv, hc, hname⟩ := serGraphE_writes _ _ _ _ _ _ _ hs tn htn
      exact ⟨kv, hkv, hc, by simp [nameWrite, hname]⟩

/-- **C03_pure_frame**: the frame of the write sites, for EVERY heap and EVERY log of effects (not only the logs
    the model's serializer produces): if every effect of the log is at a site of `writeSites`, replaying the log
    leaves the graph tree, every value cell (name, type / shape / doc, const_value, producer, uses, ownership),
    the extension state (merged metadata, quantization annotations, device configurations), the allocation
    counters and every tensor's payload / dtype / shape as they were, and a tensor that no effect of the log
    names keeps its name too.  Together with `C03_pure_sites` this is `C03_pure_ext` with the by-construction
    part replaced by a statement about the log; a new write site in serde.py (reported by the AST scan) needs
    a new entry in `writeSites`, and this theorem then has to be proved again for the longer list. -/
theorem C03_pure_frame (es : List Effect) (w : WorldE) (hs : ∀ e ∈ es, e.site ∈ writeSites) :
    (runEffects es w).root = w.root ∧ (runEffects es w).ext = w.ext ∧ (runEffects es w).st.vals = w.st.vals ∧
    (runEffects es w).st.nv = w.st.nv ∧ (runEffects es w).st.nt = w.st.nt ∧ (runEffects es w).st.nn = w.st.nn ∧
    (runEffects es w).st.ng = w.st.ng ∧
    (∀ t, ((runEffects es w).st.tens t).data = (w.st.tens t).data ∧
      ((runEffects es w).st.tens t).ty = (w.st.tens t).ty ∧ ((runEffects es w).st.tens t).sh = (w.st.tens t).sh) ∧
    (∀ t, (∀ e ∈ es, e.id ≠ t) → (runEffects es w).st.tens t = w.st.tens t) := by
  obtain ⟨f, g⟩ := runEffects_frame es w hs
  exact ⟨f.root, f.ext, f.vals, f.nv, f.nt, f.nn, f.ng, f.payload, g⟩


/-! ### non-vacuity -/

/-- an IR model with an input `x`, an initializer `w`, node `A(x, w, None) -> y, ""` (trailing
    empty-named output) whose attribute graph captures `y` and `t` from the outer graph, and node
    `B(y) -> t` placed AFTER `A` although `A`'s subgraph uses `t` (not topologically sorted);
    `y` is shared by `B` and the subgraph; `r` has no type or shape. -/
def exampleWorld : World :=
  let cells : List ValueS := [
    { name := some "x", info := { ty := some "f32", sh := some "[2]" }, isIn := true, graph := some 1 },
    { name := some "w", info := { ty := some "f32", sh := some "[2]" }, const := some 0, isInit := true,
      graph := some 1 },
    { name := some "y", info := { ty := some "f32" }, producer := some 1, index := some 0, isOut := true,
      graph := some 1 },
    { name := some "", producer := some 1, index := some 1 },
    { name := some "t", producer := some 2, index := some 0, isOut := true, graph := some 1 },
    { name := some "r", producer := some 0, index := some 0, isOut := true, graph := some 0 } ]
  { st := { vals := fun i => cells.getD i {}, nv := 6,
            tens := fun _ => { name := none, data := "d0", ty := "f32", sh := "[2]" }, nt := 1, nn := 3, ng := 2 },
    root := .mk 1 [0] [("w", 1)]
      [ .mk 1 (some 1) [some 0, some 1, none] [2, 3]
          [ .mk 0 [] [] [ .mk 0 (some 0) [some 2, some 4] [5] [] ] [5] ],
        .mk 2 (some 1) [some 2] [4] [] ]
      [2, 4] }

example : Serializable exampleWorld := serializableB_sound _ (by decide +kernel)

/-- a world that is not serializable: two values named `a` in one scope -/
example : serializableB ⟨{ vals := fun _ => { name := some "a" }, nv := 2 }, .mk 0 [0, 1] [] [] []⟩ = false := by
  decide +kernel

/-- the hypotheses of `C03_twice` / `C03_pure` are satisfiable: the example serializes -/
example : ∃ w1 p, serialize exampleWorld = .ok (w1, p) := by
  obtain ⟨w1, p, _, _, h, _⟩ := C03_roundtrip exampleWorld (serializableB_sound _ (by decide +kernel))
  exact ⟨w1, p, h⟩

/-- IR-side decorations with dicts in insertion order: the hypothesis of `C03_meta_roundtrip` holds … -/
def exampleDecoS : ModelDS := deserModelD (exampleDeco 10)

example : wfModelDB exampleDecoS = true ∧ isOkB (serModelD exampleDecoS) = true := by decide +kernel

/-- … and excludes a dict with a repeated key -/
example : wfModelDB { exampleDecoS with mprops := [("a", "1"), ("a", "2")] } = false := by decide +kernel

/-- the hypothesis of `C03_pure_ext` is satisfiable (below IR version 11 the device configurations are not
    written) and serialization does raise: at IR version 11 the sharding spec without a value is refused -/
example : (match deserializeE exampleExt with
    | .ok w => isOkB (serializeE (some 10) w) && !isOkB (serializeE (some 11) w)
    | .error _ => false) = true := by decide +kernel

/-- the vocabulary of `Model/ScopeEff.lean` does express impure writes: renaming a value is an effect, it is not
    at a write site of serde.py (the hypothesis of `C03_pure_frame` excludes it), and it changes the heap -/
example : (⟨.value, 0, "name", .optName (some "renamed")⟩ : Effect).site ∉ writeSites ∧
    (((⟨.value, 0, "name", .optName (some "renamed")⟩ : Effect).apply ⟨{}, {}, default⟩).st.vals 0).name = some "renamed" := by
  refine ⟨by decide, ?_⟩
  simp [Effect.apply, Store.modify]

/-- the hypotheses of `C03_pure_sites` are satisfiable with a non-empty log: a graph with an initializer -/
example : (match deserializeE (.mk [] [⟨"w", "d0", "f32", "[2]"⟩] [] [] [] []) with
    | .ok w => (match serializeEff none w with | .ok (es, _) => es.length | .error _ => 0)
    | .error _ => 0) = 1 := by decide +kernel

/-- the hypothesis of `C03_roundtrip_ext_graph` is satisfiable (a deserialized extended model with merged metadata,
    annotations, a placeholder and device configurations) and the second alternative occurs at IR version 10 -/
example : ∃ w, deserializeE exampleExt = .ok w ∧ ReloadableE w ∧ isOkB (serializeE (some 10) w) = true := by
  have h : (match deserializeE exampleExt with
    | .ok w => isOkB (serializeE (some 10) w)
    | .error _ => false) = true := by decide +kernel
  split at h
  · next w hw => exact ⟨w, hw, deserializeE_reloadableE _ _ hw, h⟩
  · exact absurd h (by simp)


/-! ### the attribute layer (`Model/ScopeAttr.lean`, theorems `C03_attr_*` in `Lemmas/ScopeAttrProps.lean`) -/

/-- **C03_roundtrip_attrs**: `C03_roundtrip_decorated` and `C03_attr_roundtrip` together, for an IR model with
    its decorations and its NODE ATTRIBUTES: serialization raises in the decorations or in the attributes, or
    the reloaded model is isomorphic to the original in its core (`IsoM`), carries the canonical form of its
    decorations, and carries the attributes of the original — same names in the same order, types, payload
    tokens, reference names, graphs at the same places; identical when no attribute doc_string is `""`.
    Hypotheses: `ReloadableM` (core), `wfModelDB`, `wfModelAB` (dicts with distinct keys; reference attributes
    with a non-empty name and a type that exists) — all decidable and evaluated on every generated model. -/
theorem C03_roundtrip_attrs (w : YWorld) (h : ReloadableM w.x.core) (hw : wfModelDB w.x.deco = true)
    (ha : wfModelAB w.attrs = true) :
    (∃ e, serializeY w = .error (.x (.deco e))) ∨ (∃ e, serializeY w = .error (.attr e)) ∨
    ∃ (w1 : YWorld) (P : YModelP) (D : YWorld) (σ : Nat → Nat),
      serializeY w = .ok (w1, P) ∧ deserializeY P = .ok D ∧ IsoM w.x.core D.x.core σ ∧
      D.x.deco = canonModelD w.x.deco ∧ D.attrs = canonModelA w.attrs ∧
      (normModelAB w.attrs = true → D.attrs = w.attrs) := by
  rcases C03_roundtrip_decorated w.x h hw with ⟨e, he⟩ | ⟨w1, P, D, σ, h1, h2, h3, h4⟩
  · exact .inl ⟨e, by simp only [serializeY, he]⟩
  · cases hq : serModelA w.attrs with
    | error e => exact .inr (.inl ⟨e, by simp only [serializeY, h1, hq]⟩)
    | ok Qa =>
      obtain ⟨r1, _, _⟩ := C03_attr_roundtrip w.attrs Qa ha hq
      exact .inr (.inr ⟨⟨w1, w.attrs⟩, ⟨P, Qa⟩, ⟨D, canonModelA w.attrs⟩, σ, by simp only [serializeY, h1, hq],
        by simp only [deserializeY, h2, r1], h3, h4, rfl, fun hn => canonModelA_id w.attrs hn⟩)

end IrVerif.Scope

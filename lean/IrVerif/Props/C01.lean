/-
C01 — use-def and ownership links stay consistent under every edit history.
Model: `IrVerif/Model/Kernel.lean`; invariant `WF` (six clauses, `IrVerif/Lemmas/KernelBase.lean`,
`KernelOps.lean`) and the per-primitive / per-operation lemmas: `IrVerif/Lemmas/Kernel*.lean`.

Round 3 (deepening): the alphabet `Op` / `ConvOp` over which `C01_step`, `C01_step_conv`, `C01_history`,
`C01_mutation_faithful` (and `C06_atomic`) quantify now also contains `Node.name =`, `Node.op_type =`,
`Value.const_value = None`, `list.sort(key=, reverse=)` of the tracked lists, every edit of a node's attribute
dict (`attrSet` / `attrDel` / `attrClear`, attributes being model state: `C01_attr_frame`), `Graph.sort` decided
by the model itself through C12's sort model (`Op.sort`, `C01_sort_step`, `Lemmas/KernelSort.lean`), and the
composites `Tape.initializer` and `Builder.<Op>(…)`.  Which public members of /repo map to which operation is
the table `API_TABLE` in `harness/kernel_ops.py`, compared with the introspected classes on every run.

Round 4: `C01_sort_exact` / `C01_sort_accepted_iff` (an accepted sort leaves every graph of the nest with EXACTLY the
entry C12's sort model returned; acceptance criterion), and `GraphView` (`Model/KernelView.lean`: views next to the
kernel world; `C01_view_frame`, `C01_views_erasable`, `C01_history_views`).
-/
import IrVerif.Lemmas.KernelOps
import IrVerif.Lemmas.KernelSeq
import IrVerif.Lemmas.KernelFaithful
import IrVerif.Lemmas.KernelSort
import IrVerif.Model.KernelView
namespace IrVerif.Kernel

/-- the empty world is well formed -/
theorem C01_init : WF World.empty := WF_empty

/-- **C01_step**: every operation of the alphabet preserves the invariant — for every argument
(also invalid ones) and whatever the outcome (`ok` or `raised`). -/
theorem C01_step (w : World) (op : Op) (h : WF w) : WF (step w op).1 := step_WF w op h

/-- **C01_mutation_faithful**: on a well-formed world no call of the alphabet ever reaches a failing
check inside its mutation phase: once the up-front validation has passed, every guarded primitive
(`setInput`, `attachOutput`, `detachLast`, `ioInsert`, `ioRemoveAt`, `initPut`, `initDel`, `nodeLink`,
`nodeUnlink`, the naming steps) takes its effect branch — the model's mutation is the sequence of the
Python's unguarded writes.  `late` counts the checks that fail after a write; `guardOp` turns a moved
`late` into a raise that keeps the partially written world (so `C01_step` also covers such states, and
`C06_atomic` is this theorem's corollary). -/
theorem C01_mutation_faithful (w : World) (hw : WF w) (op : Op) : (step w op).1.late = w.late :=
  step_late w hw op

/-- the composite `rename_values` as well -/
theorem C01_rename_faithful (w : World) (hw : WF w) (vs : List Nat) (names : List String) :
    (renameValues w vs names).1.late = w.late := renameValues_late w hw vs names

/-- **C01_step_conv**: the composite calls (`convenience.replace_all_uses_with`, `rename_values`,
`replace_nodes_and_values`) preserve the invariant as well — including the intermediate state they
leave behind when one of their sub-calls raises. -/
theorem C01_step_conv (w : World) (op : ConvOp) (h : WF w) : WF (stepConv w op).1 := stepConv_WF w op h

/-- single and composite calls together -/
theorem C01_step_any (w : World) (op : AnyOp) (h : WF w) : WF (stepAny w op).1 := stepAny_WF w op h

/-- **C01_history**: the invariant holds after every finite history of calls. -/
theorem C01_history (ops : List AnyOp) : WF (runAny ops) := by
  unfold runAny
  exact foldl_inv WF _ (fun a b ha => C01_step_any a b ha) ops _ C01_init

/-- the same from any well-formed starting point -/
theorem C01_history_from (w : World) (ops : List AnyOp) (h : WF w) :
    WF (ops.foldl (fun w o => (stepAny w o).1) w) :=
  foldl_inv WF _ (fun a b ha => C01_step_any a b ha) ops _ h

/-! ### attribute edits and `Graph.sort` (deepening round 3)

Node attributes are part of the model state (`NodeS.attrs`: every key in dict order with the graphs its
attribute holds).  No `Graph` / `Attr` object carries a back pointer to the node that holds it
(`_core.py` `Graph.__slots__`, `Attr.__slots__`; `Attributes._owner` points from the dict to its node, which is
the direction the model has), so no ownership link depends on attributes — proved, not assumed:
`C01_attr_frame`.  What does depend on them is the traversal `Graph.sort` performs; `Op.sort g` reads the
object tree off the world (`treeOf`) and lets C12's `sortModel` decide. -/

/-- **C01_attr_frame**: every edit of a node's attribute dict (`attributes[k] = a`, `add`, `update`, `setdefault`,
`del`, `pop`, `clear`, and the dict a new node is created with) changes at most the attribute dicts: all value
records, all graph records, every other field of every node, the tensor names and the name authority are what
they were — and such a change keeps the invariant in both directions. -/
theorem C01_attr_frame (w : World) (n : Nat) (key : String) (gs : List Nat) (strict : Bool)
    (as : List (String × List Nat)) :
    AttrFrame w (step w (.attrSet n key gs)).1 ∧ AttrFrame w (step w (.attrDel n key strict)).1 ∧
    AttrFrame w (step w (.attrClear n)).1 ∧ AttrFrame w (setAttrs w n as) ∧
    (∀ w', AttrFrame w w' → (WF w' ↔ WF w)) :=
  ⟨guardOp_attrFrame _ _ _ _ (setAttrs_attrFrame _ _ _), guardOp_attrFrame _ _ _ _ (setAttrs_attrFrame _ _ _),
   guardOp_attrFrame _ _ _ _ (setAttrs_attrFrame _ _ _), setAttrs_attrFrame _ _ _, fun _ h => h.wf_iff⟩

/-- **C01_sort_step**: `C01_step` for the real sort.  `Op.sort g` builds the object tree
`RecursiveGraphIterator` walks from the world itself (`treeOf`: node sequences, producers of node inputs,
graph-valued attributes in dict order) and runs C12's `Sort.sortModel` on it.  The tree is tied to the world
(every graph of the nest is listed with exactly the node sequence the world records), so by `C12_perm` — under
C12's well-formedness of the tree: distinct node ids and graph ids, i.e. no `Graph` object reachable through two
attributes — every order the sort model returns is a permutation of that graph's current sequence: the
permutation guard of `sortOk` ("some permutation", a model totalisation) is never what rejects, the call is
rejected exactly by a cycle / shared graph (`sortModel = none`) or by the naming probe, and the invariant is
preserved. -/
theorem C01_sort_step (w : World) (g : Nat) (hw : WF w) (ht : Sort.WF (treeOf w g)) :
    WF (step w (.sort g)).1 ∧
    (∀ h ∈ Sort.allGraphs (treeOf w g), h.2.map Sort.MNode.id = (w.gr h.1).nodes) ∧
    (∀ r, Sort.sortModel (treeOf w g) = some r →
      (∀ p ∈ r, p.2.Perm (w.gr p.1).nodes) ∧
      sortBad w r = r.any (fun p => !p.2.all (nodeAcceptable w p.1)) ∧
      (step w (.sort g)).1 = (step w (.sortOk r)).1) ∧
    (Sort.sortModel (treeOf w g) = none → step w (.sort g) = (w, .raised "ValueError")) := by
  refine ⟨step_WF w _ hw, treeOf_tied w g, ?_, ?_⟩
  · intro r hr
    refine ⟨sortModel_perm_world w g ht r hr, sortBad_of_sortModel w g ht r hr, ?_⟩
    simp only [step, graphSort, hr, guardOp]
    split <;> rfl
  · intro hn
    simp only [step, graphSort, hn]

/-- **C01_sort_exact** (round 4; the stronger sort statement, until now only compared on every run): after an
ACCEPTED `Graph.sort` / `Function.sort` — under the hypotheses of `C01_sort_step` — the sort model returned a list `r`
with exactly one entry per graph of the nest (in the order `RecursiveGraphIterator` meets them), and afterwards the
node sequence of every graph of the nest EQUALS its entry (not just some permutation the code supplied), every graph
outside the nest keeps its node sequence, and every node names the graph it named before.  Composes `C12_perm` (each
entry is a permutation of the graph's current sequence; distinct graph ids) with `C12_relink` (`extend` with a
permutation of the present nodes leaves that permutation) and the frame of the re-linking loop (`sortApply_exact`:
re-extending one graph touches no other graph's sequence and keeps the later entries acceptable). -/
theorem C01_sort_exact (w : World) (g : Nat) (hw : WF w) (ht : Sort.WF (treeOf w g))
    (hok : (step w (.sort g)).2 = .ok) :
    ∃ r, Sort.sortModel (treeOf w g) = some r ∧
      r.map Prod.fst = (Sort.allGraphs (treeOf w g)).map Prod.fst ∧
      (∀ p ∈ r, ((step w (.sort g)).1.gr p.1).nodes = p.2) ∧
      (∀ h, h ∉ r.map Prod.fst → ((step w (.sort g)).1.gr h).nodes = (w.gr h).nodes) ∧
      (∀ n, ((step w (.sort g)).1.node n).graph = (w.node n).graph) := by
  cases hr : Sort.sortModel (treeOf w g) with
  | none =>
    have := (C01_sort_step w g hw ht).2.2.2 hr
    rw [this] at hok; cases hok
  | some r =>
    have hids := sortModel_graph_ids _ ht r hr
    have hbad : sortBad w r = false := by
      cases hb : sortBad w r with
      | false => rfl
      | true =>
        simp only [step, graphSort, hr, guardOp, hb, if_true] at hok
        cases hok
    have hfst : (step w (.sort g)).1 = sortApply w r := by
      simp only [step, graphSort, hr]
      exact guardOp_fst _ _ _ _ hbad
    have hall : ∀ p ∈ r, p.2.isPerm (w.gr p.1).nodes = true ∧ p.2.all (nodeAcceptable w p.1) = true := by
      intro p hp
      have := List.any_eq_false.1 hbad p hp
      simpa using this
    have hnd : (r.map Prod.fst).Nodup := by rw [hids]; exact ht.gids
    obtain ⟨e1, e2, e3⟩ := sortApply_exact r w hw hnd (fun p hp => List.isPerm_iff.1 (hall p hp).1)
      (fun p hp n hn => List.all_eq_true.1 (hall p hp).2 n hn)
    rw [hfst]
    exact ⟨r, rfl, hids, e1, e2, e3.graph⟩

/-- **C01_sort_accepted_iff**: on a well-formed world `sort` is accepted exactly when the sort model returns an order
(no cycle, no shared graph) and no node of the nest fails the naming probe — `C01_mutation_faithful` rules out the third
way the model can raise (a check failing after a write). -/
theorem C01_sort_accepted_iff (w : World) (g : Nat) (hw : WF w) :
    (step w (.sort g)).2 = .ok ↔ ∃ r, Sort.sortModel (treeOf w g) = some r ∧ sortBad w r = false := by
  have hl := C01_mutation_faithful w hw (.sort g)
  cases hr : Sort.sortModel (treeOf w g) with
  | none => simp [step, graphSort, hr]
  | some r =>
    simp only [step, graphSort, hr] at hl ⊢
    cases hb : sortBad w r with
    | true => simp [guardOp, hb]
    | false =>
      have h1 : (guardOp false "ValueError|AttributeError" w (sortApply w r)).1 = sortApply w r :=
        guardOp_fst _ _ _ _ rfl
      rw [hb, h1] at hl
      simp [guardOp, hl, hb]

/-! non-vacuity of `C01_sort_step` / `C01_attr_frame`: a child graph `g0 = [b, a]` (out of order) held by an
attribute of `o ∈ g1`; `sort` on `g1` re-orders the child.  With the same graph held by two attributes the
hypothesis fails (and the library raises). -/

def exSortHistory : List Op :=
  [ .newValue (some "x"),                                                    -- v0
    .newNode "Id" (some "a") [some 0] none none none,                     -- n0 -> v1
    .newNode "Id" (some "b") [some 1] none none none,                     -- n1 -> v2
    .newGraph [] [] [1, 0] [],                                               -- g0 = [b, a]
    .newNodeAttrs "If" (some "o") [] none none none [("then", [0])],              -- n2 -> v3
    .newGraph [] [] [2] [] ]                                                 -- g1 = [o]

example : treeOf (run exSortHistory) 1 =
    (1, [.mk 2 [] [(0, [.mk 1 [some 0] [], .mk 0 [none] []])]]) := by rfl
example : Sort.WF (treeOf (run exSortHistory) 1) := ⟨by decide, by decide⟩
example : Sort.sortModel (treeOf (run exSortHistory) 1) = some [(1, [2]), (0, [0, 1])] := by decide
example : ((step (run exSortHistory) (.sort 1)).1.gr 0).nodes = [0, 1] ∧
    (step (run exSortHistory) (.sort 1)).2 = .ok := by decide
/-- `C01_sort_exact` on the example: the accepted sort leaves every graph of the nest with exactly its entry -/
example : (step (run exSortHistory) (.sort 1)).2 = .ok ∧
    ((step (run exSortHistory) (.sort 1)).1.gr 1).nodes = [2] ∧
    ((step (run exSortHistory) (.sort 1)).1.gr 0).nodes = [0, 1] := by decide
/-- the hypothesis can fail: the child held by two attributes of the same node -/
example : ¬ Sort.WF (treeOf (step (run exSortHistory) (.attrSet 2 "else" [0])).1 1) := fun h => by
  have := h.ids; revert this; decide
example : (step (step (run exSortHistory) (.attrSet 2 "else" [0])).1 (.sort 1)).2 = .raised "ValueError" := by decide
/-- attribute edits do change the model state (they are not no-ops), only not what `WF` reads -/
example : (step (run exSortHistory) (.attrDel 2 "then" true)).1 ≠ run exSortHistory ∧
    (step (run exSortHistory) (.attrDel 2 "zz" true)).2 = .raised "KeyError" := by decide

/-! ### `GraphView` (round 4)

A `GraphView` stores plain tuples and a plain dict (`Model/KernelView.lean`); the views live next to the kernel world.
The model of a view operation is compared with the real `GraphView` on every run (content of the view, and the deep
snapshot of every value / node / graph before vs after the call: `view-frame`). -/

theorem viewStep_w (vw : VWorld) (op : ViewOp) : (viewStep vw op).1.w = vw.w := by
  cases op <;> simp only [viewStep, onView] <;> (repeat' split) <;> rfl

/-- **C01_view_frame**: creating a view (also a rejected creation), re-assigning its slots, editing its plain
initializer dict and dropping it return the WHOLE kernel world they were given — no value, node or graph record, no
reference counter, no name-authority state changes, a fortiori no field the invariant reads; conversely a kernel call
returns the views it was given (a view lists object ids, it holds no copy of a record). -/
theorem C01_view_frame (vw : VWorld) :
    (∀ op : ViewOp, (vstep vw (.view op)).1.w = vw.w) ∧
    (∀ op : AnyOp, (vstep vw (.kernel op)).1.views = vw.views ∧ (vstep vw (.kernel op)).1.w = (stepAny vw.w op).1 ∧
      (vstep vw (.kernel op)).2 = (stepAny vw.w op).2) :=
  ⟨fun op => viewStep_w vw op, fun _ => ⟨rfl, rfl, rfl⟩⟩

/-- **C01_views_erasable**: the kernel world after a history in which view operations are interleaved with the
editing calls is the kernel world of the same history with the view operations erased: no view operation, whatever
its arguments and outcome, has any influence on the IR state — now or later. -/
theorem C01_views_erasable (ops : List VOp) : (runV ops).w = runAny (kernelOps ops) := by
  unfold runV runAny
  suffices ∀ (s : VWorld) (w : World), s.w = w →
      (ops.foldl (fun s o => (vstep s o).1) s).w = (kernelOps ops).foldl (fun w o => (stepAny w o).1) w from
    this {} World.empty rfl
  induction ops with
  | nil => intro s w e; exact e
  | cons o ops ih =>
    intro s w e
    cases o with
    | kernel op => exact ih _ _ (by subst e; rfl)
    | view op => exact ih _ _ (by rw [← e]; exact viewStep_w s op)

/-- **C01_history_views**: the invariant holds after every finite history of editing calls and view operations -/
theorem C01_history_views (ops : List VOp) : WF (runV ops).w := by
  rw [C01_views_erasable]; exact C01_history _

/-! ### what `WF` says, spelled out on the accessors (so that the statement can be read off) -/

/-- a value lists `(n, i)` as a use exactly when node `n` holds it at input index `i` -/
theorem C01_use_iff (w : World) (h : WF w) (v n i : Nat) :
    (n, i) ∈ (w.val v).uses ↔ (w.node n).inputs[i]? = some (some v) := h.use.1 v n i

theorem C01_uses_nodup (w : World) (h : WF w) (v : Nat) : (w.val v).uses.Nodup := h.use.2 v

/-- every node output names that node and position as its producer, and conversely -/
theorem C01_producer_iff (w : World) (h : WF w) (n i v : Nat) :
    (w.node n).outputs[i]? = some v ↔
      ((w.val v).producer = some n ∧ (w.val v).index = some (i : Int)) := h.prod.1 n i v

/-- a node names a graph exactly when that graph's node sequence contains it — once -/
theorem C01_node_iff (w : World) (h : WF w) (n g : Nat) :
    (w.node n).graph = some g ↔ n ∈ (w.gr g).nodes := h.node.mem n g

theorem C01_nodes_nodup (w : World) (h : WF w) (g : Nat) : (w.gr g).nodes.Nodup := h.node.nodup g

/-- a value reports being an input of a graph exactly when it is in that graph's input list -/
theorem C01_input_iff (w : World) (h : WF w) (g v : Nat) :
    v ∈ (w.gr g).inputs ↔ ((w.val v).isIn = true ∧ (w.val v).graph = some g) := by
  constructor
  · exact h.own.io_mem .inp g v
  · rintro ⟨hf, hg⟩
    obtain ⟨g', hg', hm⟩ := h.own.io_flag .inp v hf
    rw [hg] at hg'; cases hg'; exact hm

theorem C01_output_iff (w : World) (h : WF w) (g v : Nat) :
    v ∈ (w.gr g).outputs ↔ ((w.val v).isOut = true ∧ (w.val v).graph = some g) := by
  constructor
  · exact h.own.io_mem .out g v
  · rintro ⟨hf, hg⟩
    obtain ⟨g', hg', hm⟩ := h.own.io_flag .out v hf
    rw [hg] at hg'; cases hg'; exact hm

/-- a value is an initializer of a graph exactly when the graph stores it — under its current name -/
theorem C01_initializer_iff (w : World) (h : WF w) (g v : Nat) :
    (∃ key, (key, v) ∈ (w.gr g).inits) ↔ ((w.val v).isInit = true ∧ (w.val v).graph = some g) := by
  constructor
  · rintro ⟨key, hm⟩; exact h.own.init_mem g key v hm
  · rintro ⟨hf, hg⟩
    obtain ⟨g', key, hg', hm⟩ := h.own.init_flag v hf
    rw [hg] at hg'; cases hg'; exact ⟨key, hm⟩

theorem C01_initializer_key (w : World) (h : WF w) (g : Nat) (key : String) (v : Nat)
    (hm : (key, v) ∈ (w.gr g).inits) : (w.val v).name = some key := (h.key.name g key v hm).1

/-- graph inputs and initializers have no producing node -/
theorem C01_roots (w : World) (h : WF w) (v : Nat)
    (hv : (w.val v).isIn = true ∨ (w.val v).isInit = true) : (w.val v).producer = none := h.root v hv

/-- the reference counters equal the multiplicities (values listed several times) -/
theorem C01_counters (w : World) (h : WF w) (g v : Nat) :
    lget (w.gr g).inCnt v = (w.gr g).inputs.count v ∧ lget (w.gr g).outCnt v = (w.gr g).outputs.count v :=
  ⟨h.own.cnt .inp g v, h.own.cnt .out g v⟩

/-! ### the node sequence at pointer level (tie to C11)

The kernel keeps a graph's node sequence as a duplicate-free list and edits it with `linkAfter` /
`erase` (`seqApply` = these edits as a function of the operation).  `Model/LinkedSet.lean` is the
pointer-faithful model of `_linked_list.py`; C11 proves that it refines an abstract list machine. -/

/-- **C01_node_sequence_refined**: for every pointer-level state satisfying C11's representation
invariant and every node-sequence operation (`append`, `extend`, `insert_after`, `insert_before`,
`remove`, with arbitrary arguments — present, absent, repeated, the anchor itself: "already
present ⇒ moved", "same as the anchor ⇒ no-op"), the sequence read off the pointer structure after
the operation is the kernel's list function applied to the sequence read off before, and the
operation raises exactly when the kernel's function rejects. -/
theorem C01_node_sequence_refined {s : LinkedSet.LSet} (h : LinkedSet.WF s) (op : LinkedSet.Op) :
    LinkedSet.toList (LinkedSet.apply s op).1 = (seqApply (LinkedSet.toList s) op).1 ∧
    (LinkedSet.apply s op).2 = (seqApply (LinkedSet.toList s) op).2 := by
  obtain ⟨h1, h2⟩ := LinkedSet.C11_rep_toList h op
  obtain ⟨e1, e2⟩ := seqApply_eq_spec (LinkedSet.toList s) (toList_nodup h) op
  exact ⟨h1.trans e1, h2.trans e2⟩

/-- the same along any history of node-sequence operations, starting from the empty container -/
theorem C01_node_sequence_history (ops : List LinkedSet.Op) :
    LinkedSet.toList (ops.foldl (fun s o => (LinkedSet.apply s o).1) LinkedSet.empty) =
      ops.foldl (fun l o => (seqApply l o).1) [] := by
  suffices ∀ (s : LinkedSet.LSet) (l : List Nat), LinkedSet.WF s → LinkedSet.toList s = l →
      LinkedSet.toList (ops.foldl (fun s o => (LinkedSet.apply s o).1) s) =
        ops.foldl (fun l o => (seqApply l o).1) l from
    this _ _ LinkedSet.C11_rep_empty.1 LinkedSet.C11_rep_empty.2
  induction ops with
  | nil => intro s l _ e; exact e
  | cons o ops ih =>
    intro s l hs e
    subst e
    exact ih _ _ (LinkedSet.C11_rep_step hs o) (C01_node_sequence_refined hs o).1

/-- **C01_graph_calls_use_seq**: `seqApply` is what the kernel's graph calls do to
`(w.gr g).nodes` whenever they are not rejected (names are assigned on the way, which does not touch
the sequence) — so `I_node`, proved of the abstract list, holds of the pointer-level container that
simulates it step by step. -/
theorem C01_graph_calls_use_seq (w : World) (hw : WF w) (g : Nat) :
    (∀ n, nodeAcceptable w g n = true →
      ((graphAppend w g n).1.gr g).nodes = (seqApply (w.gr g).nodes (.append n)).1) ∧
    (∀ ns, ns.all (nodeAcceptable w g) = true →
      ((graphExtend w g ns).1.gr g).nodes = (seqApply (w.gr g).nodes (.extend ns)).1) ∧
    (∀ a ns, (w.node a).graph = some g → ns.all (nodeAcceptable w g) = true →
      ((graphInsertAfter w g a ns).1.gr g).nodes = (seqApply (w.gr g).nodes (.insertAfter a ns)).1) ∧
    (∀ a ns, (w.node a).graph = some g → ns.all (nodeAcceptable w g) = true →
      ((graphInsertBefore w g a ns).1.gr g).nodes = (seqApply (w.gr g).nodes (.insertBefore a ns)).1) ∧
    (∀ n, (w.node n).graph = some g →
      ((graphRemove w g [n] false).1.gr g).nodes = (seqApply (w.gr g).nodes (.remove n)).1) :=
  ⟨fun n h => nodes_graphAppend w g n h, fun ns h => nodes_graphExtend w g ns h,
   fun a ns ha h => nodes_graphInsertAfter w hw.node g a ns ha h,
   fun a ns ha h => nodes_graphInsertBefore w hw.node g a ns ha h,
   fun n h => nodes_graphRemove_one w hw.node g n h⟩

example : (seqApply [1, 2, 3] (.insertBefore 2 [3, 2, 1])).1 = [3, 2, 1] := by decide
example : (seqApply [1, 2, 3] (.append 1)).1 = [2, 3, 1] ∧ (seqApply [1, 2, 3] (.remove 7)).2 = false := by decide

/-! ### non-vacuity: a reachable two-graph world with a value that is input + output + initializer
and listed twice -/

def exHistory : List Op :=
  [ .newValue (some "x"),
    .newValue (some "w"),
    .newNode "Add" (some "n0") [some 0, some 0, none] (some 2) none none,
    .newGraph [1, 1] [1] [] [1],
    .newGraph [] [] [] [],
    .append 0 0,
    .setName 2 (some "y"),
    .replaceInput 0 2 (some 1) ]

example : (run exHistory).val 1 =
    { name := some "w", uses := [(0, 2)], graph := some 0, isIn := true, isOut := true, isInit := true } := by
  decide
example : ((run exHistory).gr 0).inputs = [1, 1] ∧ ((run exHistory).gr 0).inits = [("w", 1)] ∧
    ((run exHistory).gr 0).nodes = [0] := by decide
example : (step (run exHistory) (.io 1 .inp (.append 1))).2 = .raised "ValueError" := by decide

/-! non-vacuity of the `GraphView` theorems -/

/-- non-vacuity: a view that lists `w` (an initializer and input of `g0`) as its OUTPUT and `x` (free) as input and
initializer `"x"`; nothing about `w` / `x` changed, and the view's own dict takes any value under any key -/
def exViewHistory : List VOp :=
  exHistory.map (fun o => VOp.kernel (.one o)) ++
    [ .kernel (.one (.newValue none)),                                      -- v4: no name
      .view (.newView [0] [1] [0] [0]), .view (.initPut 0 "zz" 2), .view (.newView [] [] [] [4]) ]

example : (runV exViewHistory).views =
    [{ inputs := [0], outputs := [1], inits := [("x", 0), ("zz", 2)], nodes := [0] }] := by decide
example : (runV exViewHistory).w = (step (run exHistory) (.newValue none)).1 := by decide
example : ((runV exViewHistory).w.val 1).isOut = true ∧ ((runV exViewHistory).w.val 0).isIn = false ∧
    ((runV exViewHistory).w.val 0).graph = none := by decide
/-- an initializer without a name is refused (`ValueError`) -/
example : (vstep (runV exViewHistory) (.view (.newView [] [] [] [4]))).2 = .raised "ValueError" := by decide

end IrVerif.Kernel

/-
C01 — use-def and ownership links stay consistent under every edit history.
Model: `IrVerif/Model/Kernel.lean`; invariant `WF` and the per-operation lemmas: `IrVerif/Lemmas/Kernel*.lean`.
-/
import IrVerif.Lemmas.KernelOps
namespace IrVerif.Kernel

/-- the empty world is well formed -/
theorem C01_init : WF World.empty := WF_empty

/-- **C01_step**: every operation of the alphabet preserves the invariant — for every argument
(also invalid ones) and whatever the outcome (`ok` or `raised`). -/
theorem C01_step (w : World) (op : Op) (h : WF w) : WF (step w op).1 := step_WF w op h

/-- **C01_history**: the invariant holds after every finite history of operations. -/
theorem C01_history (ops : List Op) : WF (run ops) := by
  unfold run
  exact foldl_inv WF _ (fun a b ha => C01_step a b ha) ops _ C01_init

/-- the same from any well-formed starting point -/
theorem C01_history_from (w : World) (ops : List Op) (h : WF w) :
    WF (ops.foldl (fun w o => (step w o).1) w) :=
  foldl_inv WF _ (fun a b ha => C01_step a b ha) ops _ h

/-! ### what `WF` says, spelled out on the accessors (so that the statement can be read off) -/

theorem C01_use_iff (w : World) (h : WF w) (v n i : Nat) :
    (n, i) ∈ (w.val v).uses ↔ (w.node n).inputs[i]? = some (some v) := h.use.1 v n i

theorem C01_uses_nodup (w : World) (h : WF w) (v : Nat) : (w.val v).uses.Nodup := h.use.2 v

theorem C01_producer_iff (w : World) (h : WF w) (n i v : Nat) :
    (w.node n).outputs[i]? = some v ↔
      ((w.val v).producer = some n ∧ (w.val v).index = some (i : Int)) := h.prod.1 n i v

/-! ### non-vacuity: a reachable world with a shared value, a repeated input and two outputs -/

def exHistory : List Op :=
  [ .newValue (some "x"),
    .newNode "Add" none [some 0, some 0, none] (some 2) none,
    .newNode "Neg" none [some 1] none none,
    .replaceInput 1 0 (some 2),
    .resizeOutputs 0 1 ]

example : (run exHistory).val 0 =
    { name := some "x", uses := [(0, 0), (0, 1)] } := by decide
example : ((run exHistory).node 1).inputs = [some 2] := by decide
example : (step (run exHistory) (.resizeOutputs 0 0)).2 = .raised "ValueError" := by decide

end IrVerif.Kernel

/-
C01 — use-def and ownership links stay consistent under every edit history.
Model: `IrVerif/Model/Kernel.lean`; invariant `WF` (six clauses, `IrVerif/Lemmas/KernelBase.lean`,
`KernelOps.lean`) and the per-primitive / per-operation lemmas: `IrVerif/Lemmas/Kernel*.lean`.
-/
import IrVerif.Lemmas.KernelOps
namespace IrVerif.Kernel

/-- the empty world is well formed -/
theorem C01_init : WF World.empty := WF_empty

/-- **C01_step**: every operation of the alphabet preserves the invariant — for every argument
(also invalid ones) and whatever the outcome (`ok` or `raised`). -/
theorem C01_step (w : World) (op : Op) (h : WF w) : WF (step w op).1 := step_WF w op h

/-- **C01_step_conv**: the composite calls (`convenience.replace_all_uses_with`, `rename_values`,
`replace_nodes_and_values`) preserve the invariant as well — including the intermediate state they
leave behind when one of their sub-calls raises. -/
theorem C01_step_conv (w : World) (op : ConvOp) (h : WF w) : WF (stepConv w op).1 := stepConv_WF w op h

/-- single and composite calls together -/
theorem C01_step_any (w : World) (op : AnyOp) (h : WF w) : WF (stepAny w op).1 := stepAny_WF w op h

/-- **C01_history**: the invariant holds after every finite history of calls. -/
theorem C01_history (ops : List AnyOp) : WF (runAny ops) := by
  unfold runAny
  exact foldl_inv WF _ (fun a b ha => C01_step_any a b ha) ops _ C01_init

/-- the same from any well-formed starting point -/
theorem C01_history_from (w : World) (ops : List AnyOp) (h : WF w) :
    WF (ops.foldl (fun w o => (stepAny w o).1) w) :=
  foldl_inv WF _ (fun a b ha => C01_step_any a b ha) ops _ h

/-! ### what `WF` says, spelled out on the accessors (so that the statement can be read off) -/

/-- a value lists `(n, i)` as a use exactly when node `n` holds it at input index `i` -/
theorem C01_use_iff (w : World) (h : WF w) (v n i : Nat) :
    (n, i) ∈ (w.val v).uses ↔ (w.node n).inputs[i]? = some (some v) := h.use.1 v n i

theorem C01_uses_nodup (w : World) (h : WF w) (v : Nat) : (w.val v).uses.Nodup := h.use.2 v

/-- every node output names that node and position as its producer, and conversely -/
theorem C01_producer_iff (w : World) (h : WF w) (n i v : Nat) :
    (w.node n).outputs[i]? = some v ↔
      ((w.val v).producer = some n ∧ (w.val v).index = some (i : Int)) := h.prod.1 n i v

/-- a node names a graph exactly when that graph's node sequence contains it — once -/
theorem C01_node_iff (w : World) (h : WF w) (n g : Nat) :
    (w.node n).graph = some g ↔ n ∈ (w.gr g).nodes := h.node.mem n g

theorem C01_nodes_nodup (w : World) (h : WF w) (g : Nat) : (w.gr g).nodes.Nodup := h.node.nodup g

/-- a value reports being an input of a graph exactly when it is in that graph's input list -/
theorem C01_input_iff (w : World) (h : WF w) (g v : Nat) :
    v ∈ (w.gr g).inputs ↔ ((w.val v).isIn = true ∧ (w.val v).graph = some g) := by
  constructor
  · exact h.own.io_mem .inp g v
  · rintro ⟨hf, hg⟩
    obtain ⟨g', hg', hm⟩ := h.own.io_flag .inp v hf
    rw [hg] at hg'; cases hg'; exact hm

theorem C01_output_iff (w : World) (h : WF w) (g v : Nat) :
    v ∈ (w.gr g).outputs ↔ ((w.val v).isOut = true ∧ (w.val v).graph = some g) := by
  constructor
  · exact h.own.io_mem .out g v
  · rintro ⟨hf, hg⟩
    obtain ⟨g', hg', hm⟩ := h.own.io_flag .out v hf
    rw [hg] at hg'; cases hg'; exact hm

/-- a value is an initializer of a graph exactly when the graph stores it — under its current name -/
theorem C01_initializer_iff (w : World) (h : WF w) (g v : Nat) :
    (∃ key, (key, v) ∈ (w.gr g).inits) ↔ ((w.val v).isInit = true ∧ (w.val v).graph = some g) := by
  constructor
  · rintro ⟨key, hm⟩; exact h.own.init_mem g key v hm
  · rintro ⟨hf, hg⟩
    obtain ⟨g', key, hg', hm⟩ := h.own.init_flag v hf
    rw [hg] at hg'; cases hg'; exact ⟨key, hm⟩

theorem C01_initializer_key (w : World) (h : WF w) (g : Nat) (key : String) (v : Nat)
    (hm : (key, v) ∈ (w.gr g).inits) : (w.val v).name = some key := (h.key.name g key v hm).1

/-- graph inputs and initializers have no producing node -/
theorem C01_roots (w : World) (h : WF w) (v : Nat)
    (hv : (w.val v).isIn = true ∨ (w.val v).isInit = true) : (w.val v).producer = none := h.root v hv

/-- the reference counters equal the multiplicities (values listed several times) -/
theorem C01_counters (w : World) (h : WF w) (g v : Nat) :
    lget (w.gr g).inCnt v = (w.gr g).inputs.count v ∧ lget (w.gr g).outCnt v = (w.gr g).outputs.count v :=
  ⟨h.own.cnt .inp g v, h.own.cnt .out g v⟩

/-! ### non-vacuity: a reachable two-graph world with a value that is input + output + initializer
and listed twice -/

def exHistory : List Op :=
  [ .newValue (some "x"),
    .newValue (some "w"),
    .newNode "Add" (some "n0") [some 0, some 0, none] (some 2) none none,
    .newGraph [1, 1] [1] [] [1],
    .newGraph [] [] [] [],
    .append 0 0,
    .setName 2 (some "y"),
    .replaceInput 0 2 (some 1) ]

example : (run exHistory).val 1 =
    { name := some "w", uses := [(0, 2)], graph := some 0, isIn := true, isOut := true, isInit := true } := by
  decide
example : ((run exHistory).gr 0).inputs = [1, 1] ∧ ((run exHistory).gr 0).inits = [("w", 1)] ∧
    ((run exHistory).gr 0).nodes = [0] := by decide
example : (step (run exHistory) (.io 1 .inp (.append 1))).2 = .raised "ValueError" := by decide

end IrVerif.Kernel

/-
C11 — graph iteration stays well defined while the graph is edited: property theorems about the
pointer-faithful model `Model/LinkedSet.lean` (helper developments: `Lemmas/LinkedSet*.lean`).
-/
import IrVerif.Lemmas.LinkedSetIter
namespace IrVerif.LinkedSet

/-- The representation invariant: there is a list `bs` of live boxes such that `Inv s bs`
(one prev/next cycle through the root, index map and length agree, tombstones ordered). -/
def WF (s : LSet) : Prop := ∃ bs, Inv s bs

theorem erase_map_mid {f : Nat → Nat} (l1 l2 : List Nat) (n v : Nat) (hf : f n = v)
    (hv : v ∉ l1.map f) : ((l1 ++ n :: l2).map f).erase v = (l1 ++ l2).map f := by
  rw [List.map_append, List.erase_append]
  simp [hv, hf]

/-- **C11_rep_empty** -/
theorem C11_rep_empty : WF empty ∧ toList empty = [] :=
  ⟨⟨[], inv_empty⟩, by rw [inv_empty.toList_eq]; rfl⟩

/-- **C11_rep_remove**: `remove` preserves the invariant; it returns normally exactly when the
value is present, then the sequence is the old one with that value erased; otherwise it raises
and nothing at all is written. -/
theorem C11_rep_remove {s : LSet} (h : WF s) (v : Nat) :
    WF (remove s v).1 ∧ toList (remove s v).1 = (toList s).erase v ∧
      ((remove s v).2 = true ↔ v ∈ toList s) ∧ (v ∉ toList s → (remove s v).1 = s) := by
  obtain ⟨bs, hi⟩ := h
  by_cases hm : v ∈ toList s
  · obtain ⟨n, hn, hvn⟩ := (hi.mem_toList v).1 hm
    obtain ⟨l1, l2, rfl⟩ := List.append_of_mem hn
    rw [hi.remove_eq hn hvn]
    have hi' := inv_rmv hi hvn
    refine ⟨⟨_, hi'⟩, ?_, by simp [hm], fun h => absurd hm h⟩
    rw [hi'.toList_eq, hi.toList_eq]
    have hnd := hi.nodup
    have e : ∀ b ∈ l1 ++ l2, vl (rmv s n v) b = vl s b := by
      intro b hb
      have hbn : b ≠ n := by grind
      show (val (er s n) b).getD 0 = _
      rw [val_er]; simp [hbn, vl]
    rw [List.map_congr_left e]
    have hvn' : vl s n = v := by simp [vl, hvn]
    have := hi.vals_nodup
    rw [erase_map_mid l1 l2 n v hvn']
    rw [List.map_append, List.nodup_append] at this
    intro hc
    exact this.2.2 v hc v (by simp [hvn']) rfl
  · have habs : ∀ b ∈ bs, val s b ≠ some v := fun b hb hv => hm ((hi.mem_toList v).2 ⟨b, hb, hv⟩)
    rw [hi.remove_absent habs]
    refine ⟨⟨bs, hi⟩, ?_, by simp [hm], fun _ => rfl⟩
    rw [List.erase_of_not_mem hm]

/-- **C11_rep_insertOneAfter**: inserting after the root or a live box preserves the invariant,
never raises, and returns a live box holding the value. -/
theorem C11_rep_insertOneAfter {s : LSet} (h : WF s) (b v : Nat)
    (hb : b = 0 ∨ (val s b).isSome) :
    WF (insertOneAfter s b v).1 ∧
      ∃ b', (insertOneAfter s b v).2 = some b' ∧ val (insertOneAfter s b v).1 b' = some v := by
  obtain ⟨bs, hi⟩ := h
  have hn : IsNode bs b := by
    rcases hb with hb | hb
    · exact Or.inl hb
    · right
      apply Classical.byContradiction
      intro hc
      rw [hi.dead b hc] at hb; simp at hb
  obtain ⟨bs', b', he, hi', _, hv, _⟩ := inv_insertOneAfter hi hn v
  exact ⟨⟨bs', hi'⟩, b', by rw [he], hv⟩

-- non-vacuity: the invariant holds on a state with a tombstone (box 2 erased) and a moved value
example : invOk (apply (apply (apply empty (.extend [7, 8, 9])).1 (.remove 8)).1 (.append 7)).1 = true := by
  decide

end IrVerif.LinkedSet

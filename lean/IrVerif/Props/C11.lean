/-
C11 — graph iteration stays well defined while the graph is edited.

Property theorems about the pointer-faithful model `Model/LinkedSet.lean` of
`src/onnx_ir/_linked_list.py` (boxes with prev/next/value, root box, id->box dict, length;
generators as cursors).  Helper developments: `Lemmas/LinkedSet*.lean`.

Structure of the result:
* `C11_rep_*`        the representation invariant `WF` holds initially and after every operation
                     of every history;
* `C11_refine_*`     the structure *with any cursor parked anywhere in it* refines the abstract
                     list-with-gaps machine `Spec`: sequence, every cursor, every `next()`;
* `C11_terminates`, `C11_only_members`, `C11_getitem_len_contains`, `C11_tombstone_*`;
* `C11_spec_*`       the English clauses, proved on the abstract machine (pure list facts);
* `C11_rec_*`, `C11_trav_*`  the recursive iterator: the coarse model (all attributes of a node read at
                     once) and the fine one (lazy reads, attribute edits).  Round 4: the acyclicity
                     predicates are complete (`C11_*_acyclic_complete`, `C11_rec_static_complete`); the
                     two models agree while attributes are not edited (`C11_trav_refines_rec*`,
                     `C11_trav_rec_same_spec`); under tree shape every node of the nest is yielded
                     exactly once (`C11_trav_nodup`) and, with edits of node sequences, nothing outside
                     the touched part is yielded twice (`C11_trav_untouched_once`,
                     `C11_trav_never_twice`); the public methods of `node.attributes` are sequences of
                     the two primitive edits (`C11_trav_meth_reduces`, `C11_trav_meth_history`).

How the English clauses reach the pointer structure.  `C11_refine_step` is an *equation*: for every
operation (any arguments: present / absent / repeated values, the anchor itself, several elements)
and every cursor, `abs (apply s op).1 d c = (Spec.apply (abs s d c) op).1`; `C11_refine_rest` says
`rest s d c = Spec.rest` of that abstraction.  So whatever is proved about `Spec.apply` — whose
public operations are by definition sequences of the two primitive events `removeIdx` /
`insertIdx` of `C11_spec_rest_remove` / `C11_spec_rest_insert` (a present value is removed first,
multi-element inserts are one primitive pair per element) — holds verbatim for `apply`/`rest`.
Stated directly on `apply`/`rest`/`toList` are: `C11_untouched_step` and
`C11_untouched_exactly_once_in_order` (all operations, all argument shapes), `C11_resume_current`
(the current node is removed or moved anywhere, by any operation), `C11_next_rest`.  The
"inserted after is seen / before is skipped" clause is stated on the primitive insert
(`C11_spec_rest_insert`, `Spec.seen`) and transfers through `C11_refine_step`; it is not restated
per public operation.
-/
import IrVerif.Lemmas.LinkedSetWF
import IrVerif.Lemmas.LinkedSetRec
import IrVerif.Lemmas.LinkedSetTree
import IrVerif.Lemmas.TraversalRun
import IrVerif.Lemmas.LinkedSetSlice
import IrVerif.Lemmas.TraversalLocal
import IrVerif.Lemmas.LinkedSetCycle
import IrVerif.Lemmas.TraversalRefine
import IrVerif.Lemmas.TraversalTree
import IrVerif.Lemmas.TraversalMeth
import IrVerif.Lemmas.TraversalUntouched
import IrVerif.Lemmas.TraversalStatic
namespace IrVerif.LinkedSet

/-! ### representation invariant -/

/-- **C11_rep_empty** -/
theorem C11_rep_empty : WF empty ∧ toList empty = [] :=
  ⟨⟨[], inv_empty⟩, by rw [inv_empty.toList_eq]; rfl⟩

/-- **C11_rep_step**: every public operation (`append extend insert_after insert_before remove`,
with arbitrary arguments: present, absent, repeated, the anchor itself) preserves the invariant,
whether it returns or raises. -/
theorem C11_rep_step {s : LSet} (h : WF s) (op : Op) : WF (apply s op).1 := by
  obtain ⟨bs, hi⟩ := h
  obtain ⟨bs', hi', _⟩ := sim_apply hi op .fwd .notStarted (by simpa [Cursor.pos] using hi.size_pos)
  exact ⟨bs', hi'⟩

/-- **C11_rep_history**: the invariant holds after every finite history. -/
theorem C11_rep_history (ops : List Op) : WF (ops.foldl (fun s o => (apply s o).1) empty) := by
  suffices ∀ s, WF s → WF (ops.foldl (fun s o => (apply s o).1) s) from this _ C11_rep_empty.1
  induction ops with
  | nil => intro s h; exact h
  | cons o ops ih => intro s h; exact ih _ (C11_rep_step h o)

/-! ### refinement to the list with gaps -/

/-- **C11_refine_step**: one public operation on the pointer structure is the same operation on
the abstract machine — for the sequence (`toList`), for the outcome (returned / raised) and for
*every* cursor, wherever it is parked (on a live box, on an erased box, not started, finished).
Cursors are transformed independently of each other: the statement holds for all `d`, `c`
simultaneously. -/
theorem C11_refine_step {s : LSet} (h : WF s) (op : Op) (d : Dir) (c : Cursor) (hc : c.Valid s) :
    abs (apply s op).1 d c = (Spec.apply (abs s d c) op).1 ∧
    (apply s op).2 = (Spec.apply (abs s d c) op).2 ∧
    c.Valid (apply s op).1 := by
  obtain ⟨bs, hi⟩ := h
  obtain ⟨bs', hi', hs, ho, hsz⟩ := sim_apply hi op d c hc
  rw [abs_eq hi', abs_eq hi]
  exact ⟨hs, ho, Nat.lt_of_lt_of_le hc hsz⟩

/-- **C11_rep_toList** (the refinement the IR kernel of C01 relies on): the effect of every
operation on the sequence is the abstract list operation (`append` = move-to-end; `insert_after` /
`insert_before` = insert after the anchor / its predecessor, removing a present value first;
`remove`), and it raises exactly when the abstract operation does. -/
theorem C11_rep_toList {s : LSet} (h : WF s) (op : Op) :
    toList (apply s op).1 = (Spec.apply ⟨toList s, .fwd, .done⟩ op).1.L ∧
    (apply s op).2 = (Spec.apply ⟨toList s, .fwd, .done⟩ op).2 := by
  obtain ⟨bs, hi⟩ := h
  have hc : Cursor.done.Valid s := by simpa [Cursor.Valid, Cursor.pos] using hi.size_pos
  obtain ⟨r1, r2, _⟩ := C11_refine_step ⟨bs, hi⟩ op .fwd .done hc
  have e : abs s .fwd .done = ⟨toList s, .fwd, .done⟩ := by
    simp [abs, absCur]
  rw [e] at r1 r2
  exact ⟨by rw [← r1]; rfl, r2⟩

/-- **C11_refine_next**: one `next()` on a generator is one `Spec.step`: same element (or
StopIteration), and the new concrete cursor abstracts to the new abstract cursor. -/
theorem C11_refine_next {s : LSet} (h : WF s) (d : Dir) (c : Cursor) (hc : c.Valid s) :
    abs s d (iterNext s d c).1 = (Spec.step (abs s d c)).1 ∧
    (iterNext s d c).2 = (match (Spec.step (abs s d c)).2 with
      | some v => Res.yield v
      | none => Res.stop) ∧
    (iterNext s d c).1.Valid s := by
  obtain ⟨bs, hi⟩ := h
  have := hi.next_eq d c hc
  simp only at this
  obtain ⟨h1, h2, h3⟩ := this
  rw [abs_eq hi, abs_eq hi]
  refine ⟨?_, ?_, h2⟩
  · simp only [absSt, Spec.step, h1]
  · simp only [absSt, Spec.step]
    revert h3
    cases (Spec.next (bs.map (vl s)) d (acur s bs d c)).2 <;> exact id

/-- **C11_refine_start**: `iter()` / `reversed()` create the abstract start cursor. -/
theorem C11_refine_start {s : LSet} (h : WF s) (d : Dir) :
    absCur s d .notStarted = Spec.start (toList s) d := by
  obtain ⟨bs, hi⟩ := h
  rw [hi.absCur_eq, hi.toList_eq]
  cases d <;> simp [acur, Cursor.pos, posR, posF, Spec.start, List.idxOf_eq_length hi.zero_notin]

/-- **C11_refine_rest**: what a cursor would still yield is what its abstraction still yields:
a suffix of the sequence (forward) or the reverse of a prefix (reverse). -/
theorem C11_refine_rest {s : LSet} (h : WF s) (d : Dir) (c : Cursor) (hc : c.Valid s) :
    rest s d c = Spec.rest (toList s) d (absCur s d c) := by
  obtain ⟨bs, hi⟩ := h
  rw [hi.absCur_eq, hi.toList_eq]
  exact (hi.rest_eq d c hc).1

/-! ### termination, membership, indexing -/

/-- **C11_terminates**: in any reachable state, with no further edits, every generator —
wherever it is parked — runs to StopIteration: no `RuntimeError` (the `owning_list` check cannot
fire), no `next()` needs more than `size + 1` hops, and at most `len` further elements are
yielded. -/
theorem C11_terminates {s : LSet} (h : WF s) (d : Dir) (c : Cursor) (hc : c.Valid s) :
    (drain s d (size s + 1) c).2 = .stop ∧ (rest s d c).length ≤ s.length ∧
    ((iterNext s d c).2 = .stop ∨ ∃ v, (iterNext s d c).2 = .yield v) := by
  obtain ⟨bs, hi⟩ := h
  obtain ⟨h1, h2⟩ := hi.rest_eq d c hc
  refine ⟨h2, ?_, hi.iterNext_ok d c hc⟩
  rw [h1, hi.len]
  generalize acur s bs d c = a
  cases d <;> cases a <;> simp [Spec.rest] <;> omega

/-- **C11_only_members**: whatever a generator yields is an element of the sequence at that
moment (and the generator is then parked on that element's live box). -/
theorem C11_only_members {s : LSet} (h : WF s) (d : Dir) (c c' : Cursor) (v : Nat) (hc : c.Valid s)
    (hy : iterNext s d c = (c', .yield v)) : v ∈ toList s ∧ c'.Valid s := by
  obtain ⟨bs, hi⟩ := h
  obtain ⟨t, ht, rfl, hv⟩ := hi.iterNext_yield d hc hy
  exact ⟨(hi.mem_toList v).2 ⟨t, ht, hv⟩, (hi.live t ht).2.1⟩

theorem iterNth_links {s : LSet} {bs : List Nat} (h : Inv s bs) (d : Dir) :
    ∀ (n : Nat) (l : List Nat) (c : Cursor), c ≠ .done →
      HopLinks s d (c.pos :: l ++ [0]) → (∀ y ∈ l, y ∈ bs) →
      iterNth s d n c = (l.map (vl s))[n]?
  | n, [], c, hc, hl, _ => by
      simp only [List.cons_append, List.nil_append, HopLinks_cons2] at hl
      cases n <;> simp [iterNth, iterNext_of_pos s d c hc, hl.1, scan_root]
  | 0, y :: l, c, hc, hl, hm => by
      simp only [List.cons_append, HopLinks_cons2] at hl
      simp [iterNth, iterNext_of_pos s d c hc, hl.1, scan_node h d (size s) y (hm y (by simp))]
  | n + 1, y :: l, c, hc, hl, hm => by
      simp only [List.cons_append, HopLinks_cons2] at hl
      have ih := iterNth_links h d n l (.at y) (by simp) (by simpa [Cursor.pos] using hl.2)
        (fun z hz => hm z (by simp [hz]))
      simp [iterNth, iterNext_of_pos s d c hc, hl.1, scan_node h d (size s) y (hm y (by simp)), ih]

/-- **C11_getitem_len_contains**: `len`, `x[i]` for every integer `i` (negative from the end,
out of range raises) and `in` describe the current sequence. -/
theorem C11_getitem_len_contains {s : LSet} (h : WF s) :
    len s = some (toList s).length ∧
    (∀ i : Int, getItem s i =
      if 0 ≤ i ∧ i < (toList s).length then (toList s)[i.toNat]?
      else if -((toList s).length : Int) ≤ i ∧ i < 0 then (toList s)[(i + (toList s).length).toNat]?
      else none) ∧
    (∀ v, contains s v = true ↔ v ∈ toList s) ∧
    toListRev s = (toList s).reverse := by
  obtain ⟨bs, hi⟩ := h
  have hL := hi.toList_eq
  have hn : (toList s).length = s.length := by rw [hL, hi.len]; simp
  refine ⟨?_, ?_, ?_, ?_⟩
  · simp [len, hi.ilen, hi.len, hL]
  · intro i
    unfold getItem
    rw [hn]
    have hf : ∀ n, iterNth s .fwd n .notStarted = (toList s)[n]? := by
      intro n
      rw [hL]
      exact iterNth_links hi .fwd n bs .notStarted (by simp)
        (by simpa [Cursor.pos, seqD] using hi.hopLinks .fwd) (fun _ hy => hy)
    have hr : ∀ n, iterNth s .rev n .notStarted = (toList s).reverse[n]? := by
      intro n
      rw [hL, ← List.map_reverse]
      exact iterNth_links hi .rev n bs.reverse .notStarted (by simp)
        (by simpa [Cursor.pos, seqD] using hi.hopLinks .rev) (fun _ hy => by simpa using hy)
    by_cases h1 : i ≥ (s.length : Int) ∨ i < -(s.length : Int)
    · simp only [h1, if_true]
      have : ¬ (0 ≤ i ∧ i < (s.length : Int)) := by omega
      have : ¬ (-(s.length : Int) ≤ i ∧ i < 0) := by omega
      simp [*]
    · simp only [h1, if_false]
      by_cases h2 : i < 0
      · have : ¬ (0 ≤ i ∧ i < (s.length : Int)) := by omega
        have h3 : -(s.length : Int) ≤ i ∧ i < 0 := by omega
        simp only [h2, if_true, this, if_false, h3, hr]
        rw [List.getElem?_reverse (by rw [hn]; omega)]
        congr 1
        rw [hn]; omega
      · have h3 : 0 ≤ i ∧ i < (s.length : Int) := by omega
        simp only [h2, if_false, h3, hf]
        simp
  · intro v; simp [contains]
  · rw [hi.toListRev_eq, hL]


/-! ### slices -/

/-- **C11_getslice**: `x[start:stop:step]` (any combination of missing, negative and out-of-range
bounds, any step) is `tuple(x)[start:stop:step]` of the current sequence: it raises exactly for step
0, and otherwise is `[L[a + j * k] | j < cnt]` where `(a, k, cnt)` is `slice.indices(len(x))` with
its count - every selected position lies inside the sequence, nothing is dropped or repeated. -/
theorem C11_getslice {s : LSet} (h : WF s) (st sp step : Option Int) :
    getSlice s st sp step = pySlice (toList s) st sp step ∧
    len s = some (toList s).length ∧
    (getSlice s st sp step = none ↔ step = some 0) ∧
    ∀ a k cnt, sliceIndices (toList s).length st sp step = some (a, k, cnt) →
      ∃ res, getSlice s st sp step = some res ∧ res.length = cnt ∧
        ∀ j, j < cnt → res[j]? = (toList s)[(a + j * k).toNat]? ∧ (a + j * k).toNat < (toList s).length :=
  ⟨rfl, (C11_getitem_len_contains h).1, (pySlice_spec (toList s) st sp step).1,
    (pySlice_spec (toList s) st sp step).2⟩

/-! ### tombstones -/

/-- **C11_tombstone_frozen**: an erased box is never written again, by any operation (so a
generator parked on it keeps reading the pointers the box had when it was erased). -/
theorem C11_tombstone_frozen {s : LSet} (h : WF s) (op : Op) (b : Nat) (hb0 : b ≠ 0)
    (hb : b < size s) (hv : val s b = none) : box (apply s op).1 b = box s b := by
  obtain ⟨bs, hi⟩ := h
  exact (frozen_apply hi op).2 b hb0 hb hv

/-- **C11_tombstone_order**: the stored `next` / `prev` of an erased box is the root, a live box,
or a box erased strictly later (ghost erase stamps) — the well-founded order behind
`C11_terminates`. -/
theorem C11_tombstone_order {s : LSet} (h : WF s) (b : Nat) (hb0 : b ≠ 0) (hb : b < size s)
    (hv : val s b = none) :
    (nx s b = 0 ∨ (val s (nx s b)).isSome ∨ stp s b < stp s (nx s b)) ∧
    (pv s b = 0 ∨ (val s (pv s b)).isSome ∨ stp s b < stp s (pv s b)) ∧
    nx s b < size s ∧ pv s b < size s := by
  obtain ⟨bs, hi⟩ := h
  have hbs : b ∉ bs := by
    intro hm; have := (hi.live b hm).2.2; rw [hv] at this; simp at this
  obtain ⟨t1, t2⟩ := hi.tomb b hb hb0 hbs
  have hbd := hi.bound b hb
  refine ⟨?_, ?_, hbd.1, hbd.2.1⟩
  · rcases t1 with t | t | t
    · exact Or.inl t
    · exact Or.inr (Or.inl (hi.live _ t).2.2)
    · exact Or.inr (Or.inr t)
  · rcases t2 with t | t | t
    · exact Or.inl t
    · exact Or.inr (Or.inl (hi.live _ t).2.2)
    · exact Or.inr (Or.inr t)

/-! ### the English clauses -/

theorem abs_ok {s : LSet} (h : WF s) (d : Dir) (c : Cursor) (hc : c.Valid s) : (abs s d c).OK := by
  obtain ⟨bs, hi⟩ := h
  rw [abs_eq hi]
  exact ⟨hi.vals_nodup, acur_inRange hi d c hc⟩

/-- **C11_next_rest**: a `next()` yields the first element of what the generator had left and
leaves the remainder; StopIteration exactly when nothing is left. -/
theorem C11_next_rest {s : LSet} (h : WF s) (d : Dir) (c : Cursor) (hc : c.Valid s) :
    rest s d c = match (iterNext s d c).2 with
      | .yield v => v :: rest s d (iterNext s d c).1
      | _ => [] := by
  obtain ⟨n1, n2, n3⟩ := C11_refine_next h d c hc
  have ok := abs_ok h d c hc
  have hr := Spec.rest_next (toList s) d (absCur s d c) ok.inRange
  rw [C11_refine_rest h d c hc, hr]
  have e : (Spec.step (abs s d c)).2 = (Spec.next (toList s) d (absCur s d c)).2 := rfl
  rw [e] at n2
  cases hv : (Spec.next (toList s) d (absCur s d c)).2 with
  | none => rw [hv] at n2; simp only [n2]
  | some v =>
    rw [hv] at n2
    simp only [n2]
    rw [C11_refine_rest h d _ n3]
    have : absCur s d (iterNext s d c).1 = (Spec.next (toList s) d (absCur s d c)).1 := by
      have := congrArg Spec.St.c n1
      simpa [abs, Spec.step] using this
    rw [this]

/-- **C11_untouched_step**: an edit leaves every element it does not touch (insert / move /
remove) where it was in what *any* generator still has to yield: same multiplicity, same order. -/
theorem C11_untouched_step {s : LSet} (h : WF s) (op : Op) (d : Dir) (c : Cursor) (hc : c.Valid s) :
    untouched (touched op) (rest (apply s op).1 d c) = untouched (touched op) (rest s d c) := by
  obtain ⟨r1, _, r3⟩ := C11_refine_step h op d c hc
  have ok := abs_ok h d c hc
  obtain ⟨_, u⟩ := Spec.apply_spec ok op
  rw [C11_refine_rest (C11_rep_step h op) d c r3, C11_refine_rest h d c hc]
  have e1 : Spec.rest (toList (apply s op).1) d (absCur (apply s op).1 d c) =
      (Spec.apply (abs s d c) op).1.rest := by
    rw [← r1]; rfl
  rw [e1, u]; rfl

/-- **C11_resume_current**: when the node a generator is parked on is removed or moved — by any
operation that touches only that node: `remove x`, `append x` (move to the end),
`insert_after(a, [x])` / `insert_before(a, [x])` (move next to any anchor) — then, apart from
possibly meeting `x` again at its new place, the generator still yields exactly what followed
`x` at its original place, in the same order. -/
theorem C11_resume_current {s : LSet} (h : WF s) (d : Dir) (b x : Nat) (hb : val s b = some x)
    (hbv : (Cursor.at b).Valid s) (op : Op) (ht : touched op = [x]) :
    untouched [x] (rest (apply s op).1 d (.at b)) = rest s d (.at b) := by
  have u := C11_untouched_step h op d (.at b) hbv
  rw [ht] at u
  rw [u]
  obtain ⟨bs, hi⟩ := h
  have hx := hi.current_not_in_rest d hb
  simp only [untouched]
  apply List.filter_eq_self.2
  intro y hy
  have : y ≠ x := by rintro rfl; exact hx hy
  simpa using this

theorem untouched_append (T l1 l2 : List Nat) :
    untouched T (l1 ++ l2) = untouched T l1 ++ untouched T l2 := by
  simp [untouched]

theorem untouched_mono {T T' l l' : List Nat} (hT : ∀ x ∈ T, x ∈ T')
    (h : untouched T l = untouched T l') : untouched T' l = untouched T' l' := by
  have key : ∀ m : List Nat, untouched T' m = untouched T' (untouched T m) := by
    intro m
    simp only [untouched, List.filter_filter]
    apply List.filter_congr
    intro x _
    by_cases hx : x ∈ T
    · simp [hx, hT x hx]
    · simp [hx]
  rw [key l, key l', h]

/-- **C11_untouched_exactly_once_in_order**: over any history of edits and `next()` calls, what a
generator has yielded followed by what it still has to yield, restricted to the elements no edit
touched, is what it had to yield at the start restricted in the same way.  For a generator
created by `iter()` (`c = notStarted`, `rest = toList`) and run to exhaustion (`rest = []` at the
end) this is: every node present at the start and never touched is yielded exactly once, in
graph order (reversed order for `reversed()`). -/
theorem C11_untouched_exactly_once_in_order (d : Dir) (es : List Ev) :
    ∀ {s : LSet} (_ : WF s) (c : Cursor) (_ : c.Valid s),
      let r := runHist d s c es
      WF r.1 ∧ r.2.1.Valid r.1 ∧
      untouched (touchedRun d s c es) (r.2.2 ++ rest r.1 d r.2.1) =
        untouched (touchedRun d s c es) (rest s d c) := by
  induction es with
  | nil => intro s h c hc; exact ⟨h, hc, by simp [runHist]⟩
  | cons e es ih =>
    intro s h c hc
    cases e with
    | op o =>
      obtain ⟨_, _, r3⟩ := C11_refine_step h o d c hc
      obtain ⟨w, v, u⟩ := ih (C11_rep_step h o) c r3
      refine ⟨w, v, ?_⟩
      simp only [runHist, touchedRun] at u ⊢
      cases hfl : (apply s o).2 with
      | true =>
        simp only [if_true]
        have u1 := untouched_mono (T' := touched o ++ touchedRun d (apply s o).1 c es)
          (fun x hx => by simp [hx]) u
        have u2 := untouched_mono (T' := touched o ++ touchedRun d (apply s o).1 c es)
          (fun x hx => by simp [hx]) (C11_untouched_step h o d c hc)
        rw [u1, u2]
      | false =>
        have e := apply_raised_unchanged h o hfl
        simp only [Bool.false_eq_true, if_false, List.nil_append]
        rw [e] at u ⊢
        exact u
    | next =>
      obtain ⟨n1, n2, n3⟩ := C11_refine_next h d c hc
      have hr := C11_next_rest h d c hc
      obtain ⟨w, v, u⟩ := ih h (iterNext s d c).1 n3
      simp only [touchedRun]
      have n1' : absCur s d (iterNext s d c).1 = (Spec.next (toList s) d (absCur s d c)).1 := by
        have := congrArg Spec.St.c n1
        simpa [abs, Spec.step] using this
      have n2' : (iterNext s d c).2 = (match (Spec.next (toList s) d (absCur s d c)).2 with
          | some v => Res.yield v
          | none => Res.stop) := n2
      cases hres : iterNext s d c with
      | mk c' res =>
        rw [hres] at hr u w v n1' n2' n3
        simp only at hr u w v n1' n2' n3
        cases hv : (Spec.next (toList s) d (absCur s d c)).2 with
        | some x =>
          rw [hv] at n2'
          simp only at n2'
          subst n2'
          simp only [runHist, hres]
          refine ⟨w, v, ?_⟩
          simp only at hr
          rw [hr, List.cons_append]
          simp only [untouched, List.filter_cons] at u ⊢
          rw [u]
        | none =>
          rw [hv] at n2'
          simp only at n2'
          subst n2'
          simp only [runHist, hres]
          refine ⟨w, v, ?_⟩
          simp only at hr
          have hd : absCur s d c' = .done := by rw [n1']; exact Spec.next_none _ _ _ hv
          have hr' : rest s d c' = [] := by
            rw [C11_refine_rest h d c' n3, hd]; cases d <;> rfl
          rw [u, hr, hr']

/-- **C11_spec_rest_remove / insert / resume** (abstract machine, split form `A ++ x :: B`):
removing `x` removes exactly `x` from what every cursor still yields; inserting a new `x` adds at
most `x`, and it is seen exactly when it lands after the cursor's position (`Spec.seen`); a
cursor whose current element is removed continues with the element that followed it. -/
theorem C11_spec_rest_remove (A B : List Nat) (x : Nat) (hnd : (A ++ x :: B).Nodup) (d : Dir)
    (c : Spec.ACur) (hc : c.InRange (A ++ x :: B)) :
    Spec.rest (A ++ B) d (Spec.curRemove d A.length c) = (Spec.rest (A ++ x :: B) d c).erase x :=
  (Spec.rest_removeIdx A B x hnd d c hc).1

theorem C11_spec_rest_insert (A B : List Nat) (x : Nat) (hx : x ∉ A ++ B) (d : Dir) (c : Spec.ACur)
    (hc : c.InRange (A ++ B)) :
    (Spec.rest (A ++ x :: B) d (Spec.curInsert d A.length c)).erase x = Spec.rest (A ++ B) d c ∧
    (x ∈ Spec.rest (A ++ x :: B) d (Spec.curInsert d A.length c) ↔ Spec.seen d A.length c) :=
  ⟨(Spec.rest_insertIdx A B x hx d c hc).1, (Spec.rest_insertIdx A B x hx d c hc).2.2⟩

theorem C11_spec_resume (A B : List Nat) :
    Spec.rest (A ++ B) .fwd (Spec.curRemove .fwd A.length (.att (A.length + 1))) = B ∧
    Spec.rest (A ++ B) .rev (Spec.curRemove .rev A.length (.att A.length)) = A.reverse := by
  simp [Spec.curRemove, Spec.rest]

/-! ### recursive iteration (`traversal.RecursiveGraphIterator`)

`WorldWF w`: every node container satisfies `WF`.  `Ranked w d rk`: the nesting is well founded —
`rk` decreases from a graph to every subgraph entered from one of its nodes ("a graph is not
nested in itself").  `StackOK w d rk st`: every frame's cursor refers to a box of its graph and
the subgraphs it still has to enter have smaller rank; it holds for a fresh iterator and is
preserved by `next()` and by edits of the node sequences (attributes are not edited). -/

/-- **C11_rec_start** -/
theorem C11_rec_start {w : RWorld} (hw : WorldWF w) (d : Dir) (rk : Nat → Nat) (g : Nat) :
    StackOK w d rk (recStart g) := by
  intro fr hfr
  simp only [recStart, List.mem_singleton] at hfr
  subst hfr
  exact frameOK_fresh w d rk g hw

/-- **C11_rec_only_members**: every node a `next()` on the recursive iterator yields is, at that
moment, a member of the graph it is yielded from (the graph whose generator produced it); the
stack stays consistent. -/
theorem C11_rec_only_members {w : RWorld} {d : Dir} {rk : Nat → Nat} (hw : WorldWF w)
    (hr : Ranked w d rk) {st : List RFrame} (ok : StackOK w d rk st) (f : Nat) :
    StackOK w d rk (recNext w d f st).1 ∧
    ∀ g v, Out.yield g v ∈ (recNext w d f st).2.1 → v ∈ toList (w.setOf g) :=
  recNext_ok hw hr f st ok

/-- **C11_rec_terminates**: with no further edits and a well-founded nesting, the recursive
iterator — in any consistent state, however its frames are parked — runs to StopIteration: there
is one output stream `outs` such that the drain returns `(outs, stop)` (never `raised`) for every
step bound `f ≥ 2 * outs.length + st.length + 1`, and every single `next()` with such a bound
returns a yield or StopIteration. -/
theorem C11_rec_terminates {w : RWorld} {d : Dir} {rk : Nat → Nat} (hw : WorldWF w)
    (hr : Ranked w d rk) {st : List RFrame} (ok : StackOK w d rk st) :
    ∃ outs, ∀ f, 2 * outs.length + st.length + 1 ≤ f →
      recDrain w d f st = (outs, .stop) ∧
      ((recNext w d f st).2.2 = .stop ∨ ∃ v, (recNext w d f st).2.2 = .yield v) := by
  obtain ⟨K, hK⟩ := exists_rank_bound rk st
  obtain ⟨outs, hs⟩ := steps_stack hw hr K st ok hK
  obtain ⟨n, hn⟩ := hs.drain_all
  refine ⟨outs, fun f hf => ?_⟩
  have hb := recDrain_bound w d n st outs (hn n (Nat.le_refl _))
  have hf' := recDrain_mono w d hb (by have := lastCount_le st; omega : 2 * outs.length + lastCount st + 1 ≤ f)
  exact ⟨hf', recNext_of_drain w d f st outs hf'⟩

/-- **C11_rec_preorder**: with no edits, a fresh `RecursiveGraphIterator(g)` produces exactly the
pre-order stream `specTop` — `enter g`, then each node of `g` in order (reverse order for
`reverse=True`) immediately followed by the predicate call and, unless it returns False, by the
complete visit of each of its subgraphs in attribute order (`GRAPHS` lists reversed for
`reverse=True`), then `exit g` — within `2 * (length of that stream) + 2` steps. -/
theorem C11_rec_preorder {w : RWorld} {d : Dir} {rk : Nat → Nat} (hw : WorldWF w)
    (hr : Ranked w d rk) (k g : Nat) (hk : rk g ≤ k) :
    ∀ f, 2 * (specTop w d k g).length + 2 ≤ f → recDrain w d f (recStart g) = (specTop w d k g, .stop) := by
  obtain ⟨n, hn⟩ := (steps_top hw hr k g hk).drain_all
  intro f hf
  have hb := recDrain_bound w d n _ _ (hn n (Nat.le_refl _))
  have hl : lastCount (recStart g) ≤ 1 := by
    have := lastCount_le (recStart g)
    simpa [recStart] using this
  exact recDrain_mono w d hb (by omega)

/-- **C11_rec_history**: over any history of `next()` calls and edits of the node sequences of the
graphs (nesting fixed: attributes are not edited; every inserted node belongs to the graph it is
inserted into, `home`), starting from any consistent state (e.g. a fresh iterator,
`C11_rec_start`): every `next()` yields only current members of the graph it yields from, and at
the end the world and the iterator are consistent again and the nesting is still well founded
(`Ranked` is re-established — it follows from the static `StaticRanked` and `Homed`, which edits
preserve), so `C11_rec_terminates` applies to the final state. -/
theorem C11_rec_history (d : Dir) (fuel : Nat) (rk home : Nat → Nat) (es : List REv) (w : RWorld)
    (st : List RFrame) (hw : WorldWF w) (hh : Homed w home) (hs : StaticRanked w d rk home)
    (ok : StackOK w d rk st) (adm : Admissible w.sets.length home es) :
    RecHistInv d fuel rk home w st es :=
  rec_history d fuel rk home es w st hw hh hs ok adm

/-- **C11_rec_refine_step**: an edit of the node sequence of graph `g` keeps the world and every
iterator stack consistent, and every frame parked in `g` — at any depth of any recursive
iterator — follows the list-with-gaps machine (`C11_refine_step` per level); frames of other
graphs are untouched. -/
theorem C11_rec_refine_step {w : RWorld} {d : Dir} {rk : Nat → Nat} (hw : WorldWF w)
    {st : List RFrame} (ok : StackOK w d rk st) (g : Nat) (op : Op) (hg : g < w.sets.length) :
    WorldWF (w.applyAt g op).1 ∧ StackOK (w.applyAt g op).1 d rk st ∧
    ∀ fr ∈ st,
      (fr.g = g → abs ((w.applyAt g op).1.setOf g) d fr.c = (Spec.apply (abs (w.setOf g) d fr.c) op).1) ∧
      (fr.g ≠ g → (w.applyAt g op).1.setOf fr.g = w.setOf fr.g) := by
  have hsame := setOf_applyAt_same w g op hg
  refine ⟨?_, ?_, ?_⟩
  · intro s hs
    simp only [RWorld.applyAt] at hs
    rcases List.mem_or_eq_of_mem_set hs with h | h
    · exact hw s h
    · rw [h]; exact C11_rep_step (hw.setOf g) op
  · intro fr hfr
    have okf := ok fr hfr
    refine ⟨?_, okf.pend, okf.last⟩
    by_cases hfg : fr.g = g
    · rw [hfg, hsame]
      have := (C11_refine_step (hw.setOf g) op d fr.c (by rw [← hfg]; exact okf.valid)).2.2
      exact this
    · rw [setOf_applyAt_other w g fr.g op hfg]; exact okf.valid
  · intro fr hfr
    have okf := ok fr hfr
    refine ⟨?_, fun hne => setOf_applyAt_other w g fr.g op hne⟩
    intro hfg
    rw [hsame]
    exact (C11_refine_step (hw.setOf g) op d fr.c (by rw [← hfg]; exact okf.valid)).1


/-! ### the rank function is derived from a decidable predicate on the nesting

`RWorld.acyclic w d` (Model/LinkedSet.lean, a `Bool`, evaluated by the driver on every generated
case): the height of every graph in the nesting through the present members does not change when
one more level is explored, i.e. no graph is nested in itself.  `RWorld.acyclicStatic w d home`:
the same for the static nesting (subgraphs hanging under the nodes whose home graph is `g`, member
or not), `RWorld.homedOk w home`: every node is a member of its home graph only.  The theorems
below are `C11_rec_terminates` / `C11_rec_preorder` / `C11_rec_history` with the rank function
instantiated by the height and the `Ranked` / `StaticRanked` / `Homed` hypotheses discharged: no
rank function is assumed any more.  A subgraph shared by two nodes does not violate `acyclic`: it
is visited once per attribute position (the `example` below); a graph nested in itself violates it
and the model then never finishes (`C11_rec_selfnest_diverges`). -/

/-- **C11_rec_acyclic_ranked**: the height is a rank function for the current nesting. -/
theorem C11_rec_acyclic_ranked {w : RWorld} {d : Dir} (ha : w.acyclic d = true) :
    Ranked w d (w.hgt d) ∧ ∀ g, w.hgt d g ≤ w.sets.length :=
  ⟨ranked_of_acyclic ha, fun g => hgtG_le _ _ g⟩

/-- **C11_rec_static_ranked**: the same for the static nesting and the home-graph assignment. -/
theorem C11_rec_static_ranked {w : RWorld} {d : Dir} {home : Nat → Nat}
    (ha : w.acyclicStatic d home = true) (hh : w.homedOk home = true) :
    StaticRanked w d (w.shgt d home) home ∧ Homed w home ∧ Ranked w d (w.shgt d home) :=
  ⟨static_ranked_of_acyclic ha, homed_of_ok hh,
    ranked_of_static (homed_of_ok hh) (static_ranked_of_acyclic ha)⟩

/-- **C11_rec_terminates_acyclic** (supersedes `C11_rec_terminates`: no rank function assumed):
when no graph is nested in itself, a fresh recursive iterator on any graph, with no further edits,
runs to StopIteration within the stated number of steps and every `next()` returns a yield or
StopIteration. -/
theorem C11_rec_terminates_acyclic {w : RWorld} {d : Dir} (hw : WorldWF w) (ha : w.acyclic d = true)
    (g : Nat) :
    ∃ outs, ∀ f, 2 * outs.length + 2 ≤ f →
      recDrain w d f (recStart g) = (outs, .stop) ∧
      ((recNext w d f (recStart g)).2.2 = .stop ∨ ∃ v, (recNext w d f (recStart g)).2.2 = .yield v) := by
  obtain ⟨outs, h⟩ := C11_rec_terminates hw (ranked_of_acyclic ha) (C11_rec_start hw d (w.hgt d) g)
  exact ⟨outs, fun f hf => h f (by simpa [recStart] using hf)⟩

/-- the same from any consistent state of the iterator (frames parked anywhere) -/
theorem C11_rec_terminates_acyclic_any {w : RWorld} {d : Dir} (hw : WorldWF w) (ha : w.acyclic d = true)
    {st : List RFrame} (ok : StackOK w d (w.hgt d) st) :
    ∃ outs, ∀ f, 2 * outs.length + st.length + 1 ≤ f →
      recDrain w d f st = (outs, .stop) ∧
      ((recNext w d f st).2.2 = .stop ∨ ∃ v, (recNext w d f st).2.2 = .yield v) :=
  C11_rec_terminates hw (ranked_of_acyclic ha) ok

/-- **C11_rec_preorder_acyclic** (supersedes `C11_rec_preorder`): when no graph is nested in itself,
a fresh iterator with no edits produces exactly the pre-order stream, explored to depth
`number of graphs`. -/
theorem C11_rec_preorder_acyclic {w : RWorld} {d : Dir} (hw : WorldWF w) (ha : w.acyclic d = true)
    (g : Nat) :
    ∀ f, 2 * (specTop w d w.sets.length g).length + 2 ≤ f →
      recDrain w d f (recStart g) = (specTop w d w.sets.length g, .stop) :=
  C11_rec_preorder hw (ranked_of_acyclic ha) w.sets.length g (hgtG_le _ _ g)

/-- **C11_rec_history_acyclic** (supersedes `C11_rec_history`): the hypotheses on the nesting are
the two decidable predicates. -/
theorem C11_rec_history_acyclic (d : Dir) (fuel : Nat) (home : Nat → Nat) (es : List REv) (w : RWorld)
    (st : List RFrame) (hw : WorldWF w) (hh : w.homedOk home = true)
    (ha : w.acyclicStatic d home = true) (ok : StackOK w d (w.shgt d home) st)
    (adm : Admissible w.sets.length home es) :
    RecHistInv d fuel (w.shgt d home) home w st es :=
  C11_rec_history d fuel _ home es w st hw (homed_of_ok hh) (static_ranked_of_acyclic ha) ok adm

/-- a graph nested in itself: graph 0 = [1], node 1 carries graph 0 as an attribute -/
def selfWorld : RWorld := ⟨[(extend empty [1]).1], [(1, [.graph 0])], none⟩

/-- **C11_rec_selfnest_diverges**: on a graph nested in itself the predicate is false and the model
of the iterator never finishes: whatever the step bound, the drain ends by exhausting it (the real
iterator yields the same node again and again until CPython's recursion limit is hit: the harness
observes RecursionError after 332 yields with the default limit). -/
theorem C11_rec_selfnest_diverges :
    selfWorld.acyclic .fwd = false ∧ ∀ f, (recDrain selfWorld .fwd f (recStart 0)).2 = .fuel := by
  refine ⟨by decide, ?_⟩
  have key : ∀ f (rest : List RFrame) (fr : RFrame),
      (fr = RFrame.fresh 0 ∨ fr = ⟨0, .at 1, some 1, []⟩ ∨ fr = ⟨0, .at 1, none, [0]⟩) →
      (recDrain selfWorld .fwd f (fr :: rest)).2 = .fuel := by
    intro f
    induction f with
    | zero => intro rest fr _; rfl
    | succ f ih =>
      intro rest fr h
      rcases h with rfl | rfl | rfl
      · have e : recStep selfWorld .fwd (RFrame.fresh 0 :: rest) =
            (⟨0, .at 1, some 1, []⟩ :: rest, [Out.enter 0, Out.yield 0 1], some (.yield 1)) := by
          have : iterNext (selfWorld.setOf 0) .fwd .notStarted = (.at 1, .yield 1) := by decide
          simp [recStep, RFrame.fresh, this]
        simp only [recDrain, e]
        exact ih rest _ (Or.inr (Or.inl rfl))
      · have e : recStep selfWorld .fwd (⟨0, .at 1, some 1, []⟩ :: rest) =
            (⟨0, .at 1, none, [0]⟩ :: rest, [], none) := by
          simp [recStep, selfWorld, RWorld.recurse, RWorld.visit, RWorld.attrsOf, List.lookup]
        simp only [recDrain, e]
        exact ih rest _ (Or.inr (Or.inr rfl))
      · have e : recStep selfWorld .fwd (⟨0, .at 1, none, [0]⟩ :: rest) =
            (RFrame.fresh 0 :: ⟨0, .at 1, none, []⟩ :: rest, [Out.enter 0], none) := by
          simp [recStep]
        simp only [recDrain, e]
        exact ih _ _ (Or.inl rfl)
  intro f
  exact key f [] _ (Or.inl rfl)


/-! ### recursive iteration while node attributes are edited (`Model/Traversal.lean`)

The finer model of `RecursiveGraphIterator`: `_iterate_subgraphs(node)` walks a CPython dict
iterator over `node.attributes`, created when the generator is resumed after `yield node`; every
attribute is read only when the previous subgraph has been iterated to its end.  Events of a
history: `next()`, edits of node sequences, `node.attributes[k] = attr`, `del node.attributes[k]`.

* `C11_trav_start`, `C11_trav_only_members`, `C11_trav_history`: consistency and "only members are
  yielded" for EVERY history, whatever the nesting and whichever attributes are edited (also of the
  node whose subgraphs are being visited); a `next()` returns a yield, StopIteration, or the dict
  iterator's RuntimeError.
* `C11_trav_remaining`: once edits stop, if no graph is nested in itself (`TWorld.acyclic`, a
  `Bool`) and every dict iterator of the stack is in step with its dict (`TFrame.synced`, a `Bool`;
  false only after a key was added to / deleted from the node that is being expanded), the iterator
  runs to StopIteration and produces exactly `tStackSpec`: per frame, the rest of the `GRAPHS` tuple
  being walked, the attributes not yet reached, then the nodes not yet yielded, each followed by
  the complete visit of the subgraphs its attributes name *at that time*.
* `C11_trav_attached_later_visited`, `C11_trav_finished_not_visited`,
  `C11_trav_detached_runs_to_end`: the English clauses for attribute edits, read off that stream. -/

/-- **C11_trav_start**: a fresh iterator is consistent and in step. -/
theorem C11_trav_start {w : TWorld} (hw : TWorldWF w) (g : Nat) :
    TStackOK w (tStart g) ∧ ∀ fr ∈ tStart g, fr.synced w = true := by
  constructor
  · intro fr hfr
    simp only [tStart, List.mem_singleton] at hfr
    subst hfr; exact tframeOK_fresh hw g
  · intro fr hfr
    simp only [tStart, List.mem_singleton] at hfr
    subst hfr; rfl

/-- **C11_trav_only_members**: whatever the nesting (cyclic, shared) and whatever the state of the
attribute dicts, every node a `next()` yields is at that moment a member of the graph it is yielded
from, the stack stays consistent, and the call returns a yield, StopIteration or RuntimeError (never
the container's `owning_list` error, never out of fuel for another reason than the step bound). -/
theorem C11_trav_only_members {w : TWorld} {d : Dir} (hw : TWorldWF w) {st : List TFrame}
    (ok : TStackOK w st) (f : Nat) :
    TStackOK w (tNext w d f st).1 ∧
    ∀ g v, Out.yield g v ∈ (tNext w d f st).2.1 → v ∈ toList (w.setOf g) :=
  tNext_ok hw f st ok

/-- **C11_trav_history**: along every history of `next()` calls, edits of node sequences and edits
of node attributes (any node: before, at or after the position of the iterator), every `next()`
yields only current members, and world and stack stay consistent. -/
theorem C11_trav_history (d : Dir) (fuel : Nat) (es : List TEv) (w : TWorld) (st : List TFrame)
    (hw : TWorldWF w) (ok : TStackOK w st) : THistInv d fuel w st es :=
  thistory d fuel es w st hw ok

/-- **C11_trav_remaining** (termination and the exact remaining stream, attribute edits included):
no graph nested in itself, every dict iterator in step: the iterator - parked anywhere, after any
history - runs to StopIteration and produces exactly `tStackSpec`. -/
theorem C11_trav_remaining {w : TWorld} {d : Dir} (hw : TWorldWF w) (ha : w.acyclic d = true)
    {st : List TFrame} (ok : TStackOK w st) (hs : ∀ fr ∈ st, fr.synced w = true) :
    ∃ n, ∀ f, n ≤ f →
      tDrain w d f st = (tStackSpec (tVisit w d (w.sets.length + 1)) w d st, .stop) :=
  (tsteps_stack hw ha st ok hs).drain_all

/-- **C11_trav_preorder**: a fresh iterator with no edits produces the pre-order stream over the
current attributes. -/
theorem C11_trav_preorder {w : TWorld} {d : Dir} (hw : TWorldWF w) (ha : w.acyclic d = true) (g : Nat) :
    ∃ n, ∀ f, n ≤ f → tDrain w d f (tStart g) =
      (Out.enter g :: tLoop (tVisit w d (w.sets.length + 1)) w d g (rest (w.setOf g) d .notStarted), .stop) := by
  obtain ⟨n, h⟩ := C11_trav_remaining hw ha (C11_trav_start hw g).1 (C11_trav_start hw g).2
  refine ⟨n, fun f hf => ?_⟩
  rw [h f hf]
  simp [tStart, tStackSpec, tFrameSpec, TFrame.fresh, tPop]

theorem infix_flatMap_of_mem {α β : Type} (f : α → List β) : ∀ (l : List α) (x : α), x ∈ l → f x <:+: l.flatMap f
  | [], _, h => by cases h
  | y :: l, x, h => by
      rcases List.mem_cons.1 h with rfl | h
      · exact ⟨[], l.flatMap f, by simp⟩
      · obtain ⟨s, t, e⟩ := infix_flatMap_of_mem f l x h
        exact ⟨f y ++ s, t, by simp [← e]⟩

theorem infix_wrap {β : Type} {l m : List β} (a b : List β) (h : l <:+: m) : l <:+: a ++ m ++ b := by
  obtain ⟨s, t, e⟩ := h
  exact ⟨a ++ s, t ++ b, by simp [← e]⟩

theorem infix_tAfter (V : Nat → List Out) (w : TWorld) (d : Dir) (v h : Nat) (hr : w.recurse v = true)
    (hh : h ∈ w.visit d v) : V h <:+: tAfter V w d v := by
  have := infix_flatMap_of_mem V (w.visit d v) h hh
  simpa [tAfter, hr] using infix_wrap (if w.recf.isSome then [Out.pred v] else []) [] this

theorem mem_live_set (dct : PyDict) (k : Nat) (a : AVal) : (k, a) ∈ (dct.set k a).live := by
  unfold PyDict.set
  split
  · rename_i hk
    simp only [PyDict.has, List.any_eq_true] at hk
    obtain ⟨e, he, hek⟩ := hk
    simp only [PyDict.live, List.mem_filterMap, id] at he ⊢
    obtain ⟨x, hx, rfl⟩ := he
    refine ⟨setSlot k (some a) (some e), List.mem_map.2 ⟨some e, hx, rfl⟩, ?_⟩
    obtain ⟨k', a'⟩ := e
    have : k' = k := by simpa using hek
    subst this
    simp [setSlot]
  · simp [PyDict.live]

theorem dictOf_setDict_same (w : TWorld) (v : Nat) (dct : PyDict) : (w.setDict v dct).dictOf v = dct := by
  simp [TWorld.setDict, TWorld.dictOf, List.lookup]

theorem dictOf_setDict_other (w : TWorld) (v v' : Nat) (dct : PyDict) (h : v' ≠ v) :
    (w.setDict v dct).dictOf v' = w.dictOf v' := by
  have : (v' == v) = false := by simpa using h
  simp [TWorld.setDict, TWorld.dictOf, List.lookup, this]

/-- **C11_trav_attached_later_visited**: a subgraph attached (`node.attributes[k] = attr`, `attr` a
GRAPH or GRAPHS attribute naming `h`) to a node `v` that the frame `fr` of the iterator has not
yielded yet - or has just yielded, its attributes not read yet - is visited: the complete visit
`V h` is a contiguous part of what the stack still produces (which by `C11_trav_remaining`, with
`V = tVisit`, is what the iterator then does; the edit may be any time before `v` is resumed). -/
theorem C11_trav_attached_later_visited (V : Nat → List Out) (w : TWorld) (d : Dir) (st : List TFrame)
    (fr : TFrame) (hfr : fr ∈ st) (v k h : Nat) (a : AVal) (ha : h ∈ a.graphsOf d)
    (hv : v ∈ rest (w.setOf fr.g) d fr.c ∨ fr.mode = .last v) (hr : w.recurse v = true) :
    V h <:+: tStackSpec V (w.setAttr v k a) d st := by
  let w' := w.setAttr v k a
  have hvis : h ∈ w'.visit d v := by
    simp only [TWorld.visit, List.mem_flatMap]
    refine ⟨(k, a), ?_, ha⟩
    show (k, a) ∈ (w'.dictOf v).live
    rw [show w'.dictOf v = (w.dictOf v).set k a from dictOf_setDict_same w v _]
    exact mem_live_set _ k a
  have hr' : w'.recurse v = true := hr
  have hfrm : V h <:+: tFrameSpec V w' d fr := by
    rcases hv with hv | hv
    · have hv' : v ∈ rest (w'.setOf fr.g) d fr.c := hv
      have h1 : (Out.yield fr.g v :: tAfter V w' d v) <:+: tLoop V w' d fr.g (rest (w'.setOf fr.g) d fr.c) := by
        have := infix_flatMap_of_mem (fun v => Out.yield fr.g v :: tAfter V w' d v) _ v hv'
        simpa [tLoop] using infix_wrap [] [Out.exit fr.g] this
      have h2 : V h <:+: Out.yield fr.g v :: tAfter V w' d v := by
        obtain ⟨s, t, e⟩ := infix_tAfter V w' d v h hr' hvis
        exact ⟨Out.yield fr.g v :: s, t, by simp [← e]⟩
      have h3 := h2.trans h1
      unfold tFrameSpec
      exact h3.trans (List.suffix_append _ _).isInfix
    · have h2 := infix_tAfter V w' d v h hr' hvis
      unfold tFrameSpec
      simp only [hv]
      exact h2.trans ((List.prefix_append _ _).trans (List.prefix_append _ _)).isInfix
  -- lift from the frame to the stack
  have lift : ∀ st : List TFrame, fr ∈ st → V h <:+: tStackSpec V w' d st := by
    intro st
    induction st with
    | nil => intro h; cases h
    | cons x xs ih =>
      intro hx
      rcases List.mem_cons.1 hx with rfl | hx
      · obtain ⟨s, t, e⟩ := hfrm
        exact ⟨s, t ++ (tPop xs fr.g ++ tStackSpec V w' d xs), by simp [tStackSpec, ← e, List.append_assoc]⟩
      · obtain ⟨s, t, e⟩ := ih hx
        exact ⟨tFrameSpec V w' d x ++ tPop xs x.g ++ s, t, by simp [tStackSpec, ← e, List.append_assoc]⟩
  exact lift st hfr


/-- **C11_trav_attr_edit_agree**: an attribute edit changes nothing but the attribute dict of the
edited node. -/
theorem C11_trav_attr_edit_agree (w : TWorld) (v k : Nat) (a : AVal) :
    AgreeOff v w (w.setAttr v k a) ∧ AgreeOff v w (w.delAttr v k).1 :=
  ⟨agreeOff_setAttr w v k a, agreeOff_delAttr w v k⟩

/-- **C11_trav_finished_not_visited**: whatever is done to the attributes of a node `v0` that no
frame of the iterator is going to resume or yield any more (it is not the node a frame has just
yielded or is expanding, not among the nodes a frame still has to yield, and not yielded inside any
subgraph still to be visited: all decidable on the remaining stream) - attaching subgraphs to it,
replacing, deleting - leaves the remaining stream exactly as it was: a subgraph attached to an
already finished node is not visited. -/
theorem C11_trav_finished_not_visited {v0 : Nat} {w w' : TWorld} (h : AgreeOff v0 w w') (d : Dir) (k : Nat) :
    ∀ (st : List TFrame), (∀ fr ∈ st, v0 ∉ fr.ownNodes w d) →
      (∀ g, Out.yield g v0 ∉ tStackSpec (tVisit w d k) w d st) →
      tStackSpec (tVisit w' d k) w' d st = tStackSpec (tVisit w d k) w d st
  | [], _, _ => rfl
  | fr :: rest, hown, hno => by
      simp only [tStackSpec]
      rw [tFrameSpec_local h d k fr (hown fr (by simp))
            (fun g hy => hno g (by simp [tStackSpec, hy])),
          C11_trav_finished_not_visited h d k rest (fun x hx => hown x (by simp [hx]))
            (fun g hy => hno g (by simp [tStackSpec, hy]))]

theorem tPrefixSpec_local {v0 : Nat} {w w' : TWorld} (h : AgreeOff v0 w w') (d : Dir) (k : Nat) (below : List TFrame) :
    ∀ (top : List TFrame), (∀ fr ∈ top, v0 ∉ fr.ownNodes w d) →
      (∀ g, Out.yield g v0 ∉ tPrefixSpec (tVisit w d k) w d below top) →
      tPrefixSpec (tVisit w' d k) w' d below top = tPrefixSpec (tVisit w d k) w d below top
  | [], _, _ => rfl
  | fr :: rest, hown, hno => by
      simp only [tPrefixSpec]
      rw [tFrameSpec_local h d k fr (hown fr (by simp))
            (fun g hy => hno g (by simp [tPrefixSpec, hy])),
          tPrefixSpec_local h d k below rest (fun x hx => hown x (by simp [hx]))
            (fun g hy => hno g (by simp [tPrefixSpec, hy]))]

/-- **C11_trav_detached_runs_to_end**: let the innermost frames `top` of the stack be iterating a
subgraph (and what is nested in it) that hangs under node `v0` of a frame further down, and let the
attributes of `v0` be edited in any way - the subgraph detached by deleting or replacing the
attribute.  Then in the edited world the frames `top` run to the end of their generators and
produce exactly the stream they would have produced without the edit, and control returns to the
frames below (where the dict iterator over `v0`'s attributes continues - or raises, if a key was
added or deleted). -/
theorem C11_trav_detached_runs_to_end {v0 : Nat} {w w' : TWorld} (h : AgreeOff v0 w w') (d : Dir)
    (hw : TWorldWF w) (ha : w'.acyclic d = true) (top below : List TFrame) (ok : TStackOK w top)
    (hs : ∀ fr ∈ top, fr.synced w = true) (hown : ∀ fr ∈ top, v0 ∉ fr.ownNodes w d)
    (hno : ∀ g, Out.yield g v0 ∉ tPrefixSpec (tVisit w d (w.sets.length + 1)) w d below top) :
    TSteps w' d (top ++ below) (tPrefixSpec (tVisit w d (w.sets.length + 1)) w d below top) below := by
  have hw' : TWorldWF w' := by intro s hs'; rw [h.sets] at hs'; exact hw s hs'
  have ok' : TStackOK w' top := tstackOK_sets (w := w) h.sets ok
  have hs' : ∀ fr ∈ top, fr.synced w' = true := by
    intro fr hfr
    have := hs fr hfr
    cases hm : fr.mode with
    | loop => simp [TFrame.synced, hm]
    | last v => simp [TFrame.synced, hm]
    | expand v it ps =>
      have hv : v ≠ v0 := by rintro rfl; exact hown fr hfr (by simp [TFrame.ownNodes, hm])
      simpa [TFrame.synced, hm, h.dict v hv] using this
  have := tsteps_prefix hw' ha below top ok' hs'
  rw [h.sets, tPrefixSpec_local h d _ below top hown hno] at this
  exact this

/-! ### the acyclicity predicates are complete

`C11_rec_acyclic_ranked` / `C11_rec_static_ranked` / `C11_trav_remaining` use the decidable predicates
as *sufficient* conditions.  They are also necessary: a predicate is false exactly when some graph is
nested in itself (`Nested kids g g`: `g` is entered, through one or more levels, from one of its own
nodes).  Pigeonhole: an unstable height means a nesting chain with more links than there are graphs
that have subgraphs at all (Lemmas/LinkedSetCycle.lean). -/

/-- **C11_rec_acyclic_complete**: `RWorld.acyclic` is false iff a graph is nested in itself through
present members. -/
theorem C11_rec_acyclic_complete (w : RWorld) (d : Dir) :
    w.acyclic d = false ↔ ∃ g, Nested (w.kids d) g g :=
  stable_iff_no_cycle (w.kids d) w.sets.length (List.range w.sets.length) (rkids_covered w d) (by simp)

/-- **C11_rec_static_complete**: the same for the static nesting (home graphs). -/
theorem C11_rec_static_complete (w : RWorld) (d : Dir) (home : Nat → Nat) :
    w.acyclicStatic d home = false ↔ ∃ g, Nested (w.skids d home) g g :=
  stable_iff_no_cycle (w.skids d home) w.attrs.length (w.attrs.map (fun (p : Nat × List Attr) => home p.1))
    (skids_covered w d home) (by simp)

/-- **C11_trav_acyclic_complete**: the same for the world with editable attributes. -/
theorem C11_trav_acyclic_complete (w : TWorld) (d : Dir) :
    w.acyclic d = false ↔ ∃ g, Nested (w.kids d) g g := by
  refine stable_iff_no_cycle (w.kids d) w.sets.length (List.range w.sets.length) ?_ (by simp)
  intro g hne
  apply List.mem_range.2
  apply Nat.lt_of_not_le
  intro hle
  apply hne
  simp [TWorld.kids, tsetOf_ge_empty w g hle, toList_empty]

/-! ### the two models of the recursive iterator agree while attributes are not edited

`TFrame.toR` maps a frame of the lazily reading machine to the frame of the machine that reads all
attributes of a node at once (`pending` = rest of the `GRAPHS` tuple being walked, then the subgraphs
of the dict entries not reached yet).  Under this map every `next()` and every drain of the fine
model - with in-step dict iterators, which is what a history without attribute edits maintains, and
as long as the step bound is not exhausted - is literally the same `next()` / drain of the coarse
model on `w.toR` with the same step bound: same events, same result, corresponding stacks.  Hence
every theorem about `recNext` / `recDrain` on `w.toR` (`C11_rec_only_members`, `C11_rec_history`,
`C11_rec_preorder_acyclic`, ...) is a theorem about `tNext` / `tDrain` on such histories, and the
hypotheses and specifications coincide (`C11_trav_rec_same_spec`). -/

/-- **C11_trav_refines_rec_next** -/
theorem C11_trav_refines_rec_next (w : TWorld) (d : Dir) (f : Nat) (st : List TFrame)
    (hs : ∀ fr ∈ st, fr.synced w = true) (hf : (tNext w d f st).2.2 ≠ .fuel) :
    (∀ fr ∈ (tNext w d f st).1, fr.synced w = true) ∧
    recNext w.toR d f (st.map (TFrame.toR w d)) =
      ((tNext w d f st).1.map (TFrame.toR w d), (tNext w d f st).2.1, (tNext w d f st).2.2) :=
  tNext_refines w d f st hs hf

/-- **C11_trav_refines_rec_drain** -/
theorem C11_trav_refines_rec_drain (w : TWorld) (d : Dir) (f : Nat) (st : List TFrame)
    (hs : ∀ fr ∈ st, fr.synced w = true) (hf : (tDrain w d f st).2 ≠ .fuel) :
    recDrain w.toR d f (st.map (TFrame.toR w d)) = tDrain w d f st :=
  tDrain_refines w d f st hs hf

/-- **C11_trav_refines_rec**: along every history of `next()` calls and edits of node sequences (no
attribute edits), from any state whose dict iterators are in step (e.g. a fresh iterator), the
answers of all `next()` calls - events and result - are those of the coarse model run on the
corresponding history, provided no call exhausts the step bound. -/
theorem C11_trav_refines_rec (d : Dir) (fuel : Nat) (es : List TEv) (w : TWorld) (st : List TFrame)
    (hn : ∀ e ∈ es, e.noAttr = true) (hs : ∀ fr ∈ st, fr.synced w = true)
    (hf : ∀ a ∈ tRunHist d fuel w st es, a.2 ≠ .fuel) :
    recRunHist d fuel w.toR (st.map (TFrame.toR w d)) (es.filterMap TEv.toREv) = tRunHist d fuel w st es :=
  trav_refines_rec d fuel es w st hn hs hf

/-- **C11_trav_rec_same_spec**: the hypotheses and the specifications of the two developments
coincide: same acyclicity predicate, same complete-visit stream, same pre-order stream, and a fresh
iterator maps to a fresh iterator. -/
theorem C11_trav_rec_same_spec (w : TWorld) (d : Dir) (k g : Nat) :
    w.toR.acyclic d = w.acyclic d ∧ specVisit w.toR d k g = tVisit w d k g ∧
    specTop w.toR d k g = Out.enter g :: tLoop (tVisit w d k) w d g (rest (w.setOf g) d .notStarted) ∧
    (tStart g).map (TFrame.toR w d) = recStart g := by
  refine ⟨toR_acyclic w d, toR_specVisit w d k g, ?_, rfl⟩
  have : specVisit w.toR d k = tVisit w d k := funext (toR_specVisit w d k)
  simp only [specTop, this, toR_specLoop, RWorld.nodesOf, toR_setOf]

/-! ### under tree shape every node of the nest is yielded exactly once

`TWorld.treeShape w d g0` (a `Bool`, evaluated by the driver): no graph nested in itself, no node a
member of two graphs, no graph under two attribute positions, the root under none. -/

/-- **C11_trav_nodup**: with no edits, a fresh recursive iterator on the root of a tree-shaped nest
runs to StopIteration and the nodes it yields are pairwise different and are exactly the present
members of the graphs of the nest (the root and every graph nested in it, at any depth, through
nodes on which the `recursive` predicate holds): every node of the nest exactly once. -/
theorem C11_trav_nodup {w : TWorld} {d : Dir} (hw : TWorldWF w) (g0 : Nat) (ht : w.treeShape d g0 = true) :
    ∃ outs n, (∀ f, n ≤ f → tDrain w d f (tStart g0) = (outs, .stop)) ∧ (yieldsOf outs).Nodup ∧
      ∀ v, v ∈ yieldsOf outs ↔ ∃ g, (g = g0 ∨ Nested (w.kids d) g0 g) ∧ v ∈ toList (w.setOf g) := by
  have ha : w.acyclic d = true := by
    simp only [TWorld.treeShape, Bool.and_eq_true] at ht
    exact ht.1.1.1
  have F := forest_of_treeShape hw g0 ht
  obtain ⟨n, hn⟩ := C11_trav_preorder hw ha g0
  refine ⟨_, n, hn, ?_, ?_⟩
  · rw [yieldsOf_top]
    exact preord_nodup F _ g0 (oneDepth_root F)
  · intro v
    rw [yieldsOf_top]
    constructor
    · intro hv
      obtain ⟨j, _, x, r, hx⟩ := mem_preord F.edge _ g0 v hv
      refine ⟨x, ?_, (mem_nodesD hw d x v).1 hx⟩
      cases j with
      | zero => exact Or.inl r.zero_eq
      | succ j => exact Or.inr r.nested
    · rintro ⟨g, hg, hv⟩
      have hx := (mem_nodesD hw d g v).2 hv
      rcases hg with rfl | hg
      · exact preord_mem F.edge _ 0 g g v (by omega) (.zero g) hx
      · obtain ⟨j, r⟩ := hg.reachN
        have hb := hgt_reachN hw ha r
        have := thgt_le w d g0
        exact preord_mem F.edge _ (j + 1) g0 g v (by omega) r hx

/-! ### the public methods of `node.attributes` are sequences of the two primitive edits

`AMeth` / `AMeth.prims` (Model/Traversal.lean) transcribe `Attributes.__setitem__` / `add` and the
`UserDict` / `MutableMapping` methods `__delitem__`, `update`, `pop`, `popitem`, `clear`, `setdefault`:
which primitive writes on `self.data` each performs, in which order, and when it raises. -/

/-- **C11_trav_meth_reduces**: a method call on the attributes of node `v` is a sequence of
`node.attributes[k] = a` / `del node.attributes[k]` events on `v` (so `C11_trav_history` covers
histories with method calls, event by event), changes nothing but the attribute dict of `v`
(`AgreeOff`: so `C11_trav_finished_not_visited` / `C11_trav_detached_runs_to_end` apply to the whole
call), and has the documented effect on the dict seen as an insertion-ordered mapping
(`AMeth.effect`: an existing key keeps its place, a new key goes last, `popitem` removes the first
item, `clear` removes everything, `update` stops at the first value that is not an `Attr`,
`pop` / `del` / `popitem` raise `KeyError` and `setitem` / `setdefault` `TypeError` exactly when stated). -/
theorem C11_trav_meth_reduces (w : TWorld) (v : Nat) (m : AMeth) :
    (w.applyMeth v m).1 = ((m.prims (w.dictOf v)).1.map (APrim.toEv v)).foldl TWorld.applyEv w ∧
    (∀ e ∈ (m.prims (w.dictOf v)).1.map (APrim.toEv v), ∃ k, (∃ a, e = .setAttr v k a) ∨ e = .delAttr v k) ∧
    AgreeOff v w (w.applyMeth v m).1 ∧
    (w.applyMeth v m).1.dictOf v = (m.run (w.dictOf v)).1 ∧
    (((w.applyMeth v m).1.dictOf v).live, (w.applyMeth v m).2) = m.effect (w.dictOf v).live := by
  obtain ⟨h1, h2⟩ := foldl_prims_world v (m.prims (w.dictOf v)).1 w
  refine ⟨rfl, ?_, h2, h1, ?_⟩
  · intro e he
    obtain ⟨p, _, rfl⟩ := List.mem_map.1 he
    cases p with
    | set k a => exact ⟨k, Or.inl ⟨a, rfl⟩⟩
    | del k => exact ⟨k, Or.inr rfl⟩
  · have := meth_effect (w.dictOf v) m
    rw [← this]
    exact Prod.ext (congrArg PyDict.live h1) rfl

/-- an event of a history in which `node.attributes` is edited through its public methods -/
inductive TEvM
  | ev (e : TEv)
  | meth (v : Nat) (m : AMeth)

/-- the history of primitive events that a history with method calls is -/
def expandM : TWorld → List TEvM → List TEv
  | _, [] => []
  | w, .ev e :: es => e :: expandM (w.applyEv e) es
  | w, .meth v m :: es =>
      (m.prims (w.dictOf v)).1.map (APrim.toEv v) ++ expandM (w.applyMeth v m).1 es

/-- **C11_trav_meth_history**: along every history of `next()` calls, edits of node sequences and
calls of the public methods of `node.attributes` (any node), every `next()` yields only current
members and world and stack stay consistent. -/
theorem C11_trav_meth_history (d : Dir) (fuel : Nat) (es : List TEvM) (w : TWorld) (st : List TFrame)
    (hw : TWorldWF w) (ok : TStackOK w st) : THistInv d fuel w st (expandM w es) :=
  C11_trav_history d fuel _ w st hw ok

/-! ### with edits of node sequences: nothing outside the touched part is yielded twice

`tAdm X d fuel w st es` (a `Bool`, Model/Traversal.lean): the history `es` consists of `next()` calls
(each returning a node or StopIteration within the step bound) and edits of node sequences whose
touched nodes (inserted / moved / removed) all lie in `X`; in every world passed through no graph is
nested in itself and `X` is closed under "nested below" (`TWorld.closedB`: a complete visit of the
subgraphs of a node of `X` yields nodes of `X` only).  `X` = the nodes that were removed, inserted or
moved, together with everything nested below them. -/

/-- **C11_trav_untouched_once** (the recursive counterpart of `C11_untouched_exactly_once_in_order`):
along an admissible history, from any consistent state with in-step dict iterators, the nodes
yielded so far followed by the nodes still to be yielded (`TWorld.fut`, which by
`C11_trav_remaining` is what the iterator then does), both restricted to the nodes outside `X`, is
exactly what was to be yielded at the start, restricted in the same way: same nodes, same
multiplicity, same order. -/
theorem C11_trav_untouched_once (X : List Nat) (d : Dir) (fuel : Nat) (es : List TEv) (w : TWorld)
    (st : List TFrame) (hw : TWorldWF w) (ok : TStackOK w st) (hs : ∀ fr ∈ st, fr.synced w = true)
    (adm : tAdm X d fuel w st es = true) :
    untouched X ((tRunY d fuel w st es).2.2 ++ (tRunY d fuel w st es).1.fut d (tRunY d fuel w st es).2.1) =
      untouched X (w.fut d st) :=
  (trav_untouched X d fuel es w st hw ok hs adm).2.2.2

theorem fut_fresh (w : TWorld) (d : Dir) (g0 : Nat) :
    w.fut d (tStart g0) = preord (w.nodesD d) (w.subD d) (w.sets.length + 2) g0 := by
  rw [← yieldsOf_top]
  simp [TWorld.fut, tStart, tStackSpec, tFrameSpec, TFrame.fresh, tPop]

/-- **C11_trav_never_twice**: a fresh iterator on the root of a tree-shaped nest, any admissible
history of `next()` calls and edits of node sequences: no node outside `X` is yielded twice - a node
is yielded twice only if it, or a node it is nested below, was removed and inserted again (or
moved); and when the iterator has been run to its end, the nodes outside `X` have been yielded
exactly once each, in the pre-order of the initial nest. -/
theorem C11_trav_never_twice (X : List Nat) (d : Dir) (fuel : Nat) (es : List TEv) (w : TWorld) (g0 : Nat)
    (hw : TWorldWF w) (ht : w.treeShape d g0 = true) (adm : tAdm X d fuel w (tStart g0) es = true) :
    (untouched X (tRunY d fuel w (tStart g0) es).2.2).Nodup ∧
    ((tRunY d fuel w (tStart g0) es).2.1 = [] →
      untouched X (tRunY d fuel w (tStart g0) es).2.2 =
        untouched X (preord (w.nodesD d) (w.subD d) (w.sets.length + 2) g0)) := by
  have F := forest_of_treeShape hw g0 ht
  have hnd : (preord (w.nodesD d) (w.subD d) (w.sets.length + 2) g0).Nodup :=
    preord_nodup F _ g0 (oneDepth_root F)
  have key := C11_trav_untouched_once X d fuel es w (tStart g0) hw (C11_trav_start hw g0).1
    (C11_trav_start hw g0).2 adm
  rw [fut_fresh, untouched_app] at key
  constructor
  · have h2 : (untouched X (preord (w.nodesD d) (w.subD d) (w.sets.length + 2) g0)).Nodup :=
      (List.filter_sublist (l := preord (w.nodesD d) (w.subD d) (w.sets.length + 2) g0)).nodup hnd
    rw [← key] at h2
    exact (List.nodup_append.1 h2).1
  · intro he
    rw [he] at key
    simpa [TWorld.fut, tStackSpec, yieldsOf, untouched] using key

/-! ### the static tree-shape predicate implies the dynamic one (wave 7)

`RWorld.treeShape w.toR home g0` is the static predicate of the coarse model evaluated on the view
`w.toR` of a world with editable attributes: static and current nesting acyclic (forward), no graph
under two of ALL recorded attribute positions - `TWorld.attrs` is an association list read by first
match, an attribute edit prepends the new dict and leaves the old one behind as a stale entry, and
`w.toR` keeps them all -, the root under none, every member in its home graph.  It counts at least the
references `TWorld.treeShape` counts, so it implies it, for either direction, whatever stale entries
there are.  The converse needs the world to have NO stale entries (`TWorld.noStale`: every node recorded
once, so that every recorded attribute entry is a live entry of the node's current dict) and every
recorded dict that names a subgraph to belong to a present member on which the `recursive` predicate
holds (`TWorld.allHung`); then the two predicates are equal. -/

/-- **C11_treeShape_static_dynamic**: the static tree-shape predicate on `w.toR` implies the dynamic
one on `w`, in either direction (no hypothesis on stale entries: they only make the static predicate
stronger); and on a homed world without stale entries whose subgraph-naming dicts are hung the two are
equal. -/
theorem C11_treeShape_static_dynamic {w : TWorld} (hw : TWorldWF w) (home : Nat → Nat) (d : Dir) (g0 : Nat) :
    (w.toR.treeShape home g0 = true → w.treeShape d g0 = true) ∧
    (w.noStale = true → w.allHung = true → w.toR.homedOk home = true →
      w.toR.treeShape home g0 = w.treeShape d g0) :=
  ⟨treeShape_static_dynamic hw home d g0, treeShape_static_eq hw home d g0⟩

/-- **C11_noStale_current**: what `noStale` says: the dict recorded for a node is the node's current
dict, hence every recorded attribute entry is a live entry of it; and recording a dict for node `v`
(what an attribute edit does) keeps the world free of stale entries exactly when `v` was not recorded
before. -/
theorem C11_noStale_current {w : TWorld} (hns : w.noStale = true) :
    (∀ p ∈ w.attrs, w.dictOf p.1 = p.2) ∧
    (∀ p ∈ w.attrs, ∀ e ∈ p.2.live, e ∈ (w.dictOf p.1).live) ∧
    (∀ v dct, (w.setDict v dct).noStale = !(w.attrs.map (·.1)).contains v) := by
  refine ⟨fun p hp => noStale_dictOf hns hp, fun p hp e he => by rw [noStale_dictOf hns hp]; exact he, ?_⟩
  intro v dct
  have hk : (w.attrs.map (·.1)).Nodup := by simpa [TWorld.noStale] using hns
  by_cases hv : v ∈ w.attrs.map (·.1)
  · simp [TWorld.noStale, TWorld.setDict, hv]
  · simp [TWorld.noStale, TWorld.setDict, hv, hk]

/-- **C11_trav_nodup_static**: `C11_trav_nodup` from the static predicate. -/
theorem C11_trav_nodup_static {w : TWorld} {d : Dir} (hw : TWorldWF w) (home : Nat → Nat) (g0 : Nat)
    (ht : w.toR.treeShape home g0 = true) :
    ∃ outs n, (∀ f, n ≤ f → tDrain w d f (tStart g0) = (outs, .stop)) ∧ (yieldsOf outs).Nodup ∧
      ∀ v, v ∈ yieldsOf outs ↔ ∃ g, (g = g0 ∨ Nested (w.kids d) g0 g) ∧ v ∈ toList (w.setOf g) :=
  C11_trav_nodup hw g0 (treeShape_static_dynamic hw home d g0 ht)

/-- **C11_trav_static_admissible**: along a history of `next()` calls and edits of node sequences (no
attribute edits) from a homed world whose static nesting is acyclic, in which every edit addresses an
existing graph and names only nodes whose home graph it is (`tAdmS`, decidable), no graph is nested in
itself in any world passed through: the per-world acyclicity hypothesis of `C11_trav_untouched_once` /
`C11_trav_never_twice` (`tAdm`) follows from the static predicate on the INITIAL world. -/
theorem C11_trav_static_admissible (X : List Nat) (home : Nat → Nat) (d : Dir) (fuel : Nat) (es : List TEv)
    (w : TWorld) (st : List TFrame) (hw : TWorldWF w) (hho : w.toR.homedOk home = true)
    (has : w.toR.acyclicStatic .fwd home = true) (adm : tAdmS X home d fuel w st es = true) :
    tAdm X d fuel w st es = true :=
  tAdm_of_static X home _ d fuel es w st (staticInv_of_ok hw hho has) adm

/-- **C11_trav_untouched_once_static**: `C11_trav_untouched_once` with the acyclicity of the worlds passed
through derived from the static predicate on the initial world. -/
theorem C11_trav_untouched_once_static (X : List Nat) (home : Nat → Nat) (d : Dir) (fuel : Nat) (es : List TEv)
    (w : TWorld) (st : List TFrame) (hw : TWorldWF w) (ok : TStackOK w st) (hs : ∀ fr ∈ st, fr.synced w = true)
    (hho : w.toR.homedOk home = true) (has : w.toR.acyclicStatic .fwd home = true)
    (adm : tAdmS X home d fuel w st es = true) :
    untouched X ((tRunY d fuel w st es).2.2 ++ (tRunY d fuel w st es).1.fut d (tRunY d fuel w st es).2.1) =
      untouched X (w.fut d st) :=
  C11_trav_untouched_once X d fuel es w st hw ok hs (C11_trav_static_admissible X home d fuel es w st hw hho has adm)

/-- **C11_trav_never_twice_static**: `C11_trav_never_twice` from the static tree-shape predicate on the
initial world alone: tree shape of the initial nest and acyclicity of every world passed through both
follow from it. -/
theorem C11_trav_never_twice_static (X : List Nat) (home : Nat → Nat) (d : Dir) (fuel : Nat) (es : List TEv)
    (w : TWorld) (g0 : Nat) (hw : TWorldWF w) (ht : w.toR.treeShape home g0 = true)
    (adm : tAdmS X home d fuel w (tStart g0) es = true) :
    (untouched X (tRunY d fuel w (tStart g0) es).2.2).Nodup ∧
    ((tRunY d fuel w (tStart g0) es).2.1 = [] →
      untouched X (tRunY d fuel w (tStart g0) es).2.2 =
        untouched X (preord (w.nodesD d) (w.subD d) (w.sets.length + 2) g0)) := by
  have hst := ht
  simp only [RWorld.treeShape, Bool.and_eq_true] at hst
  exact C11_trav_never_twice X d fuel es w g0 hw (treeShape_static_dynamic hw home d g0 ht)
    (C11_trav_static_admissible X home d fuel es w (tStart g0) hw hst.2 hst.1.1.1 adm)

/-! ### non-vacuity of the hypotheses, and the corner the spec fixes -/

-- `WF` is inhabited by every reachable state (C11_rep_history); concretely, with a tombstone:
example : WF (apply (apply empty (.extend [7, 8, 9])).1 (.remove 8)).1 :=
  C11_rep_step (C11_rep_step C11_rep_empty.1 _) _
-- the executable form of the invariant on a state with a tombstone (box 2) and a moved value
example : invOk (apply (apply (apply empty (.extend [7, 8, 9])).1 (.remove 8)).1 (.append 7)).1 = true := by
  decide
-- `Valid`: fresh generators, and a generator parked on the tombstone (a `gap` cursor)
example : Cursor.notStarted.Valid empty ∧ (Cursor.at 2).Valid (apply (apply empty (.extend [7, 8, 9])).1 (.remove 8)).1 := by
  unfold Cursor.Valid; decide
example : absCur (apply (apply empty (.extend [7, 8, 9])).1 (.remove 8)).1 .fwd (.at 2) = .gap 1 := by
  decide
-- a node inserted exactly where the removed current node was is skipped by the generator parked
-- there (it resumes with the node that followed the removed one), but seen by a generator parked on
-- the live predecessor
example :
    rest (apply (apply (apply empty (.extend [7, 8, 9])).1 (.remove 8)).1 (.insertBefore 9 [5])).1 .fwd (.at 2) = [9] ∧
    rest (apply (apply (apply empty (.extend [7, 8, 9])).1 (.remove 8)).1 (.insertBefore 9 [5])).1 .fwd (.at 1) = [5, 9] := by
  decide
-- hypotheses of the abstract lemmas
example : ([1, 2] ++ 3 :: [4]).Nodup ∧ (Spec.ACur.gap 2).InRange ([1, 2] ++ 3 :: [4]) ∧ 5 ∉ [1, 2] ++ [4] := by
  simp [Spec.ACur.InRange]
example : Spec.seen .fwd 2 (.att 2) ∧ ¬ Spec.seen .fwd 2 (.gap 2) ∧ Spec.seen .rev 2 (.att 2) ∧ ¬ Spec.seen .rev 2 (.gap 2) := by
  simp [Spec.seen]

-- recursive iteration: a world with a nested graph (graph 1 under node 1 of graph 0) satisfies the
-- hypotheses, and the conclusion of C11_rec_preorder evaluated on it
def exWorld : RWorld := ⟨[(extend empty [1, 2]).1, (extend empty [11]).1], [(1, [.graph 1])], none⟩

example : WorldWF exWorld := by
  intro s hs
  simp only [exWorld, List.mem_cons, List.not_mem_nil, or_false] at hs
  rcases hs with rfl | rfl <;> exact C11_rep_step C11_rep_empty.1 (.extend _)

example : Ranked exWorld .fwd (fun g => 1 - g) := by
  intro g v hv _ h hh
  have hv1 : v = 1 := by
    apply Classical.byContradiction
    intro hne
    have : (exWorld.attrs.lookup v) = none := by
      simp only [exWorld, List.lookup]
      have : (v == 1) = false := by simp [hne]
      simp [this]
    simp [RWorld.visit, RWorld.attrsOf, this] at hh
  subst hv1
  have hh1 : h = 1 := by simpa [RWorld.visit, RWorld.attrsOf, exWorld, List.lookup] using hh
  subst hh1
  match g, hv with
  | 0, _ => decide
  | 1, hv => exact absurd hv (by decide)
  | g + 2, hv => exact absurd hv (by
      have : exWorld.setOf (g + 2) = empty := by simp [RWorld.setOf, exWorld, List.getD]
      rw [this]; decide)

example : recDrain exWorld .fwd 100 (recStart 0) = (specTop exWorld .fwd 1 0, .stop) := by decide

-- the hypotheses of C11_rec_history: nodes 1, 2 live in graph 0, node 11 in graph 1
def exHome (v : Nat) : Nat := if v < 10 then 0 else 1

example : Homed exWorld exHome := by
  intro g v hv
  match g, hv with
  | 0, hv =>
    have : toList (exWorld.setOf 0) = [1, 2] := by decide
    rw [this] at hv; simp at hv; rcases hv with rfl | rfl <;> rfl
  | 1, hv =>
    have : toList (exWorld.setOf 1) = [11] := by decide
    rw [this] at hv; simp at hv; subst hv; rfl
  | g + 2, hv =>
    have : exWorld.setOf (g + 2) = empty := by simp [RWorld.setOf, exWorld, List.getD]
    rw [this, C11_rep_empty.2] at hv; exact absurd hv (by simp)

example : StaticRanked exWorld .fwd (fun g => 1 - g) exHome := by
  intro v _ h hh
  have hv1 : v = 1 := by
    apply Classical.byContradiction
    intro hne
    have : (exWorld.attrs.lookup v) = none := by
      simp only [exWorld, List.lookup]
      have : (v == 1) = false := by simp [hne]
      simp [this]
    simp [RWorld.visit, RWorld.attrsOf, this] at hh
  subst hv1
  have hh1 : h = 1 := by simpa [RWorld.visit, RWorld.attrsOf, exWorld, List.lookup] using hh
  subst hh1
  decide

example : Admissible exWorld.sets.length exHome [.next, .edit 0 (.remove 1), .edit 1 (.append 12), .next] := by
  simp [Admissible, touched, exWorld, exHome]

-- the derived-rank theorems: the predicates hold on the example world; a shared subgraph (graph 1
-- under node 1 and under node 2) satisfies `acyclic` but not `unshared`, and is visited twice
example : exWorld.acyclic .fwd = true ∧ exWorld.acyclicStatic .fwd exHome = true ∧
    exWorld.homedOk exHome = true ∧ exWorld.unshared 0 = true ∧ exWorld.treeShape exHome 0 = true := by decide

def sharedWorld : RWorld :=
  ⟨[(extend empty [1, 2]).1, (extend empty [11]).1], [(1, [.graph 1]), (2, [.graphs [1]])], none⟩

example : sharedWorld.acyclic .fwd = true ∧ sharedWorld.unshared 0 = false ∧
    specTop sharedWorld .fwd 2 0 =
      [.enter 0, .yield 0 1, .enter 1, .enter 1, .yield 1 11, .exit 1, .exit 1,
       .yield 0 2, .enter 1, .enter 1, .yield 1 11, .exit 1, .exit 1, .exit 0] := by decide


-- slices on a state with a tombstone: [7, 9, 7->moved]: sequence [9, 7]
example :
    getSlice (apply (apply (apply empty (.extend [7, 8, 9])).1 (.remove 8)).1 (.append 7)).1 none none (some (-1)) = some [7, 9] ∧
    getSlice (apply empty (.extend [1, 2, 3, 4, 5])).1 (some (-2)) none none = some [4, 5] ∧
    getSlice (apply empty (.extend [1, 2, 3, 4, 5])).1 (some 4) (some (-9)) (some (-2)) = some [5, 3, 1] ∧
    getSlice (apply empty (.extend [1, 2, 3, 4, 5])).1 none none (some 0) = none ∧
    sliceIndices 5 (some 4) (some (-9)) (some (-2)) = some (4, -2, 3) := by decide

-- the recursive iterator with editable attributes: graph 1 under node 1 of graph 0
def exT : TWorld := (⟨[(extend empty [1, 2]).1, (extend empty [11, 12]).1], [], none⟩ : TWorld).setAttr 1 0 (.graph 1)

example : TWorldWF exT := by
  intro s hs
  simp only [exT, TWorld.setAttr, TWorld.setDict, List.mem_cons, List.not_mem_nil, or_false] at hs
  rcases hs with rfl | rfl <;> exact C11_rep_step C11_rep_empty.1 (.extend _)

-- hypotheses of C11_trav_remaining hold on a fresh iterator and inside the subgraph, and its conclusion evaluated
example : exT.acyclic .fwd = true ∧
    tDrain exT .fwd 60 (tStart 0) = (tStackSpec (tVisit exT .fwd 3) exT .fwd (tStart 0), .stop) := by decide

/-- the iterator after two `next()` calls: it has yielded node 1 and node 11 and is inside graph 1 -/
def exSt : List TFrame := (tNext exT .fwd 60 (tNext exT .fwd 60 (tStart 0)).1).1

example : exSt = [⟨1, .at 1, .last 11⟩, ⟨0, .at 1, .expand 1 ⟨1, 0, 1⟩ []⟩] := by decide

-- replacing the attribute (same key) of the node that is being expanded keeps the dict iterator in
-- step; the detached graph 1 is iterated to its end (node 12), then the iteration goes on with node 2
example : (exSt.all fun fr => fr.synced (exT.setAttr 1 0 .other)) = true ∧
    (tDrain (exT.setAttr 1 0 .other) .fwd 60 exSt) =
      ([.yield 1 12, .exit 1, .exit 1, .yield 0 2, .exit 0], .stop) := by decide

-- deleting it (or adding a key) puts the dict iterator out of step: graph 1 is still iterated to
-- its end, then `RuntimeError: dictionary changed size during iteration`
example : (exSt.all fun fr => fr.synced (exT.delAttr 1 0).1) = false ∧
    (tDrain (exT.delAttr 1 0).1 .fwd 60 exSt) = ([.yield 1 12, .exit 1, .exit 1], .raised) ∧
    (tDrain (exT.setAttr 1 1 (.graph 1)) .fwd 60 exSt) = ([.yield 1 12, .exit 1, .exit 1], .raised) := by decide

-- hypotheses of C11_trav_finished_not_visited / C11_trav_detached_runs_to_end: node 2 is still to be
-- yielded by the outer frame, node 1 is being expanded by it, node 11 is finished for no frame yet
example : 2 ∈ (exSt.getD 1 (TFrame.fresh 0)).ownNodes exT .fwd ∧ 1 ∈ (exSt.getD 1 (TFrame.fresh 0)).ownNodes exT .fwd ∧
    1 ∉ (exSt.getD 0 (TFrame.fresh 0)).ownNodes exT .fwd ∧
    tPrefixSpec (tVisit exT .fwd 3) exT .fwd (exSt.drop 1) (exSt.take 1) = [.yield 1 12, .exit 1, .exit 1] := by decide

-- completeness of the acyclicity predicate: the self-nested world has a witness, the example worlds have none
example : Nested (selfWorld.kids .fwd) 0 0 := .one (by decide)
example : ¬ ∃ g, Nested (exWorld.kids .fwd) g g := by
  intro h
  have := (C11_rec_acyclic_complete exWorld .fwd).2 h
  revert this; decide

-- the two recursive models on the example: hypotheses of C11_trav_refines_rec (no attribute edit, dict
-- iterators in step, step bound not exhausted) and its conclusion evaluated
example : (([.next, .edit 0 (.remove 2), .next, .next, .next] : List TEv).all TEv.noAttr) = true ∧
    ((tStart 0).all fun fr => fr.synced exT) = true ∧
    ((tRunHist .fwd 60 exT (tStart 0) [.next, .edit 0 (.remove 2), .next, .next, .next]).all fun a => a.2 != .fuel) = true ∧
    recRunHist .fwd 60 exT.toR ((tStart 0).map (TFrame.toR exT .fwd))
        (([.next, .edit 0 (.remove 2), .next, .next, .next] : List TEv).filterMap TEv.toREv) =
      tRunHist .fwd 60 exT (tStart 0) [.next, .edit 0 (.remove 2), .next, .next, .next] := by decide

-- tree shape: true on the example; a subgraph shared by two nodes makes it false and its nodes are yielded twice
example : exT.treeShape .fwd 0 = true ∧ exT.members = [1, 2, 11, 12] ∧ exT.refs .fwd = [1] := by decide

def sharedT : TWorld := exT.setAttr 2 0 (.graphs [1])

example : sharedT.treeShape .fwd 0 = false ∧ sharedT.acyclic .fwd = true ∧
    yieldsOf (tDrain sharedT .fwd 80 (tStart 0)).1 = [1, 11, 12, 2, 11, 12] := by decide

-- C11_trav_untouched_once / C11_trav_never_twice: node 1 is yielded, then moved behind the cursor (append): it is
-- yielded again and graph 1 below it is visited again; X = {1, 11, 12} is closed and contains the touched node;
-- node 2 (outside X) is yielded once
example : tAdm [1, 11, 12] .fwd 60 exT (tStart 0)
      [.next, .edit 0 (.append 1), .next, .next, .next, .next, .next, .next, .next] = true ∧
    (tRunY .fwd 60 exT (tStart 0)
      [.next, .edit 0 (.append 1), .next, .next, .next, .next, .next, .next, .next]).2.2 = [1, 11, 12, 2, 1, 11, 12] ∧
    exT.closedB .fwd [1, 11, 12] = true ∧ exT.closedB .fwd [1] = false := by decide

-- the methods of `node.attributes`: popitem removes the FIRST key, clear empties, update stops at a non-Attr value
example :
    (AMeth.run ((PyDict.empty.set 0 (.graph 1)).set 1 .other) .popitem).1.live = [(1, .other)] ∧
    (AMeth.run ((PyDict.empty.set 0 (.graph 1)).set 1 .other) .clear).1.live = [] ∧
    AMeth.prims ((PyDict.empty.set 0 (.graph 1)).set 1 .other) .clear = ([.del 0, .del 1], true) ∧
    AMeth.prims PyDict.empty (.update [(3, some .other), (4, none), (5, some .other)]) = ([.set 3 .other], false) ∧
    AMeth.prims PyDict.empty (.pop 3 true) = ([], true) ∧ AMeth.prims PyDict.empty (.pop 3 false) = ([], false) ∧
    AMeth.prims PyDict.empty (.setdefault 3 none) = ([], false) := by decide

-- wave 7: the static predicate on the view of the example world, `noStale` / `allHung`, and a stale entry:
-- after replacing the attribute of node 1 the old dict stays recorded, the static predicate counts graph 1 twice
example : exT.toR.treeShape exHome 0 = true ∧ exT.noStale = true ∧ exT.allHung = true ∧
    (exT.setAttr 1 0 (.graph 1)).noStale = false ∧ (exT.setAttr 1 0 (.graph 1)).toR.treeShape exHome 0 = false ∧
    (exT.setAttr 1 0 (.graph 1)).treeShape .fwd 0 = true := by decide

-- hypotheses of C11_trav_never_twice_static on the history of the C11_trav_never_twice example
example : tAdmS [1, 11, 12] exHome .fwd 60 exT (tStart 0)
      [.next, .edit 0 (.append 1), .next, .next, .next, .next, .next, .next, .next] = true := by decide

end IrVerif.LinkedSet

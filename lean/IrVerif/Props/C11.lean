/-
C11 — graph iteration stays well defined while the graph is edited.

Property theorems about the pointer-faithful model `Model/LinkedSet.lean` of
`src/onnx_ir/_linked_list.py` (boxes with prev/next/value, root box, id->box dict, length;
generators as cursors).  Helper developments: `Lemmas/LinkedSet*.lean`.

Structure of the result:
* `C11_rep_*`        the representation invariant `WF` holds initially and after every operation
                     of every history;
* `C11_refine_*`     the structure *with any cursor parked anywhere in it* refines the abstract
                     list-with-gaps machine `Spec`: sequence, every cursor, every `next()`;
* `C11_terminates`, `C11_only_members`, `C11_getitem_len_contains`, `C11_tombstone_*`;
* `C11_spec_*`       the English clauses, proved on the abstract machine (pure list facts).

How the English clauses reach the pointer structure.  `C11_refine_step` is an *equation*: for every
operation (any arguments: present / absent / repeated values, the anchor itself, several elements)
and every cursor, `abs (apply s op).1 d c = (Spec.apply (abs s d c) op).1`; `C11_refine_rest` says
`rest s d c = Spec.rest` of that abstraction.  So whatever is proved about `Spec.apply` — whose
public operations are by definition sequences of the two primitive events `removeIdx` /
`insertIdx` of `C11_spec_rest_remove` / `C11_spec_rest_insert` (a present value is removed first,
multi-element inserts are one primitive pair per element) — holds verbatim for `apply`/`rest`.
Stated directly on `apply`/`rest`/`toList` are: `C11_untouched_step` and
`C11_untouched_exactly_once_in_order` (all operations, all argument shapes), `C11_resume_current`
(the current node is removed or moved anywhere, by any operation), `C11_next_rest`.  The
"inserted after is seen / before is skipped" clause is stated on the primitive insert
(`C11_spec_rest_insert`, `Spec.seen`) and transfers through `C11_refine_step`; it is not restated
per public operation.
-/
import IrVerif.Lemmas.LinkedSetWF
import IrVerif.Lemmas.LinkedSetRec
namespace IrVerif.LinkedSet

/-! ### representation invariant -/

/-- **C11_rep_empty** -/
theorem C11_rep_empty : WF empty ∧ toList empty = [] :=
  ⟨⟨[], inv_empty⟩, by rw [inv_empty.toList_eq]; rfl⟩

/-- **C11_rep_step**: every public operation (`append extend insert_after insert_before remove`,
with arbitrary arguments: present, absent, repeated, the anchor itself) preserves the invariant,
whether it returns or raises. -/
theorem C11_rep_step {s : LSet} (h : WF s) (op : Op) : WF (apply s op).1 := by
  obtain ⟨bs, hi⟩ := h
  obtain ⟨bs', hi', _⟩ := sim_apply hi op .fwd .notStarted (by simpa [Cursor.pos] using hi.size_pos)
  exact ⟨bs', hi'⟩

/-- **C11_rep_history**: the invariant holds after every finite history. -/
theorem C11_rep_history (ops : List Op) : WF (ops.foldl (fun s o => (apply s o).1) empty) := by
  suffices ∀ s, WF s → WF (ops.foldl (fun s o => (apply s o).1) s) from this _ C11_rep_empty.1
  induction ops with
  | nil => intro s h; exact h
  | cons o ops ih => intro s h; exact ih _ (C11_rep_step h o)

/-! ### refinement to the list with gaps -/

/-- **C11_refine_step**: one public operation on the pointer structure is the same operation on
the abstract machine — for the sequence (`toList`), for the outcome (returned / raised) and for
*every* cursor, wherever it is parked (on a live box, on an erased box, not started, finished).
Cursors are transformed independently of each other: the statement holds for all `d`, `c`
simultaneously. -/
theorem C11_refine_step {s : LSet} (h : WF s) (op : Op) (d : Dir) (c : Cursor) (hc : c.Valid s) :
    abs (apply s op).1 d c = (Spec.apply (abs s d c) op).1 ∧
    (apply s op).2 = (Spec.apply (abs s d c) op).2 ∧
    c.Valid (apply s op).1 := by
  obtain ⟨bs, hi⟩ := h
  obtain ⟨bs', hi', hs, ho, hsz⟩ := sim_apply hi op d c hc
  rw [abs_eq hi', abs_eq hi]
  exact ⟨hs, ho, Nat.lt_of_lt_of_le hc hsz⟩

/-- **C11_rep_toList** (the refinement the IR kernel of C01 relies on): the effect of every
operation on the sequence is the abstract list operation (`append` = move-to-end; `insert_after` /
`insert_before` = insert after the anchor / its predecessor, removing a present value first;
`remove`), and it raises exactly when the abstract operation does. -/
theorem C11_rep_toList {s : LSet} (h : WF s) (op : Op) :
    toList (apply s op).1 = (Spec.apply ⟨toList s, .fwd, .done⟩ op).1.L ∧
    (apply s op).2 = (Spec.apply ⟨toList s, .fwd, .done⟩ op).2 := by
  obtain ⟨bs, hi⟩ := h
  have hc : Cursor.done.Valid s := by simpa [Cursor.Valid, Cursor.pos] using hi.size_pos
  obtain ⟨r1, r2, _⟩ := C11_refine_step ⟨bs, hi⟩ op .fwd .done hc
  have e : abs s .fwd .done = ⟨toList s, .fwd, .done⟩ := by
    simp [abs, absCur]
  rw [e] at r1 r2
  exact ⟨by rw [← r1]; rfl, r2⟩

/-- **C11_refine_next**: one `next()` on a generator is one `Spec.step`: same element (or
StopIteration), and the new concrete cursor abstracts to the new abstract cursor. -/
theorem C11_refine_next {s : LSet} (h : WF s) (d : Dir) (c : Cursor) (hc : c.Valid s) :
    abs s d (iterNext s d c).1 = (Spec.step (abs s d c)).1 ∧
    (iterNext s d c).2 = (match (Spec.step (abs s d c)).2 with
      | some v => Res.yield v
      | none => Res.stop) ∧
    (iterNext s d c).1.Valid s := by
  obtain ⟨bs, hi⟩ := h
  have := hi.next_eq d c hc
  simp only at this
  obtain ⟨h1, h2, h3⟩ := this
  rw [abs_eq hi, abs_eq hi]
  refine ⟨?_, ?_, h2⟩
  · simp only [absSt, Spec.step, h1]
  · simp only [absSt, Spec.step]
    revert h3
    cases (Spec.next (bs.map (vl s)) d (acur s bs d c)).2 <;> exact id

/-- **C11_refine_start**: `iter()` / `reversed()` create the abstract start cursor. -/
theorem C11_refine_start {s : LSet} (h : WF s) (d : Dir) :
    absCur s d .notStarted = Spec.start (toList s) d := by
  obtain ⟨bs, hi⟩ := h
  rw [hi.absCur_eq, hi.toList_eq]
  cases d <;> simp [acur, Cursor.pos, posR, posF, Spec.start, List.idxOf_eq_length hi.zero_notin]

/-- **C11_refine_rest**: what a cursor would still yield is what its abstraction still yields:
a suffix of the sequence (forward) or the reverse of a prefix (reverse). -/
theorem C11_refine_rest {s : LSet} (h : WF s) (d : Dir) (c : Cursor) (hc : c.Valid s) :
    rest s d c = Spec.rest (toList s) d (absCur s d c) := by
  obtain ⟨bs, hi⟩ := h
  rw [hi.absCur_eq, hi.toList_eq]
  exact (hi.rest_eq d c hc).1

/-! ### termination, membership, indexing -/

/-- **C11_terminates**: in any reachable state, with no further edits, every generator —
wherever it is parked — runs to StopIteration: no `RuntimeError` (the `owning_list` check cannot
fire), no `next()` needs more than `size + 1` hops, and at most `len` further elements are
yielded. -/
theorem C11_terminates {s : LSet} (h : WF s) (d : Dir) (c : Cursor) (hc : c.Valid s) :
    (drain s d (size s + 1) c).2 = .stop ∧ (rest s d c).length ≤ s.length ∧
    ((iterNext s d c).2 = .stop ∨ ∃ v, (iterNext s d c).2 = .yield v) := by
  obtain ⟨bs, hi⟩ := h
  obtain ⟨h1, h2⟩ := hi.rest_eq d c hc
  refine ⟨h2, ?_, hi.iterNext_ok d c hc⟩
  rw [h1, hi.len]
  generalize acur s bs d c = a
  cases d <;> cases a <;> simp [Spec.rest] <;> omega

/-- **C11_only_members**: whatever a generator yields is an element of the sequence at that
moment (and the generator is then parked on that element's live box). -/
theorem C11_only_members {s : LSet} (h : WF s) (d : Dir) (c c' : Cursor) (v : Nat) (hc : c.Valid s)
    (hy : iterNext s d c = (c', .yield v)) : v ∈ toList s ∧ c'.Valid s := by
  obtain ⟨bs, hi⟩ := h
  obtain ⟨t, ht, rfl, hv⟩ := hi.iterNext_yield d hc hy
  exact ⟨(hi.mem_toList v).2 ⟨t, ht, hv⟩, (hi.live t ht).2.1⟩

theorem iterNth_links {s : LSet} {bs : List Nat} (h : Inv s bs) (d : Dir) :
    ∀ (n : Nat) (l : List Nat) (c : Cursor), c ≠ .done →
      HopLinks s d (c.pos :: l ++ [0]) → (∀ y ∈ l, y ∈ bs) →
      iterNth s d n c = (l.map (vl s))[n]?
  | n, [], c, hc, hl, _ => by
      simp only [List.cons_append, List.nil_append, HopLinks_cons2] at hl
      cases n <;> simp [iterNth, iterNext_of_pos s d c hc, hl.1, scan_root]
  | 0, y :: l, c, hc, hl, hm => by
      simp only [List.cons_append, HopLinks_cons2] at hl
      simp [iterNth, iterNext_of_pos s d c hc, hl.1, scan_node h d (size s) y (hm y (by simp))]
  | n + 1, y :: l, c, hc, hl, hm => by
      simp only [List.cons_append, HopLinks_cons2] at hl
      have ih := iterNth_links h d n l (.at y) (by simp) (by simpa [Cursor.pos] using hl.2)
        (fun z hz => hm z (by simp [hz]))
      simp [iterNth, iterNext_of_pos s d c hc, hl.1, scan_node h d (size s) y (hm y (by simp)), ih]

/-- **C11_getitem_len_contains**: `len`, `x[i]` for every integer `i` (negative from the end,
out of range raises) and `in` describe the current sequence. -/
theorem C11_getitem_len_contains {s : LSet} (h : WF s) :
    len s = some (toList s).length ∧
    (∀ i : Int, getItem s i =
      if 0 ≤ i ∧ i < (toList s).length then (toList s)[i.toNat]?
      else if -((toList s).length : Int) ≤ i ∧ i < 0 then (toList s)[(i + (toList s).length).toNat]?
      else none) ∧
    (∀ v, contains s v = true ↔ v ∈ toList s) ∧
    toListRev s = (toList s).reverse := by
  obtain ⟨bs, hi⟩ := h
  have hL := hi.toList_eq
  have hn : (toList s).length = s.length := by rw [hL, hi.len]; simp
  refine ⟨?_, ?_, ?_, ?_⟩
  · simp [len, hi.ilen, hi.len, hL]
  · intro i
    unfold getItem
    rw [hn]
    have hf : ∀ n, iterNth s .fwd n .notStarted = (toList s)[n]? := by
      intro n
      rw [hL]
      exact iterNth_links hi .fwd n bs .notStarted (by simp)
        (by simpa [Cursor.pos, seqD] using hi.hopLinks .fwd) (fun _ hy => hy)
    have hr : ∀ n, iterNth s .rev n .notStarted = (toList s).reverse[n]? := by
      intro n
      rw [hL, ← List.map_reverse]
      exact iterNth_links hi .rev n bs.reverse .notStarted (by simp)
        (by simpa [Cursor.pos, seqD] using hi.hopLinks .rev) (fun _ hy => by simpa using hy)
    by_cases h1 : i ≥ (s.length : Int) ∨ i < -(s.length : Int)
    · simp only [h1, if_true]
      have : ¬ (0 ≤ i ∧ i < (s.length : Int)) := by omega
      have : ¬ (-(s.length : Int) ≤ i ∧ i < 0) := by omega
      simp [*]
    · simp only [h1, if_false]
      by_cases h2 : i < 0
      · have : ¬ (0 ≤ i ∧ i < (s.length : Int)) := by omega
        have h3 : -(s.length : Int) ≤ i ∧ i < 0 := by omega
        simp only [h2, if_true, this, if_false, h3, hr]
        rw [List.getElem?_reverse (by rw [hn]; omega)]
        congr 1
        rw [hn]; omega
      · have h3 : 0 ≤ i ∧ i < (s.length : Int) := by omega
        simp only [h2, if_false, h3, hf]
        simp
  · intro v; simp [contains]
  · rw [hi.toListRev_eq, hL]

/-! ### tombstones -/

/-- **C11_tombstone_frozen**: an erased box is never written again, by any operation (so a
generator parked on it keeps reading the pointers the box had when it was erased). -/
theorem C11_tombstone_frozen {s : LSet} (h : WF s) (op : Op) (b : Nat) (hb0 : b ≠ 0)
    (hb : b < size s) (hv : val s b = none) : box (apply s op).1 b = box s b := by
  obtain ⟨bs, hi⟩ := h
  exact (frozen_apply hi op).2 b hb0 hb hv

/-- **C11_tombstone_order**: the stored `next` / `prev` of an erased box is the root, a live box,
or a box erased strictly later (ghost erase stamps) — the well-founded order behind
`C11_terminates`. -/
theorem C11_tombstone_order {s : LSet} (h : WF s) (b : Nat) (hb0 : b ≠ 0) (hb : b < size s)
    (hv : val s b = none) :
    (nx s b = 0 ∨ (val s (nx s b)).isSome ∨ stp s b < stp s (nx s b)) ∧
    (pv s b = 0 ∨ (val s (pv s b)).isSome ∨ stp s b < stp s (pv s b)) ∧
    nx s b < size s ∧ pv s b < size s := by
  obtain ⟨bs, hi⟩ := h
  have hbs : b ∉ bs := by
    intro hm; have := (hi.live b hm).2.2; rw [hv] at this; simp at this
  obtain ⟨t1, t2⟩ := hi.tomb b hb hb0 hbs
  have hbd := hi.bound b hb
  refine ⟨?_, ?_, hbd.1, hbd.2.1⟩
  · rcases t1 with t | t | t
    · exact Or.inl t
    · exact Or.inr (Or.inl (hi.live _ t).2.2)
    · exact Or.inr (Or.inr t)
  · rcases t2 with t | t | t
    · exact Or.inl t
    · exact Or.inr (Or.inl (hi.live _ t).2.2)
    · exact Or.inr (Or.inr t)

/-! ### the English clauses -/

theorem abs_ok {s : LSet} (h : WF s) (d : Dir) (c : Cursor) (hc : c.Valid s) : (abs s d c).OK := by
  obtain ⟨bs, hi⟩ := h
  rw [abs_eq hi]
  exact ⟨hi.vals_nodup, acur_inRange hi d c hc⟩

/-- **C11_next_rest**: a `next()` yields the first element of what the generator had left and
leaves the remainder; StopIteration exactly when nothing is left. -/
theorem C11_next_rest {s : LSet} (h : WF s) (d : Dir) (c : Cursor) (hc : c.Valid s) :
    rest s d c = match (iterNext s d c).2 with
      | .yield v => v :: rest s d (iterNext s d c).1
      | _ => [] := by
  obtain ⟨n1, n2, n3⟩ := C11_refine_next h d c hc
  have ok := abs_ok h d c hc
  have hr := Spec.rest_next (toList s) d (absCur s d c) ok.inRange
  rw [C11_refine_rest h d c hc, hr]
  have e : (Spec.step (abs s d c)).2 = (Spec.next (toList s) d (absCur s d c)).2 := rfl
  rw [e] at n2
  cases hv : (Spec.next (toList s) d (absCur s d c)).2 with
  | none => rw [hv] at n2; simp only [n2]
  | some v =>
    rw [hv] at n2
    simp only [n2]
    rw [C11_refine_rest h d _ n3]
    have : absCur s d (iterNext s d c).1 = (Spec.next (toList s) d (absCur s d c)).1 := by
      have := congrArg Spec.St.c n1
      simpa [abs, Spec.step] using this
    rw [this]

/-- **C11_untouched_step**: an edit leaves every element it does not touch (insert / move /
remove) where it was in what *any* generator still has to yield: same multiplicity, same order. -/
theorem C11_untouched_step {s : LSet} (h : WF s) (op : Op) (d : Dir) (c : Cursor) (hc : c.Valid s) :
    untouched (touched op) (rest (apply s op).1 d c) = untouched (touched op) (rest s d c) := by
  obtain ⟨r1, _, r3⟩ := C11_refine_step h op d c hc
  have ok := abs_ok h d c hc
  obtain ⟨_, u⟩ := Spec.apply_spec ok op
  rw [C11_refine_rest (C11_rep_step h op) d c r3, C11_refine_rest h d c hc]
  have e1 : Spec.rest (toList (apply s op).1) d (absCur (apply s op).1 d c) =
      (Spec.apply (abs s d c) op).1.rest := by
    rw [← r1]; rfl
  rw [e1, u]; rfl

/-- **C11_resume_current**: when the node a generator is parked on is removed or moved — by any
operation that touches only that node: `remove x`, `append x` (move to the end),
`insert_after(a, [x])` / `insert_before(a, [x])` (move next to any anchor) — then, apart from
possibly meeting `x` again at its new place, the generator still yields exactly what followed
`x` at its original place, in the same order. -/
theorem C11_resume_current {s : LSet} (h : WF s) (d : Dir) (b x : Nat) (hb : val s b = some x)
    (hbv : (Cursor.at b).Valid s) (op : Op) (ht : touched op = [x]) :
    untouched [x] (rest (apply s op).1 d (.at b)) = rest s d (.at b) := by
  have u := C11_untouched_step h op d (.at b) hbv
  rw [ht] at u
  rw [u]
  obtain ⟨bs, hi⟩ := h
  have hx := hi.current_not_in_rest d hb
  simp only [untouched]
  apply List.filter_eq_self.2
  intro y hy
  have : y ≠ x := by rintro rfl; exact hx hy
  simpa using this

theorem untouched_append (T l1 l2 : List Nat) :
    untouched T (l1 ++ l2) = untouched T l1 ++ untouched T l2 := by
  simp [untouched]

theorem untouched_mono {T T' l l' : List Nat} (hT : ∀ x ∈ T, x ∈ T')
    (h : untouched T l = untouched T l') : untouched T' l = untouched T' l' := by
  have key : ∀ m : List Nat, untouched T' m = untouched T' (untouched T m) := by
    intro m
    simp only [untouched, List.filter_filter]
    apply List.filter_congr
    intro x _
    by_cases hx : x ∈ T
    · simp [hx, hT x hx]
    · simp [hx]
  rw [key l, key l', h]

/-- **C11_untouched_exactly_once_in_order**: over any history of edits and `next()` calls, what a
generator has yielded followed by what it still has to yield, restricted to the elements no edit
touched, is what it had to yield at the start restricted in the same way.  For a generator
created by `iter()` (`c = notStarted`, `rest = toList`) and run to exhaustion (`rest = []` at the
end) this is: every node present at the start and never touched is yielded exactly once, in
graph order (reversed order for `reversed()`). -/
theorem C11_untouched_exactly_once_in_order (d : Dir) (es : List Ev) :
    ∀ {s : LSet} (_ : WF s) (c : Cursor) (_ : c.Valid s),
      let r := runHist d s c es
      WF r.1 ∧ r.2.1.Valid r.1 ∧
      untouched (touchedRun d s c es) (r.2.2 ++ rest r.1 d r.2.1) =
        untouched (touchedRun d s c es) (rest s d c) := by
  induction es with
  | nil => intro s h c hc; exact ⟨h, hc, by simp [runHist]⟩
  | cons e es ih =>
    intro s h c hc
    cases e with
    | op o =>
      obtain ⟨_, _, r3⟩ := C11_refine_step h o d c hc
      obtain ⟨w, v, u⟩ := ih (C11_rep_step h o) c r3
      refine ⟨w, v, ?_⟩
      simp only [runHist, touchedRun] at u ⊢
      cases hfl : (apply s o).2 with
      | true =>
        simp only [if_true]
        have u1 := untouched_mono (T' := touched o ++ touchedRun d (apply s o).1 c es)
          (fun x hx => by simp [hx]) u
        have u2 := untouched_mono (T' := touched o ++ touchedRun d (apply s o).1 c es)
          (fun x hx => by simp [hx]) (C11_untouched_step h o d c hc)
        rw [u1, u2]
      | false =>
        have e := apply_raised_unchanged h o hfl
        simp only [Bool.false_eq_true, if_false, List.nil_append]
        rw [e] at u ⊢
        exact u
    | next =>
      obtain ⟨n1, n2, n3⟩ := C11_refine_next h d c hc
      have hr := C11_next_rest h d c hc
      obtain ⟨w, v, u⟩ := ih h (iterNext s d c).1 n3
      simp only [touchedRun]
      have n1' : absCur s d (iterNext s d c).1 = (Spec.next (toList s) d (absCur s d c)).1 := by
        have := congrArg Spec.St.c n1
        simpa [abs, Spec.step] using this
      have n2' : (iterNext s d c).2 = (match (Spec.next (toList s) d (absCur s d c)).2 with
          | some v => Res.yield v
          | none => Res.stop) := n2
      cases hres : iterNext s d c with
      | mk c' res =>
        rw [hres] at hr u w v n1' n2' n3
        simp only at hr u w v n1' n2' n3
        cases hv : (Spec.next (toList s) d (absCur s d c)).2 with
        | some x =>
          rw [hv] at n2'
          simp only at n2'
          subst n2'
          simp only [runHist, hres]
          refine ⟨w, v, ?_⟩
          simp only at hr
          rw [hr, List.cons_append]
          simp only [untouched, List.filter_cons] at u ⊢
          rw [u]
        | none =>
          rw [hv] at n2'
          simp only at n2'
          subst n2'
          simp only [runHist, hres]
          refine ⟨w, v, ?_⟩
          simp only at hr
          have hd : absCur s d c' = .done := by rw [n1']; exact Spec.next_none _ _ _ hv
          have hr' : rest s d c' = [] := by
            rw [C11_refine_rest h d c' n3, hd]; cases d <;> rfl
          rw [u, hr, hr']

/-- **C11_spec_rest_remove / insert / resume** (abstract machine, split form `A ++ x :: B`):
removing `x` removes exactly `x` from what every cursor still yields; inserting a new `x` adds at
most `x`, and it is seen exactly when it lands after the cursor's position (`Spec.seen`); a
cursor whose current element is removed continues with the element that followed it. -/
theorem C11_spec_rest_remove (A B : List Nat) (x : Nat) (hnd : (A ++ x :: B).Nodup) (d : Dir)
    (c : Spec.ACur) (hc : c.InRange (A ++ x :: B)) :
    Spec.rest (A ++ B) d (Spec.curRemove d A.length c) = (Spec.rest (A ++ x :: B) d c).erase x :=
  (Spec.rest_removeIdx A B x hnd d c hc).1

theorem C11_spec_rest_insert (A B : List Nat) (x : Nat) (hx : x ∉ A ++ B) (d : Dir) (c : Spec.ACur)
    (hc : c.InRange (A ++ B)) :
    (Spec.rest (A ++ x :: B) d (Spec.curInsert d A.length c)).erase x = Spec.rest (A ++ B) d c ∧
    (x ∈ Spec.rest (A ++ x :: B) d (Spec.curInsert d A.length c) ↔ Spec.seen d A.length c) :=
  ⟨(Spec.rest_insertIdx A B x hx d c hc).1, (Spec.rest_insertIdx A B x hx d c hc).2.2⟩

theorem C11_spec_resume (A B : List Nat) :
    Spec.rest (A ++ B) .fwd (Spec.curRemove .fwd A.length (.att (A.length + 1))) = B ∧
    Spec.rest (A ++ B) .rev (Spec.curRemove .rev A.length (.att A.length)) = A.reverse := by
  simp [Spec.curRemove, Spec.rest]

/-! ### recursive iteration (`traversal.RecursiveGraphIterator`)

`WorldWF w`: every node container satisfies `WF`.  `Ranked w d rk`: the nesting is well founded —
`rk` decreases from a graph to every subgraph entered from one of its nodes ("a graph is not
nested in itself").  `StackOK w d rk st`: every frame's cursor refers to a box of its graph and
the subgraphs it still has to enter have smaller rank; it holds for a fresh iterator and is
preserved by `next()` and by edits of the node sequences (attributes are not edited). -/

/-- **C11_rec_start** -/
theorem C11_rec_start {w : RWorld} (hw : WorldWF w) (d : Dir) (rk : Nat → Nat) (g : Nat) :
    StackOK w d rk (recStart g) := by
  intro fr hfr
  simp only [recStart, List.mem_singleton] at hfr
  subst hfr
  exact frameOK_fresh w d rk g hw

/-- **C11_rec_only_members**: every node a `next()` on the recursive iterator yields is, at that
moment, a member of the graph it is yielded from (the graph whose generator produced it); the
stack stays consistent. -/
theorem C11_rec_only_members {w : RWorld} {d : Dir} {rk : Nat → Nat} (hw : WorldWF w)
    (hr : Ranked w d rk) {st : List RFrame} (ok : StackOK w d rk st) (f : Nat) :
    StackOK w d rk (recNext w d f st).1 ∧
    ∀ g v, Out.yield g v ∈ (recNext w d f st).2.1 → v ∈ toList (w.setOf g) :=
  recNext_ok hw hr f st ok

/-- **C11_rec_terminates**: with no further edits and a well-founded nesting, the recursive
iterator — in any consistent state, however its frames are parked — runs to StopIteration: there
is one output stream `outs` such that the drain returns `(outs, stop)` (never `raised`) for every
step bound `f ≥ 2 * outs.length + st.length + 1`, and every single `next()` with such a bound
returns a yield or StopIteration. -/
theorem C11_rec_terminates {w : RWorld} {d : Dir} {rk : Nat → Nat} (hw : WorldWF w)
    (hr : Ranked w d rk) {st : List RFrame} (ok : StackOK w d rk st) :
    ∃ outs, ∀ f, 2 * outs.length + st.length + 1 ≤ f →
      recDrain w d f st = (outs, .stop) ∧
      ((recNext w d f st).2.2 = .stop ∨ ∃ v, (recNext w d f st).2.2 = .yield v) := by
  obtain ⟨K, hK⟩ := exists_rank_bound rk st
  obtain ⟨outs, hs⟩ := steps_stack hw hr K st ok hK
  obtain ⟨n, hn⟩ := hs.drain_all
  refine ⟨outs, fun f hf => ?_⟩
  have hb := recDrain_bound w d n st outs (hn n (Nat.le_refl _))
  have hf' := recDrain_mono w d hb (by have := lastCount_le st; omega : 2 * outs.length + lastCount st + 1 ≤ f)
  exact ⟨hf', recNext_of_drain w d f st outs hf'⟩

/-- **C11_rec_preorder**: with no edits, a fresh `RecursiveGraphIterator(g)` produces exactly the
pre-order stream `specTop` — `enter g`, then each node of `g` in order (reverse order for
`reverse=True`) immediately followed by the predicate call and, unless it returns False, by the
complete visit of each of its subgraphs in attribute order (`GRAPHS` lists reversed for
`reverse=True`), then `exit g` — within `2 * (length of that stream) + 2` steps. -/
theorem C11_rec_preorder {w : RWorld} {d : Dir} {rk : Nat → Nat} (hw : WorldWF w)
    (hr : Ranked w d rk) (k g : Nat) (hk : rk g ≤ k) :
    ∀ f, 2 * (specTop w d k g).length + 2 ≤ f → recDrain w d f (recStart g) = (specTop w d k g, .stop) := by
  obtain ⟨n, hn⟩ := (steps_top hw hr k g hk).drain_all
  intro f hf
  have hb := recDrain_bound w d n _ _ (hn n (Nat.le_refl _))
  have hl : lastCount (recStart g) ≤ 1 := by
    have := lastCount_le (recStart g)
    simpa [recStart] using this
  exact recDrain_mono w d hb (by omega)

/-- **C11_rec_history**: over any history of `next()` calls and edits of the node sequences of the
graphs (nesting fixed: attributes are not edited; every inserted node belongs to the graph it is
inserted into, `home`), starting from any consistent state (e.g. a fresh iterator,
`C11_rec_start`): every `next()` yields only current members of the graph it yields from, and at
the end the world and the iterator are consistent again and the nesting is still well founded
(`Ranked` is re-established — it follows from the static `StaticRanked` and `Homed`, which edits
preserve), so `C11_rec_terminates` applies to the final state. -/
theorem C11_rec_history (d : Dir) (fuel : Nat) (rk home : Nat → Nat) (es : List REv) (w : RWorld)
    (st : List RFrame) (hw : WorldWF w) (hh : Homed w home) (hs : StaticRanked w d rk home)
    (ok : StackOK w d rk st) (adm : Admissible w.sets.length home es) :
    RecHistInv d fuel rk home w st es :=
  rec_history d fuel rk home es w st hw hh hs ok adm

/-- **C11_rec_refine_step**: an edit of the node sequence of graph `g` keeps the world and every
iterator stack consistent, and every frame parked in `g` — at any depth of any recursive
iterator — follows the list-with-gaps machine (`C11_refine_step` per level); frames of other
graphs are untouched. -/
theorem C11_rec_refine_step {w : RWorld} {d : Dir} {rk : Nat → Nat} (hw : WorldWF w)
    {st : List RFrame} (ok : StackOK w d rk st) (g : Nat) (op : Op) (hg : g < w.sets.length) :
    WorldWF (w.applyAt g op).1 ∧ StackOK (w.applyAt g op).1 d rk st ∧
    ∀ fr ∈ st,
      (fr.g = g → abs ((w.applyAt g op).1.setOf g) d fr.c = (Spec.apply (abs (w.setOf g) d fr.c) op).1) ∧
      (fr.g ≠ g → (w.applyAt g op).1.setOf fr.g = w.setOf fr.g) := by
  have hsame := setOf_applyAt_same w g op hg
  refine ⟨?_, ?_, ?_⟩
  · intro s hs
    simp only [RWorld.applyAt] at hs
    rcases List.mem_or_eq_of_mem_set hs with h | h
    · exact hw s h
    · rw [h]; exact C11_rep_step (hw.setOf g) op
  · intro fr hfr
    have okf := ok fr hfr
    refine ⟨?_, okf.pend, okf.last⟩
    by_cases hfg : fr.g = g
    · rw [hfg, hsame]
      have := (C11_refine_step (hw.setOf g) op d fr.c (by rw [← hfg]; exact okf.valid)).2.2
      exact this
    · rw [setOf_applyAt_other w g fr.g op hfg]; exact okf.valid
  · intro fr hfr
    have okf := ok fr hfr
    refine ⟨?_, fun hne => setOf_applyAt_other w g fr.g op hne⟩
    intro hfg
    rw [hsame]
    exact (C11_refine_step (hw.setOf g) op d fr.c (by rw [← hfg]; exact okf.valid)).1

/-! ### non-vacuity of the hypotheses, and the corner the spec fixes -/

-- `WF` is inhabited by every reachable state (C11_rep_history); concretely, with a tombstone:
example : WF (apply (apply empty (.extend [7, 8, 9])).1 (.remove 8)).1 :=
  C11_rep_step (C11_rep_step C11_rep_empty.1 _) _
-- the executable form of the invariant on a state with a tombstone (box 2) and a moved value
example : invOk (apply (apply (apply empty (.extend [7, 8, 9])).1 (.remove 8)).1 (.append 7)).1 = true := by
  decide
-- `Valid`: fresh generators, and a generator parked on the tombstone (a `gap` cursor)
example : Cursor.notStarted.Valid empty ∧ (Cursor.at 2).Valid (apply (apply empty (.extend [7, 8, 9])).1 (.remove 8)).1 := by
  unfold Cursor.Valid; decide
example : absCur (apply (apply empty (.extend [7, 8, 9])).1 (.remove 8)).1 .fwd (.at 2) = .gap 1 := by
  decide
-- a node inserted exactly where the removed current node was is skipped by the generator parked
-- there (it resumes with the node that followed the removed one), but seen by a generator parked on
-- the live predecessor
example :
    rest (apply (apply (apply empty (.extend [7, 8, 9])).1 (.remove 8)).1 (.insertBefore 9 [5])).1 .fwd (.at 2) = [9] ∧
    rest (apply (apply (apply empty (.extend [7, 8, 9])).1 (.remove 8)).1 (.insertBefore 9 [5])).1 .fwd (.at 1) = [5, 9] := by
  decide
-- hypotheses of the abstract lemmas
example : ([1, 2] ++ 3 :: [4]).Nodup ∧ (Spec.ACur.gap 2).InRange ([1, 2] ++ 3 :: [4]) ∧ 5 ∉ [1, 2] ++ [4] := by
  simp [Spec.ACur.InRange]
example : Spec.seen .fwd 2 (.att 2) ∧ ¬ Spec.seen .fwd 2 (.gap 2) ∧ Spec.seen .rev 2 (.att 2) ∧ ¬ Spec.seen .rev 2 (.gap 2) := by
  simp [Spec.seen]

-- recursive iteration: a world with a nested graph (graph 1 under node 1 of graph 0) satisfies the
-- hypotheses, and the conclusion of C11_rec_preorder evaluated on it
def exWorld : RWorld := ⟨[(extend empty [1, 2]).1, (extend empty [11]).1], [(1, [.graph 1])], none⟩

example : WorldWF exWorld := by
  intro s hs
  simp only [exWorld, List.mem_cons, List.not_mem_nil, or_false] at hs
  rcases hs with rfl | rfl <;> exact C11_rep_step C11_rep_empty.1 (.extend _)

example : Ranked exWorld .fwd (fun g => 1 - g) := by
  intro g v hv _ h hh
  have hv1 : v = 1 := by
    apply Classical.byContradiction
    intro hne
    have : (exWorld.attrs.lookup v) = none := by
      simp only [exWorld, List.lookup]
      have : (v == 1) = false := by simp [hne]
      simp [this]
    simp [RWorld.visit, RWorld.attrsOf, this] at hh
  subst hv1
  have hh1 : h = 1 := by simpa [RWorld.visit, RWorld.attrsOf, exWorld, List.lookup] using hh
  subst hh1
  match g, hv with
  | 0, _ => decide
  | 1, hv => exact absurd hv (by decide)
  | g + 2, hv => exact absurd hv (by
      have : exWorld.setOf (g + 2) = empty := by simp [RWorld.setOf, exWorld, List.getD]
      rw [this]; decide)

example : recDrain exWorld .fwd 100 (recStart 0) = (specTop exWorld .fwd 1 0, .stop) := by decide

-- the hypotheses of C11_rec_history: nodes 1, 2 live in graph 0, node 11 in graph 1
def exHome (v : Nat) : Nat := if v < 10 then 0 else 1

example : Homed exWorld exHome := by
  intro g v hv
  match g, hv with
  | 0, hv =>
    have : toList (exWorld.setOf 0) = [1, 2] := by decide
    rw [this] at hv; simp at hv; rcases hv with rfl | rfl <;> rfl
  | 1, hv =>
    have : toList (exWorld.setOf 1) = [11] := by decide
    rw [this] at hv; simp at hv; subst hv; rfl
  | g + 2, hv =>
    have : exWorld.setOf (g + 2) = empty := by simp [RWorld.setOf, exWorld, List.getD]
    rw [this, C11_rep_empty.2] at hv; exact absurd hv (by simp)

example : StaticRanked exWorld .fwd (fun g => 1 - g) exHome := by
  intro v _ h hh
  have hv1 : v = 1 := by
    apply Classical.byContradiction
    intro hne
    have : (exWorld.attrs.lookup v) = none := by
      simp only [exWorld, List.lookup]
      have : (v == 1) = false := by simp [hne]
      simp [this]
    simp [RWorld.visit, RWorld.attrsOf, this] at hh
  subst hv1
  have hh1 : h = 1 := by simpa [RWorld.visit, RWorld.attrsOf, exWorld, List.lookup] using hh
  subst hh1
  decide

example : Admissible exWorld.sets.length exHome [.next, .edit 0 (.remove 1), .edit 1 (.append 12), .next] := by
  simp [Admissible, touched, exWorld, exHome]

end IrVerif.LinkedSet

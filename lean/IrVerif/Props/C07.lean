/-
C07 — external-data layout is well formed; save restores the model (property theorems).
Model: `IrVerif/Model/Layout.lean`; helper lemmas: `IrVerif/Lemmas/Layout.lean`.
Core Lean only.
-/
import IrVerif.Lemmas.Layout
import IrVerif.Lemmas.LayoutNames
namespace IrVerif.Layout

/-! ## Offsets in one data file -/

/-- **C07_disjoint** (which contains **C07_monotone**): in declaration order every recorded
    range ends before the next one starts — for every later tensor, not only the neighbour. -/
theorem C07_disjoint (al : Option Nat) (thr : Nat) (sizes : List Nat) :
    (computeInfos al thr sizes).Pairwise (fun a b => a.offset + a.length ≤ b.offset) := by
  unfold computeInfos
  generalize 0 = cur
  induction sizes generalizing cur with
  | nil => simp [computeInfosFrom]
  | cons s rest ih =>
    simp only [computeInfosFrom, List.pairwise_cons]
    exact ⟨fun b hb => computeInfosFrom_ge _ _ _ _ b hb, ih _⟩

/-- **C07_monotone**: offsets follow declaration order. -/
theorem C07_monotone (al : Option Nat) (thr : Nat) (sizes : List Nat) :
    (computeInfos al thr sizes).Pairwise (fun a b => a.offset ≤ b.offset) :=
  (C07_disjoint al thr sizes).imp (by intro a b h; omega)

/-- every tensor is recorded with its own length, in order (nothing lost or duplicated) -/
theorem C07_lengths (al : Option Nat) (thr : Nat) (sizes : List Nat) :
    (computeInfos al thr sizes).map (·.length) = sizes :=
  computeInfosFrom_lengths _ _ _ _

theorem serial_length_from (al : Option Nat) (thr : Nat) (bs : List (List Nat)) (cur : Nat)
    (img : List Nat) (himg : img.length = cur) :
    (applyWrites img (((computeInfosFrom al thr cur (bs.map List.length)).zip bs).map
      fun p => (p.1.offset, p.2))).length = layoutEndFrom al thr cur (bs.map List.length) := by
  induction bs generalizing cur img with
  | nil => simpa [computeInfosFrom, applyWrites, layoutEndFrom] using himg
  | cons b rest ih =>
    simp only [List.map_cons, computeInfosFrom, List.zip_cons_cons, applyWrites_cons, layoutEndFrom]
    apply ih
    rw [writeAt_length]
    have hge := alignOffset_ge cur b.length al thr
    split
    · rename_i hb; subst hb
      simp [alignOffset_small, himg]
    · omega

/-- **C07_within**: every recorded range lies inside the file, and the file the serial writer
    produces is exactly as long as the end of the last range (`current_offset` after the loop). -/
theorem C07_within (al : Option Nat) (thr : Nat) (bs : List (List Nat)) :
    (serialImage (writesOf al thr bs)).length = layoutEnd al thr (bs.map List.length) ∧
    ∀ i ∈ computeInfos al thr (bs.map List.length),
      i.offset + i.length ≤ layoutEnd al thr (bs.map List.length) := by
  constructor
  · exact serial_length_from al thr bs 0 [] rfl
  · exact computeInfosFrom_le_end al thr 0 _

/-- adjacent-pair view of the layout: list of (end of previous range, info) -/
def withPrevEnd (al : Option Nat) (thr : Nat) : Nat → List Nat → List (Nat × Info)
  | _, [] => []
  | cur, s :: rest =>
    let off := alignOffset cur s al thr
    (cur, ⟨off, s⟩) :: withPrevEnd al thr (off + s) rest

theorem withPrevEnd_snd (al : Option Nat) (thr : Nat) (cur : Nat) (sizes : List Nat) :
    (withPrevEnd al thr cur sizes).map (·.2) = computeInfosFrom al thr cur sizes := by
  induction sizes generalizing cur with
  | nil => rfl
  | cons s rest ih => simp [withPrevEnd, computeInfosFrom, ih]

/-- `prev` really is the end of the previous range (`cur`, i.e. 0, for the first) -/
theorem withPrevEnd_eq_zip (al : Option Nat) (thr : Nat) (cur : Nat) (sizes : List Nat) :
    withPrevEnd al thr cur sizes =
      List.zip (cur :: (computeInfosFrom al thr cur sizes).map Info.stop)
        (computeInfosFrom al thr cur sizes) := by
  induction sizes generalizing cur with
  | nil => rfl
  | cons s rest ih => simp [withPrevEnd, computeInfosFrom, ih, Info.stop]

theorem aligned_from (al : Option Nat) (thr : Nat) (cur : Nat) (sizes : List Nat) :
    ∀ p ∈ withPrevEnd al thr cur sizes,
      p.1 ≤ p.2.offset ∧
      (al = none ∨ p.2.length ≤ thr → p.2.offset = p.1) ∧
      (∀ a, al = some a → thr < p.2.length →
        p.2.offset % max 4096 a = 0 ∧ p.2.offset < p.1 + max 4096 a) := by
  induction sizes generalizing cur with
  | nil => intro p hp; simp [withPrevEnd] at hp
  | cons s rest ih =>
    intro p hp
    simp only [withPrevEnd, List.mem_cons] at hp
    rcases hp with rfl | hp
    · refine ⟨alignOffset_ge _ _ _ _, ?_, ?_⟩
      · rintro (h | h)
        · subst h; rfl
        · exact alignOffset_small _ _ _ _ h
      · intro a ha hlt
        subst ha
        exact ⟨alignOffset_aligned _ _ _ _ hlt, alignOffset_lt _ _ _ _⟩
    · exact ih _ p hp

/-- **C07_aligned**: with `alignment = some a` every tensor longer than `align_threshold` starts
    at a multiple of `max 4096 a`, the padding before it is shorter than that factor, and every
    other tensor starts exactly where the previous one ended; with `alignment = none` the file
    is densely packed.  The first tensor starts at 0. -/
theorem C07_aligned (al : Option Nat) (thr : Nat) (sizes : List Nat) :
    ∀ p ∈ withPrevEnd al thr 0 sizes,
      p.1 ≤ p.2.offset ∧
      (al = none ∨ p.2.length ≤ thr → p.2.offset = p.1) ∧
      (∀ a, al = some a → thr < p.2.length →
        p.2.offset % max 4096 a = 0 ∧ p.2.offset < p.1 + max 4096 a) :=
  aligned_from al thr 0 sizes

theorem C07_first_at_zero (al : Option Nat) (thr : Nat) (s : Nat) (rest : List Nat) :
    (computeInfos al thr (s :: rest)).head? = some ⟨0, s⟩ := by
  simp [computeInfos, computeInfosFrom, alignOffset_zero]

/-! ## Sharding (raw data files) -/

section Shard
variable {α : Type} (size : α → Nat)

theorem shardRawGo_flatten (limit : Nat) (al : Option Nat) (thr : Nat) (cur : List α) (sz : Nat)
    (ts : List α) : (shardRawGo size limit al thr cur sz ts).flatten = cur ++ ts := by
  induction ts generalizing cur sz with
  | nil => simp [shardRawGo]
  | cons t rest ih =>
    simp only [shardRawGo]
    split
    · simp [ih]
    · simp [ih]

theorem shardRawGo_nonempty (limit : Nat) (al : Option Nat) (thr : Nat) (cur : List α) (sz : Nat)
    (ts : List α) (h : cur ≠ [] ∨ ts ≠ []) :
    ∀ sh ∈ shardRawGo size limit al thr cur sz ts, sh ≠ [] := by
  induction ts generalizing cur sz with
  | nil =>
    intro sh hsh
    simp only [shardRawGo, List.mem_singleton] at hsh
    subst hsh
    simpa using h
  | cons t rest ih =>
    intro sh hsh
    simp only [shardRawGo] at hsh
    split at hsh
    · rename_i hc
      rcases List.mem_cons.mp hsh with rfl | hsh
      · exact hc.2
      · exact ih [t] _ (Or.inl (by simp)) sh hsh
    · exact ih (cur ++ [t]) _ (Or.inl (by simp)) sh hsh

/-- **C07_shards_partition**: concatenating the shards gives back the tensor list (every tensor
    in exactly one shard, declaration order kept) and no shard is empty unless there is nothing
    to write. -/
theorem C07_shards_partition (limit : Nat) (al : Option Nat) (thr : Nat) (ts : List α) :
    (shardRaw size limit al thr ts).flatten = ts ∧
    (ts ≠ [] → ∀ sh ∈ shardRaw size limit al thr ts, sh ≠ []) := by
  constructor
  · simpa [shardRaw] using shardRawGo_flatten size limit al thr [] 0 ts
  · intro h
    exact shardRawGo_nonempty size limit al thr [] 0 ts (Or.inr h)

theorem shardRawGo_limit (limit : Nat) (al : Option Nat) (thr : Nat) (cur : List α) (sz : Nat)
    (ts : List α) (hsz : sz = layoutEnd al thr (cur.map size))
    (hinv : sz ≤ limit ∨ cur.length ≤ 1) :
    ∀ sh ∈ shardRawGo size limit al thr cur sz ts,
      layoutEnd al thr (sh.map size) ≤ limit ∨ sh.length ≤ 1 := by
  induction ts generalizing cur sz with
  | nil =>
    intro sh hsh
    simp only [shardRawGo, List.mem_singleton] at hsh
    subst hsh; subst hsz; exact hinv
  | cons t rest ih =>
    intro sh hsh
    simp only [shardRawGo] at hsh
    split at hsh
    · rcases List.mem_cons.mp hsh with rfl | hsh
      · subst hsz; exact hinv
      · refine ih [t] _ ?_ (Or.inr (by simp)) sh hsh
        simp [layoutEnd_single]
    · rename_i hc
      refine ih (cur ++ [t]) _ ?_ ?_ sh hsh
      · subst hsz; simp [layoutEnd_snoc]
      · by_cases hcur : cur = []
        · subst hcur; right; simp
        · left
          have : ¬ (alignOffset sz (size t) al thr + size t > limit) := fun h => hc ⟨h, hcur⟩
          omega

/-- **C07_shard_limit**: the on-disk size of a shard (its own running offset, padding included)
    exceeds `max_shard_size_bytes` only if the shard holds a single tensor. -/
theorem C07_shard_limit (limit : Nat) (al : Option Nat) (thr : Nat) (ts : List α) :
    ∀ sh ∈ shardRaw size limit al thr ts,
      limit < layoutEnd al thr (sh.map size) → sh.length = 1 := by
  intro sh hsh hbig
  have h1 := shardRawGo_limit size limit al thr [] 0 ts (by simp [layoutEnd, layoutEndFrom])
    (Or.inr (by simp)) sh hsh
  have hne : sh ≠ [] := by
    intro h; subst h; simp [layoutEnd, layoutEndFrom] at hbig
  have : 0 < sh.length := List.length_pos_iff.mpr hne
  omega

end Shard

/-! ## Read-back -/

/-- **C07_readback**: whatever the order in which the (pairwise disjoint) tensor writes are
    carried out and whatever the file contained before, reading `(offset, length)` of any
    written tensor afterwards returns exactly that tensor's bytes. -/
theorem C07_readback (img0 : List Nat) (ws ws' : List Write) (hperm : ws'.Perm ws)
    (hd : ws.Pairwise Write.disjoint) (w : Write) (hw : w ∈ ws) :
    readAt (applyWrites img0 ws') w.1 w.2.length = w.2 := by
  have hd' : ws'.Pairwise Write.disjoint :=
    (hperm.pairwise_iff (fun h => Write.disjoint_symm h)).mpr hd
  have hw' : w ∈ ws' := hperm.mem_iff.mpr hw
  by_cases hne : w.2 = []
  · simp [readAt, hne]
  · exact readAt_eq_of_getD _ _ _ (applyWrites_length_written img0 ws' w hw' hne)
      (fun j hj => applyWrites_getD_written img0 ws' hd' w hw' j hj)

/-- the writes of a layout are pairwise disjoint when every tensor delivers as many bytes as
    its recorded length -/
theorem writesOf_disjoint (al : Option Nat) (thr : Nat) (bs : List (List Nat)) :
    (writesOf al thr bs).Pairwise Write.disjoint := by
  unfold writesOf computeInfos
  generalize 0 = cur
  induction bs generalizing cur with
  | nil => simp [computeInfosFrom]
  | cons b rest ih =>
    simp only [List.map_cons, computeInfosFrom, List.zip_cons_cons, List.pairwise_cons]
    refine ⟨?_, ih _⟩
    intro w hw
    simp only [List.mem_map] at hw
    obtain ⟨p, hp, rfl⟩ := hw
    have := computeInfosFrom_ge _ _ _ _ p.1 (List.of_mem_zip hp).1
    left; simpa using this

/-- **C07_readback_layout**: for the layout the code computes, serial writing, or preallocation
    followed by the writes in any order (any worker schedule), reads back every tensor. -/
theorem C07_readback_layout (al : Option Nat) (thr : Nat) (bs : List (List Nat))
    (ws' : List Write) (hperm : ws'.Perm (writesOf al thr bs)) (total : Nat)
    (w : Write) (hw : w ∈ writesOf al thr bs) :
    readAt (parallelImage total ws') w.1 w.2.length = w.2 ∧
    readAt (serialImage (writesOf al thr bs)) w.1 w.2.length = w.2 :=
  ⟨C07_readback _ _ _ hperm (writesOf_disjoint al thr bs) w hw,
   C07_readback _ _ _ (List.Perm.refl _) (writesOf_disjoint al thr bs) w hw⟩

/-! ## Sharding (safetensors backend, as fixed by D62) -/

section ShardSt
variable {α : Type} (size : α → Nat)

theorem shardStGo_flatten (limit : Nat) (cur : List α) (sz : Nat) (ts : List α) :
    (shardStGo size limit cur sz ts).flatten = cur ++ ts := by
  induction ts generalizing cur sz with
  | nil => simp [shardStGo]
  | cons t rest ih =>
    simp only [shardStGo]
    split <;> simp [ih]

theorem shardStGo_nonempty (limit : Nat) (cur : List α) (sz : Nat) (ts : List α)
    (h : cur ≠ [] ∨ ts ≠ []) : ∀ sh ∈ shardStGo size limit cur sz ts, sh ≠ [] := by
  induction ts generalizing cur sz with
  | nil =>
    intro sh hsh
    simp only [shardStGo, List.mem_singleton] at hsh
    subst hsh; simpa using h
  | cons t rest ih =>
    intro sh hsh
    simp only [shardStGo] at hsh
    split at hsh
    · rename_i hc
      rcases List.mem_cons.mp hsh with rfl | hsh
      · exact hc.2
      · exact ih [t] _ (Or.inl (by simp)) sh hsh
    · exact ih (cur ++ [t]) _ (Or.inl (by simp)) sh hsh

theorem shardStGo_limit (limit : Nat) (cur : List α) (sz : Nat) (ts : List α)
    (hsz : sz = (cur.map size).sum) (hinv : sz ≤ limit ∨ cur.length ≤ 1) :
    ∀ sh ∈ shardStGo size limit cur sz ts, (sh.map size).sum ≤ limit ∨ sh.length ≤ 1 := by
  induction ts generalizing cur sz with
  | nil =>
    intro sh hsh
    simp only [shardStGo, List.mem_singleton] at hsh
    subst hsh; subst hsz; exact hinv
  | cons t rest ih =>
    intro sh hsh
    simp only [shardStGo] at hsh
    split at hsh
    · rcases List.mem_cons.mp hsh with rfl | hsh
      · subst hsz; exact hinv
      · exact ih [t] _ (by simp) (Or.inr (by simp)) sh hsh
    · rename_i hc
      refine ih (cur ++ [t]) _ (by subst hsz; simp) ?_ sh hsh
      by_cases hcur : cur = []
      · subst hcur; right; simp
      · left
        have : ¬ (sz + size t > limit) := fun h => hc ⟨h, hcur⟩
        omega

/-- **C07_shards_partition_st** / **C07_shard_limit_st**: the safetensors sharder (with the
    emptiness test of D62.diff) partitions the tensors in order, never emits an empty shard for
    a non-empty input, and a shard whose payload exceeds the limit holds a single tensor. -/
theorem C07_shards_partition_st (limit : Option Nat) (ts : List α) :
    (shardSt size limit ts).flatten = ts ∧
    (ts ≠ [] → ∀ sh ∈ shardSt size limit ts, sh ≠ []) := by
  cases limit with
  | none => simp [shardSt]
  | some l =>
    constructor
    · simpa [shardSt] using shardStGo_flatten size l [] 0 ts
    · intro h; exact shardStGo_nonempty size l [] 0 ts (Or.inr h)

theorem C07_shard_limit_st (limit : Nat) (ts : List α) :
    ∀ sh ∈ shardSt size (some limit) ts, limit < (sh.map size).sum → sh.length = 1 := by
  intro sh hsh hbig
  have h1 := shardStGo_limit size limit [] 0 ts (by simp) (Or.inr (by simp)) sh hsh
  have hne : sh ≠ [] := by intro h; subst h; simp at hbig
  have : 0 < sh.length := List.length_pos_iff.mpr hne
  omega

end ShardSt

/-- **C07_D62_witness**: the safetensors sharder as it is in the unfixed source (size test
    instead of emptiness test) violates the shard-limit statement: sizes `[0, 100]` with limit
    10 give one shard of 100 bytes holding two tensors. -/
theorem C07_D62_witness :
    ∃ sh ∈ shardStGoUnfixed id 10 [] 0 [0, 100], 10 < (sh.map id).sum ∧ sh.length ≠ 1 :=
  ⟨[0, 100], by decide, by decide, by decide⟩

/-! ## `save` restores the model -/

theorem assignAll_not_mem (st : Store) (ps : List (Nat × Option Nat)) (v : Nat)
    (h : ∀ p ∈ ps, p.1 ≠ v) : assignAll st ps v = st v := by
  induction ps generalizing st with
  | nil => rfl
  | cons p ps ih =>
    obtain ⟨w, t⟩ := p
    simp only [assignAll]
    rw [ih _ (fun q hq => h q (List.mem_cons_of_mem _ hq))]
    have : w ≠ v := h (w, t) (List.mem_cons_self ..)
    simp [Store.set, Ne.symm this]

theorem assignAll_saved (st0 st : Store) (vs : List Nat) (v : Nat) (hv : v ∈ vs) :
    assignAll st (vs.map fun w => (w, st0 w)) v = st0 v := by
  induction vs generalizing st with
  | nil => simp at hv
  | cons w rest ih =>
    simp only [List.map_cons, assignAll]
    by_cases hr : v ∈ rest
    · exact ih _ hr
    · have hvw : v = w := by
        rcases List.mem_cons.mp hv with h | h
        · exact h
        · exact absurd h hr
      subst hvw
      rw [assignAll_not_mem]
      · simp [Store.set]
      · intro p hp
        simp only [List.mem_map] at hp
        obtain ⟨u, hu, rfl⟩ := hp
        intro h; exact hr (h ▸ hu)

/-- **C07_model_restored**: whatever `unload_from_model` re-pointed (any assignments to
    collected initializer values, the same value possibly listed twice) and wherever the save
    stopped — returned, or raised during argument checks, unloading/writing, serialization or
    writing the proto — every value holds the tensor object it held before the call. -/
theorem C07_model_restored (st : Store) (inits : List Nat) (repoint : List (Nat × Option Nat))
    (fail : Fail) (hrp : ∀ p ∈ repoint, p.1 ∈ inits) :
    (saveStore st inits repoint fail).2 = st := by
  funext v
  have key : ∀ mid : Store, (∀ w, w ∉ inits → mid w = st w) →
      assignAll mid (inits.map fun w => (w, st w)) v = st v := by
    intro mid hmid
    by_cases hv : v ∈ inits
    · exact assignAll_saved st mid inits v hv
    · rw [assignAll_not_mem]
      · exact hmid v hv
      · intro p hp
        simp only [List.mem_map] at hp
        obtain ⟨u, hu, rfl⟩ := hp
        intro h; exact hv (h ▸ hu)
  have hrep : ∀ w, w ∉ inits → assignAll st repoint w = st w := by
    intro w hw
    apply assignAll_not_mem
    intro p hp h
    exact hw (h ▸ hrp p hp)
  cases fail with
  | early => rfl
  | unload => exact key st (fun _ _ => rfl)
  | none => exact key _ hrep
  | serialize => exact key _ hrep
  | protoSave => exact key _ hrep

/-- what serialization sees is the re-pointed model (the restore happens afterwards) -/
theorem C07_mid_is_repointed (st : Store) (inits : List Nat) (repoint : List (Nat × Option Nat)) :
    (saveStore st inits repoint .none).1 = assignAll st repoint := rfl

/-! ## The data file does not depend on the order of the writes -/

theorem applyWrites_length_le (img : List Nat) (ws : List Write) (L : Nat) (himg : img.length ≤ L)
    (hws : ∀ w ∈ ws, w.1 + w.2.length ≤ L) : (applyWrites img ws).length ≤ L := by
  induction ws generalizing img with
  | nil => exact himg
  | cons w ws ih =>
    rw [applyWrites_cons]
    apply ih
    · rw [writeAt_length]
      have := hws w (List.mem_cons_self ..)
      split <;> omega
    · exact fun v hv => hws v (List.mem_cons_of_mem _ hv)

theorem totalSize_from (al : Option Nat) (thr : Nat) (cur : Nat) (sizes : List Nat) :
    (computeInfosFrom al thr cur sizes).foldl (fun m i => max m i.stop) cur =
      layoutEndFrom al thr cur sizes := by
  induction sizes generalizing cur with
  | nil => rfl
  | cons s rest ih =>
    simp only [computeInfosFrom, List.foldl_cons, layoutEndFrom, Info.stop]
    have := alignOffset_ge cur s al thr
    rw [Nat.max_eq_right (by omega)]
    exact ih _

theorem totalSize_eq_layoutEnd (al : Option Nat) (thr : Nat) (sizes : List Nat) :
    totalSize (computeInfos al thr sizes) = layoutEnd al thr sizes :=
  totalSize_from al thr 0 sizes

theorem writesOf_stop_le (al : Option Nat) (thr : Nat) (bs : List (List Nat)) :
    ∀ w ∈ writesOf al thr bs, w.1 + w.2.length ≤ layoutEnd al thr (bs.map List.length) := by
  intro w hw
  simp only [writesOf, List.mem_map] at hw
  obtain ⟨p, hp, rfl⟩ := hw
  have hmem := (List.of_mem_zip hp).1
  have hle := computeInfosFrom_le_end al thr 0 _ p.1 hmem
  -- p.2.length = p.1.length
  have hlen : p.1.length = p.2.length := by
    have hz : ∀ (cur : Nat) (bs : List (List Nat)) (q : Info × List Nat),
        q ∈ (computeInfosFrom al thr cur (bs.map List.length)).zip bs → q.1.length = q.2.length := by
      intro cur bs
      induction bs generalizing cur with
      | nil => intro q hq; simp [computeInfosFrom] at hq
      | cons b rest ih =>
        intro q hq
        simp only [List.map_cons, computeInfosFrom, List.zip_cons_cons, List.mem_cons] at hq
        rcases hq with rfl | hq
        · rfl
        · exact ih _ q hq
    exact hz 0 bs p hp
  simp only [Info.stop] at hle
  simp only [layoutEnd]
  omega

/-- **C07_image_order_independent**: preallocating the file to `total_size` and carrying out
    the tensor writes in any order (any schedule of the worker threads) produces byte for byte
    the file the serial writer produces. -/
theorem C07_image_order_independent (al : Option Nat) (thr : Nat) (bs : List (List Nat))
    (ws' : List Write) (hperm : ws'.Perm (writesOf al thr bs)) :
    parallelImage (totalSize (computeInfos al thr (bs.map List.length))) ws' =
      serialImage (writesOf al thr bs) := by
  have hd := writesOf_disjoint al thr bs
  have hd' : ws'.Pairwise Write.disjoint :=
    (hperm.pairwise_iff (fun h => Write.disjoint_symm h)).mpr hd
  have hL := (C07_within al thr bs).1
  rw [totalSize_eq_layoutEnd]
  generalize hLdef : layoutEnd al thr (bs.map List.length) = L at *
  have hstop := writesOf_stop_le al thr bs
  rw [hLdef] at hstop
  have hlen1 : (parallelImage L ws').length = L := by
    apply Nat.le_antisymm
    · exact applyWrites_length_le _ _ L (by simp) (fun w hw => hstop w (hperm.mem_iff.mp hw))
    · have := applyWrites_length_ge (List.replicate L 0) ws'
      simpa [parallelImage] using this
  apply List.ext_getElem (by rw [hlen1, hL])
  intro i h1 h2
  have hgetD : ∀ (l : List Nat) (h : i < l.length), l[i] = l.getD i 0 := by
    intro l h; simp [List.getD_eq_getElem?_getD, List.getElem?_eq_getElem h]
  rw [hgetD _ h1, hgetD _ h2]
  by_cases hcov : ∃ w ∈ writesOf al thr bs, w.1 ≤ i ∧ i < w.1 + w.2.length
  · obtain ⟨w, hw, hlo, hhi⟩ := hcov
    have e1 := applyWrites_getD_written (List.replicate L 0) ws' hd' w (hperm.mem_iff.mpr hw)
      (i - w.1) (by omega)
    have e2 := applyWrites_getD_written [] (writesOf al thr bs) hd w hw (i - w.1) (by omega)
    have hi : w.1 + (i - w.1) = i := by omega
    rw [hi] at e1 e2
    simp only [parallelImage, serialImage]
    rw [e1, e2]
  · have hnc : ∀ w ∈ writesOf al thr bs, ¬ (w.1 ≤ i ∧ i < w.1 + w.2.length) :=
      fun w hw hc => hcov ⟨w, hw, hc⟩
    simp only [parallelImage, serialImage]
    rw [applyWrites_getD_untouched _ _ _ (fun w hw => hnc w (hperm.mem_iff.mp hw)),
      applyWrites_getD_untouched _ _ _ hnc]
    simp [List.getD_eq_getElem?_getD, List.getElem?_replicate]
    split <;> rfl

/-! ## End to end: every externalised tensor can be read back from its data file -/

theorem shardRawGo_map {α : Type} (size : α → Nat) (limit : Nat) (al : Option Nat) (thr : Nat)
    (cur : List α) (sz : Nat) (ts : List α) :
    (shardRawGo size limit al thr cur sz ts).map (List.map size) =
      shardRawGo id limit al thr (cur.map size) sz (ts.map size) := by
  induction ts generalizing cur sz with
  | nil => simp [shardRawGo]
  | cons t rest ih =>
    simp only [shardRawGo, List.map_cons, id]
    have e : (cur.map size ≠ []) ↔ cur ≠ [] := by simp
    simp only [e]
    by_cases hc : alignOffset sz (size t) al thr + size t > limit ∧ cur ≠ []
    · rw [if_pos hc, if_pos hc, List.map_cons, ih]; simp
    · rw [if_neg hc, if_neg hc, ih]; simp

/-- the shards of byte strings behind `dataFiles` -/
def byteShards (bs : List (List Nat)) (maxShard : Option Nat) (al : Option Nat) (athr : Nat) :
    List (List (List Nat)) :=
  match maxShard with
  | none => [bs]
  | some m => shardRaw List.length m al athr bs

theorem byteShards_flatten (bs : List (List Nat)) (maxShard : Option Nat) (al : Option Nat)
    (athr : Nat) : (byteShards bs maxShard al athr).flatten = bs := by
  cases maxShard with
  | none => simp [byteShards]
  | some m => exact (C07_shards_partition List.length m al athr bs).1

/-- placements paired with the tensors' bytes, shard by shard -/
theorem place_zip_from (al : Option Nat) (athr : Nat) (total : Nat) (shards : List (List (List Nat)))
    (start : Nat) :
    ((((shards.map (List.map List.length)).zipIdx start).flatMap fun (sh, i) =>
        (computeInfos al athr sh).map fun inf => (⟨i, total, inf.offset, inf.length⟩ : Placement)).zip
      shards.flatten) =
    (shards.zipIdx start).flatMap fun (sh, i) =>
      ((computeInfos al athr (sh.map List.length)).zip sh).map fun q =>
        ((⟨i, total, q.1.offset, q.1.length⟩ : Placement), q.2) := by
  induction shards generalizing start with
  | nil => rfl
  | cons sh rest ih =>
    simp only [List.map_cons, List.zipIdx_cons, List.flatMap_cons, List.flatten_cons]
    rw [List.zip_append (by simp [computeInfos, computeInfosFrom_length]), ih]
    congr 1
    rw [List.zip_map_left]
    simp [List.map_map, Function.comp_def]

theorem dataFiles_serial (bs : List (List Nat)) (maxShard : Option Nat) (al : Option Nat)
    (athr : Nat) :
    dataFiles bs maxShard al athr none =
      (byteShards bs maxShard al athr).map fun sh => serialImage (writesOf al athr sh) := by
  unfold dataFiles byteShards
  cases maxShard <;> rfl

/-- **C07_roundtrip**: for every shard limit, alignment and threshold, pairing the placements
    `unload_from_model` records (in the order it zips them onto the initializers) with the
    tensors' bytes: the data file named by the placement exists among the written files and
    reading `(offset, length)` from it returns exactly that tensor's bytes. -/
theorem C07_roundtrip (bs : List (List Nat)) (maxShard : Option Nat) (al : Option Nat)
    (athr : Nat) :
    ∀ pb ∈ (placeRaw (bs.map List.length) maxShard al athr).zip bs,
      ∃ img, (dataFiles bs maxShard al athr none)[pb.1.shard]? = some img ∧
        readAt img pb.1.offset pb.1.length = pb.2 := by
  intro pb hpb
  rw [dataFiles_serial]
  have hkey : ∀ (shards : List (List (List Nat))) (total : Nat),
      ∀ pb ∈ (shards.zipIdx 0).flatMap (fun (sh, i) =>
        ((computeInfos al athr (sh.map List.length)).zip sh).map fun q =>
          ((⟨i, total, q.1.offset, q.1.length⟩ : Placement), q.2)),
      ∃ img, (shards.map fun sh => serialImage (writesOf al athr sh))[pb.1.shard]? = some img ∧
        readAt img pb.1.offset pb.1.length = pb.2 := by
    intro shards total pb hpb
    simp only [List.mem_flatMap, List.mem_map] at hpb
    obtain ⟨⟨sh, i⟩, hsh, q, hq, rfl⟩ := hpb
    have hidx := List.mem_zipIdx hsh
    have hi : i < shards.length := by have := hidx.2.1; omega
    have hshi : sh = shards[i] := by have := hidx.2.2; simpa using this
    refine ⟨serialImage (writesOf al athr sh), by simp [hi, hshi], ?_⟩
    have hw : (q.1.offset, q.2) ∈ writesOf al athr sh := by
      simp only [writesOf, List.mem_map]
      exact ⟨q, hq, rfl⟩
    have hlen : q.1.length = q.2.length := by
      have hz : ∀ (cur : Nat) (bs : List (List Nat)) (q : Info × List Nat),
          q ∈ (computeInfosFrom al athr cur (bs.map List.length)).zip bs →
            q.1.length = q.2.length := by
        intro cur bs
        induction bs generalizing cur with
        | nil => intro q hq; simp [computeInfosFrom] at hq
        | cons b rest ih =>
          intro q hq
          simp only [List.map_cons, computeInfosFrom, List.zip_cons_cons, List.mem_cons] at hq
          rcases hq with rfl | hq
          · rfl
          · exact ih _ q hq
      exact hz 0 sh q hq
    have := (C07_readback_layout al athr sh (writesOf al athr sh) (List.Perm.refl _) 0
      (q.1.offset, q.2) hw).2
    simpa [hlen] using this
  cases maxShard with
  | none =>
    have h1 := place_zip_from al athr 1 [bs] 0
    simp only [List.map_cons, List.map_nil, List.zipIdx_cons, List.zipIdx_nil, List.flatMap_cons,
      List.flatMap_nil, List.append_nil, List.flatten_cons, List.flatten_nil] at h1
    have : (placeRaw (bs.map List.length) none al athr).zip bs =
        ((computeInfos al athr (bs.map List.length)).zip bs).map fun q =>
          ((⟨0, 1, q.1.offset, q.1.length⟩ : Placement), q.2) := by
      simpa [placeRaw] using h1
    rw [this] at hpb
    exact hkey [bs] 1 pb (by simpa using hpb)
  | some m =>
    have hmap : shardRaw id m al athr (bs.map List.length) =
        (shardRaw List.length m al athr bs).map (List.map List.length) := by
      simpa [shardRaw] using (shardRawGo_map List.length m al athr [] 0 bs).symm
    have hflat := (C07_shards_partition List.length m al athr bs).1
    have h1 := place_zip_from al athr (shardRaw List.length m al athr bs).length
      (shardRaw List.length m al athr bs) 0
    rw [hflat] at h1
    simp only [placeRaw, placeShards, hmap, List.length_map] at hpb
    rw [h1] at hpb
    exact hkey _ _ pb hpb

/-- a worker schedule that is a permutation of each shard's writes gives the same data files
    as serial writing (so `C07_roundtrip` holds for the parallel writer too) -/
theorem C07_dataFiles_schedule (bs : List (List Nat)) (maxShard : Option Nat) (al : Option Nat)
    (athr : Nat) (order : List Nat)
    (hperm : ∀ sh ∈ byteShards bs maxShard al athr,
      (reorder (writesOf al athr sh) order).Perm (writesOf al athr sh)) :
    dataFiles bs maxShard al athr (some order) = dataFiles bs maxShard al athr none := by
  have : ∀ shards : List (List (List Nat)),
      (∀ sh ∈ shards, (reorder (writesOf al athr sh) order).Perm (writesOf al athr sh)) →
      (shards.map fun sh => parallelImage (totalSize (computeInfos al athr (sh.map List.length)))
        (reorder (writesOf al athr sh) order)) =
      shards.map fun sh => serialImage (writesOf al athr sh) := by
    intro shards h
    apply List.map_congr_left
    intro sh hsh
    exact C07_image_order_independent al athr sh _ (h sh hsh)
  unfold dataFiles
  unfold byteShards at hperm
  cases maxShard with
  | none => exact this [bs] hperm
  | some m => exact this _ hperm

/-! ## Shard file names -/

/-- **C07_filename_inj**: for a fixed base name and shard count, distinct shard indices give
    distinct file names (both backends: `suffixCount = none` for raw data files, `some 1` for
    safetensors; any base name, dotted stems and sub-directories included). -/
theorem C07_filename_inj (base : List Char) (total : Nat) (sc : Option Nat) (i j : Nat)
    (ht : total ≠ 1) (h : shardFilename base i total sc = shardFilename base j total sc) : i = j := by
  rw [shardFilename_eq _ _ _ _ ht, shardFilename_eq _ _ _ _ ht] at h
  split at h
  · exact shardBasename_injective _ _ _
      (posixJoin_injective _ (shardBasename_head _ _ _ _ _) h)
  · exact shardBasename_injective _ _ _ h

/-- **C07_filename_parts**: a single shard keeps the base name; otherwise the name is the
    directory of the base name joined with `stem-XXXXX-of-YYYYY` followed by the extension
    chain, where `stem ++ extensions` is exactly the original file name (nothing of a dotted
    stem is lost), and the two counters print back to the shard index and count. -/
theorem C07_filename_parts (base : List Char) (idx total : Nat) (sc : Option Nat) :
    shardFilename base idx 1 sc = base ∧
    (total ≠ 1 → ∃ stem ext : List Char,
      stem ++ ext = (posixSplit base).2 ∧
      valOf (pad5 idx) = idx ∧ valOf (pad5 total) = total ∧
      shardFilename base idx total sc =
        (if (posixSplit base).1 ≠ [] then posixJoin (posixSplit base).1 else id)
          (stem ++ '-' :: pad5 idx ++ "-of-".toList ++ pad5 total ++ ext)) := by
  constructor
  · simp [shardFilename]
  · intro ht
    refine ⟨(peelSuffixes ((posixSplit base).2.length + 1) sc (posixSplit base).2 []).1,
      (peelSuffixes ((posixSplit base).2.length + 1) sc (posixSplit base).2 []).2.reverse.flatten,
      ?_, valOf_pad5 _, valOf_pad5 _, ?_⟩
    · simpa using peelSuffixes_append ((posixSplit base).2.length + 1) sc (posixSplit base).2 []
    · rw [shardFilename_eq _ _ _ _ ht]
      unfold shardBasename
      split <;> rfl

/-- **C07_filename_dir**: a shard file lives in the directory of the base name, and its file
    name part is the stem/counter/extension string of `C07_filename_parts` (`posixpath.split`
    of the shard name returns the directory `posixpath.split` returns for the base name). -/
theorem C07_filename_dir (base : List Char) (idx total : Nat) (sc : Option Nat) (ht : total ≠ 1) :
    posixSplit (shardFilename base idx total sc) =
      ((posixSplit base).1, shardBasename (posixSplit base).2 idx total sc) := by
  have hslash : '/' ∉ (posixSplit base).2 := by
    simp only [posixSplit]; exact not_mem_drop_rfindSucc '/' base
  have hf := slash_not_mem_shardBasename (posixSplit base).2 idx total sc hslash
  have hfne : shardBasename (posixSplit base).2 idx total sc ≠ [] := by
    unfold shardBasename; simp
  rw [shardFilename_eq _ _ _ _ ht]
  split
  · rename_i hdir
    exact posixSplit_join base _ hf hfne hdir
  · rename_i hdir
    have hd : (posixSplit base).1 = [] := by simpa using hdir
    rw [hd]
    generalize shardBasename (posixSplit base).2 idx total sc = f at *
    unfold posixSplit
    simp [(rfindSucc_eq_zero '/' f).mpr hf]

/-! ## Threshold split and re-pointing -/

/-- what one initializer looks like after the unload step, given which class it is in -/
def Expected (ext mem : Init → Bool) (v : Init) (r : NewConst) : Prop :=
  if ext v then ∃ p, r = .external p ∧ p.length = v.nbytes
  else if mem v then r = .memory
  else r = .same

theorem unload_generic (vs : List Init) (pe pm : Init → Bool)
    (hex : ∀ v, pe v = true → pm v = false)
    (places : List Placement)
    (hplaces : places.map (·.length) =
      ((splitBy pe pm 0 vs).1.map fun k => (vs.getD k default).nbytes))
    (k : Nat) (hk : k < vs.length) :
    ∃ r, (assignZip (assignZip (List.replicate vs.length NewConst.same) (splitBy pe pm 0 vs).1
            (places.map NewConst.external))
          (splitBy pe pm 0 vs).2 ((splitBy pe pm 0 vs).2.map fun _ => NewConst.memory))[k]? = some r ∧
      Expected pe pm vs[k] r := by
  have hE := splitBy_mem_fst pe pm 0 vs
  have hM := splitBy_mem_snd pe pm 0 vs
  have hEs := nodup_of_sorted (splitBy_sorted_fst pe pm 0 vs)
  have hMs := nodup_of_sorted (splitBy_sorted_snd pe pm 0 vs)
  generalize hext : (splitBy pe pm 0 vs).1 = ext at *
  generalize hmem : (splitBy pe pm 0 vs).2 = mem at *
  have hpl : places.length = ext.length := by
    have := congrArg List.length hplaces; simpa using this
  have hEb : ∀ i ∈ ext, i < (List.replicate vs.length NewConst.same).length := by
    intro i hi; obtain ⟨j, hj, rfl, _⟩ := (hE i).mp hi; simpa using hj
  have hMb : ∀ i ∈ mem, i < (assignZip (List.replicate vs.length NewConst.same) ext
      (places.map NewConst.external)).length := by
    intro i hi; obtain ⟨j, hj, rfl, _⟩ := (hM i).mp hi
    rw [assignZip_length]; simpa using hj
  unfold Expected
  by_cases he : pe vs[k] = true
  · have hkin : k ∈ ext := (hE k).mpr ⟨k, hk, by simp, he⟩
    have hknot : k ∉ mem := by
      intro hm
      obtain ⟨j, hj, hkj, hp⟩ := (hM k).mp hm
      have : j = k := by omega
      subst this
      rw [hex _ he] at hp; exact absurd hp (by simp)
    obtain ⟨j, hj, hjk⟩ := List.getElem_of_mem hkin
    subst hjk
    rw [assignZip_not_mem _ _ _ _ hknot,
      assignZip_mem _ _ _ hEs (by simp [hpl]) hEb j hj]
    have hjp : j < places.length := by omega
    refine ⟨.external places[j], by simp [hjp], ?_⟩
    simp only [he, if_true]
    refine ⟨places[j], rfl, ?_⟩
    have := congrArg (fun l => l[j]?) hplaces
    simp only [List.getElem?_map, List.getElem?_eq_getElem hjp, List.getElem?_eq_getElem hj,
      Option.map_some, Option.some.injEq] at this
    rw [this]
    simp [List.getD_eq_getElem?_getD, List.getElem?_eq_getElem hk]
  · simp only [he, Bool.false_eq_true, if_false]
    have hknotE : k ∉ ext := by
      intro hm
      obtain ⟨j, hj, hkj, hp⟩ := (hE k).mp hm
      have : j = k := by omega
      subst this; exact he hp
    by_cases hm : pm vs[k] = true
    · have hkin : k ∈ mem := (hM k).mpr ⟨k, hk, by simp, hm⟩
      obtain ⟨j, hj, hjk⟩ := List.getElem_of_mem hkin
      subst hjk
      rw [assignZip_mem _ _ _ hMs (by simp) hMb j hj]
      refine ⟨.memory, by simp [hj], ?_⟩
      simp [hm]
    · have hknotM : k ∉ mem := by
        intro hmm
        obtain ⟨j, hj, hkj, hp⟩ := (hM k).mp hmm
        have : j = k := by omega
        subst this; exact hm hp
      rw [assignZip_not_mem _ _ _ _ hknotM, assignZip_not_mem _ _ _ _ hknotE]
      refine ⟨.same, by simp [hk], ?_⟩
      simp [hm]

theorem placeRaw_lengths (sizes : List Nat) (maxShard : Option Nat) (al : Option Nat) (thr : Nat) :
    (placeRaw sizes maxShard al thr).map (·.length) = sizes := by
  unfold placeRaw
  cases maxShard with
  | none =>
    simp only [List.map_map]
    simpa [Function.comp_def] using C07_lengths al thr sizes
  | some m =>
    simp only [placeShards]
    rw [placeShards_lengths_from]
    exact (C07_shards_partition id m al thr sizes).1

theorem placeSt_lengths (sizes : List Nat) (maxShard : Option Nat) :
    (placeSt sizes maxShard).map (·.length) = sizes := by
  unfold placeSt
  simp only []
  have hflat := (C07_shards_partition_st id maxShard sizes).1
  generalize (shardSt id maxShard sizes).length = total
  have : ∀ (shards : List (List Nat)) (start : Nat),
      (((shards.zipIdx start).flatMap fun (sh, i) =>
        sh.map fun n => (⟨i, total, 0, n⟩ : Placement)).map (·.length)) = shards.flatten := by
    intro shards
    induction shards with
    | nil => intro _; rfl
    | cons sh rest ih =>
      intro start
      simp only [List.zipIdx_cons, List.flatMap_cons, List.map_append, List.flatten_cons, ih]
      simp [Function.comp_def]
  rw [this, hflat]

/-- **C07_threshold** (raw data files): after `unload_from_model`, in declaration order, every
    initializer with a (non-string) tensor of more than `size_threshold_bytes` bytes is a new
    external tensor recorded with its own length; every other external one has been loaded to
    memory; everything else (no tensor, string tensor, small in-memory tensor) is the same
    object — for every shard limit and alignment.  Nothing is lost, duplicated or paired with
    another tensor's record. -/
theorem C07_threshold (vs : List Init) (thr : Int) (maxShard : Option Nat) (al : Option Nat)
    (athr : Nat) (k : Nat) (hk : k < vs.length) :
    (unloadRaw vs thr maxShard al athr).length = vs.length ∧
    ∃ r, (unloadRaw vs thr maxShard al athr)[k]? = some r ∧
      Expected (extRaw thr) (memRaw thr) vs[k] r := by
  unfold unloadRaw splitRaw
  rw [splitRawGo_eq]
  refine ⟨by simp [assignZip_length], ?_⟩
  apply unload_generic vs (extRaw thr) (memRaw thr) _ _ _ k hk
  · intro v hv
    simp only [extRaw, Bool.and_eq_true, decide_eq_true_eq] at hv
    simp [memRaw, hv.2]
  · exact placeRaw_lengths _ _ _ _

/-- **C07_threshold_st** (safetensors, with D60/D63 fixed): tensors of at least the threshold
    become external, smaller external ones are loaded to memory, the rest is untouched. -/
theorem C07_threshold_st (vs : List Init) (thr : Int) (maxShard : Option Nat)
    (k : Nat) (hk : k < vs.length) :
    (unloadSt vs thr maxShard).length = vs.length ∧
    ∃ r, (unloadSt vs thr maxShard)[k]? = some r ∧ Expected (extSt thr) (memSt thr) vs[k] r := by
  unfold unloadSt splitSt
  rw [splitStGo_eq]
  refine ⟨by simp [assignZip_length], ?_⟩
  apply unload_generic vs (extSt thr) (memSt thr) _ _ _ k hk
  · intro v hv
    simp only [extSt, Bool.and_eq_true, Bool.not_eq_true', decide_eq_false_iff_not] at hv
    simp [memSt, hv.2]
  · exact placeSt_lengths _ _

/-- every placement names an existing shard (each tensor is in exactly one data file) -/
theorem C07_placement_shard (sizes : List Nat) (m : Nat) (al : Option Nat) (thr : Nat) :
    ∀ p ∈ placeRaw sizes (some m) al thr,
      p.shard < p.total ∧ p.total = (shardRaw id m al thr sizes).length := by
  intro p hp
  simp only [placeRaw, placeShards, List.mem_flatMap, List.mem_map] at hp
  obtain ⟨⟨sh, i⟩, hmem, inf, _, rfl⟩ := hp
  have := List.mem_zipIdx hmem
  exact ⟨by have := this.2.1; simpa using this, rfl⟩

-- non-vacuity of the hypotheses, and their necessity where they exclude something
example : (reorder [(0, [1, 2]), (2, [3]), (3, [4])] [2, 0, 1]).Perm [(0, [1, 2]), (2, [3]), (3, [4])] := by
  decide
example : ∀ p ∈ [(2, some 9), (1, none)], p.1 ∈ [1, 2, 2] := by decide
-- without `total ≠ 1` the name does not depend on the index (a single shard keeps the base name)
example : shardFilename "m.data".toList 1 1 none = shardFilename "m.data".toList 2 1 none := by decide
-- overlapping writes are order dependent: the disjointness hypothesis of C07_readback is needed
example : readAt (applyWrites [] [(0, [1, 1]), (1, [2])]) 0 2 ≠ [1, 1] := by decide
example : posixSplit (shardFilename "a/b//m.v1.data".toList 2 3 none) =
    ("a/b".toList, "m-00002-of-00003.v1.data".toList) := by decide
example : computeInfos (some 1) 100 [3, 5000, 0, 7] = [⟨0, 3⟩, ⟨4096, 5000⟩, ⟨9096, 0⟩, ⟨9096, 7⟩] := by
  decide
example : shardRaw id 10 none 0 [3, 5, 9, 20, 1, 0] = [[3, 5], [9], [20], [1, 0]] := by decide
example : shardSt id (some 10) [0, 100, 1, 0, 9, 1] = [[0], [100], [1, 0, 9], [1]] := by decide
example : shardFilename "d/m.fp16.data".toList 3 12 none = "d/m-00003-of-00012.fp16.data".toList := by decide
example : (unloadRaw [⟨10, false, true, false⟩, ⟨300, false, true, false⟩, ⟨5, true, true, false⟩] 256 none none 0) =
    [.same, .external ⟨0, 1, 0, 300⟩, .memory] := by decide
example : (saveStore (fun v => some v) [1, 2, 2] [(2, some 9)] .serialize).1 2 = some 9 := by decide

end IrVerif.Layout
